//! C08 — two's-complement arithmetic and casts. End-to-end correspondence: generated programs
//! (one per (type, operator group) and one per cast source type) are built with the real CLI;
//! every test point is evaluated at run time AND inside a `comptime { }` block (the JIT, same
//! code generator) and prints the raw bit pattern of its result (read back through a pointer
//! reinterpretation, so no cast is involved in printing). The printed patterns are compared with
//! the Lean model (`CapyV.Num.numBinary` / `numUnary` / `castNum`) and with an independent oracle
//! written here from the property text on `i128`/`u128`/host IEEE arithmetic.
//! A small in-process stream ties `NumTy` to `calc_finals` through `codegen::verif::final_ty`.
use crate::e2e::{self, Program};
use crate::lean;
use crate::report::Report;
use crate::rng::Rng;
use crate::ty;
use serde_json::{json, Value};
use std::panic::{catch_unwind, AssertUnwindSafe};

#[derive(Clone, Copy, PartialEq, Eq, Debug)]
enum Kind {
    Int,
    Bool,
    Char,
    Float,
}

#[derive(Clone, Copy, Debug, PartialEq)]
struct NT {
    name: &'static str,
    bits: u32,
    signed: bool,
    kind: Kind,
    /// bit width as `hir::Ty` sees it (255 = pointer sized)
    tybits: u32,
}

impl NT {
    fn float(&self) -> bool {
        self.kind == Kind::Float
    }
}

const fn nt(name: &'static str, bits: u32, signed: bool, kind: Kind, tybits: u32) -> NT {
    NT { name, bits, signed, kind, tybits }
}

const TYPES: [NT; 16] = [
    nt("i8", 8, true, Kind::Int, 8),
    nt("i16", 16, true, Kind::Int, 16),
    nt("i32", 32, true, Kind::Int, 32),
    nt("i64", 64, true, Kind::Int, 64),
    nt("i128", 128, true, Kind::Int, 128),
    nt("isize", 64, true, Kind::Int, 255),
    nt("u8", 8, false, Kind::Int, 8),
    nt("u16", 16, false, Kind::Int, 16),
    nt("u32", 32, false, Kind::Int, 32),
    nt("u64", 64, false, Kind::Int, 64),
    nt("u128", 128, false, Kind::Int, 128),
    nt("usize", 64, false, Kind::Int, 255),
    nt("bool", 8, false, Kind::Bool, 8),
    nt("char", 8, false, Kind::Char, 8),
    nt("f32", 32, true, Kind::Float, 32),
    nt("f64", 64, true, Kind::Float, 64),
];

fn ty_by_name(n: &str) -> Option<NT> {
    TYPES.iter().copied().find(|t| t.name == n)
}

fn mask(bits: u32) -> u128 {
    if bits >= 128 {
        u128::MAX
    } else {
        (1u128 << bits) - 1
    }
}

/// two's-complement reading of the low `bits` bits
fn sext(v: u128, bits: u32) -> i128 {
    let sh = 128 - bits;
    ((v << sh) as i128) >> sh
}

// ---- operators --------------------------------------------------------------------------

/// (name in the Lean protocol, Capy spelling)
const ARITH: [(&str, &str); 12] = [
    ("add", "+"), ("sub", "-"), ("mul", "*"), ("band", "&"), ("bor", "|"), ("xor", "~"),
    ("lt", "<"), ("gt", ">"), ("le", "<="), ("ge", ">="), ("eq", "=="), ("ne", "!="),
];
const DIVREM: [(&str, &str); 2] = [("div", "/"), ("mod", "%")];
const SHIFTS: [(&str, &str); 2] = [("shl", "<<"), ("shr", ">>")];
const BOOL_OPS: [(&str, &str); 8] =
    [("band", "&"), ("bor", "|"), ("lt", "<"), ("gt", ">"), ("le", "<="), ("ge", ">="), ("eq", "=="), ("ne", "!=")];
const CHAR_OPS: [(&str, &str); 2] = [("eq", "=="), ("ne", "!=")];
const FLOAT_ARITH: [(&str, &str); 10] = [
    ("add", "+"), ("sub", "-"), ("mul", "*"), ("div", "/"),
    ("lt", "<"), ("gt", ">"), ("le", "<="), ("ge", ">="), ("eq", "=="), ("ne", "!="),
];
const FLOAT_BITS: [(&str, &str); 3] = [("band", "&"), ("bor", "|"), ("xor", "~")];
const INT_UN: [(&str, &str); 3] = [("neg", "-"), ("bnot", "~"), ("pos", "+")];
const BOOL_UN: [(&str, &str); 1] = [("lnot", "!")];
const FLOAT_UN: [(&str, &str); 2] = [("neg", "-"), ("pos", "+")];
const FLOAT_BITS_UN: [(&str, &str); 1] = [("bnot", "~")];

fn is_cmp(op: &str) -> bool {
    matches!(op, "lt" | "gt" | "le" | "ge" | "eq" | "ne" | "lnot")
}

fn capy_of(op: &str) -> &'static str {
    for tbl in [&ARITH[..], &DIVREM[..], &SHIFTS[..], &INT_UN[..], &BOOL_UN[..], &FLOAT_ARITH[..]] {
        for (l, c) in tbl {
            if *l == op {
                return c;
            }
        }
    }
    "?"
}

// ---- test points ------------------------------------------------------------------------

#[derive(Clone, Debug)]
enum Point {
    Bin { t: NT, op: &'static str, a: u128, b: u128 },
    Un { t: NT, op: &'static str, a: u128 },
    Cast { from: NT, to: NT, v: u128, implicit: bool },
}

impl Point {
    fn to_json(&self) -> Value {
        match self {
            Point::Bin { t, op, a, b } => json!({"kind": "bin", "ty": t.name, "op": op, "a": a.to_string(), "b": b.to_string()}),
            Point::Un { t, op, a } => json!({"kind": "un", "ty": t.name, "op": op, "a": a.to_string()}),
            Point::Cast { from, to, v, implicit } => {
                json!({"kind": "cast", "from": from.name, "to": to.name, "v": v.to_string(), "implicit": implicit})
            }
        }
    }
    fn of_json(v: &Value) -> Option<Point> {
        let s = |k: &str| v[k].as_str();
        let n = |k: &str| v[k].as_str().and_then(|x| x.parse::<u128>().ok());
        fn stat(op: &str) -> &'static str {
            for o in ["add", "sub", "mul", "div", "mod", "band", "bor", "xor", "shl", "shr", "lt", "gt", "le", "ge", "eq", "ne", "neg", "bnot", "pos", "lnot"] {
                if o == op {
                    return o;
                }
            }
            "add"
        }
        match s("kind")? {
            "bin" => Some(Point::Bin { t: ty_by_name(s("ty")?)?, op: stat(s("op")?), a: n("a")?, b: n("b")? }),
            "un" => Some(Point::Un { t: ty_by_name(s("ty")?)?, op: stat(s("op")?), a: n("a")? }),
            "cast" => Some(Point::Cast {
                from: ty_by_name(s("from")?)?,
                to: ty_by_name(s("to")?)?,
                v: n("v")?,
                implicit: v["implicit"].as_bool().unwrap_or(false),
            }),
            _ => None,
        }
    }
    /// width of the printed result
    fn result_bits(&self) -> u32 {
        match self {
            Point::Bin { t, op, .. } | Point::Un { t, op, .. } => {
                if is_cmp(op) {
                    8
                } else {
                    t.bits
                }
            }
            Point::Cast { to, .. } => to.bits,
        }
    }
}

// ---- the oracle: written from the property text -----------------------------------------

#[derive(Clone, Debug, PartialEq)]
enum Expect {
    /// the result must have exactly this bit pattern
    Bits(u128),
    /// the result must be a NaN of the given width
    Nan(u32),
    /// the property does not say (excluded operand, value does not fit, float rounding detail)
    Unspecified,
}

fn f_of(bits: u128, t: NT) -> f64 {
    if t.bits == 32 {
        f32::from_bits(bits as u32) as f64
    } else {
        f64::from_bits(bits as u64)
    }
}

fn fbits(x: f64, t: NT) -> Expect {
    if t.bits == 32 {
        let y = x as f32;
        if y.is_nan() { Expect::Nan(32) } else { Expect::Bits(y.to_bits() as u128) }
    } else if x.is_nan() {
        Expect::Nan(64)
    } else {
        Expect::Bits(x.to_bits() as u128)
    }
}

fn oracle_int_bin(t: NT, op: &str, a: u128, b: u128) -> Expect {
    let w = t.bits;
    let m = mask(w);
    let (sa, sb) = (sext(a, w), sext(b, w));
    let flag = |x: bool| Expect::Bits(x as u128);
    match op {
        "add" => Expect::Bits(a.wrapping_add(b) & m),
        "sub" => Expect::Bits(a.wrapping_sub(b) & m),
        "mul" => Expect::Bits(a.wrapping_mul(b) & m),
        "div" | "mod" => {
            if b == 0 || (t.signed && a == 1u128 << (w - 1) && b == m) {
                return Expect::Unspecified;
            }
            if t.signed {
                let r = if op == "div" { sa.wrapping_div(sb) } else { sa.wrapping_rem(sb) };
                Expect::Bits(r as u128 & m)
            } else {
                Expect::Bits(if op == "div" { a / b } else { a % b })
            }
        }
        "band" => Expect::Bits(a & b),
        "bor" => Expect::Bits(a | b),
        "xor" => Expect::Bits(a ^ b),
        "shl" | "shr" => {
            if b >= w as u128 {
                return Expect::Unspecified;
            }
            let s = b as u32;
            if op == "shl" {
                Expect::Bits((a << s) & m)
            } else if t.signed {
                Expect::Bits((sa >> s) as u128 & m)
            } else {
                Expect::Bits(a >> s)
            }
        }
        "lt" => flag(if t.signed { sa < sb } else { a < b }),
        "gt" => flag(if t.signed { sa > sb } else { a > b }),
        "le" => flag(if t.signed { sa <= sb } else { a <= b }),
        "ge" => flag(if t.signed { sa >= sb } else { a >= b }),
        "eq" => flag(a == b),
        "ne" => flag(a != b),
        _ => Expect::Unspecified,
    }
}

fn oracle_float_bin(t: NT, op: &str, a: u128, b: u128) -> Expect {
    let flag = |x: bool| Expect::Bits(x as u128);
    match op {
        "band" => return Expect::Bits(a & b),
        "bor" => return Expect::Bits(a | b),
        "xor" => return Expect::Bits(a ^ b),
        _ => {}
    }
    if t.bits == 32 {
        let (x, y) = (f32::from_bits(a as u32), f32::from_bits(b as u32));
        let r = match op {
            "add" => x + y,
            "sub" => x - y,
            "mul" => x * y,
            "div" => x / y,
            "lt" => return flag(x < y),
            "gt" => return flag(x > y),
            "le" => return flag(x <= y),
            "ge" => return flag(x >= y),
            "eq" => return flag(x == y),
            "ne" => return flag(x != y),
            _ => return Expect::Unspecified,
        };
        if r.is_nan() { Expect::Nan(32) } else { Expect::Bits(r.to_bits() as u128) }
    } else {
        let (x, y) = (f64::from_bits(a as u64), f64::from_bits(b as u64));
        let r = match op {
            "add" => x + y,
            "sub" => x - y,
            "mul" => x * y,
            "div" => x / y,
            "lt" => return flag(x < y),
            "gt" => return flag(x > y),
            "le" => return flag(x <= y),
            "ge" => return flag(x >= y),
            "eq" => return flag(x == y),
            "ne" => return flag(x != y),
            _ => return Expect::Unspecified,
        };
        if r.is_nan() { Expect::Nan(64) } else { Expect::Bits(r.to_bits() as u128) }
    }
}

fn oracle_cast(from: NT, to: NT, v: u128) -> Expect {
    match (from.float(), to.float()) {
        (false, false) => {
            // the value of the source, read with the source's signedness, wrapped into the target
            let val: u128 = if from.signed { sext(v, from.bits) as u128 } else { v };
            Expect::Bits(val & mask(to.bits))
        }
        (false, true) => {
            // nearest float of the source's full value (host conversion, round to nearest even)
            if from.signed {
                let x = sext(v, from.bits);
                if to.bits == 32 { Expect::Bits((x as f32).to_bits() as u128) } else { Expect::Bits((x as f64).to_bits() as u128) }
            } else if to.bits == 32 {
                Expect::Bits((v as f32).to_bits() as u128)
            } else {
                Expect::Bits((v as f64).to_bits() as u128)
            }
        }
        (true, false) => {
            let x = f_of(v, from);
            if !x.is_finite() {
                return Expect::Unspecified;
            }
            let t = x.trunc();
            let w = to.bits as i32;
            let fits = if to.signed { t >= -(2f64.powi(w - 1)) && t < 2f64.powi(w - 1) } else { t >= 0.0 && t < 2f64.powi(w) };
            if !fits {
                return Expect::Unspecified;
            }
            let pat = if to.signed { (t as i128) as u128 } else { t as u128 };
            Expect::Bits(pat & mask(to.bits))
        }
        (true, true) => fbits(f_of(v, from), to),
    }
}

fn oracle(p: &Point) -> Expect {
    match p {
        Point::Bin { t, op, a, b } => {
            if t.float() { oracle_float_bin(*t, op, *a, *b) } else { oracle_int_bin(*t, op, *a, *b) }
        }
        Point::Un { t, op, a } => {
            let m = mask(t.bits);
            if t.float() {
                let sign = 1u128 << (t.bits - 1);
                match *op {
                    "neg" => Expect::Bits(a ^ sign),
                    "pos" => Expect::Bits(*a),
                    "bnot" => Expect::Bits(!a & m),
                    _ => Expect::Unspecified,
                }
            } else {
                match *op {
                    "neg" => Expect::Bits(0u128.wrapping_sub(*a) & m),
                    "bnot" => Expect::Bits(!a & m),
                    "pos" => Expect::Bits(*a),
                    "lnot" => Expect::Bits((*a == 0) as u128),
                    _ => Expect::Unspecified,
                }
            }
        }
        Point::Cast { from, to, v, .. } => oracle_cast(*from, *to, *v),
    }
}

/// does the result depend on wrap-around / signedness / a width change (a "non-trivial" case)?
fn nontrivial(p: &Point) -> bool {
    match p {
        Point::Bin { t, op, a, b } => {
            if t.float() {
                return true;
            }
            let other = NT { signed: !t.signed, ..*t };
            let top = 1u128 << (t.bits - 1);
            match *op {
                "add" | "sub" | "mul" | "shl" => (a | b) >= top || oracle_int_bin(*t, op, *a, *b) != Expect::Bits(match *op {
                    "add" => a.wrapping_add(*b),
                    "sub" => a.wrapping_sub(*b),
                    "mul" => a.wrapping_mul(*b),
                    _ => a.wrapping_shl(*b as u32),
                }),
                "band" | "bor" | "xor" | "eq" | "ne" => a != b && *a != 0 && *b != 0,
                _ => oracle_int_bin(*t, op, *a, *b) != oracle_int_bin(other, op, *a, *b),
            }
        }
        Point::Un { a, .. } => *a != 0,
        Point::Cast { from, to, v, .. } => {
            from.float() || to.float() || (from.bits != to.bits && (*v >= (1u128 << (from.bits.min(to.bits) - 1))))
        }
    }
}

fn label(p: &Point) -> String {
    let su = |s: bool| if s { "signed" } else { "unsigned" };
    match p {
        Point::Bin { t, op, .. } => {
            if t.float() {
                if matches!(*op, "band" | "bor" | "xor") { format!("float-bitwise:{op}") } else { format!("float-arith:{op}") }
            } else if t.bits == 128 && matches!(*op, "div" | "mod") {
                "div-rem-128".to_string()
            } else {
                format!("bin:{op}:{}", su(t.signed))
            }
        }
        Point::Un { t, op, .. } => {
            if t.float() { format!("float-un:{op}") } else { format!("un:{op}:{}", su(t.signed)) }
        }
        Point::Cast { from, to, .. } => match (from.float(), to.float()) {
            (false, false) => {
                let dir = if from.bits < to.bits { "widen" } else if from.bits > to.bits { "narrow" } else { "same-width" };
                format!("cast-int-int:{dir}:{}-to-{}", su(from.signed), su(to.signed))
            }
            (false, true) => format!("cast-int-float:src{}-to-f{}", from.bits, to.bits),
            (true, false) => format!("cast-float-int:f{}-to-dst{}", from.bits, to.bits),
            (true, true) => "cast-float-float".to_string(),
        },
    }
}

// ---- model requests -----------------------------------------------------------------------

fn b01(b: bool) -> &'static str {
    if b { "1" } else { "0" }
}

fn fval_req(bits: u128, t: NT) -> String {
    let x = f_of(bits, t);
    if x.is_nan() {
        return "f nan".into();
    }
    if x.is_infinite() {
        return if x > 0.0 { "f pinf".into() } else { "f ninf".into() };
    }
    // x = m * 2^e exactly, m an integer
    let b = x.to_bits();
    let neg = (b >> 63) == 1;
    let exp = ((b >> 52) & 0x7ff) as i64;
    let frac = b & ((1u64 << 52) - 1);
    let (m, e) = if exp == 0 { (frac as i128, -1074i64) } else { ((frac | (1u64 << 52)) as i128, exp - 1075) };
    format!("f fin {} {}", if neg { -m } else { m }, e)
}

/// `None`: the model does not cover this point (float arithmetic, float→float)
fn model_request(p: &Point) -> Option<String> {
    match p {
        Point::Bin { t, op, a, b } => {
            if t.float() { None } else { Some(format!("C08 bin {op} {} {} {a} {b}", t.bits, b01(t.signed))) }
        }
        Point::Un { t, op, a } => {
            if t.float() { None } else { Some(format!("C08 un {op} {} {} {a}", t.bits, b01(t.signed))) }
        }
        Point::Cast { from, to, v, .. } => {
            if from.float() && to.float() {
                return None;
            }
            let head = format!(
                "C08 cast {} {} {} {} {} {}",
                from.bits, b01(from.float()), b01(from.signed), to.bits, b01(to.float()), b01(to.signed)
            );
            if from.float() { Some(format!("{head} {}", fval_req(*v, *from))) } else { Some(format!("{head} i {v}")) }
        }
    }
}

/// what the model's answer means for the printed pattern
fn model_expect(p: &Point, ans: &str) -> Expect {
    let w: Vec<&str> = ans.split(' ').collect();
    match (p, w.as_slice()) {
        (_, ["val", n]) | (_, ["i", _, n]) => n.parse::<u128>().map(Expect::Bits).unwrap_or(Expect::Unspecified),
        (_, ["flag", b]) => Expect::Bits((*b == "1") as u128),
        (Point::Cast { to, .. }, ["f", "fin", z]) => {
            // `fcvt_from_*` applied to the integer the model says it is given
            if let Ok(x) = z.parse::<i128>() {
                if to.bits == 32 { Expect::Bits((x as f32).to_bits() as u128) } else { Expect::Bits((x as f64).to_bits() as u128) }
            } else if let Ok(x) = z.parse::<u128>() {
                if to.bits == 32 { Expect::Bits((x as f32).to_bits() as u128) } else { Expect::Bits((x as f64).to_bits() as u128) }
            } else {
                Expect::Unspecified
            }
        }
        // trap: the process dies (never generated: the generator respects the exclusions)
        _ => Expect::Unspecified,
    }
}

fn matches_expect(e: &Expect, got: u128) -> bool {
    match e {
        Expect::Bits(b) => *b == got,
        Expect::Nan(32) => f32::from_bits(got as u32).is_nan(),
        Expect::Nan(_) => f64::from_bits(got as u64).is_nan(),
        Expect::Unspecified => true,
    }
}

fn show_expect(e: &Expect) -> String {
    match e {
        Expect::Bits(b) => b.to_string(),
        Expect::Nan(w) => format!("NaN(f{w})"),
        Expect::Unspecified => "unspecified".into(),
    }
}

// ---- values ---------------------------------------------------------------------------------

fn dedup(v: Vec<u128>) -> Vec<u128> {
    let mut out: Vec<u128> = vec![];
    for x in v {
        if !out.contains(&x) {
            out.push(x);
        }
    }
    out
}

fn float_values(t: NT, rng: &mut Rng, extra_random: usize) -> Vec<u128> {
    let mut xs: Vec<f64> = vec![0.0, -0.0, 0.5, -0.5, 0.99, 1.0, -1.0, 1.5, 2.5, -2.5, 3.0, 7.75, -7.75, 100.0, 1e-30, 1e10, 3e9, -3e9, 5e9, 1e19, 1e20, -1e20, 1e38, 16777216.0, 16777217.0, 9007199254740993.0, 0.1, 255.5, -128.9];
    for w in [8, 16, 32, 64, 128] {
        let p = 2f64.powi(w - 1);
        for x in [p, -p, p - 1.0, -p - 1.0, p + 1.0, 2.0 * p, 2.0 * p - 1.0, 2.0 * p + 1.0, -(2.0 * p), p * 0.5] {
            xs.push(x);
        }
    }
    if t.bits == 64 {
        xs.extend([1e300, -1e300, 1e-300, f64::MAX, f64::MIN_POSITIVE, 2f64.powi(200)]);
    }
    let mut out: Vec<u128> = vec![];
    for x in xs {
        if t.bits == 32 {
            let y = x as f32;
            out.push(y.to_bits() as u128);
            // the neighbours of a boundary (largest float below 2^31 …)
            if y.is_finite() && y != 0.0 {
                out.push((y.to_bits() - 1) as u128);
                out.push((y.to_bits() + 1) as u128);
            }
        } else {
            out.push(x.to_bits() as u128);
            if x.is_finite() && x != 0.0 {
                out.push((x.to_bits() - 1) as u128);
                out.push((x.to_bits() + 1) as u128);
            }
        }
    }
    if t.bits == 32 {
        out.extend([f32::NAN.to_bits() as u128, f32::INFINITY.to_bits() as u128, f32::NEG_INFINITY.to_bits() as u128, f32::MAX.to_bits() as u128, 1u128, f32::MIN_POSITIVE.to_bits() as u128]);
    } else {
        out.extend([f64::NAN.to_bits() as u128, f64::INFINITY.to_bits() as u128, f64::NEG_INFINITY.to_bits() as u128, 1u128]);
    }
    for k in 0..extra_random {
        if k % 2 == 0 {
            // an integer-valued float of random magnitude
            let mag = rng.below(130) as i32;
            let x = (rng.next() as f64 / u64::MAX as f64 + 1.0) * 2f64.powi(mag) * if rng.chance(1, 2) { -1.0 } else { 1.0 };
            out.push(if t.bits == 32 { (x as f32).to_bits() as u128 } else { x.to_bits() as u128 });
        } else {
            out.push(rng.next() as u128 & mask(t.bits));
        }
    }
    dedup(out)
}

fn int_boundaries(t: NT, rng: &mut Rng, all_powers: bool, extra_ks: u32) -> Vec<u128> {
    match t.kind {
        Kind::Bool => return vec![0, 1],
        Kind::Char => return vec![0, 1, 65, 127, 128, 255],
        _ => {}
    }
    let w = t.bits;
    let m = mask(w);
    let smin = 1u128 << (w - 1);
    let mut v = vec![0, 1, m, smin, smin - 1, smin + 1, smin - 2, m - 1, 2];
    if w >= 64 {
        // corpus of past failures: f32.(i64 2^40) was 0.0
        v.push(1u128 << 40);
    }
    let ks: Vec<u32> = if all_powers {
        (1..w).collect()
    } else {
        let mut ks = vec![1, w / 2, w / 2 - 1, w - 2, 1 + rng.below((w - 2) as u64) as u32];
        for _ in 0..extra_ks {
            ks.push(1 + rng.below((w - 2) as u64) as u32);
        }
        ks
    };
    for k in ks {
        v.push(1u128 << k);
        v.push(0u128.wrapping_sub(1u128 << k) & m); // -(2^k)
        if all_powers {
            v.push((1u128 << k) - 1);
        }
    }
    dedup(v)
}

fn random_int(t: NT, rng: &mut Rng) -> u128 {
    match t.kind {
        Kind::Bool => return rng.below(2) as u128,
        Kind::Char => return rng.below(256) as u128,
        _ => {}
    }
    let m = mask(t.bits);
    let full = ((rng.next() as u128) << 64 | rng.next() as u128) & m;
    match rng.below(4) {
        0 => rng.below(20) as u128,                                 // small
        1 => m.wrapping_sub(rng.below(20) as u128) & m,               // small negative / near MAX
        2 => full >> rng.below(t.bits as u64) as u32,               // random magnitude
        _ => full,
    }
}

// ---- program text ---------------------------------------------------------------------------

fn words_of(v: u128, t: NT, rng: &mut Rng) -> Vec<u32> {
    if t.bits < 32 {
        // garbage above the value: a load of the wrong width would show
        let junk = (rng.next() as u32) << t.bits;
        vec![(v as u32 & mask(t.bits) as u32) | junk]
    } else {
        (0..t.bits / 32).map(|k| (v >> (32 * k)) as u32).collect()
    }
}

fn array_decl(name: &str, vals: &[u128], t: NT, rng: &mut Rng) -> String {
    let mut ws: Vec<String> = vec![];
    for v in vals {
        for w in words_of(*v, t, rng) {
            ws.push(w.to_string());
        }
    }
    // one spare element so that the array is never empty
    ws.push("0".into());
    format!("{name} :: u32.[{}];\n", ws.join(", "))
}

fn print_stmt(bits: u32) -> String {
    if bits == 128 {
        "p := ^[2]u64.(rawptr.(^r)); core.println(\"R \", p^[0], \" \", p^[1]);".to_string()
    } else {
        format!("core.println(\"R \", ^u{bits}.(rawptr.(^r))^);")
    }
}

fn load_stmt(var: &str, arr: &str, t: NT) -> String {
    let k = (t.bits / 32).max(1);
    format!("        {var} := ^{}.(rawptr.(^{arr}[i * {k}]))^;\n", t.name)
}

/// libc's stdout is block buffered when piped; the compiler's own messages are not: flush at the
/// end of every run so that no result line is split around a compiler message
const HEADER: &str = "core :: #mod(\"core\");\n\nfflush :: (stream: usize) -> i32 extern;\n\n";

const FOOTER: &str = "ct :: comptime { run(); 7 };\n\nmain :: () {\n    run();\n    core.println(\"E \", ct);\n}\n";

struct Prog {
    group: String,
    src: String,
    points: Vec<Point>,
}

fn prog_ops(group: &str, t: NT, bin: &[(&'static str, &'static str)], un: &[(&'static str, &'static str)], pairs: &[(u128, u128)], rng: &mut Rng) -> Prog {
    let a: Vec<u128> = pairs.iter().map(|p| p.0).collect();
    let b: Vec<u128> = pairs.iter().map(|p| p.1).collect();
    let mut s = String::from(HEADER);
    s.push_str(&array_decl("A", &a, t, rng));
    s.push_str(&array_decl("B", &b, t, rng));
    s.push_str(&format!("\nrun :: () {{\n    wa := A;\n    wb := B;\n    i : usize = 0;\n    while i < {} {{\n", pairs.len()));
    s.push_str(&load_stmt("a", "wa", t));
    s.push_str(&load_stmt("b", "wb", t));
    // every operation reads its operands from fresh locals (stack slots with a single use), as
    // ordinary code does: the code generator may then fold the loads into the instruction
    for (l, c) in bin {
        let rb = if is_cmp(l) { 8 } else { t.bits };
        s.push_str(&format!("        {{ x := a; y := b; r := x {c} y; {} }}\n", print_stmt(rb)));
    }
    for (l, c) in un {
        let rb = if is_cmp(l) { 8 } else { t.bits };
        s.push_str(&format!("        {{ x := a; r := {c}x; {} }}\n", print_stmt(rb)));
    }
    s.push_str("        i += 1;\n    }\n    fflush(0);\n}\n\n");
    s.push_str(FOOTER);
    let mut points = vec![];
    for (x, y) in pairs {
        for (l, _) in bin {
            points.push(Point::Bin { t, op: l, a: *x, b: *y });
        }
        for (l, _) in un {
            points.push(Point::Un { t, op: l, a: *x });
        }
    }
    Prog { group: group.to_string(), src: s, points }
}

/// like `prog_ops`, but the RIGHT operand of every operation is an integer LITERAL in the source
/// (`x % 8`, `x / 16`, `x << 3`): constant right operands are where a code generator takes
/// shortcuts (seeded change C08_2: `%` by a power-of-two literal as a mask, wrong for negative
/// dividends), and they never occur when both operands come from arrays
fn prog_ops_lit(group: &str, t: NT, ops: &[(&'static str, &'static str)], lits: &[u128], avals: &[u128], rng: &mut Rng) -> Prog {
    let mut s = String::from(HEADER);
    s.push_str(&array_decl("A", avals, t, rng));
    s.push_str(&format!("\nrun :: () {{\n    wa := A;\n    i : usize = 0;\n    while i < {} {{\n", avals.len()));
    s.push_str(&load_stmt("a", "wa", t));
    for c in lits {
        for (l, op) in ops {
            let rb = if is_cmp(l) { 8 } else { t.bits };
            s.push_str(&format!("        {{ x := a; r := x {op} {c}; {} }}\n", print_stmt(rb)));
            // the compound form `x op= literal` goes through its own path in the code generator
            if !is_cmp(l) {
                s.push_str(&format!("        {{ x := a; x {op}= {c}; r := x; {} }}\n", print_stmt(rb)));
            }
        }
    }
    s.push_str("        i += 1;\n    }\n    fflush(0);\n}\n\n");
    s.push_str(FOOTER);
    let mut points = vec![];
    for x in avals {
        for c in lits {
            for (l, _) in ops {
                points.push(Point::Bin { t, op: l, a: *x, b: *c });
                if !is_cmp(l) {
                    points.push(Point::Bin { t, op: l, a: *x, b: *c });
                }
            }
        }
    }
    Prog { group: group.to_string(), src: s, points }
}

/// like `prog_ops`, but the RIGHT operand is a variable of a NARROWER type that fits the left one
/// (`x : i16; y : u8; x >>= y`, `x / y`): the operation is the LEFT type's (signed division /
/// arithmetic shift for a signed destination whatever the signedness of the right operand), on the
/// converted right operand. Both the binary and the compound form (seeded change C08_3: the
/// compound form took the operator's signedness from the right operand).
fn prog_ops_mixed(group: &str, t: NT, nt: NT, ops: &[(&'static str, &'static str)], pairs: &[(u128, u128)], rng: &mut Rng) -> Prog {
    let a: Vec<u128> = pairs.iter().map(|p| p.0).collect();
    let b: Vec<u128> = pairs.iter().map(|p| p.1).collect();
    let mut s = String::from(HEADER);
    s.push_str(&array_decl("A", &a, t, rng));
    s.push_str(&array_decl("B", &b, nt, rng));
    s.push_str(&format!("\nrun :: () {{\n    wa := A;\n    wb := B;\n    i : usize = 0;\n    while i < {} {{\n", pairs.len()));
    s.push_str(&load_stmt("a", "wa", t));
    s.push_str(&load_stmt("b", "wb", nt));
    for (l, c) in ops {
        let rb = if is_cmp(l) { 8 } else { t.bits };
        s.push_str(&format!("        {{ x := a; y := b; r := x {c} y; {} }}\n", print_stmt(rb)));
        if !is_cmp(l) {
            s.push_str(&format!("        {{ x := a; y := b; x {c}= y; r := x; {} }}\n", print_stmt(rb)));
        }
    }
    s.push_str("        i += 1;\n    }\n    fflush(0);\n}\n\n");
    s.push_str(FOOTER);
    let mut points = vec![];
    for (x, y) in pairs {
        let wide = match oracle_cast(nt, t, *y) {
            Expect::Bits(w) => w,
            _ => *y,
        };
        for (l, _) in ops {
            points.push(Point::Bin { t, op: l, a: *x, b: wide });
            if !is_cmp(l) {
                points.push(Point::Bin { t, op: l, a: *x, b: wide });
            }
        }
    }
    Prog { group: group.to_string(), src: s, points }
}

/// `Ty::can_fit_into` on the numeric types (which implicit conversions the front end accepts)
fn fits_into(from: NT, to: NT) -> bool {
    use Kind::*;
    match (from.kind, to.kind) {
        (Int, Int) => {
            if from.signed == to.signed {
                from.tybits <= to.tybits
            } else if !from.signed && to.signed {
                from.tybits < to.tybits
            } else {
                false
            }
        }
        (Int, Float) => from.tybits < to.tybits,
        (Float, Float) => from.tybits <= to.tybits,
        _ => false,
    }
}

fn prog_casts(from: NT, vals: &[u128], rng: &mut Rng) -> Prog {
    let mut s = String::from(HEADER);
    s.push_str(&array_decl("A", vals, from, rng));
    s.push_str(&format!("\nrun :: () {{\n    wa := A;\n    i : usize = 0;\n    while i < {} {{\n", vals.len()));
    s.push_str(&load_stmt("a", "wa", from));
    let mut shape: Vec<(NT, bool)> = vec![];
    for to in TYPES {
        s.push_str(&format!("        {{ r := {}.(a); {} }}\n", to.name, print_stmt(to.bits)));
        shape.push((to, false));
        if to != from && fits_into(from, to) {
            s.push_str(&format!("        {{ r : {} = a; {} }}\n", to.name, print_stmt(to.bits)));
            shape.push((to, true));
        }
    }
    s.push_str("        i += 1;\n    }\n    fflush(0);\n}\n\n");
    s.push_str(FOOTER);
    let mut points = vec![];
    for v in vals {
        for (to, implicit) in &shape {
            points.push(Point::Cast { from, to: *to, v: *v, implicit: *implicit });
        }
    }
    Prog { group: format!("casts-from-{}", from.name), src: s, points }
}

fn parse_lines(out: &str) -> Vec<Option<u128>> {
    let mut v = vec![];
    for line in out.lines() {
        if let Some(rest) = line.strip_prefix("R ") {
            let ws: Vec<&str> = rest.split(' ').collect();
            let val = match ws.as_slice() {
                [a] => a.parse::<u64>().ok().map(|x| x as u128),
                [lo, hi] => match (lo.parse::<u64>(), hi.parse::<u64>()) {
                    (Ok(l), Ok(h)) => Some((h as u128) << 64 | l as u128),
                    _ => None,
                },
                _ => None,
            };
            v.push(val);
        }
    }
    v
}

// ---- generation of the whole batch ----------------------------------------------------------

fn build_programs(tier: &str, widen: bool, rng: &mut Rng) -> Vec<Prog> {
    let thorough = tier == "thorough" || widen;
    let n_random = if widen { 600 } else if thorough { 250 } else { 40 };
    let mut progs = vec![];
    for t in TYPES {
        match t.kind {
            Kind::Int => {
                let bs = int_boundaries(t, rng, thorough && t.bits <= 16, if thorough { 8 } else { 0 });
                // boundary × boundary + random pairs
                let mut pairs: Vec<(u128, u128)> = vec![];
                for x in &bs {
                    for y in &bs {
                        pairs.push((*x, *y));
                    }
                }
                for _ in 0..n_random {
                    pairs.push((random_int(t, rng), random_int(t, rng)));
                }
                for chunk in pairs.chunks(400) {
                    progs.push(prog_ops(&format!("arith-{}", t.name), t, &ARITH, &INT_UN, chunk, rng));
                }
                // division: non-zero divisor, no MIN / -1
                let m = mask(t.bits);
                let smin = 1u128 << (t.bits - 1);
                let dpairs: Vec<(u128, u128)> =
                    pairs.iter().copied().filter(|(a, b)| *b != 0 && !(t.signed && *a == smin && *b == m)).collect();
                if t.bits == 128 {
                    // Cranelift has no 128-bit division on x86-64: one small program documents it
                    progs.push(prog_ops(&format!("divrem-{}", t.name), t, &DIVREM, &[], &dpairs[..4.min(dpairs.len())], rng));
                } else {
                    for chunk in dpairs.chunks(1500) {
                        progs.push(prog_ops(&format!("divrem-{}", t.name), t, &DIVREM, &[], chunk, rng));
                    }
                }
                // shifts: every boundary value by amounts below the width
                let amounts: Vec<u128> = if thorough {
                    (0..t.bits as u128).collect()
                } else {
                    dedup(vec![0, 1, 2, (t.bits / 2) as u128, (t.bits - 2) as u128, (t.bits - 1) as u128, rng.below(t.bits as u64) as u128])
                };
                let mut spairs = vec![];
                for x in &bs {
                    for s in &amounts {
                        spairs.push((*x, *s));
                    }
                }
                for _ in 0..n_random {
                    spairs.push((random_int(t, rng), rng.below(t.bits as u64) as u128));
                }
                for chunk in spairs.chunks(1500) {
                    progs.push(prog_ops(&format!("shift-{}", t.name), t, &SHIFTS, &[], chunk, rng));
                }
                // literal right operands (not for 128 bits: no division there)
                if t.bits <= 64 {
                    let top: u128 = if t.signed { (1u128 << (t.bits - 1)) - 1 } else { mask(t.bits) };
                    let mut lits: Vec<u128> = vec![1, 2, 3, 4, 7, 8, 10, 16, 64, 100, 1u128 << (t.bits - 2), top];
                    lits.retain(|c| *c <= top);
                    let lits = dedup(lits);
                    let mut avals = bs.clone();
                    for _ in 0..(n_random / 2) {
                        avals.push(random_int(t, rng));
                    }
                    let avals = dedup(avals);
                    for chunk in avals.chunks(120) {
                        progs.push(prog_ops_lit(&format!("lit-arith-{}", t.name), t, &ARITH, &lits, chunk, rng));
                        progs.push(prog_ops_lit(&format!("lit-divrem-{}", t.name), t, &DIVREM, &lits, chunk, rng));
                    }
                    let amounts: Vec<u128> = dedup(vec![0, 1, 3, (t.bits / 2) as u128, (t.bits - 1) as u128]);
                    for chunk in avals.chunks(200) {
                        progs.push(prog_ops_lit(&format!("lit-shift-{}", t.name), t, &SHIFTS, &amounts, chunk, rng));
                    }
                    // a narrower right operand of another integer type (also of the other signedness)
                    for nt in TYPES {
                        if nt.kind != Kind::Int || nt.name == t.name || !fits_into(nt, t) {
                            continue;
                        }
                        let top_n: u128 = if nt.signed { (1u128 << (nt.bits - 1)) - 1 } else { mask(nt.bits) };
                        let mut left: Vec<u128> = vec![0, 1, 7, mask(t.bits), mask(t.bits) - 6, 1u128 << (t.bits - 1), (1u128 << (t.bits - 1)) - 1, random_int(t, rng)];
                        if thorough {
                            left.extend(bs.iter().copied());
                        }
                        let left = dedup(left);
                        let mut right: Vec<u128> = vec![1, 2, 5, top_n, random_int(nt, rng) | 1];
                        if nt.signed {
                            right.push(mask(nt.bits)); // -1
                            right.push(mask(nt.bits) - 2); // -3
                        }
                        let right = dedup(right);
                        let smin = 1u128 << (t.bits - 1);
                        let mut pairs = vec![];
                        let mut dpairs = vec![];
                        let mut spairs = vec![];
                        for x in &left {
                            for y in &right {
                                pairs.push((*x, *y));
                                let wide = match oracle_cast(nt, t, *y) {
                                    Expect::Bits(w) => w,
                                    _ => *y,
                                };
                                if wide != 0 && !(t.signed && *x == smin && wide == mask(t.bits)) {
                                    dpairs.push((*x, *y));
                                }
                                // shift amounts: non-negative and below the width of the left operand
                                if !(nt.signed && (*y >> (nt.bits - 1)) & 1 == 1) && *y < t.bits as u128 {
                                    spairs.push((*x, *y));
                                }
                            }
                        }
                        progs.push(prog_ops_mixed(&format!("mixed-arith-{}-{}", t.name, nt.name), t, nt, &ARITH, &pairs, rng));
                        progs.push(prog_ops_mixed(&format!("mixed-divrem-{}-{}", t.name, nt.name), t, nt, &DIVREM, &dpairs, rng));
                        if !spairs.is_empty() {
                            progs.push(prog_ops_mixed(&format!("mixed-shift-{}-{}", t.name, nt.name), t, nt, &SHIFTS, &spairs, rng));
                        }
                    }
                }
            }
            Kind::Bool => {
                let pairs = vec![(0, 0), (0, 1), (1, 0), (1, 1)];
                progs.push(prog_ops("ops-bool", t, &BOOL_OPS, &BOOL_UN, &pairs, rng));
            }
            Kind::Char => {
                let bs = int_boundaries(t, rng, false, 0);
                let mut pairs = vec![];
                for x in &bs {
                    for y in &bs {
                        pairs.push((*x, *y));
                    }
                }
                progs.push(prog_ops("ops-char", t, &CHAR_OPS, &[], &pairs, rng));
            }
            Kind::Float => {
                let vs = float_values(t, rng, n_random);
                let mut pairs = vec![];
                let step = if thorough { 6 } else { 17 };
                for (i, x) in vs.iter().enumerate() {
                    for (j, y) in vs.iter().enumerate() {
                        if (i + 3 * j) % step == 0 {
                            pairs.push((*x, *y));
                        }
                    }
                }
                for chunk in pairs.chunks(1200) {
                    progs.push(prog_ops(&format!("float-arith-{}", t.name), t, &FLOAT_ARITH, &FLOAT_UN, chunk, rng));
                }
                let few: Vec<(u128, u128)> = pairs.iter().copied().step_by(7).take(300).collect();
                progs.push(prog_ops(&format!("float-bitwise-{}", t.name), t, &FLOAT_BITS, &FLOAT_BITS_UN, &few, rng));
            }
        }
    }
    // casts: every source type to every target type
    for from in TYPES {
        let vals: Vec<u128> = if from.float() {
            float_values(from, rng, n_random)
        } else {
            let mut v = int_boundaries(from, rng, thorough, 0);
            for _ in 0..n_random {
                v.push(random_int(from, rng));
            }
            dedup(v)
        };
        for chunk in vals.chunks(250) {
            progs.push(prog_casts(from, chunk, rng));
        }
    }
    progs
}

// ---- in-process: NumTy vs calc_finals ------------------------------------------------------

fn parse_final(dbg: &str) -> String {
    // `Number(NumberType { ty: types::I32, float: false, signed: true })` | `Pointer(..)` | `Void`
    if let Some(rest) = dbg.strip_prefix("Number(") {
        let tyname = rest.split("ty: ").nth(1).and_then(|s| s.split(',').next()).unwrap_or("").trim().trim_start_matches("types::");
        let bits: String = tyname.chars().filter(|c| c.is_ascii_digit()).collect();
        let float = rest.contains("float: true");
        let signed = rest.contains("signed: true");
        format!("num {} {} {}", bits, b01(float), b01(signed))
    } else {
        "other".into()
    }
}

fn final_ty_stream(rep: &mut Report) {
    let mut tys = ty::primitives();
    tys.extend(ty::weak_primitives());
    let base = tys.clone();
    for (k, t) in base.iter().enumerate() {
        tys.push(ty::dist(9000 + k as u32, *t));
        tys.push(ty::dist(9500 + k as u32, ty::dist(9600 + k as u32, *t)));
    }
    tys.push(ty::ptr(false, ty::i(32)));
    tys.push(ty::arr(3, ty::u(8)));
    tys.push(ty::opt(ty::i(64)));
    tys.push(ty::strukt(9900, &[ty::i(8), ty::f(64)]));
    let e = ty::enumm(9901, &[ty::i(16), ty::f(32), hir::common::Ty::Void.into()], None);
    tys.extend(ty::variants_of(e));
    tys.push(e);
    let mut reqs = vec![];
    let mut impls = vec![];
    for t in &tys {
        // only one pointer width per process: `calc_finals` panics (OnceCell::set on a full cell,
        // poisoning FINAL_TYS) when it is called again with another width
        for pw in [64u32] {
            let got = catch_unwind(AssertUnwindSafe(|| codegen::verif::final_ty(*t, pw)))
                .map(|s| parse_final(&s))
                .unwrap_or_else(|_| "unreachable".to_string());
            impls.push((ty::sexp(t), pw, got));
            reqs.push(format!("C08 final {pw} {}", ty::sexp(t)));
        }
    }
    let answers = lean::ask(&reqs);
    for ((sx, pw, got), ans) in impls.iter().zip(answers.iter()) {
        rep.case(if got.starts_with("num") { Some(format!("final {pw} {sx}")) } else { None });
        rep.hit(if got.starts_with("num") { "final_ty:number" } else { "final_ty:other" });
        if ans != "?" && ans != got {
            rep.disagree(json!({"kind": "final_ty", "ty": sx, "ptr_bits": pw}), json!(got), json!(ans));
        }
    }
    // the oracle for the table: what the language says about each numeric type
    for t in TYPES {
        let hty: ty::T = match t.kind {
            Kind::Bool => hir::common::Ty::Bool.into(),
            Kind::Char => hir::common::Ty::Char.into(),
            Kind::Float => ty::f(t.tybits as u8),
            Kind::Int => if t.signed { ty::i(t.tybits as u8) } else { ty::u(t.tybits as u8) },
        };
        let got = catch_unwind(AssertUnwindSafe(|| codegen::verif::final_ty(hty, 64))).map(|s| parse_final(&s)).unwrap_or_else(|_| "PANIC".into());
        let want = format!("num {} {} {}", t.bits, b01(t.float()), b01(t.signed));
        rep.case(Some(format!("final-oracle {}", t.name)));
        if got != want {
            rep.oracle_fail("final-ty", json!({"kind": "final_ty", "ty": t.name}), json!(got), json!(want), "width/signedness of a numeric type as the code generator sees it");
        }
    }
}

// ---- run ------------------------------------------------------------------------------------

pub fn run(tier: &str, seed: u64, widen: bool) -> Report {
    let mut rep = Report::new(
        "C08",
        "real capy CLI + built executable: bit patterns printed at run time and inside comptime{} for every generated (type, operator, operands) / (source, target, value) point vs Lean model CapyV.Num.{numBinary,numUnary,castNum} and an independent i128/u128/host-IEEE oracle; plus in-process codegen::verif::final_ty vs CapyV.Num.finalTy",
        "per integer type: boundary x boundary operands (0, 1, 2, -1, MIN, MAX, MIN+1, MAX-1, +-2^k) plus seeded random pairs for + - * & | ~ and the six comparisons, unary - ~ +; / and % on the pairs with non-zero divisor and no MIN/-1; << >> for every boundary value by amounts below the width; bool: & | comparisons !; char: == !=; f32/f64: + - * / comparisons unary - and bitwise & | ~ on boundary/random floats vs host IEEE; casts: every source type (16) to every target type (16), explicit `T.(x)` and, where the front end accepts it, implicit `r : T = x`, on boundary and random values (floats: integers around every 2^(w-1), 2^w, their neighbours, NaN, +-inf, huge, tiny). Each point is evaluated twice (run time, comptime). non-trivial = the result depends on wrap-around, on the signedness of the type, on a width change or on a float conversion; distinct by (point, when)",
    );
    final_ty_stream(&mut rep);
    if !e2e::available() {
        rep.notes.push("capy CLI binary missing".into());
        return rep;
    }
    let mut rng = Rng::new(seed);
    let progs = build_programs(tier, widen, &mut rng);
    rep.notes.push(format!("{} programs, {} points (each evaluated at run time and at compile time)", progs.len(), progs.iter().map(|p| p.points.len()).sum::<usize>()));
    let eprogs: Vec<Program> = progs.iter().map(|p| Program::single(&p.src)).collect();
    let outcomes = e2e::run_all(&eprogs, e2e::Limits { compile: std::time::Duration::from_secs(120), run: std::time::Duration::from_secs(60) });
    // model answers: one request per point
    let mut reqs = vec![];
    for p in &progs {
        for pt in &p.points {
            if let Some(r) = model_request(pt) {
                reqs.push(r);
            }
        }
    }
    let answers = lean::ask(&reqs);
    let mut ai = 0;
    for (p, out) in progs.iter().zip(outcomes.iter()) {
        let rt = if out.built && out.run_status == Some(0) { Some(parse_lines(&out.stdout())) } else { None };
        let ct = parse_lines(&out.compile_out);
        let n = p.points.len();
        rep.hit(&format!("program:{}", p.group.split('-').next().unwrap_or("")));
        let mut runs: Vec<(&str, Vec<Option<u128>>)> = vec![];
        let why = || {
            out.compile_out.lines().filter(|l| l.contains("rror") || l.contains("panicked") || l.contains("nsupported")).take(2).collect::<Vec<_>>().join(" / ")
        };
        match rt {
            Some(v) if v.len() == n => runs.push(("runtime", v)),
            Some(v) => {
                rep.oracle_fail(&format!("program-output-short:{}", p.group), json!({"group": p.group, "when": "runtime"}), json!(format!("{} result lines", v.len())), json!(format!("{n} result lines")), "the executable printed fewer results than points");
            }
            None => {
                let lab = if p.group.starts_with("divrem-i128") || p.group.starts_with("divrem-u128") {
                    "div-rem-128".to_string()
                } else if p.group.starts_with("float-bitwise") {
                    "float-bitwise:crash".to_string()
                } else {
                    format!("program-failed:{}", p.group)
                };
                rep.oracle_fail(&lab, json!({"group": p.group, "when": "runtime", "first_point": p.points.first().map(|x| x.to_json())}), json!(format!("{} {}", out.run_summary(), why())), json!("program builds, runs and exits 0"), "a generated program using only accepted numeric operations did not build or crashed");
            }
        }
        if ct.len() == n {
            runs.push(("comptime", ct));
        } else if out.built {
            rep.oracle_fail(&format!("comptime-output-short:{}", p.group), json!({"group": p.group, "when": "comptime"}), json!(format!("{} result lines", ct.len())), json!(format!("{n} result lines")), "the comptime block printed fewer results than points");
        }
        for (k, pt) in p.points.iter().enumerate() {
            let model_ans = if model_request(pt).is_some() {
                let a = answers[ai].clone();
                ai += 1;
                Some(a)
            } else {
                None
            };
            let spec = oracle(pt);
            let lab = label(pt);
            let nt = nontrivial(pt);
            for (when, vals) in &runs {
                let input = {
                    let mut j = pt.to_json();
                    j["when"] = json!(when);
                    j
                };
                rep.case(if nt { Some(format!("{input}")) } else { None });
                rep.hit(&format!("{}:{}", when, lab.split(':').next().unwrap_or("")));
                let got = match vals[k] {
                    Some(g) => g,
                    None => {
                        rep.oracle_fail(&lab, input, json!("unparsable output line"), json!(show_expect(&spec)), "result line unparsable");
                        continue;
                    }
                };
                let got = got & mask(pt.result_bits());
                if rep.evaluations % 9973 == 1 {
                    rep.sample(json!({"point": input, "printed": got.to_string()}));
                }
                if let Some(ans) = &model_ans {
                    if ans != "?" {
                        let me = model_expect(pt, ans);
                        if me == Expect::Unspecified || !matches_expect(&me, got) {
                            rep.disagree(input.clone(), json!(got.to_string()), json!(ans));
                        }
                    }
                }
                if !matches_expect(&spec, got) {
                    rep.oracle_fail(&lab, input, json!(got.to_string()), json!(show_expect(&spec)), "printed bit pattern differs from the two's-complement / IEEE result the property prescribes");
                }
            }
        }
    }
    rep.traces_validated = rep.evaluations;
    rep
}

fn single_program(pt: &Point) -> Prog {
    let mut rng = Rng::new(1);
    match pt {
        Point::Bin { t, op, a, b } => {
            let c = capy_of(op);
            let ops: Vec<(&'static str, &'static str)> = vec![(*op, c)];
            prog_ops("replay", *t, &ops, &[], &[(*a, *b)], &mut rng)
        }
        Point::Un { t, op, a } => {
            let c = capy_of(op);
            let ops: Vec<(&'static str, &'static str)> = vec![(*op, c)];
            prog_ops("replay", *t, &[], &ops, &[(*a, 0)], &mut rng)
        }
        Point::Cast { from, v, .. } => prog_casts(*from, &[*v], &mut rng),
    }
}

pub fn replay(input: &Value) -> String {
    let pt = match Point::of_json(input) {
        Some(p) => p,
        None => return format!("no single point in this input (a whole program failed): {input}"),
    };
    let spec = oracle(&pt);
    let model = model_request(&pt).map(|r| lean::ask(&[r])[0].clone()).unwrap_or_else(|| "(not modelled)".into());
    let mut s = format!("spec:  {}\nmodel: {}\n", show_expect(&spec), model);
    if !e2e::available() {
        s.push_str("impl:  (capy CLI not available)\n");
        return s;
    }
    let prog = single_program(&pt);
    let idx = prog.points.iter().position(|q| q.to_json() == pt.to_json()).unwrap_or(0);
    let out = e2e::run_one(0, &Program::single(&prog.src), &e2e::Limits::default(), false);
    let mut bad = false;
    for (when, text) in [("runtime", out.stdout()), ("comptime", out.compile_out.clone())] {
        let vals = parse_lines(&text);
        match vals.get(idx).copied().flatten() {
            Some(g) => {
                let g = g & mask(pt.result_bits());
                s.push_str(&format!("impl ({when}): {g}\n"));
                if !matches_expect(&spec, g) {
                    bad = true;
                }
            }
            None => {
                s.push_str(&format!("impl ({when}): no result ({})\n", out.run_summary()));
                bad = true;
            }
        }
    }
    if bad {
        s.push_str("SPEC-MISMATCH\n");
    }
    s
}
