//! C13 — distinct types, enum variants and named structs are nominal.
//! Shares the model, the driver ops and the pair machinery with C12 (`c12.rs`); the rows are
//! restricted to provided types that are (or directly contain) a nominal type, and the oracle is
//! the nominality rule of the property text evaluated on the implementation's answers.
use crate::c12::{self, head, impl_accepts, impl_max, MaxRes, Rel};
use crate::report::Report;
use crate::ty;
use hir::common::Ty;
use serde_json::json;

fn is_nominal(t: &Ty) -> bool {
    matches!(t, Ty::Distinct { .. } | Ty::EnumVariant { .. } | Ty::ConcreteStruct { .. })
}

/// rows of the C13 matrix: nominal types and one constructor around a nominal type
fn row_filter(t: &Ty) -> bool {
    let s = ty::sexp(t);
    s.contains("(dist ") || s.contains("(variant ") || s.contains("(struct ")
}

/// Written from the property text: where may a value of nominal type `p` be implicitly accepted?
/// itself; `any` / unknown (accept everything); a variant in its own enum; and through wrappers
/// that the property does not forbid: underlying → distinct / variant (the reverse direction),
/// optional and error-union of an allowed type.
fn allowed(p: &Ty, x: &Ty) -> bool {
    if p == x {
        return true;
    }
    match (p, x) {
        (_, Ty::Any | Ty::Unknown) => true,
        // a named struct where an ANONYMOUS struct type is expected (such types only arise from
        // `.{ … }` literals): not a nominal type, the property does not speak about it
        (Ty::ConcreteStruct { .. }, Ty::AnonStruct { .. }) => true,
        (Ty::EnumVariant { enum_uid, .. }, Ty::Enum { uid, .. }) => enum_uid == uid,
        (_, Ty::Distinct { sub_ty, .. }) if !matches!(p, Ty::Distinct { .. }) => allowed(p, sub_ty),
        (_, Ty::EnumVariant { sub_ty, .. }) if !matches!(p, Ty::EnumVariant { .. }) => allowed(p, sub_ty),
        (_, Ty::Optional { sub_ty }) => allowed(p, sub_ty),
        (_, Ty::ErrorUnion { error_ty, payload_ty }) => allowed(p, error_ty) || allowed(p, payload_ty),
        _ => false,
    }
}

/// expected types the property speaks about: a nominal type (or optional / error union of one),
/// or the provided type's own underlying type
fn in_scope(p: &Ty, x: &Ty) -> bool {
    let underlying = match p {
        Ty::Distinct { sub_ty, .. } | Ty::EnumVariant { sub_ty, .. } => **sub_ty == *x,
        _ => false,
    };
    fn nominal_expected(x: &Ty) -> bool {
        match x {
            Ty::Distinct { .. } | Ty::EnumVariant { .. } | Ty::ConcreteStruct { .. } | Ty::Enum { .. } => true,
            Ty::Optional { sub_ty } => nominal_expected(sub_ty),
            Ty::ErrorUnion { error_ty, payload_ty } => nominal_expected(error_ty) || nominal_expected(payload_ty),
            _ => false,
        }
    }
    underlying || nominal_expected(x)
}

fn label(p: &Ty, x: &Ty) -> String {
    match (p, x) {
        (_, Ty::Optional { sub_ty }) => label(p, sub_ty),
        (_, Ty::ErrorUnion { error_ty, payload_ty }) => {
            if c12::impl_fit(p, error_ty) == Some(true) && !allowed(p, error_ty) { label(p, error_ty) } else { label(p, payload_ty) }
        }
        (_, Ty::Distinct { sub_ty, .. }) if !matches!(p, Ty::Distinct { .. }) => label(p, sub_ty),
        // `can_fit_into` has no `(_, EnumVariant)` arm: the pair falls through to
        // `is_functionally_equivalent_to`, which ignores the uids of named structs in the payload
        (Ty::ConcreteStruct { .. }, Ty::EnumVariant { .. }) => "struct->variant_with_equivalent_struct_payload".into(),
        _ => format!("{}->{}", head(p), head(x)),
    }
}

/// `max` answered a distinct type for a non-distinct nominal operand: the distinct arms of `max`
/// (they test `has_semantics_of` from the distinct type towards the other operand)
fn max_label(a: &Ty, m: &Ty) -> String {
    if matches!(m, Ty::Distinct { .. }) && !matches!(a, Ty::Distinct { .. }) {
        "distinct_arm".into()
    } else {
        label(a, m)
    }
}

pub fn oracle_c13(a: &Ty, b: &Ty, r: &Rel, coherent: bool, _registered: bool, rep: &mut Report) {
    let input = || json!({"a": ty::sexp(a), "b": ty::sexp(b)});
    if !coherent {
        return;
    }
    if is_nominal(a) && in_scope(a, b) {
        rep.hit(&format!("nominal-row:{}->{}", head(a), head(b)));
        if r.fit != Some(false) && !allowed(a, b) {
            rep.oracle_fail(&format!("nominal_fit:{}", label(a, b)), input(), json!("accepted"), json!("rejected"),
                "a value of a nominal type is implicitly accepted where a different nominal type (or its own underlying type) is expected");
        }
        // binary operations / branches: the common type must be one the operand may convert to
        if let MaxRes::Some(m) = &r.max {
            if m != a && in_scope(a, m) && !allowed(a, m) {
                rep.oracle_fail(&format!("nominal_max:{}", max_label(a, m)), input(), json!(ty::sexp(m)), json!("no common type"),
                    "max converts a value of a nominal type into a different nominal type");
            }
            let back = impl_max(b, a);
            if let MaxRes::Some(m2) = &back {
                if m2 != a && in_scope(a, m2) && !allowed(a, m2) {
                    rep.oracle_fail(&format!("nominal_max:{}", max_label(a, m2)), input(), json!(ty::sexp(m2)), json!("no common type"),
                        "max converts a value of a nominal type into a different nominal type");
                }
            }
        }
    }
    // a `.{ … }` literal (anonymous struct) where a struct is expected: its members are the values
    // the property speaks about — a member of nominal type must not end up in a member of a
    // DIFFERENT nominal type (seeded change C13_3: a layout-only fast path for this pair)
    if let Ty::AnonStruct { members: am } = a {
        // (an expected ANONYMOUS struct type only arises from another literal: not a nominal type,
        // the property does not speak about it — as for `allowed`)
        let bm = match b {
            Ty::ConcreteStruct { members, .. } => Some(members),
            _ => None,
        };
        if let Some(bm) = bm {
            if r.fit != Some(false) && am.len() == bm.len() {
                for x in am.iter() {
                    if let Some(y) = bm.iter().find(|y| y.name == x.name) {
                        if is_nominal(&x.ty) && in_scope(&x.ty, &y.ty) {
                            rep.hit("nominal-member-of-anonymous-struct");
                            if !allowed(&x.ty, &y.ty) {
                                rep.oracle_fail(
                                    &format!("nominal_fit:member-of-anonymous-struct:{}", label(&x.ty, &y.ty)),
                                    input(),
                                    json!("accepted"),
                                    json!("rejected"),
                                    "a member of nominal type of a `.{ … }` literal is implicitly accepted where the struct expects a different nominal type",
                                );
                            }
                        }
                    }
                }
            }
        }
    }
    // explicit casts between a distinct type and its underlying type are accepted, both ways
    if let Ty::Distinct { sub_ty, .. } = a {
        if **sub_ty == *b && r.cast != Some(true) {
            rep.oracle_fail("cast_distinct_to_underlying", input(), json!("rejected"), json!("accepted"), "distinct → underlying cast rejected");
        }
    }
    if let Ty::Distinct { sub_ty, .. } = b {
        if **sub_ty == *a {
            rep.hit("cast:underlying->distinct");
            if r.cast != Some(true) {
                rep.oracle_fail("cast_underlying_to_distinct", input(), json!("rejected"), json!("accepted"), "underlying → distinct cast rejected");
            }
            // the reverse direction is accepted implicitly by the code and not forbidden by the property
            let _ = impl_accepts(a, b);
        }
    }
}

pub fn run(tier: &str, seed: u64, widen: bool) -> Report {
    let mut rep = Report::new(
        "C13",
        "hir::common::Ty::{can_fit_into, can_cast_to, max, …} on (provided nominal type, expected type) pairs vs Lean model CapyV.Ty.* (Model/TyRel.lean)",
        "rows: every type of the C12 domain that is or contains a distinct / enum-variant / named-struct type (8 base distinct wrappers incl. distinct-of-distinct and distinct-of-struct, two structurally identical named structs, variants of two enums with identical payloads, plus one constructor layer — fresh distinct/struct/variant wrappers around every primitive and nominal type); columns: the whole C12 domain (thorough: all depth<=1 types; quick: base + a seeded sample of 130); plus seeded depth-2 pairs. Non-trivial = a != b and one side composite/nominal; distinct by (a, b)",
    );
    c12::shared_run("C13", tier, seed, widen, oracle_c13, row_filter, &mut rep);
    rep
}

pub fn replay(input: &serde_json::Value) -> String {
    c12::replay_with(input, oracle_c13, "C13")
}
