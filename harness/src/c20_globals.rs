//! C20, second stream: programs that are nothing but a dependency graph of global definitions —
//! typed and untyped constants, constants computed by `comptime` blocks (which call functions and
//! generics), type aliases of aliases, structs over aliases, functions over aliases and
//! constants, a generic function, array lengths taken from constants — printed in the generator's
//! order, in random textual orders and split over 2-3 files that import each other (every
//! cross-file reference qualified). All variants must be accepted and print what an independent
//! evaluation of the graph prescribes.
use crate::e2e::{self, Program as E2eProgram};
use crate::report::Report;
use crate::rng::Rng;
use serde_json::json;

#[derive(Clone, Debug)]
enum Term {
    Lit(i64),
    /// a constant (typed or untyped)
    K(usize),
    KTimes(usize, i64),
    /// `f_j(lit)`
    CallF(usize, i64),
    /// `g_j(i64, K_l)` / `g_j(T_m, K_l)`
    CallG(usize, Option<usize>, usize),
    /// `r_j(n)` — a recursive function (factorial)
    CallR(usize, i64),
}

#[derive(Clone, Debug)]
enum Def {
    /// `K{i} : i64 : 5;` / `K{i} : T{j} : 5;` (annotated with an alias that may be defined later / elsewhere)
    ConstLit(i64, Option<usize>),
    /// `A{i} :: K{j};` — a plain global that is another constant
    AliasConst(usize),
    /// `U{i} :: 7;`
    Untyped(i64),
    /// `K{i} : i64 : comptime { t1 + t2 … };` (`typed`) or `U{i} :: comptime { … };`
    Comptime { typed: bool, terms: Vec<Term> },
    /// `T{i} :: i64;` / `T{i} :: T{j};`
    Alias(Option<usize>),
    /// `S{i} :: struct { a: T, b: i64 };`
    Struct(Option<usize>),
    /// `f{i} :: (x: T) -> i64 { x + K_j + f_l(x) }`
    Fn { param: Option<usize>, k: Option<usize>, callee: Option<usize> },
    /// `g{i} :: (comptime T: type, x: T) -> T { x + x }`
    Generic,
    /// `mk{i} :: (x: i64) -> S_j { S_j.{ a = x, b = K_l } }`
    Mk { strukt: usize, k: usize },
    /// `r{i} :: (n: i64) -> i64 { if n <= 1 { 1 } else { n * r{i}(n - 1) } }` (corpus only)
    RecFn,
    /// `N{i} : usize : n;`
    Len(u64),
    /// `N{i} :: N{j};` — a length constant that is another length constant (bare name / qualified)
    LenAlias(usize),
    /// `len{i} :: () -> i64 { a : [N_j]i64; i64.(a.len) }`
    LenFn(usize),
}

pub struct Graph {
    defs: Vec<Def>,
}

fn name(defs: &[Def], i: usize) -> String {
    match &defs[i] {
        Def::ConstLit(..) => format!("K{i}"),
        Def::AliasConst(_) => format!("A{i}"),
        Def::Untyped(_) => format!("U{i}"),
        Def::Comptime { typed, .. } => format!("{}{i}", if *typed { "K" } else { "U" }),
        Def::Alias(_) => format!("T{i}"),
        Def::Struct(_) => format!("S{i}"),
        Def::Fn { .. } => format!("f{i}"),
        Def::Generic => format!("g{i}"),
        Def::RecFn => format!("r{i}"),
        Def::Mk { .. } => format!("mk{i}"),
        Def::Len(_) | Def::LenAlias(_) => format!("N{i}"),
        Def::LenFn(_) => format!("len{i}"),
    }
}

impl Graph {
    fn of_kind(&self, upto: usize, f: &dyn Fn(&Def) -> bool) -> Vec<usize> {
        (0..upto).filter(|i| f(&self.defs[*i])).collect()
    }

    pub fn gen(rng: &mut Rng, rep: &mut Report) -> Graph {
        let n = 3 + rng.below(10) as usize;
        let mut g = Graph { defs: vec![Def::ConstLit(1 + rng.below(9) as i64, None)] };
        while g.defs.len() < n {
            let i = g.defs.len();
            let consts = g.of_kind(i, &|d| matches!(d, Def::ConstLit(..) | Def::Untyped(_) | Def::Comptime { .. } | Def::AliasConst(_)));
            let aliases = g.of_kind(i, &|d| matches!(d, Def::Alias(_)));
            let structs = g.of_kind(i, &|d| matches!(d, Def::Struct(_)));
            let fns = g.of_kind(i, &|d| matches!(d, Def::Fn { .. }));
            let generics = g.of_kind(i, &|d| matches!(d, Def::Generic));
            let lens = g.of_kind(i, &|d| matches!(d, Def::Len(_) | Def::LenAlias(_)));
            let opt = |rng: &mut Rng, v: &Vec<usize>| if v.is_empty() || rng.chance(1, 4) { None } else { Some(*rng.pick(v)) };
            let d = match rng.below(100) {
                0..=11 => Def::ConstLit(1 + rng.below(9) as i64, opt(rng, &aliases)),
                12..=14 => Def::Untyped(1 + rng.below(9) as i64),
                15..=39 => {
                    let typed = rng.chance(2, 3);
                    // (typed blocks may mix in untyped i32 constants again: fixed by 6539c68)
                    let nt = 1 + rng.below(3);
                    let mut terms = vec![];
                    for _ in 0..nt {
                        terms.push(match rng.below(5) {
                            0 => Term::Lit(1 + rng.below(9) as i64),
                            1 => Term::K(*rng.pick(&consts)),
                            2 => Term::KTimes(*rng.pick(&consts), 2 + rng.below(2) as i64),
                            3 if !fns.is_empty() => Term::CallF(*rng.pick(&fns), 1 + rng.below(4) as i64),
                            4 if !generics.is_empty() => Term::CallG(*rng.pick(&generics), opt(rng, &aliases), *rng.pick(&consts)),
                            _ => Term::K(*rng.pick(&consts)),
                        });
                    }
                    Def::Comptime { typed, terms }
                }
                40..=46 => Def::Alias(opt(rng, &aliases)),
                47..=52 => {
                    let typed_only = g.of_kind(i, &|d| matches!(d, Def::ConstLit(..) | Def::Comptime { .. } | Def::AliasConst(_)));
                    // prefer constants whose annotation is itself a user-defined name
                    let annotated = g.of_kind(i, &|d| matches!(d, Def::ConstLit(_, Some(_))));
                    if !annotated.is_empty() && rng.chance(2, 3) {
                        Def::AliasConst(*rng.pick(&annotated))
                    } else {
                        Def::AliasConst(*rng.pick(&typed_only))
                    }
                }
                53..=60 => Def::Struct(opt(rng, &aliases)),
                61..=78 => Def::Fn { param: opt(rng, &aliases), k: opt(rng, &consts), callee: opt(rng, &fns) },
                79..=84 if generics.len() < 2 => Def::Generic,
                85..=90 if !structs.is_empty() => Def::Mk { strukt: *rng.pick(&structs), k: *rng.pick(&consts) },
                91..=93 => Def::Len(1 + rng.below(4)),
                94 if !lens.is_empty() => Def::LenAlias(*rng.pick(&lens)),
                95..=99 if !lens.is_empty() => Def::LenFn(*rng.pick(&lens)),
                _ => Def::Alias(opt(rng, &aliases)),
            };
            g.defs.push(d);
        }
        for d in &g.defs {
            rep.hit(match d {
                Def::ConstLit(_, None) => "globals:typed-const",
                Def::ConstLit(_, Some(_)) => "globals:const-annotated-with-alias",
                Def::AliasConst(_) => "globals:const-that-is-another-const",
                Def::Untyped(_) => "globals:untyped-const",
                Def::Comptime { .. } => "globals:comptime-const",
                Def::Alias(None) => "globals:alias-of-primitive",
                Def::Alias(Some(_)) => "globals:alias-of-alias",
                Def::Struct(_) => "globals:struct-over-alias",
                Def::Fn { .. } => "globals:function",
                Def::Generic => "globals:generic",
                Def::RecFn => "globals:recursive-function",
                Def::Mk { .. } => "globals:struct-constructor-fn",
                Def::Len(_) => "globals:usize-const",
                Def::LenAlias(_) => "globals:usize-const-that-is-another-const",
                Def::LenFn(_) => "globals:array-length-from-const",
            });
        }
        g
    }

    // ---- the oracle: evaluate the graph ----
    fn const_val(&self, i: usize) -> i64 {
        match &self.defs[i] {
            Def::ConstLit(n, _) | Def::Untyped(n) => *n,
            Def::AliasConst(j) => self.const_val(*j),
            Def::Comptime { terms, .. } => terms.iter().map(|t| self.term_val(t)).sum(),
            _ => unreachable!(),
        }
    }
    fn term_val(&self, t: &Term) -> i64 {
        match t {
            Term::Lit(n) => *n,
            Term::K(j) => self.const_val(*j),
            Term::KTimes(j, m) => self.const_val(*j) * m,
            Term::CallF(j, x) => self.fn_val(*j, *x),
            Term::CallG(_, _, l) => 2 * self.const_val(*l),
            Term::CallR(_, n) => (1..=*n).product(),
        }
    }
    fn fn_val(&self, i: usize, x: i64) -> i64 {
        match &self.defs[i] {
            Def::Fn { k, callee, .. } => x + k.map(|k| self.const_val(k)).unwrap_or(0) + callee.map(|c| self.fn_val(c, x)).unwrap_or(0),
            _ => unreachable!(),
        }
    }
    fn len_val(&self, i: usize) -> u64 {
        match &self.defs[i] {
            Def::Len(v) => *v,
            Def::LenAlias(j) => self.len_val(*j),
            _ => unreachable!(),
        }
    }
    pub fn expected(&self) -> Vec<String> {
        let mut out = vec![];
        for (i, d) in self.defs.iter().enumerate() {
            match d {
                Def::ConstLit(..) | Def::Untyped(_) | Def::Comptime { .. } | Def::AliasConst(_) => out.push(self.const_val(i).to_string()),
                Def::Fn { .. } => out.push(self.fn_val(i, 1).to_string()),
                Def::Generic => out.push("10".to_string()),
                Def::Mk { k, .. } => out.push((4 + self.const_val(*k)).to_string()),
                Def::LenFn(n) => out.push(self.len_val(*n).to_string()),
                Def::Len(_) | Def::LenAlias(_) | Def::Alias(_) | Def::Struct(_) | Def::RecFn => {}
            }
        }
        out
    }

    // ---- printing ----
    /// `order`: the textual order of the definitions; `file_of[i]`: the file of definition i
    /// (main is always in file 0)
    pub fn files(&self, order: &[usize], file_of: &[usize], nfiles: usize) -> Vec<(String, String)> {
        let fname = |k: usize| if k == 0 { "main.capy".to_string() } else { format!("m{k}.capy") };
        let r = |target: usize, from: usize| -> String {
            let n = name(&self.defs, target);
            if file_of[target] == from {
                n
            } else {
                format!("m{}.{n}", file_of[target])
            }
        };
        let ty = |a: &Option<usize>, from: usize| a.map(|a| r(a, from)).unwrap_or("i64".into());
        let term = |t: &Term, from: usize| -> String {
            match t {
                Term::Lit(n) => n.to_string(),
                Term::K(j) => r(*j, from),
                Term::KTimes(j, m) => format!("{} * {m}", r(*j, from)),
                Term::CallF(j, x) => format!("{}({x})", r(*j, from)),
                Term::CallG(j, a, l) => format!("{}({}, {})", r(*j, from), ty(a, from), r(*l, from)),
                Term::CallR(j, n) => format!("{}({n})", r(*j, from)),
            }
        };
        let mut texts: Vec<String> = (0..nfiles)
            .map(|k| {
                let mut s = String::from("core :: #mod(\"core\");\n");
                for o in 0..nfiles {
                    if o != k {
                        s.push_str(&format!("m{o} :: #import(\"{}\");\n", fname(o)));
                    }
                }
                s.push('\n');
                s
            })
            .collect();
        // main's body, in definition order (what is printed does not depend on the textual order)
        let mut main = String::from("main :: () {\n");
        for (i, d) in self.defs.iter().enumerate() {
            match d {
                Def::ConstLit(..) | Def::Untyped(_) | Def::Comptime { .. } | Def::AliasConst(_) => main.push_str(&format!("    core.println({});\n", r(i, 0))),
                Def::Fn { .. } => main.push_str(&format!("    core.println({}(1));\n", r(i, 0))),
                Def::Generic => main.push_str(&format!("    core.println({}(i64, 5));\n", r(i, 0))),
                Def::Mk { .. } => main.push_str(&format!("    {{ s := {}(4); core.println(s.a + s.b); }}\n", r(i, 0))),
                Def::LenFn(_) => main.push_str(&format!("    core.println({}());\n", r(i, 0))),
                _ => {}
            }
        }
        main.push_str("}\n");
        // `usize::MAX` in `order` stands for main
        for &i in order {
            if i == usize::MAX {
                texts[0].push_str(&main);
                continue;
            }
            let f = file_of[i];
            let n = name(&self.defs, i);
            let line = match &self.defs[i] {
                Def::ConstLit(v, a) => format!("{n} : {} : {v};", ty(a, f)),
                Def::AliasConst(j) => format!("{n} :: {};", r(*j, f)),
                Def::Untyped(v) => format!("{n} :: {v};"),
                Def::Comptime { typed, terms } => {
                    let body = terms.iter().map(|t| term(t, f)).collect::<Vec<_>>().join(" + ");
                    if *typed {
                        format!("{n} : i64 : comptime {{ {body} }};")
                    } else {
                        format!("{n} :: comptime {{ i64.({body}) }};")
                    }
                }
                Def::Alias(a) => format!("{n} :: {};", ty(a, f)),
                Def::Struct(a) => format!("{n} :: struct {{ a: {}, b: i64 }};", ty(a, f)),
                Def::Fn { param, k, callee } => {
                    let mut body = String::from("x");
                    if let Some(k) = k {
                        body.push_str(&format!(" + {}", r(*k, f)));
                    }
                    if let Some(c) = callee {
                        body.push_str(&format!(" + {}(x)", r(*c, f)));
                    }
                    format!("{n} :: (x: {}) -> i64 {{ {body} }}", ty(param, f))
                }
                Def::Generic => format!("{n} :: (comptime T: type, x: T) -> T {{ x + x }}"),
                Def::RecFn => format!("{n} :: (k: i64) -> i64 {{ if k <= 1 {{ 1 }} else {{ k * {n}(k - 1) }} }}"),
                Def::Mk { strukt, k } => {
                    let s = r(*strukt, f);
                    format!("{n} :: (x: i64) -> {s} {{ {s}.{{ a = x, b = {} }} }}", r(*k, f))
                }
                Def::Len(v) => format!("{n} : usize : {v};"),
                Def::LenAlias(j) => format!("{n} :: {};", r(*j, f)),
                Def::LenFn(l) => format!("{n} :: () -> i64 {{ a : [{}]i64; i64.(a.len) }}", r(*l, f)),
            };
            texts[f].push_str(&line);
            texts[f].push('\n');
        }
        (0..nfiles).map(|k| (fname(k), texts[k].clone())).collect()
    }
}

fn shuffle<T>(rng: &mut Rng, v: &mut [T]) {
    for i in (1..v.len()).rev() {
        let j = rng.below(i as u64 + 1) as usize;
        v.swap(i, j);
    }
}

/// a program that used to crash the compiler when (and only when) split over two files
fn corpus() -> Vec<(Graph, Vec<usize>, Vec<usize>, usize, Option<&'static str>)> {
    // main.capy: T1 :: i64; main uses m1.K0 and m1.T2;   m1.capy: K0 (untyped), T2 :: m0.T1, f3 (x: T2)
    let g = Graph { defs: vec![Def::Untyped(7), Def::Alias(None), Def::Alias(Some(1)), Def::Fn { param: Some(2), k: Some(0), callee: None }] };
    // `U0 :: 3; K1 : i64 : comptime { U0 * 2 }; K2 : i64 : comptime { K1 }` (failed Cranelift verification until 6539c68)
    let h = Graph {
        defs: vec![Def::Untyped(3), Def::Comptime { typed: true, terms: vec![Term::KTimes(0, 2)] }, Def::Comptime { typed: true, terms: vec![Term::K(1)] }],
    };
    // a typed constant wider than its comptime block (`U0 :: 5; K1 : i64 : comptime { U0 + 4 }`)
    let w = Graph { defs: vec![Def::Untyped(5), Def::Comptime { typed: true, terms: vec![Term::K(0), Term::Lit(4)] }] };
    // a constant annotated with an alias defined AFTER it (and after a constant that is that
    // constant): `K1 : T0 : 40; A2 :: K1; T0 :: i64;` — one file, and with T0 in an imported file
    let o1 = Graph { defs: vec![Def::Alias(None), Def::ConstLit(40, Some(0)), Def::AliasConst(1)] };
    let o2 = Graph { defs: vec![Def::Alias(None), Def::ConstLit(40, Some(0)), Def::AliasConst(1)] };
    // an array length that is a constant of another file which is itself a bare-name alias of a
    // constant of that file (`m1.N1` with `N1 :: N0;` in m1.capy; seeded changes C15_2 / C20_2)
    let la = Graph { defs: vec![Def::Len(3), Def::LenAlias(0), Def::LenFn(1)] };
    // KNOWN FINDING: `X :: comptime { Y + 1 }; Y :: comptime { fact(3) };` with a recursive `fact` is
    // rejected ("circular definition, Y has not yet been resolved") when X is written before Y and
    // accepted the other way round
    let rc = Graph {
        defs: vec![
            Def::RecFn,
            Def::Comptime { typed: true, terms: vec![Term::CallR(0, 3)] },
            Def::Comptime { typed: true, terms: vec![Term::K(1), Term::Lit(1)] },
        ],
    };
    vec![
        (rc, vec![0, 2, 1, usize::MAX], vec![0, 0, 0], 1, Some("comptime-chain-through-recursive-function")),
        (la, vec![0, 1, 2, usize::MAX], vec![1, 1, 0], 2, None),
        (o1, vec![1, 2, 0, usize::MAX], vec![0, 0, 0], 1, None),
        (o2, vec![1, 2, usize::MAX, 0], vec![1, 0, 0], 2, None),
        (g, vec![1, usize::MAX, 0, 2, 3], vec![1, 0, 1, 0], 2, None),
        (h, vec![0, 1, 2, usize::MAX], vec![0, 0, 0], 1, None),
        (w, vec![usize::MAX, 1, 0], vec![0, 0], 1, None),
    ]
}

pub fn run(rep: &mut Report, rng: &mut Rng, tier: &str, widen: bool) {
    let n = if widen { 400 } else if tier == "thorough" { 200 } else { 40 };
    let mut all: Vec<E2eProgram> = vec![];
    let mut meta: Vec<(usize, String)> = vec![];
    let mut graphs: Vec<Graph> = vec![];
    let mut label_override: Vec<Option<&'static str>> = vec![];
    for (g, order, file_of, nfiles, lab) in corpus() {
        label_override.push(lab);
        let gi = graphs.len();
        let base: Vec<usize> = (0..g.defs.len()).chain([usize::MAX]).collect();
        all.push(E2eProgram { files: g.files(&base, &vec![0; g.defs.len()], 1) });
        meta.push((gi, "baseline".into()));
        all.push(E2eProgram { files: g.files(&order, &file_of, nfiles) });
        meta.push((gi, format!("variant-corpus-in-{nfiles}-files")));
        graphs.push(g);
    }
    while graphs.len() < n {
        let g = Graph::gen(rng, rep);
        let gi = graphs.len();
        let nd = g.defs.len();
        let base: Vec<usize> = (0..nd).chain([usize::MAX]).collect();
        let one = vec![0usize; nd];
        all.push(E2eProgram { files: g.files(&base, &one, 1) });
        meta.push((gi, "baseline".into()));
        for k in 0..3 {
            let mut o = base.clone();
            shuffle(rng, &mut o);
            all.push(E2eProgram { files: g.files(&o, &one, 1) });
            meta.push((gi, format!("permutation-{k}")));
        }
        for k in 0..3 {
            let nfiles = 2 + rng.below(2) as usize;
            let mut o = base.clone();
            shuffle(rng, &mut o);
            let file_of: Vec<usize> = (0..nd).map(|_| rng.below(nfiles as u64) as usize).collect();
            all.push(E2eProgram { files: g.files(&o, &file_of, nfiles) });
            meta.push((gi, format!("partition-{k}-into-{nfiles}-files")));
        }
        graphs.push(g);
    }
    let outcomes = e2e::run_all(&all, e2e::Limits::default());
    for (((gi, what), out), prog) in meta.iter().zip(outcomes.iter()).zip(all.iter()) {
        let text: String = prog.files.iter().map(|(n, t)| format!("// ---- {n}\n{t}")).collect();
        rep.case(Some(format!("globals|{text}")));
        rep.hit(&format!("globals-variant:{}", what.split('-').next().unwrap_or("")));
        let want = graphs[*gi].expected().join(",");
        let got = if !out.built {
            let crashed = out.compile_out.contains("panicked at");
            format!(
                "{}: {}",
                if crashed { "compiler-crashed" } else { "not-built" },
                out.compile_out.lines().filter(|l| l.starts_with("error") || l.contains("panicked at")).take(2).collect::<Vec<_>>().join(" / ")
            )
        } else if out.run_status != Some(0) {
            format!("run-failed {}", out.run_summary())
        } else {
            out.stdout().lines().map(|l| l.trim().to_string()).collect::<Vec<_>>().join(",")
        };
        rep.traces_validated += 1;
        if got != want {
            let label = if let Some(Some(l)) = label_override.get(*gi) {
                *l
            } else if what == "baseline" {
                "globals-baseline-differs-from-evaluation"
            } else if got.starts_with("compiler-crashed") {
                "globals-variant-crashes-compiler"
            } else if got.starts_with("not-built") {
                "acceptance-depends-on-order"
            } else {
                "behaviour-depends-on-order"
            };
            rep.oracle_fail(label, json!({"variant": what, "files": text}), json!(got), json!(want),
                "a program made of interdependent global definitions is rejected, crashes the compiler or prints other values depending on the textual order / the split into files");
        }
    }
}
