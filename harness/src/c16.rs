//! C16 — generic calls behave like calls to hand-substituted copies.
//!
//! End-to-end translation validation with the real `capy` CLI. Every case is a PAIR of programs:
//!   G: functions with `comptime` parameters, called with comptime arguments;
//!   M: the same program in which the harness has replaced, on its own AST, every generic call by
//!      a call to a monomorphic copy of the callee whose comptime parameters are substituted by the
//!      call's comptime arguments (recursively through nested generic calls).
//! Oracle (written from the property text): stdout + exit status of G and M are identical; inside
//! G, two calls with equal comptime and runtime arguments print identical segments.
//! Two generators: stream A = CapyCore programs (integer comptime parameters; additionally
//! compared with the Lean reference interpreter, for both G — comptime parameters bound like
//! ordinary parameters — and M — the substituted copies, `subst_lemma`), stream B = templates with
//! type / integer / distinct / struct comptime arguments, inline header references, varargs,
//! nested generic calls and generics defined in another file. Stream C (in-process) reads the
//! instances the real `hir_ty` created and checks the instance-identity model.
use crate::c01;
use crate::core::{self, Expr, Place, Stmt, Ty};
use crate::e2e::{self, Program as E2eProgram};
use crate::lean;
use crate::report::Report;
use crate::rng::Rng;
use serde_json::json;
use std::collections::BTreeMap;

const SENT: usize = 900_000; // `Ty::Struct(SENT)`: a comptime argument printed as a plain literal
const FUEL: u32 = 20000;

// =============================================================================================
// stream A: CapyCore programs with integer comptime parameters
// =============================================================================================

#[derive(Clone, Debug)]
pub struct CaseA {
    /// the generic program: comptime parameters are ordinary parameters (what Lean runs as G)
    pub g: core::Program,
    /// per function: the comptime parameter positions (empty = not generic)
    pub cpos: Vec<Vec<usize>>,
    /// the substituted program
    pub m: core::Program,
    pub instances: usize,
    pub nested: bool,
    pub max_inst_per_fn: usize,
}

fn walk_expr(e: &mut Expr, f: &mut dyn FnMut(&mut Expr)) {
    match e {
        Expr::Lit(..) | Expr::BLit(_) | Expr::Var(_) | Expr::Nil | Expr::FnRef(_) | Expr::CharLit(_) => {}
        Expr::CallV(c, args) => {
            walk_expr(c, f);
            for a in args.iter_mut() {
                walk_expr(a, f);
            }
        }
        Expr::Bin(_, _, a, b) | Expr::Cmp(_, _, a, b) | Expr::LAnd(a, b) | Expr::LOr(a, b) | Expr::Index(a, b) => {
            walk_expr(a, f);
            walk_expr(b, f);
        }
        Expr::LNot(a) | Expr::Neg(_, a) | Expr::BNot(_, a) | Expr::Cast(_, _, a) | Expr::Field(a, _) | Expr::SomeE(a)
        | Expr::Unwrap(_, a) | Expr::IsSome(_, a) | Expr::IsVariant(_, _, a) | Expr::UnwrapVariant(_, _, a) | Expr::EuLit(_, a)
        | Expr::EuIsOk(_, a) | Expr::EuUnwrap(_, _, a) | Expr::Try(a) | Expr::Coerce(_, a) | Expr::Deref(a) | Expr::Len(a)
        | Expr::SliceToArr(_, _, a) => walk_expr(a, f),
        Expr::AddrOf(_, p) | Expr::SliceOf(p) => walk_place(p, f),
        Expr::VariantLit(_, _, pl) => {
            if let Some(a) = pl {
                walk_expr(a, f);
            }
        }
        Expr::Call(_, args) | Expr::ArrLit(_, args) | Expr::StructLit(_, args) => {
            for a in args.iter_mut() {
                walk_expr(a, f);
            }
        }
        Expr::Ite(c, a, b) => {
            walk_expr(c, f);
            walk_expr(a, f);
            walk_expr(b, f);
        }
    }
    f(e);
}

fn walk_place(p: &mut Place, f: &mut dyn FnMut(&mut Expr)) {
    match p {
        Place::Var(_) => {}
        Place::Index(q, i) => {
            walk_place(q, f);
            walk_expr(i, f);
        }
        Place::Field(q, _) => walk_place(q, f),
        Place::Deref(e) => walk_expr(e, f),
    }
}

fn walk_stmts(ss: &mut [Stmt], f: &mut dyn FnMut(&mut Expr)) {
    for s in ss.iter_mut() {
        match s {
            Stmt::Let(_, _, _, e) | Stmt::Print(e) | Stmt::ExprS(e) | Stmt::Ret(Some(e)) => walk_expr(e, f),
            Stmt::Assign(p, e) | Stmt::OpAssign(_, _, p, e) => {
                walk_place(p, f);
                walk_expr(e, f);
            }
            Stmt::If(c, a, b) => {
                walk_expr(c, f);
                walk_stmts(a, f);
                walk_stmts(b, f);
            }
            Stmt::While(_, c, b) => {
                walk_expr(c, f);
                walk_stmts(b, f);
            }
            Stmt::Block(_, b) => walk_stmts(b, f),
            Stmt::Switch(sc, _, _, arms, d) => {
                walk_expr(sc, f);
                for (_, b) in arms.iter_mut() {
                    walk_stmts(b, f);
                }
                if let Some(b) = d {
                    walk_stmts(b, f);
                }
            }
            Stmt::Defer(s) => walk_stmts(std::slice::from_mut(&mut **s), f),
            Stmt::Brk(_) | Stmt::Cont(_) | Stmt::Ret(None) | Stmt::Raw(_) => {}
        }
    }
}

/// a closed value of type `t`
fn value_of(t: &Ty, structs: &[core::StructDef], enums: &[core::EnumDef], rng: &mut Rng) -> Expr {
    match t {
        Ty::Int(..) => {
            let (lo, hi) = t.range();
            let z = match rng.below(5) {
                0 => hi,
                1 => lo,
                _ => (rng.below(120) as i128).min(hi),
            };
            Expr::Lit(t.clone(), z)
        }
        Ty::Bool => Expr::BLit(rng.chance(1, 2)),
        Ty::Void => Expr::BLit(false),
        Ty::Arr(n, e) => Expr::ArrLit((**e).clone(), (0..*n).map(|_| value_of(e, structs, enums, rng)).collect()),
        Ty::Opt(e) => {
            if rng.chance(1, 3) {
                Expr::Nil
            } else {
                Expr::SomeE(Box::new(value_of(e, structs, enums, rng)))
            }
        }
        Ty::Struct(id) => Expr::StructLit(*id, structs[*id].fields.clone().iter().map(|f| value_of(f, structs, enums, rng)).collect()),
        Ty::Enum(id) => {
            let k = rng.below(enums[*id].variants.len() as u64) as usize;
            let pl = enums[*id].variants[k].clone().map(|pt| Box::new(value_of(&pt, structs, enums, rng)));
            Expr::VariantLit(*id, k, pl)
        }
        Ty::Eu(e, o) => {
            let ok = rng.chance(2, 3);
            Expr::EuLit(ok, Box::new(value_of(if ok { o } else { e }, structs, enums, rng)))
        }
        // C16's generator runs with `pointers: false`: no closed value of these types exists
        Ty::Ptr(..) | Ty::Slice(_) | Ty::FnPtr(..) => Expr::Nil,
        Ty::Char => Expr::CharLit(b'a'),
    }
}

/// comptime argument values: non-negative (a negated literal is not a constant expression in
/// Capy), drawn from a small pool so that equal instantiations occur
fn comptime_value(t: &Ty, rng: &mut Rng) -> i128 {
    let (_, hi) = t.range();
    *rng.pick(&[0, 1, 2, 3, 7, 100, hi, hi - 1])
}

pub fn gen_case_a(rng: &mut Rng) -> Option<CaseA> {
    let cfg = core::GenCfg { max_fns: 4, max_stmts: 8, max_depth: 3, faults: false, pointers: false, recursion: false, chars: false };
    let mut p = core::gen_program(rng, &cfg);
    if p.fns.len() < 2 {
        return None;
    }
    // 1. choose the comptime parameters
    let mut cpos: Vec<Vec<usize>> = vec![vec![]; p.fns.len()];
    for k in 1..p.fns.len() {
        let cands: Vec<usize> = (0..p.fns[k].params.len()).filter(|j| p.fns[k].params[*j].1.is_int()).collect();
        if cands.is_empty() || rng.chance(1, 6) {
            continue;
        }
        let want = 1 + rng.below(3.min(cands.len() as u64)) as usize;
        let mut c = cands.clone();
        while c.len() > want {
            let i = rng.below(c.len() as u64) as usize;
            c.remove(i);
        }
        cpos[k] = c;
    }
    if cpos.iter().all(|c| c.is_empty()) {
        return None;
    }
    // 2. explicit calls at the start of main: every generic 1-4 times, interleaved
    let mut calls: Vec<Stmt> = vec![];
    let mut fresh = 800_000usize;
    for k in 1..p.fns.len() {
        if cpos[k].is_empty() {
            continue;
        }
        let n = 1 + rng.below(4) as usize;
        let mut prev: Vec<Vec<Expr>> = vec![];
        for _ in 0..n {
            let args: Vec<Expr> = if !prev.is_empty() && rng.chance(1, 3) {
                rng.pick(&prev).clone() // the same instantiation (and run-time arguments) again
            } else {
                p.fns[k].params.iter().map(|(_, t)| value_of(t, &p.structs, &p.enums, rng)).collect()
            };
            prev.push(args.clone());
            let call = Expr::Call(k, args);
            let s = match &p.fns[k].ret {
                Ty::Int(..) | Ty::Bool => Stmt::Print(call),
                Ty::Void => Stmt::ExprS(call),
                t => {
                    fresh += 1;
                    Stmt::Let(fresh, t.clone(), false, call)
                }
            };
            calls.push(s);
        }
    }
    // shuffle (interleave instances of different functions)
    for i in (1..calls.len()).rev() {
        let j = rng.below(i as u64 + 1) as usize;
        calls.swap(i, j);
    }
    calls.extend(std::mem::take(&mut p.fns[0].body));
    p.fns[0].body = calls;
    // 3. comptime arguments: literals, or the caller's own comptime parameter (nested generic call)
    let mut nested = false;
    for caller in 0..p.fns.len() {
        let own: Vec<(usize, Ty)> = cpos[caller].iter().map(|j| p.fns[caller].params[*j].clone()).collect();
        let sigs: Vec<Vec<(usize, Ty)>> = p.fns.iter().map(|f| f.params.clone()).collect();
        let mut body = std::mem::take(&mut p.fns[caller].body);
        let cp = cpos.clone();
        walk_stmts(&mut body, &mut |e| {
            if let Expr::Call(f, args) = e {
                for j in &cp[*f] {
                    let t = &sigs[*f][*j].1;
                    let same: Vec<&(usize, Ty)> = own.iter().filter(|o| &o.1 == t).collect();
                    if !same.is_empty() && rng.chance(1, 2) {
                        args[*j] = Expr::Var(rng.pick(&same).0);
                        nested = true;
                    } else if let Expr::Lit(_, z) = &args[*j] {
                        if *z < 0 {
                            args[*j] = Expr::Lit(t.clone(), comptime_value(t, rng));
                        }
                    } else {
                        args[*j] = Expr::Lit(t.clone(), comptime_value(t, rng));
                    }
                }
            }
        });
        p.fns[caller].body = body;
    }
    // 4. the substituted program
    let (m, instances, max_inst_per_fn) = monomorphise(&p, &cpos)?;
    Some(CaseA { g: p, cpos, m, instances, nested, max_inst_per_fn })
}

/// The harness's own substitution: every instance `(function, comptime values)` reachable from
/// `main` becomes a copy of the function without the comptime parameters, in whose body the
/// comptime parameters are replaced by the literal arguments.
fn monomorphise(p: &core::Program, cpos: &[Vec<usize>]) -> Option<(core::Program, usize, usize)> {
    let mut index: BTreeMap<(usize, Vec<i128>), usize> = BTreeMap::new();
    let mut order: Vec<(usize, Vec<i128>)> = vec![(0, vec![])];
    index.insert((0, vec![]), 0);
    let mut out: Vec<core::Fn> = vec![];
    let mut i = 0;
    let mut bad = false;
    while i < order.len() {
        let (k, vals) = order[i].clone();
        let f = &p.fns[k];
        let sigma: Vec<(usize, Ty, i128)> = cpos[k].iter().zip(vals.iter()).map(|(j, v)| (f.params[*j].0, f.params[*j].1.clone(), *v)).collect();
        let mut body = f.body.clone();
        walk_stmts(&mut body, &mut |e| {
            // substitution of the comptime parameters (post-order: arguments are already closed)
            if let Expr::Var(x) = e {
                if let Some((_, t, v)) = sigma.iter().find(|s| s.0 == *x) {
                    *e = Expr::Lit(t.clone(), *v);
                }
            }
            if let Expr::Call(g, args) = e {
                let mut cv = vec![];
                for j in &cpos[*g] {
                    match &args[*j] {
                        Expr::Lit(_, z) => cv.push(*z),
                        _ => bad = true,
                    }
                }
                let key = (*g, cv);
                let idx = match index.get(&key) {
                    Some(ix) => *ix,
                    None => {
                        let ix = order.len();
                        index.insert(key.clone(), ix);
                        order.push(key);
                        ix
                    }
                };
                let rargs: Vec<Expr> = args.iter().enumerate().filter(|(j, _)| !cpos[*g].contains(j)).map(|(_, a)| a.clone()).collect();
                *e = Expr::Call(idx, rargs);
            }
        });
        let params = f.params.iter().enumerate().filter(|(j, _)| !cpos[k].contains(j)).map(|(_, q)| q.clone()).collect();
        out.push(core::Fn { params, ret: f.ret.clone(), body });
        i += 1;
    }
    if bad {
        return None;
    }
    let generic_instances = order.iter().filter(|(k, _)| !cpos[*k].is_empty()).count();
    let mut per: BTreeMap<usize, usize> = BTreeMap::new();
    for (k, _) in order.iter().filter(|(k, _)| !cpos[*k].is_empty()) {
        *per.entry(*k).or_insert(0) += 1;
    }
    Some((core::Program { structs: p.structs.clone(), enums: p.enums.clone(), fns: out, slice_oob: false }, generic_instances, per.values().copied().max().unwrap_or(0)))
}

/// Capy source of the generic program: `comptime` in the headers, comptime arguments spelled as
/// plain literals or references to global constants.
pub fn g_source(c: &CaseA, rng: &mut Rng) -> String {
    let mut p = c.g.clone();
    let mut consts: Vec<(Ty, i128)> = vec![];
    let cpos = c.cpos.clone();
    for k in 0..p.fns.len() {
        let mut body = std::mem::take(&mut p.fns[k].body);
        walk_stmts(&mut body, &mut |e| {
            if let Expr::Call(f, args) = e {
                for j in &cpos[*f] {
                    if let Expr::Lit(t, z) = &args[*j] {
                        if rng.chance(1, 4) {
                            consts.push((t.clone(), *z));
                            args[*j] = Expr::Lit(Ty::Struct(SENT + consts.len()), *z);
                        } else {
                            args[*j] = Expr::Lit(Ty::Struct(SENT), *z);
                        }
                    }
                }
            }
        });
        p.fns[k].body = body;
    }
    // header, structs and enums exactly as the shared printer spells them
    let tys: Vec<core::Global> = p.globals().into_iter().filter(|g| !matches!(g, core::Global::Fn(_))).collect();
    let mut s = p.capy_ordered(&tys);
    for (i, (t, z)) in consts.iter().enumerate() {
        s.push_str(&format!("gc{} : {} : {};\n", i + 1, t.capy(), z));
    }
    s.push('\n');
    for (i, f) in p.fns.iter().enumerate().rev() {
        let name = if i == 0 { "main".to_string() } else { format!("f{i}") };
        let params = f
            .params
            .iter()
            .enumerate()
            .map(|(j, (x, t))| format!("{}v{}: {}", if cpos[i].contains(&j) { "comptime " } else { "" }, x, t.capy()))
            .collect::<Vec<_>>()
            .join(", ");
        let ret = if f.ret == Ty::Void { String::new() } else { format!(" -> {}", f.ret.capy()) };
        s.push_str(&format!("{name} :: ({params}){ret} {{\n"));
        for st in &f.body {
            st.capy(1, &mut s);
        }
        s.push_str("}\n\n");
    }
    unsentinel(&s)
}

/// `S900000.(z)` → `z`, `S90000n.(z)` → `gcn`
fn unsentinel(s: &str) -> String {
    let mut out = String::with_capacity(s.len());
    let b = s.as_bytes();
    let mut i = 0;
    while i < b.len() {
        if b[i] == b'S' && s[i..].starts_with("S90") {
            let rest = &s[i + 1..];
            let nd = rest.bytes().take_while(|c| c.is_ascii_digit()).count();
            let id: usize = rest[..nd].parse().unwrap_or(0);
            if id >= SENT && rest[nd..].starts_with(".(") {
                let after = &rest[nd + 2..];
                let zd = after.bytes().take_while(|c| c.is_ascii_digit()).count();
                if after[zd..].starts_with(')') {
                    if id == SENT {
                        out.push_str(&after[..zd]);
                    } else {
                        out.push_str(&format!("gc{}", id - SENT));
                    }
                    i += 1 + nd + 2 + zd + 1;
                    continue;
                }
            }
        }
        out.push(b[i] as char);
        i += 1;
    }
    out
}

// =============================================================================================
// stream B: templates — types, integers, distinct / struct types as comptime arguments
// =============================================================================================

/// Code with the comptime-relevant structure explicit; everything else is text.
#[derive(Clone, Debug)]
pub enum Tok {
    S(String),
    /// different spelling in the generic program and in the copy (a local alias / constant)
    GM(String, String),
    /// reference to the enclosing generic's comptime parameter `i` as a type
    Ty(usize),
    /// … as an array length (a bare constant)
    Len(usize),
    /// … as a value
    Val(usize),
    /// call of generic `f`: comptime arguments and run-time arguments (each a token list)
    Call(usize, Vec<Vec<Tok>>, Vec<Vec<Tok>>),
}

#[derive(Clone, Debug, PartialEq)]
pub enum CKind {
    Type,
    /// integer parameter of a fixed type
    Int(String),
    /// `comptime K: T` where `T` is the comptime parameter with this index
    IntOf(usize),
}

#[derive(Clone, Debug)]
pub enum Param {
    C { name: String, kind: CKind },
    R { name: String, ty: Vec<Tok>, varargs: bool },
}

#[derive(Clone, Debug)]
pub struct GFn {
    pub name: String,
    /// 0 = main.capy, 1 = lib.capy
    pub file: usize,
    pub params: Vec<Param>,
    pub ret: Vec<Tok>,
    pub body: Vec<Tok>,
    /// a generic that returns a type (`-> type { struct {…} }`), used through `comptime f(..)`
    pub tyfn: bool,
}

impl GFn {
    fn cparams(&self) -> Vec<(&String, &CKind)> {
        self.params.iter().filter_map(|p| if let Param::C { name, kind } = p { Some((name, kind)) } else { None }).collect()
    }
}

/// one closed comptime argument
#[derive(Clone, Debug)]
pub struct CArg {
    /// spelling at the call site of the generic program
    pub g: String,
    /// what it denotes, spelled so that it is valid anywhere in main.capy (types: the type; integers: decimal)
    pub m: String,
}

#[derive(Clone, Debug)]
pub struct CaseB {
    pub fns: Vec<GFn>,
    /// statements of `main`
    pub main: Vec<Tok>,
    pub features: Vec<&'static str>,
    pub ncalls: usize,
    /// (call number, identity of the call) for the equal-arguments check
    pub call_keys: Vec<String>,
    /// expected to hit a known compiler defect (corpus entries): label
    pub expect_label: Option<&'static str>,
}

const MAIN_TYPES: &str = "S0 :: struct { a: i32, b: u8 };\nS1 :: struct { x: u64, y: bool, z: [3]u16 };\nS2 :: struct { s: S0, t: i8 };\nD0 :: distinct u16;\nD1 :: distinct i64;\nGA :: i16;\nCT :: comptime { if true { i64 } else { i32 } };\nGK : usize : 3;\n";
const LIB_TYPES: &str = "LS0 :: struct { p: i16, q: [2]u8 };\nLD0 :: distinct u32;\n";

#[derive(Clone)]
struct TyArg {
    g: &'static str,
    m: &'static str,
    int: bool,
    /// needs `A0 :: u8;` in main
    local_alias: bool,
}

const TY_ARGS: &[TyArg] = &[
    TyArg { g: "i8", m: "i8", int: true, local_alias: false },
    TyArg { g: "i16", m: "i16", int: true, local_alias: false },
    TyArg { g: "i32", m: "i32", int: true, local_alias: false },
    TyArg { g: "i64", m: "i64", int: true, local_alias: false },
    TyArg { g: "u8", m: "u8", int: true, local_alias: false },
    TyArg { g: "u16", m: "u16", int: true, local_alias: false },
    TyArg { g: "u32", m: "u32", int: true, local_alias: false },
    TyArg { g: "u64", m: "u64", int: true, local_alias: false },
    TyArg { g: "usize", m: "usize", int: true, local_alias: false },
    TyArg { g: "A0", m: "u8", int: true, local_alias: true },
    TyArg { g: "GA", m: "i16", int: true, local_alias: false },
    TyArg { g: "CT", m: "i64", int: true, local_alias: false },
    TyArg { g: "bool", m: "bool", int: false, local_alias: false },
    TyArg { g: "S0", m: "S0", int: false, local_alias: false },
    TyArg { g: "S1", m: "S1", int: false, local_alias: false },
    TyArg { g: "S2", m: "S2", int: false, local_alias: false },
    TyArg { g: "D0", m: "D0", int: false, local_alias: false },
    TyArg { g: "D1", m: "D1", int: false, local_alias: false },
    TyArg { g: "lib.LS0", m: "lib.LS0", int: false, local_alias: false },
    TyArg { g: "lib.LD0", m: "lib.LD0", int: false, local_alias: false },
    TyArg { g: "[2]u8", m: "[2]u8", int: false, local_alias: false },
    TyArg { g: "[3]i32", m: "[3]i32", int: false, local_alias: false },
    TyArg { g: "[2]S0", m: "[2]S0", int: false, local_alias: false },
];

/// a closed value of the (resolved) type `m`, as main.capy text
fn value_text(m: &str, rng: &mut Rng) -> String {
    let small = |rng: &mut Rng, hi: u64| rng.below(hi + 1).to_string();
    match m {
        "i8" => format!("{}", rng.range(-128, 127)),
        "u8" => small(rng, 255),
        "i16" => format!("{}", rng.range(-32768, 32767)),
        "u16" => small(rng, 65535),
        "i32" => format!("{}", rng.range(-2147483647, 2147483647)),
        "u32" => small(rng, 4294967295),
        "i64" => format!("{}", rng.range(-9_000_000_000_000, 9_000_000_000_000)),
        "u64" | "usize" => small(rng, 18_000_000_000_000),
        "bool" => (if rng.chance(1, 2) { "true" } else { "false" }).into(),
        "S0" => format!("S0.{{ a = {}, b = {} }}", value_text("i32", rng), value_text("u8", rng)),
        "S1" => format!("S1.{{ x = {}, y = {}, z = u16.[{}, {}, {}] }}", value_text("u64", rng), value_text("bool", rng), value_text("u16", rng), value_text("u16", rng), value_text("u16", rng)),
        "S2" => format!("S2.{{ s = {}, t = {} }}", value_text("S0", rng), value_text("i8", rng)),
        "D0" => format!("D0.({})", value_text("u16", rng)),
        "D1" => format!("D1.({})", value_text("i64", rng)),
        "lib.LS0" => format!("lib.LS0.{{ p = {}, q = u8.[{}, {}] }}", value_text("i16", rng), value_text("u8", rng), value_text("u8", rng)),
        "lib.LD0" => format!("lib.LD0.({})", value_text("u32", rng)),
        "[2]u8" => format!("u8.[{}, {}]", value_text("u8", rng), value_text("u8", rng)),
        "[3]i32" => format!("i32.[{}, {}, {}]", value_text("i32", rng), value_text("i32", rng), value_text("i32", rng)),
        "[2]S0" => format!("S0.[{}, {}]", value_text("S0", rng), value_text("S0", rng)),
        _ => "0".into(),
    }
}

fn s(t: &str) -> Tok {
    Tok::S(t.to_string())
}

/// Build a token list from a pattern: `$T` → `Ty(ti)`, `$N` → `Len(ni)`, `$n` → `Val(ni)`,
/// `$k` → `Val(ki)`.
fn pat(p: &str, ti: usize, ni: usize, ki: usize) -> Vec<Tok> {
    let mut out = vec![];
    let mut cur = String::new();
    let cs: Vec<char> = p.chars().collect();
    let mut i = 0;
    while i < cs.len() {
        if cs[i] == '$' && i + 1 < cs.len() {
            if !cur.is_empty() {
                out.push(Tok::S(std::mem::take(&mut cur)));
            }
            out.push(match cs[i + 1] {
                'T' => Tok::Ty(ti),
                'N' => Tok::Len(ni),
                'n' => Tok::Val(ni),
                _ => Tok::Val(ki),
            });
            i += 2;
        } else {
            cur.push(cs[i]);
            i += 1;
        }
    }
    if !cur.is_empty() {
        out.push(Tok::S(cur));
    }
    out
}

struct Shape {
    int_class: bool,
    has_n: bool,
    has_k: bool,
}

/// generate generic function number `idx`; it may call the generics in `earlier` (same class / file rules)
fn gen_gfn(idx: usize, earlier: &[(GFn, Shape)], rng: &mut Rng, features: &mut Vec<&'static str>) -> (GFn, Shape) {
    let file = if rng.chance(1, 3) { 1 } else { 0 };
    let int_class = rng.chance(2, 5);
    let has_n = rng.chance(3, 5);
    let has_k = rng.chance(2, 5) && !(has_n && int_class && rng.chance(1, 2));
    let name = format!("g{idx}");
    // comptime parameters: T first (index 0), then N, then K
    let ti = 0;
    let ni = 1;
    let ki = if has_n { 2 } else { 1 };
    let mut params = vec![Param::C { name: "T".into(), kind: CKind::Type }];
    if has_n {
        params.push(Param::C { name: "N".into(), kind: CKind::Int("usize".into()) });
    }
    if has_k {
        let kind = if int_class && rng.chance(1, 2) {
            features.push("comptime-param-of-comptime-type");
            CKind::IntOf(0)
        } else {
            CKind::Int((*rng.pick(&["i32", "u8", "i64", "usize", "u16"])).to_string())
        };
        params.push(Param::C { name: "K".into(), kind });
    }
    // run-time parameters
    let mut rnames: Vec<(&'static str, &'static str)> = vec![("x", "$T")];
    if int_class || rng.chance(1, 2) {
        rnames.push(("y", "$T"));
    }
    let mut extra_arr = false;
    let mut extra_opt = false;
    if rng.chance(1, 4) {
        rnames.push(("a2", "[2]$T"));
        extra_arr = true;
        features.push("header:[2]T");
    }
    if rng.chance(1, 4) {
        rnames.push(("o", "?$T"));
        extra_opt = true;
        features.push("header:?T");
    }
    let varargs = rng.chance(1, 4);
    for (n, t) in &rnames {
        params.push(Param::R { name: n.to_string(), ty: pat(t, ti, ni, ki), varargs: false });
    }
    if varargs {
        features.push("varargs");
        params.push(Param::R { name: "xs".into(), ty: pat("$T", ti, ni, ki), varargs: true });
    }
    // sometimes a comptime parameter is not first: rotate one run-time parameter to the front
    if rng.chance(1, 5) {
        let first_r = params.iter().position(|p| matches!(p, Param::R { varargs: false, .. })).unwrap();
        // only `x: T` style headers need T before them; move a T-free parameter instead
        let _ = first_r;
        params.insert(0, Param::R { name: "w".into(), ty: vec![s("i32")], varargs: false });
        features.push("runtime-param-before-comptime");
    }
    // body
    let mut b: Vec<Tok> = vec![];
    let push = |b: &mut Vec<Tok>, p: &str| b.extend(pat(p, ti, ni, ki));
    if params.iter().any(|p| matches!(p, Param::R { name, .. } if name == "w")) {
        push(&mut b, "    core.println(w);\n");
    }
    let nfrag = 2 + rng.below(4);
    for _ in 0..nfrag {
        match rng.below(12) {
            0 => push(&mut b, "    core.println(x);\n"),
            1 => push(&mut b, "    core.println(core.meta.size_of($T));\n    core.println(core.meta.align_of($T));\n    core.println(core.meta.stride_of($T));\n"),
            2 if has_n => {
                features.push("body:[N]T");
                push(&mut b, "    {\n        arr : [$N]$T;\n        i : usize = 0;\n        while i < $n { arr[i] = x; i += 1; }\n        core.println(arr);\n        core.println(core.meta.size_of([$N]$T));\n    }\n")
            }
            3 => {
                features.push("body:local-struct-of-T");
                if has_n {
                    push(&mut b, "    {\n        Q :: struct { p: u8, q: $T, r: [$N]$T };\n        qq : Q;\n        qq.q = x;\n        core.println(qq);\n        core.println(core.meta.size_of(Q));\n    }\n")
                } else {
                    push(&mut b, "    {\n        Q :: struct { p: u8, q: $T };\n        qq : Q;\n        qq.q = x;\n        core.println(qq);\n        core.println(core.meta.size_of(Q));\n    }\n")
                }
            }
            4 => push(&mut b, "    {\n        oo : ?$T = x;\n        core.println(oo);\n        oo = nil;\n        core.println(oo);\n    }\n"),
            5 => push(&mut b, "    {\n        pp := ^x;\n        core.println(pp^);\n    }\n"),
            6 => push(&mut b, "    {\n        dd : $T;\n        core.println(dd);\n    }\n"),
            7 => push(&mut b, "    core.println($T);\n"),
            8 if has_n => push(&mut b, "    core.println($n);\n    if $n > 2 { core.println(1); } else { core.println(0); }\n"),
            9 if has_k => push(&mut b, "    core.println($k);\n    core.println($k + 1);\n"),
            10 if int_class => {
                features.push("body:arith-at-T");
                push(&mut b, "    {\n        r : $T = x + y;\n        r = r * x;\n        core.println(r);\n        core.println(x < y);\n        core.println($T.(100) + $T.(100));\n        core.println(i64.(r));\n    }\n");
                if has_k {
                    push(&mut b, "    core.println(x + $T.($k));\n");
                }
                if has_n {
                    push(&mut b, "    {\n        acc : $T = 0;\n        i : usize = 0;\n        while i < $n { acc += x; i += 1; }\n        core.println(acc);\n    }\n");
                }
            }
            _ => {
                // nested generic call with the caller's own parameters
                let cands: Vec<usize> = (0..earlier.len())
                    .filter(|j| {
                        let (g, sh) = &earlier[*j];
                        !g.tyfn && (file == 0 || g.file == 1) && (!sh.int_class || int_class)
                    })
                    .collect();
                if cands.is_empty() {
                    push(&mut b, "    core.println(x);\n");
                } else {
                    let j = *rng.pick(&cands);
                    let (g, sh) = &earlier[j];
                    features.push("nested-generic-call");
                    if g.file != file {
                        features.push("nested-call-across-files");
                    }
                    let mut cargs: Vec<Vec<Tok>> = vec![vec![Tok::Ty(ti)]];
                    if sh.has_n {
                        cargs.push(if has_n && rng.chance(2, 3) { vec![Tok::Len(ni)] } else { vec![s(&(1 + rng.below(4)).to_string())] });
                    }
                    if sh.has_k {
                        // K's type in the callee may differ from ours: pass a literal (or our K when ours is IntOf(T) as well)
                        cargs.push(vec![s(&rng.below(6).to_string())]);
                    }
                    let mut rargs: Vec<Vec<Tok>> = vec![];
                    for p in &g.params {
                        if let Param::R { name, varargs, .. } = p {
                            if *varargs {
                                if rng.chance(1, 2) {
                                    rargs.push(vec![s("x")]);
                                }
                                continue;
                            }
                            rargs.push(match name.as_str() {
                                "w" => vec![s("41")],
                                "a2" => pat("$T.[x, x]", ti, ni, ki),
                                "o" => vec![s(if rng.chance(1, 2) { "x" } else { "nil" })],
                                "y" if params.iter().any(|q| matches!(q, Param::R { name, .. } if name == "y")) => vec![s("y")],
                                _ => vec![s("x")],
                            });
                        }
                    }
                    b.push(s("    core.println("));
                    b.push(Tok::Call(j, cargs, rargs));
                    b.push(s(");\n"));
                }
            }
        }
    }
    if extra_arr {
        push(&mut b, "    core.println(a2[1]);\n");
    }
    if extra_opt {
        push(&mut b, "    core.println(o);\n");
    }
    if varargs {
        push(&mut b, "    {\n        i : usize = 0;\n        while i < xs.len { core.println(xs[i]); i += 1; }\n        core.println(xs.len);\n    }\n");
    }
    // result
    let ret = match rng.below(6) {
        0 => {
            push(&mut b, "    core.meta.size_of($T)\n");
            vec![s("usize")]
        }
        1 => {
            features.push("header:->?T");
            if has_n {
                push(&mut b, "    ro : ?$T = nil;\n    if $n > 1 { ro = x; }\n    ro\n");
            } else {
                push(&mut b, "    x\n");
            }
            pat("?$T", ti, ni, ki)
        }
        2 => {
            features.push("header:->[2]T");
            push(&mut b, "    rr := $T.[x, x];\n    rr\n");
            pat("[2]$T", ti, ni, ki)
        }
        3 => vec![],
        _ => {
            push(&mut b, "    x\n");
            pat("$T", ti, ni, ki)
        }
    };
    (GFn { name, file, params, ret, body: b, tyfn: false }, Shape { int_class, has_n, has_k })
}

// ---- rendering ------------------------------------------------------------------------------

fn call_args_in_order(g: &GFn, cargs: Vec<String>, rargs: Vec<String>, with_comptime: bool) -> String {
    let mut out: Vec<String> = vec![];
    let mut ci = cargs.into_iter();
    let mut ri = rargs.into_iter();
    for p in &g.params {
        match p {
            Param::C { .. } => {
                if let Some(c) = ci.next() {
                    if with_comptime {
                        out.push(c);
                    }
                }
            }
            Param::R { varargs: false, .. } => {
                if let Some(r) = ri.next() {
                    out.push(r);
                }
            }
            Param::R { varargs: true, .. } => {
                for r in ri.by_ref() {
                    out.push(r);
                }
            }
        }
    }
    out.join(", ")
}

/// the generic program: parameters by name
fn render_g(toks: &[Tok], fns: &[GFn], cnames: &[String], file: usize) -> String {
    let mut out = String::new();
    for t in toks {
        match t {
            Tok::S(x) => out.push_str(x),
            Tok::GM(g, _) => out.push_str(g),
            Tok::Ty(i) | Tok::Len(i) | Tok::Val(i) => out.push_str(&cnames[*i]),
            Tok::Call(f, cargs, rargs) => {
                let g = &fns[*f];
                if g.file == 1 && file == 0 {
                    out.push_str("lib.");
                }
                out.push_str(&g.name);
                out.push('(');
                let c = cargs.iter().map(|a| render_g(a, fns, cnames, file)).collect();
                let r = rargs.iter().map(|a| render_g(a, fns, cnames, file)).collect();
                out.push_str(&call_args_in_order(g, c, r, true));
                out.push(')');
            }
        }
    }
    out
}

#[derive(Default)]
struct Instances {
    index: BTreeMap<(usize, Vec<String>), usize>,
    order: Vec<(usize, Vec<String>)>,
}

fn int_ty_of(kind: &CKind, sigma: &[String]) -> String {
    match kind {
        CKind::Int(t) => t.clone(),
        CKind::IntOf(j) => sigma[*j].clone(),
        CKind::Type => "type".into(),
    }
}

/// the copy: parameters replaced by the arguments `sigma` (of the enclosing instance), generic
/// calls replaced by calls of the callee's copy for the (now closed) comptime arguments
fn render_m(toks: &[Tok], fns: &[GFn], sigma: &[String], kinds: &[CKind], insts: &mut Instances) -> String {
    let mut out = String::new();
    for (pos, t) in toks.iter().enumerate() {
        match t {
            Tok::S(x) => out.push_str(x),
            Tok::GM(_, m) => out.push_str(m),
            Tok::Ty(i) => {
                // `[2]u8.[..]` would parse as `[2](u8.[..])`: a substituted array type used as the
                // head of a literal / cast is parenthesised
                let head = matches!(toks.get(pos + 1), Some(Tok::S(n)) if n.starts_with(".[") || n.starts_with(".("));
                if head && sigma[*i].starts_with('[') {
                    out.push_str(&format!("({})", sigma[*i]));
                } else {
                    out.push_str(&sigma[*i]);
                }
            }
            Tok::Len(i) => out.push_str(&sigma[*i]),
            Tok::Val(i) => out.push_str(&format!("{}.({})", int_ty_of(&kinds[*i], sigma), sigma[*i])),
            Tok::Call(f, cargs, rargs) => {
                let g = &fns[*f];
                // comptime arguments denote closed types / constants: as arguments they are bare
                let c: Vec<String> = cargs
                    .iter()
                    .map(|a| {
                        let bare: Vec<Tok> = a.iter().map(|t| if let Tok::Val(i) = t { Tok::Len(*i) } else { t.clone() }).collect();
                        render_m(&bare, fns, sigma, kinds, insts)
                    })
                    .collect();
                let r: Vec<String> = rargs.iter().map(|a| render_m(a, fns, sigma, kinds, insts)).collect();
                let key = (*f, c.clone());
                let idx = match insts.index.get(&key) {
                    Some(i) => *i,
                    None => {
                        let i = insts.order.len();
                        insts.index.insert(key.clone(), i);
                        insts.order.push(key);
                        i
                    }
                };
                out.push_str(&format!("{}_m{}(", g.name, idx));
                out.push_str(&call_args_in_order(g, c, r, false));
                out.push(')');
            }
        }
    }
    out
}

fn gfn_source(g: &GFn, fns: &[GFn]) -> String {
    let cnames: Vec<String> = g.cparams().iter().map(|c| c.0.clone()).collect();
    let params: Vec<String> = g
        .params
        .iter()
        .map(|p| match p {
            Param::C { name, kind } => match kind {
                CKind::Type => format!("comptime {name}: type"),
                CKind::Int(t) => format!("comptime {name}: {t}"),
                CKind::IntOf(j) => format!("comptime {name}: {}", cnames[*j]),
            },
            Param::R { name, ty, varargs } => format!("{name}: {}{}", if *varargs { "..." } else { "" }, render_g(ty, fns, &cnames, g.file)),
        })
        .collect();
    let ret = if g.tyfn {
        " -> type".to_string()
    } else if g.ret.is_empty() {
        String::new()
    } else {
        format!(" -> {}", render_g(&g.ret, fns, &cnames, g.file))
    };
    format!("{} :: ({}){} {{\n{}}}\n\n", g.name, params.join(", "), ret, render_g(&g.body, fns, &cnames, g.file))
}

pub fn case_b_sources(c: &CaseB) -> (Vec<(String, String)>, Vec<(String, String)>, usize) {
    let head = "core :: #mod(\"core\");\nlib :: #import(\"lib.capy\");\n\n";
    // G
    let mut gm = String::from(head);
    gm.push_str(MAIN_TYPES);
    gm.push('\n');
    let mut gl = String::from("core :: #mod(\"core\");\n\n");
    gl.push_str(LIB_TYPES);
    gl.push('\n');
    for g in &c.fns {
        if g.file == 0 {
            gm.push_str(&gfn_source(g, &c.fns));
        } else {
            gl.push_str(&gfn_source(g, &c.fns));
        }
    }
    gm.push_str(&format!("main :: () {{\n{}}}\n", render_g(&c.main, &c.fns, &[], 0)));
    // M
    let mut insts = Instances::default();
    let main_m = render_m(&c.main, &c.fns, &[], &[], &mut insts);
    let mut copies = String::new();
    let mut i = 0;
    while i < insts.order.len() {
        let (f, sigma) = insts.order[i].clone();
        let g = &c.fns[f];
        let kinds: Vec<CKind> = g.cparams().iter().map(|c| c.1.clone()).collect();
        if g.tyfn {
            let body = render_m(&g.body, &c.fns, &sigma, &kinds, &mut insts);
            copies.push_str(&format!("{}_m{} :: {};\n\n", g.name, i, body.trim()));
        } else {
            let params: Vec<String> = g
                .params
                .iter()
                .filter_map(|p| match p {
                    Param::C { .. } => None,
                    Param::R { name, ty, varargs } => {
                        Some(format!("{name}: {}{}", if *varargs { "..." } else { "" }, render_m(ty, &c.fns, &sigma, &kinds, &mut insts)))
                    }
                })
                .collect();
            let ret = if g.ret.is_empty() { String::new() } else { format!(" -> {}", render_m(&g.ret, &c.fns, &sigma, &kinds, &mut insts)) };
            let body = render_m(&g.body, &c.fns, &sigma, &kinds, &mut insts);
            copies.push_str(&format!("{}_m{} :: ({}){} {{\n{}}}\n\n", g.name, i, params.join(", "), ret, body));
        }
        i += 1;
    }
    let mut mm = String::from(head);
    mm.push_str(MAIN_TYPES);
    mm.push('\n');
    mm.push_str(&copies);
    mm.push_str(&format!("main :: () {{\n{}}}\n", main_m));
    let ml = format!("core :: #mod(\"core\");\n\n{}\n", LIB_TYPES);
    (
        vec![("main.capy".into(), gm), ("lib.capy".into(), gl)],
        vec![("main.capy".into(), mm), ("lib.capy".into(), ml)],
        insts.order.len(),
    )
}

pub fn gen_case_b(rng: &mut Rng) -> CaseB {
    let mut features: Vec<&'static str> = vec![];
    let nf = 1 + rng.below(3) as usize;
    let mut built: Vec<(GFn, Shape)> = vec![];
    for i in 0..nf {
        let g = gen_gfn(i, &built, rng, &mut features);
        built.push(g);
    }
    // call plan
    struct Plan {
        f: usize,
        cargs: Vec<CArg>,
        rargs: Vec<String>,
    }
    let mut plans: Vec<Plan> = vec![];
    for (f, (g, sh)) in built.iter().enumerate() {
        let ninst = 1 + rng.below(4) as usize;
        let mut sets: Vec<(Vec<CArg>, Vec<String>)> = vec![];
        for _ in 0..ninst {
            // comptime arguments
            let pool: Vec<&TyArg> = TY_ARGS.iter().filter(|t| t.int || !sh.int_class).collect();
            let t = (*rng.pick(&pool)).clone();
            let mut cargs = vec![CArg { g: t.g.into(), m: t.m.into() }];
            for (_, kind) in g.cparams().iter().skip(1) {
                match kind {
                    CKind::Int(ty) if ty == "usize" && rng.chance(1, 4) => {
                        if rng.chance(1, 2) {
                            cargs.push(CArg { g: "GK".into(), m: "3".into() })
                        } else {
                            cargs.push(CArg { g: "LK".into(), m: "2".into() })
                        }
                    }
                    _ => {
                        let v = 1 + rng.below(if matches!(kind, CKind::Int(t) if t == "usize") { 4 } else { 100 });
                        cargs.push(CArg { g: v.to_string(), m: v.to_string() })
                    }
                }
            }
            if t.local_alias {
                features.push("type-arg:local-alias");
            }
            if t.g == "CT" {
                features.push("type-arg:comptime-computed-global");
            }
            if t.g.starts_with("lib.") || t.g.starts_with('S') || t.g.starts_with('D') {
                features.push("type-arg:struct-or-distinct");
            }
            if t.g.starts_with('[') {
                features.push("type-arg:array");
            }
            // run-time arguments (resolved spelling: valid in both programs)
            let mut rargs = vec![];
            for p in &g.params {
                if let Param::R { name, varargs, .. } = p {
                    if *varargs {
                        for _ in 0..rng.below(4) {
                            rargs.push(value_text(t.m, rng));
                        }
                        continue;
                    }
                    rargs.push(match name.as_str() {
                        "w" => value_text("i32", rng),
                        "a2" => format!("{}.[{}, {}]", if t.m.starts_with('[') { format!("({})", t.m) } else { t.m.to_string() }, value_text(t.m, rng), value_text(t.m, rng)),
                        "o" => {
                            if rng.chance(1, 3) {
                                "nil".into()
                            } else {
                                value_text(t.m, rng)
                            }
                        }
                        _ => value_text(t.m, rng),
                    });
                }
            }
            // sometimes exactly the same arguments again, sometimes the same instance with other run-time arguments
            if !sets.is_empty() && rng.chance(1, 4) {
                let prev = rng.pick(&sets).clone();
                sets.push(prev);
            } else {
                sets.push((cargs, rargs));
            }
        }
        for (cargs, rargs) in sets {
            let times = 1 + rng.below(2);
            for _ in 0..times {
                plans.push(Plan { f, cargs: cargs.clone(), rargs: rargs.clone() });
            }
        }
    }
    for i in (1..plans.len()).rev() {
        let j = rng.below(i as u64 + 1) as usize;
        plans.swap(i, j);
    }
    let fns: Vec<GFn> = built.into_iter().map(|b| b.0).collect();
    if fns.iter().any(|g| g.file == 1) {
        features.push("generic-in-other-file");
    }
    let mut main = vec![s("    A0 :: u8;\n    LK : usize : 2;\n")];
    let mut call_keys = vec![];
    for (k, p) in plans.iter().enumerate() {
        main.push(Tok::S(format!("    core.println(\"@{k}\");\n")));
        let call = Tok::Call(
            p.f,
            p.cargs.iter().map(|c| vec![Tok::GM(c.g.clone(), c.m.clone())]).collect(),
            p.rargs.iter().map(|r| vec![Tok::S(r.clone())]).collect(),
        );
        if fns[p.f].ret.is_empty() {
            main.push(s("    "));
            main.push(call);
            main.push(s(";\n"));
        } else {
            main.push(s("    core.println("));
            main.push(call);
            main.push(s(");\n"));
        }
        call_keys.push(format!("{}|{}|{}", p.f, p.cargs.iter().map(|c| c.m.clone()).collect::<Vec<_>>().join(","), p.rargs.join(",")));
    }
    features.sort();
    features.dedup();
    CaseB { fns, main, features, ncalls: plans.len(), call_keys, expect_label: None }
}

// ---- corpus: fixed pairs (regressions, forms the random generator avoids) ---------------------

pub struct RawCase {
    pub name: &'static str,
    pub g: &'static str,
    pub m: &'static str,
    /// lib.capy of the generic program / of the copy program ("" = single file)
    pub glib: &'static str,
    pub mlib: &'static str,
    /// the pinned compiler is known to crash on the generic program: finding label
    pub expect_label: Option<&'static str>,
}

pub const CORPUS: &[RawCase] = &[
    RawCase {
        name: "array-length-from-comptime-param-in-parameter-type",
        g: "sum :: (comptime N: usize, a: [N]i32) -> i32 {\n    s : i32 = 0;\n    i : usize = 0;\n    while i < N { s += a[i]; i += 1; }\n    s\n}\nmain :: () {\n    core.println(sum(3, i32.[1, 2, 3]));\n    core.println(sum(2, i32.[10, 20]));\n}\n",
        m: "sum_m0 :: (a: [3]i32) -> i32 {\n    s : i32 = 0;\n    i : usize = 0;\n    while i < usize.(3) { s += a[i]; i += 1; }\n    s\n}\nsum_m1 :: (a: [2]i32) -> i32 {\n    s : i32 = 0;\n    i : usize = 0;\n    while i < usize.(2) { s += a[i]; i += 1; }\n    s\n}\nmain :: () {\n    core.println(sum_m0(i32.[1, 2, 3]));\n    core.println(sum_m1(i32.[10, 20]));\n}\n",
        glib: "",
        mlib: "",
        expect_label: Some("inline-array-length-in-header"),
    },
    RawCase {
        name: "array-length-from-comptime-param-in-return-type",
        g: "mk :: (comptime T: type, comptime N: usize, v: T) -> [N]T {\n    r : [N]T;\n    i : usize = 0;\n    while i < N { r[i] = v; i += 1; }\n    r\n}\nmain :: () {\n    core.println(mk(u16, 3, 9));\n}\n",
        m: "mk_m0 :: (v: u16) -> [3]u16 {\n    r : [3]u16;\n    i : usize = 0;\n    while i < usize.(3) { r[i] = v; i += 1; }\n    r\n}\nmain :: () {\n    core.println(mk_m0(9));\n}\n",
        glib: "",
        mlib: "",
        expect_label: Some("inline-array-length-in-header"),
    },
    RawCase {
        name: "comptime-block-as-comptime-argument",
        g: "scale :: (comptime K: i32, x: i32) -> i32 { x * K }\nmain :: () {\n    core.println(scale(comptime { i32.(3) + 4 }, 6));\n}\n",
        m: "scale_m0 :: (x: i32) -> i32 { x * i32.(7) }\nmain :: () {\n    core.println(scale_m0(6));\n}\n",
        glib: "",
        mlib: "",
        expect_label: Some("comptime-block-as-comptime-argument"),
    },
    RawCase {
        name: "global-constant-computed-by-comptime-block-as-comptime-argument",
        g: "scale :: (comptime K: i32, x: i32) -> i32 { x * K }\nQ : i32 : comptime { 3 + 4 };\nmain :: () {\n    core.println(scale(Q, 6));\n}\n",
        m: "scale_m0 :: (x: i32) -> i32 { x * i32.(7) }\nmain :: () {\n    core.println(scale_m0(6));\n}\n",
        glib: "",
        mlib: "",
        expect_label: Some("comptime-block-as-comptime-argument"),
    },
    RawCase {
        name: "comptime-call-as-type-argument",
        g: "add :: (comptime T: type, l: T, r: T) -> T { l + r }\ngetT :: () -> type { i64 }\nmain :: () {\n    core.println(add(comptime getT(), 1, 2));\n}\n",
        m: "add_m0 :: (l: i64, r: i64) -> i64 { l + r }\nmain :: () {\n    core.println(add_m0(1, 2));\n}\n",
        glib: "",
        mlib: "",
        expect_label: Some("comptime-block-as-comptime-argument"),
    },
    RawCase {
        name: "local-generic-lambda",
        g: "main :: () {\n    add :: (comptime T: type, l: T, r: T) -> T { l + r };\n    core.println(add(i32, 1, 2));\n    core.println(add(u8, 255, 2));\n}\n",
        m: "main :: () {\n    add_m0 :: (l: i32, r: i32) -> i32 { l + r };\n    add_m1 :: (l: u8, r: u8) -> u8 { l + r };\n    core.println(add_m0(1, 2));\n    core.println(add_m1(255, 2));\n}\n",
        glib: "",
        mlib: "",
        expect_label: Some("local-generic-lambda"),
    },
    RawCase {
        name: "local-generic-lambda-single-instance",
        g: "main :: () {\n    add :: (comptime T: type, l: T, r: T) -> T { l + r };\n    core.println(add(i32, 1, 2));\n}\n",
        m: "main :: () {\n    add_m0 :: (l: i32, r: i32) -> i32 { l + r };\n    core.println(add_m0(1, 2));\n}\n",
        glib: "",
        mlib: "",
        expect_label: Some("local-generic-lambda"),
    },
    // type-returning generics, several instantiations with equal and different arguments
    RawCase {
        name: "type-function-instances",
        g: "Vec :: (comptime T: type, comptime N: usize) -> type { struct { buf: [N]T, len: usize } }\npush :: (comptime V: type, comptime T: type, v: ^mut V, x: T) { v.buf[v.len] = x; v.len += 1; }\nmain :: () {\n    A :: comptime Vec(i32, 3);\n    B :: comptime Vec(u8, 5);\n    C :: comptime Vec(i32, 3);\n    a : A;\n    b : B;\n    c : C;\n    push(A, i32, ^mut a, 4);\n    push(B, u8, ^mut b, 5);\n    push(C, i32, ^mut c, 6);\n    push(A, i32, ^mut a, 7);\n    core.println(a);\n    core.println(b);\n    core.println(c);\n    core.println(core.meta.size_of(A));\n    core.println(core.meta.size_of(B));\n}\n",
        m: "Vec_m0 :: struct { buf: [3]i32, len: usize };\nVec_m1 :: struct { buf: [5]u8, len: usize };\npush_m0 :: (v: ^mut Vec_m0, x: i32) { v.buf[v.len] = x; v.len += 1; }\npush_m1 :: (v: ^mut Vec_m1, x: u8) { v.buf[v.len] = x; v.len += 1; }\nmain :: () {\n    a : Vec_m0;\n    b : Vec_m1;\n    c : Vec_m0;\n    push_m0(^mut a, 4);\n    push_m1(^mut b, 5);\n    push_m0(^mut c, 6);\n    push_m0(^mut a, 7);\n    core.println(a);\n    core.println(b);\n    core.println(c);\n    core.println(core.meta.size_of(Vec_m0));\n    core.println(core.meta.size_of(Vec_m1));\n}\n",
        glib: "",
        mlib: "",
        expect_label: None,
    },
    RawCase {
        name: "wide-integer-arguments",
        g: "id64 :: (comptime L: i64) -> i64 { L }\nidu64 :: (comptime L: u64) -> u64 { L }\nsc :: (comptime K: u8, comptime L: i64, x: i64) -> i64 { x * L + i64.(K) }\nmain :: () {\n    core.println(id64(5000000000));\n    core.println(id64(4294967296));\n    core.println(id64(2147483648));\n    core.println(idu64(18446744073709551615));\n    core.println(sc(255, 5000000000, 6));\n    core.println(id64(5000000000));\n}\n",
        m: "id64_m0 :: () -> i64 { i64.(5000000000) }\nid64_m1 :: () -> i64 { i64.(4294967296) }\nid64_m2 :: () -> i64 { i64.(2147483648) }\nidu64_m0 :: () -> u64 { u64.(18446744073709551615) }\nsc_m0 :: (x: i64) -> i64 { x * i64.(5000000000) + i64.(u8.(255)) }\nmain :: () {\n    core.println(id64_m0());\n    core.println(id64_m1());\n    core.println(id64_m2());\n    core.println(idu64_m0());\n    core.println(sc_m0(6));\n    core.println(id64_m0());\n}\n",
        glib: "",
        mlib: "",
        expect_label: None,
    },
    RawCase {
        name: "comptime-param-typed-by-earlier-comptime-param-generic-in-other-file",
        g: "lib :: #import(\"lib.capy\");\nmain :: () {\n    core.println(lib.addk(i32, 5, 1));\n    core.println(lib.addk(u8, 250, 10));\n}\n",
        m: "addk_m0 :: (x: i32) -> i32 { x + i32.(5) }\naddk_m1 :: (x: u8) -> u8 { x + u8.(250) }\nmain :: () {\n    core.println(addk_m0(1));\n    core.println(addk_m1(10));\n}\n",
        glib: "addk :: (comptime T: type, comptime K: T, x: T) -> T { x + K }\n",
        mlib: "",
        expect_label: Some("comptime-param-typed-by-comptime-param-in-other-file"),
    },
    RawCase {
        // the second and third call used the first call's `T` for the type of `v` (stale meta type
        // of the header in the caller's area); visible only when the literals are of different kinds
        name: "comptime-param-typed-by-earlier-comptime-param-same-file-different-kinds",
        g: "pick :: (comptime T: type, comptime v: T) -> T { v }\nmain :: () {\n    core.println(pick(i32, 7));\n    core.println(pick(f64, 2.5));\n    core.println(pick(u8, 200));\n    core.println(pick(i32, 9));\n}\n",
        m: "pick_m0 :: () -> i32 { 7 }\npick_m1 :: () -> f64 { 2.5 }\npick_m2 :: () -> u8 { 200 }\npick_m3 :: () -> i32 { 9 }\nmain :: () {\n    core.println(pick_m0());\n    core.println(pick_m1());\n    core.println(pick_m2());\n    core.println(pick_m3());\n}\n",
        glib: "",
        mlib: "",
        expect_label: None,
    },
    RawCase {
        name: "comptime-param-typed-by-earlier-comptime-param-same-file",
        g: "addk :: (comptime T: type, comptime K: T, x: T) -> T { x + K }\nmain :: () {\n    core.println(addk(i32, 5, 1));\n    core.println(addk(u8, 250, 10));\n}\n",
        m: "addk_m0 :: (x: i32) -> i32 { x + i32.(5) }\naddk_m1 :: (x: u8) -> u8 { x + u8.(250) }\nmain :: () {\n    core.println(addk_m0(1));\n    core.println(addk_m1(10));\n}\n",
        glib: "",
        mlib: "",
        expect_label: None,
    },
];

fn corpus_programs() -> Vec<(E2eProgram, E2eProgram)> {
    let head = "core :: #mod(\"core\");\n\n";
    let mk = |main: &str, lib: &str| -> E2eProgram {
        if lib.is_empty() {
            E2eProgram::single(&format!("{head}{main}"))
        } else {
            E2eProgram { files: vec![("main.capy".into(), format!("{head}{main}")), ("lib.capy".into(), format!("{head}{lib}"))] }
        }
    };
    CORPUS.iter().map(|c| (mk(c.g, c.glib), mk(c.m, c.mlib))).collect()
}

// ---- comparison -----------------------------------------------------------------------------

fn first_panic(o: &e2e::Outcome) -> String {
    o.compile_out.lines().find(|l| l.contains("panicked at")).unwrap_or("").trim().to_string()
}

/// segments of stdout between the `@k` markers
fn segments(stdout: &str) -> BTreeMap<usize, String> {
    let mut m = BTreeMap::new();
    let mut cur: Option<usize> = None;
    for l in stdout.lines() {
        if let Some(k) = l.strip_prefix('@').and_then(|r| r.trim().parse::<usize>().ok()) {
            cur = Some(k);
            m.insert(k, String::new());
        } else if let Some(k) = cur {
            let e = m.get_mut(&k).unwrap();
            e.push_str(l);
            e.push(';');
        }
    }
    m
}

struct Verdict {
    label: Option<String>,
    got: String,
    want: String,
}

/// G against M (the oracle of the property)
fn compare_pair(g: &e2e::Outcome, m: &e2e::Outcome, expect_label: Option<&str>, rep: &mut Report) -> Verdict {
    let og = c01::observe(g);
    let om = c01::observe(m);
    if !m.built {
        if !g.built {
            rep.hit("pair:both-not-built(not compared)");
            if rep.notes.len() < 8 {
                rep.notes.push(format!("both programs of a pair were not built: G {} / M {}", og, om));
            }
            return Verdict { label: None, got: og, want: om };
        }
        return Verdict { label: Some("copy-rejected-generic-accepted".into()), got: og, want: om };
    }
    if !g.built {
        let label = if g.compile_timeout {
            "generic-program-compile-timeout".to_string()
        } else if g.compiler_panicked() {
            match expect_label {
                Some(l) => l.to_string(),
                None => "generic-program-crashes-compiler".to_string(),
            }
        } else {
            "generic-program-rejected-copy-accepted".to_string()
        };
        return Verdict { label: Some(label), got: format!("{og} {}", first_panic(g)), want: om };
    }
    if og != om {
        let label = if og.split('|').next() != om.split('|').next() { "exit-status-differs" } else { "output-differs" };
        return Verdict { label: Some(label.into()), got: og, want: om };
    }
    Verdict { label: None, got: og, want: om }
}

// =============================================================================================
// stream C: the instances the real hir_ty creates vs the instance-identity model
// =============================================================================================

#[derive(Clone, Debug)]
pub struct CaseC {
    pub src: String,
    /// expected number of generic call sites (caller instance x call expression), and for each
    /// callee name the number of named comptime parameters
    pub sites: usize,
    pub k_of: BTreeMap<String, usize>,
}

pub fn gen_case_c(rng: &mut Rng) -> CaseC {
    // generic j has k_j comptime parameters; generic j may call generic i < j once or twice
    let nf = 1 + rng.below(3) as usize;
    let mut src = String::new();
    let mut k_of = BTreeMap::new();
    let mut ks: Vec<usize> = vec![];
    // sites contributed by ONE instance of generic j (its own nested call expressions, recursively
    // counted below through the instances those calls create)
    let mut nested: Vec<Vec<usize>> = vec![];
    for j in 0..nf {
        let k = 1 + rng.below(3) as usize;
        ks.push(k);
        k_of.insert(format!("h{j}"), k);
        let mut params = vec!["comptime T: type".to_string()];
        for c in 1..k {
            params.push(if c == 1 { "comptime N: usize".to_string() } else { "comptime K: i32".to_string() });
        }
        params.push("x: T".into());
        let mut body = String::new();
        let mut calls = vec![];
        if j > 0 {
            for _ in 0..rng.below(3) {
                let i = rng.below(j as u64) as usize;
                let mut args = vec!["T".to_string()];
                for c in 1..ks[i] {
                    args.push(if c == 1 && k >= 2 && rng.chance(1, 2) { "N".into() } else { (1 + rng.below(5)).to_string() });
                }
                args.push("x".into());
                body.push_str(&format!("    h{i}({});\n", args.join(", ")));
                calls.push(i);
            }
        }
        nested.push(calls);
        src.push_str(&format!("h{j} :: ({}) -> T {{\n{body}    x\n}}\n\n", params.join(", ")));
    }
    // sites created by one instance of j = its call expressions + those of the instances they create
    let mut total_of: Vec<usize> = vec![0; nf];
    for j in 0..nf {
        total_of[j] = nested[j].iter().map(|i| 1 + total_of[*i]).sum();
    }
    let mut sites = 0;
    src.push_str("main :: () {\n");
    let ncalls = 1 + rng.below(5);
    let mut prev: Vec<String> = vec![];
    for _ in 0..ncalls {
        let line = if !prev.is_empty() && rng.chance(1, 3) {
            rng.pick(&prev).clone()
        } else {
            let j = rng.below(nf as u64) as usize;
            let t = *rng.pick(&["i32", "u8", "i64", "bool", "u16"]);
            let mut args = vec![t.to_string()];
            for _ in 1..ks[j] {
                args.push((1 + rng.below(4)).to_string());
            }
            args.push(if t == "bool" { "true".into() } else { rng.below(100).to_string() });
            format!("    h{j}({});\n", args.join(", "))
        };
        let j: usize = line.trim_start().trim_start_matches('h').split('(').next().unwrap().parse().unwrap();
        sites += 1 + total_of[j];
        prev.push(line.clone());
        src.push_str(&line);
    }
    src.push_str("}\n");
    CaseC { src, sites, k_of }
}

/// (callee name, raw_start, raw_end, symbol) of every generic instance in the type tables
fn real_instances(src: &str) -> Result<Vec<(String, u32, u32, String)>, String> {
    let src = src.to_string();
    crate::frontend::with_analysis(vec![("main.capy".into(), src)], Some("main".into()), false, |a| {
        if a.has_errors() {
            return Err(format!("diagnostics: {:?}", a.kinds()));
        }
        let mut v = vec![];
        for t in a.tys.all_tys() {
            if let hir::common::Ty::ConcreteFunction { fn_loc, .. } = t.as_ref() {
                if let Some(ca) = fn_loc.comptime_args() {
                    let name = fn_loc.to_naive().debug(a.interner);
                    let sym = codegen::verif::mangle_concrete(fn_loc.wrap(), std::path::Path::new(""), a.interner);
                    v.push((name, ca.raw_start(), ca.raw_end(), sym));
                }
            }
        }
        v.sort();
        v.dedup();
        Ok(v)
    })
    .and_then(|r| r)
}

fn run_stream_c(rep: &mut Report, rng: &mut Rng, n: usize) {
    let cases: Vec<CaseC> = (0..n).map(|_| gen_case_c(rng)).collect();
    let mut reqs = vec![];
    let mut reals = vec![];
    for c in &cases {
        let real = real_instances(&c.src);
        // the model is driven with the visits in the order the implementation allocated them
        let req = match &real {
            Ok(v) => {
                let mut byst: Vec<&(String, u32, u32, String)> = v.iter().collect();
                byst.sort_by_key(|x| x.1);
                let visits: Vec<String> = byst
                    .iter()
                    .enumerate()
                    .map(|(i, x)| {
                        let callee = x.0.rsplit(|ch| ch == ':' || ch == '#').next().unwrap_or("").to_string();
                        format!("{}:{}", i, c.k_of.get(&callee).copied().unwrap_or(99))
                    })
                    .collect();
                format!("C16 alloc {}", visits.join(" "))
            }
            Err(_) => "C16 alloc".to_string(),
        };
        reqs.push(req);
        reals.push(real);
    }
    let answers = lean::ask(&reqs);
    for ((c, real), model) in cases.iter().zip(reals.iter()).zip(answers.iter()) {
        let input = json!({"stream": "C", "generic": c.src, "copy": ""});
        match real {
            Err(e) => {
                rep.case(None);
                rep.hit("C:front-end-rejected-or-panicked");
                rep.oracle_fail("instances:front-end-failed", input, json!(e), json!("accepted"), "the in-process front end failed on a program of generic calls");
            }
            Ok(v) => {
                rep.case(if v.len() >= 2 { Some(c.src.clone()) } else { None });
                rep.hit(&format!("C:instances={}", v.len().min(12)));
                let mut byst: Vec<&(String, u32, u32, String)> = v.iter().collect();
                byst.sort_by_key(|x| x.1);
                let got = format!("{} len={}", byst.iter().map(|x| format!("{}-{}", x.1, x.2)).collect::<Vec<_>>().join(" "), byst.last().map(|x| x.2).unwrap_or(0));
                // model: contiguous fresh blocks of the callee's parameter count, in allocation order
                if model != "?" && &got != model {
                    rep.disagree(input.clone(), json!(got), json!(model));
                }
                rep.traces_validated += 1;
                // oracle 1: one instance per call site (caller instance x call expression)
                if v.len() != c.sites {
                    rep.oracle_fail("instances:count", input.clone(), json!(v.len()), json!(c.sites), "number of generic instances differs from the number of call sites");
                }
                // oracle 2: distinct instances have distinct symbols, and the symbol names the range
                let mut syms: Vec<&String> = v.iter().map(|x| &x.3).collect();
                syms.sort();
                let n0 = syms.len();
                syms.dedup();
                if syms.len() != n0 {
                    rep.oracle_fail("instances:symbol-collision", input.clone(), json!(v.iter().map(|x| x.3.clone()).collect::<Vec<_>>()), json!("pairwise distinct"), "two generic instances share a symbol");
                }
                for x in v {
                    if !x.3.contains(&format!("{}", x.1)) {
                        rep.oracle_fail("instances:symbol-without-range-id", input.clone(), json!(x.3), json!(x.1), "symbol of an instance does not contain its raw_start");
                    }
                }
            }
        }
    }
}

// ---- the run --------------------------------------------------------------------------------

pub fn run(tier: &str, seed: u64, widen: bool) -> Report {
    let mut rep = Report::new(
        "C16",
        "real capy CLI + built executables: program with generic (comptime-parameter) functions vs the same program with every generic call replaced by a call of a hand-substituted monomorphic copy (substitution done by the harness on its own AST); stream A additionally vs the Lean reference interpreter CapyV.Core.run on both programs; stream C: instances created by the real hir_ty vs the instance-identity model",
        "corpus of fixed pairs first; stream A: seeded CapyCore programs (0-3 helper functions; 1-3 integer parameters of the helpers made comptime, arguments = literals / global constants / the caller's own comptime parameter (nested generic call); each generic called 1-4 times from main with equal and different arguments, interleaved); stream B: 1-3 generic functions (T: type, N: usize, K: integer or K: T; headers x: T, [2]T, ?T, ...T varargs, -> T / ?T / [2]T; bodies using size/align/stride of T, [N]T, local struct of T, ?T, ^T, default values, arithmetic at T, loops over N; nested generic calls passing the caller's parameters; generics in lib.capy) instantiated 1-4 times each with types drawn from ints, bool, structs, distincts, arrays, aliases, comptime-computed types, called 1-2 times per argument set, interleaved; non-trivial = pair has >= 2 instances of some generic or a nested generic call; distinct by generic source text",
    );
    if !e2e::available() {
        rep.notes.push("capy CLI binary missing".into());
        return rep;
    }
    let mut rng = Rng::new(seed ^ 0xC16);
    let (na, nb) = if widen { (600, 900) } else if tier == "thorough" { (220, 330) } else { (24, 40) };

    // generate
    let mut cases_a: Vec<(CaseA, String, String)> = vec![];
    let mut guard = 0;
    while cases_a.len() < na && guard < na * 20 {
        guard += 1;
        if let Some(c) = gen_case_a(&mut rng) {
            let gs = g_source(&c, &mut rng);
            let ms = c.m.capy();
            cases_a.push((c, gs, ms));
        }
    }
    let cases_b: Vec<CaseB> = (0..nb).map(|_| gen_case_b(&mut rng)).collect();
    let srcs_b: Vec<(Vec<(String, String)>, Vec<(String, String)>, usize)> = cases_b.iter().map(case_b_sources).collect();
    let corpus = corpus_programs();

    // build + run everything in one pool: [corpus G,M ...][A G,M ...][B G,M ...]
    let mut progs: Vec<E2eProgram> = vec![];
    for (g, m) in &corpus {
        progs.push(g.clone());
        progs.push(m.clone());
    }
    for (_, gs, ms) in &cases_a {
        progs.push(E2eProgram::single(gs));
        progs.push(E2eProgram::single(ms));
    }
    for (g, m, _) in &srcs_b {
        progs.push(E2eProgram { files: g.clone() });
        progs.push(E2eProgram { files: m.clone() });
    }
    let limits = e2e::Limits { compile: std::time::Duration::from_secs(120), run: std::time::Duration::from_secs(20) };
    let outs = e2e::run_all(&progs, limits);
    let mut oi = 0;

    // corpus
    for (k, c) in CORPUS.iter().enumerate() {
        let (g, m) = (&outs[oi], &outs[oi + 1]);
        oi += 2;
        rep.case(Some(format!("corpus:{}", c.name)));
        rep.hit(&format!("corpus:{}", c.name));
        let v = compare_pair(g, m, c.expect_label, &mut rep);
        if let Some(l) = v.label {
            rep.oracle_fail(&l, json!({"stream": "corpus", "index": k, "name": c.name,
                "generic": if c.glib.is_empty() { c.g.to_string() } else { format!("// main.capy\ncore :: #mod(\"core\");\n\n{}\n// lib.capy\ncore :: #mod(\"core\");\n\n{}", c.g, c.glib) },
                "copy": c.m}), json!(v.got), json!(v.want),
                "the program with generic calls does not behave like the program with hand-substituted copies");
        } else if c.expect_label.is_some() {
            rep.notes.push(format!("corpus entry {} no longer fails (known finding fixed?)", c.name));
        }
    }

    // stream A
    let mut reqs = vec![];
    for (c, _, _) in &cases_a {
        reqs.push(format!("CORE run {FUEL} {}", c.g.sexp()));
        reqs.push(format!("CORE run {FUEL} {}", c.m.sexp()));
    }
    let answers = lean::ask(&reqs);
    for (k, (c, gs, ms)) in cases_a.iter().enumerate() {
        let (g, m) = (&outs[oi], &outs[oi + 1]);
        oi += 2;
        let nontrivial = c.max_inst_per_fn >= 2 || c.nested;
        rep.case(if nontrivial { Some(gs.clone()) } else { None });
        rep.hit(&format!("A:instances-of-one-generic={}", c.max_inst_per_fn.min(5)));
        rep.hit(&format!("A:comptime-params={}", c.cpos.iter().map(|p| p.len()).max().unwrap_or(0)));
        if c.nested {
            rep.hit("A:nested-generic-call");
        }
        let input = json!({"stream": "A", "generic": gs, "copy": ms});
        let v = compare_pair(g, m, None, &mut rep);
        if rep.evaluations % 17 == 1 {
            rep.sample(json!({"stream": "A", "generic": gs, "observed": v.got}));
        }
        let failed = v.label.is_some();
        if let Some(l) = v.label {
            rep.oracle_fail(&l, input.clone(), json!(v.got), json!(v.want), "the program with generic calls does not behave like the program with hand-substituted copies");
        }
        // the Lean reference: G (comptime parameters bound like parameters) and M (substituted)
        let (lg, lm) = (&answers[2 * k], &answers[2 * k + 1]);
        if lg == "?" || lm == "?" {
            continue;
        }
        let usable = |a: &str| !(a.starts_with("out-of-fuel") || a.starts_with("stuck") || a == "bad-op");
        if !usable(lg) || !usable(lm) {
            rep.hit("A:reference-not-comparable");
            if lg.starts_with("stuck") != lm.starts_with("stuck") {
                rep.disagree(input.clone(), json!(format!("reference(G)={lg}")), json!(format!("reference(M)={lm}")));
            }
            continue;
        }
        if lg != lm {
            // contradicts `subst_lemma`: the Lean model itself separates G and M
            rep.disagree(input.clone(), json!(format!("reference(G)={lg}")), json!(format!("reference(M)={lm}")));
            continue;
        }
        rep.traces_validated += 1;
        if !failed {
            if &v.got == lg {
                rep.hit("A:equals-lean-reference");
            } else {
                // G and M agree with each other but not with the reference: a C01-domain difference
                // (code generation of ordinary code), not a C16 violation — recorded, not raised
                rep.hit("A:both-differ-from-reference(C01-domain)");
                if rep.notes.iter().filter(|n| n.starts_with("C01-domain")).count() < 3 {
                    rep.notes.push(format!("C01-domain difference (generic and copy agree, reference differs): observed {} reference {}", v.got, lg));
                }
            }
        }
    }

    // stream B
    for (k, (c, (gsrc, msrc, ninst))) in cases_b.iter().zip(srcs_b.iter()).enumerate() {
        let (g, m) = (&outs[oi], &outs[oi + 1]);
        oi += 2;
        let _ = k;
        let gtext = format!("// main.capy\n{}\n// lib.capy\n{}", gsrc[0].1, gsrc[1].1);
        let mtext = format!("// main.capy\n{}\n// lib.capy\n{}", msrc[0].1, msrc[1].1);
        let nested = c.features.contains(&"nested-generic-call");
        rep.case(if *ninst >= 2 || nested { Some(gtext.clone()) } else { None });
        for f in &c.features {
            rep.hit(&format!("B:{f}"));
        }
        rep.hit(&format!("B:instances={}", (*ninst).min(8)));
        let input = json!({"stream": "B", "generic": gtext, "copy": mtext});
        // the one crash class of the pinned tree inside the generated space has its own label
        let kt_other_file = c.fns.iter().any(|f| f.file == 1 && f.params.iter().any(|p| matches!(p, Param::C { kind: CKind::IntOf(_), .. })));
        let v = compare_pair(g, m, if kt_other_file && g.compile_out.contains("index out of bounds") { Some("comptime-param-typed-by-comptime-param-in-other-file") } else { None }, &mut rep);
        if rep.evaluations % 13 == 1 {
            rep.sample(json!({"stream": "B", "generic": gtext, "observed": v.got}));
        }
        if let Some(l) = v.label {
            rep.oracle_fail(&l, input.clone(), json!(v.got), json!(v.want), "the program with generic calls does not behave like the program with hand-substituted copies");
            continue;
        }
        if !g.built {
            continue;
        }
        rep.traces_validated += 1;
        // calls with equal arguments behave identically (inside the generic program)
        let segs = segments(&g.stdout());
        let mut by_key: BTreeMap<&String, (usize, &String)> = BTreeMap::new();
        for (i, key) in c.call_keys.iter().enumerate() {
            if let Some(sg) = segs.get(&i) {
                if let Some((j, first)) = by_key.get(key) {
                    rep.hit("B:equal-argument-calls-compared");
                    if *first != sg {
                        rep.oracle_fail("equal-arguments-different-behaviour", input.clone(), json!(format!("call {j}: {first} / call {i}: {sg}")), json!("identical segments"),
                            "two calls with equal comptime and run-time arguments printed different output");
                    }
                } else {
                    by_key.insert(key, (i, sg));
                }
            }
        }
    }
    // stream C (in-process)
    let nc = if widen { 3000 } else if tier == "thorough" { 1200 } else { 150 };
    run_stream_c(&mut rep, &mut rng, nc);
    rep
}

pub fn replay(input: &serde_json::Value) -> String {
    let parse = |t: &str| -> E2eProgram {
        if let Some(rest) = t.strip_prefix("// main.capy\n") {
            let mut it = rest.splitn(2, "\n// lib.capy\n");
            let main = it.next().unwrap_or("").to_string();
            let lib = it.next().unwrap_or("").to_string();
            E2eProgram { files: vec![("main.capy".into(), main), ("lib.capy".into(), lib)] }
        } else if t.starts_with("core ::") {
            E2eProgram::single(t)
        } else {
            E2eProgram::single(&format!("core :: #mod(\"core\");\n\n{t}"))
        }
    };
    let g = parse(input["generic"].as_str().unwrap_or(""));
    let m = parse(input["copy"].as_str().unwrap_or(""));
    let o = e2e::run_all(&[g, m], e2e::Limits::default());
    let (og, om) = (c01::observe(&o[0]), c01::observe(&o[1]));
    format!(
        "implementation (generic program): {og} {}\nspec (hand-substituted copies):    {om}\n{}",
        first_panic(&o[0]),
        if og == om { "equal" } else { "SPEC-MISMATCH" }
    )
}
