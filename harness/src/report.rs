//! Result of one harness run, printed as JSON on stdout (last line) for `check`.
use serde_json::{json, Value};
use std::collections::{BTreeMap, BTreeSet};

#[derive(Default)]
pub struct Report {
    pub property: String,
    pub stream: String,
    pub evaluations: u64,
    pub nontrivial: BTreeSet<String>,
    pub nontrivial_overflow: u64,
    pub rule: String,
    pub samples: Vec<Value>,
    pub exhaustive: bool,
    pub histogram: BTreeMap<String, u64>,
    /// model ≠ implementation (harmless rewrite or bug: triaged by `check`)
    pub model_disagreements: Vec<Value>,
    pub model_disagreement_count: u64,
    /// implementation ≠ the property's own oracle: a violation with its input
    pub oracle_failures: Vec<Value>,
    pub oracle_failure_count: u64,
    pub traces_validated: u64,
    pub notes: Vec<String>,
}

const MAX_KEEP: usize = 40;
const MAX_DISTINCT: usize = 2_000_000;

impl Report {
    pub fn new(property: &str, stream: &str, rule: &str) -> Self {
        Report {
            property: property.into(),
            stream: stream.into(),
            rule: rule.into(),
            ..Default::default()
        }
    }
    pub fn hit(&mut self, label: &str) {
        *self.histogram.entry(label.to_string()).or_insert(0) += 1;
    }
    /// Count a case; `key` identifies it for distinctness when it is non-trivial.
    pub fn case(&mut self, nontrivial_key: Option<String>) {
        self.evaluations += 1;
        if let Some(k) = nontrivial_key {
            if self.nontrivial.len() < MAX_DISTINCT {
                self.nontrivial.insert(k);
            } else {
                self.nontrivial_overflow += 1;
            }
        }
    }
    pub fn sample(&mut self, v: Value) {
        if self.samples.len() < 6 {
            self.samples.push(v);
        }
    }
    pub fn disagree(&mut self, input: Value, implementation: Value, model: Value) {
        if model == "?" {
            return; // oracle-only run (driver unavailable)
        }
        self.model_disagreement_count += 1;
        if self.model_disagreements.len() < MAX_KEEP {
            self.model_disagreements.push(json!({
                "input": input, "implementation": implementation, "model": model
            }));
        }
    }
    /// `label` is the model branch / call site the finding is keyed by.
    pub fn oracle_fail(&mut self, label: &str, input: Value, implementation: Value, spec: Value, what: &str) {
        self.oracle_failure_count += 1;
        self.hit(&format!("oracle-fail:{label}"));
        // keep at least one example per label
        let have = self.oracle_failures.iter().filter(|f| f["label"] == label).count();
        if have < 3 && self.oracle_failures.len() < 400 {
            self.oracle_failures.push(json!({
                "label": label, "input": input, "implementation": implementation,
                "spec": spec, "what": what
            }));
        }
    }
    /// Merge the JSON report of a child run (same property, other configuration).
    pub fn absorb(&mut self, child: &Value, prefix: &str) {
        self.evaluations += child["evaluations"].as_u64().unwrap_or(0);
        // distinct keys of the child are not available: count them through a marker set
        let n = child["distinct_nontrivial"].as_u64().unwrap_or(0);
        for k in 0..n {
            if self.nontrivial.len() < MAX_DISTINCT {
                self.nontrivial.insert(format!("{prefix}#{k}"));
            }
        }
        if let Some(h) = child["histogram"].as_object() {
            for (k, v) in h {
                *self.histogram.entry(k.clone()).or_insert(0) += v.as_u64().unwrap_or(0);
            }
        }
        self.model_disagreement_count += child["model_disagreement_count"].as_u64().unwrap_or(0);
        self.oracle_failure_count += child["oracle_failure_count"].as_u64().unwrap_or(0);
        self.traces_validated += child["traces_validated_against_impl"].as_u64().unwrap_or(0);
        for d in child["model_disagreements"].as_array().cloned().unwrap_or_default() {
            if self.model_disagreements.len() < MAX_KEEP {
                self.model_disagreements.push(d);
            }
        }
        for f in child["oracle_failures"].as_array().cloned().unwrap_or_default() {
            if self.oracle_failures.len() < 400 {
                self.oracle_failures.push(f);
            }
        }
        for s in child["samples"].as_array().cloned().unwrap_or_default() {
            self.sample(s);
        }
        for s in child["notes"].as_array().cloned().unwrap_or_default() {
            self.notes.push(s.as_str().unwrap_or("").to_string());
        }
    }

    pub fn to_json(&self) -> Value {
        json!({
            "property": self.property,
            "stream": self.stream,
            "evaluations": self.evaluations,
            "distinct_nontrivial": self.nontrivial.len() as u64,
            "distinct_overflow": self.nontrivial_overflow,
            "rule": self.rule,
            "samples": self.samples,
            "exhaustive": self.exhaustive,
            "histogram": self.histogram,
            "model_disagreements": self.model_disagreements,
            "model_disagreement_count": self.model_disagreement_count,
            "oracle_failures": self.oracle_failures,
            "oracle_failure_count": self.oracle_failure_count,
            "traces_validated_against_impl": self.traces_validated,
            "notes": self.notes,
        })
    }
}
