//! C14 — immutable data can never be modified.
//! Correspondence: the real `hir_ty` (in-process front end) on generated programs, one
//! function per assignment target, vs the Lean model `CapyV.Mutability.getMutability`
//! (pinned walk and fixed function) — verdict AND help kind; oracle: a place semantics
//! written here from the property text (root binding + pointer hops; writable ⇔ last hop is
//! `^mut`, or no hop and the root is a `:=` local), also cross-checked with the Lean spec.
use crate::frontend;
use crate::lean;
use crate::report::Report;
use crate::rng::Rng;
use serde_json::{json, Value};
use std::collections::{BTreeMap, BTreeSet};

// ---------------------------------------------------------------- types

#[derive(Clone, PartialEq, Eq, Hash, Debug, PartialOrd, Ord)]
pub enum Ty {
    Int,
    Ptr(bool, Box<Ty>),
    Arr(Box<Ty>),
    Opt(Box<Ty>),
    /// a struct with the single field `f` of this type
    Struct(Box<Ty>),
}

impl Ty {
    fn mangle(&self) -> String {
        match self {
            Ty::Int => "i".into(),
            Ty::Ptr(false, t) => format!("p{}", t.mangle()),
            Ty::Ptr(true, t) => format!("m{}", t.mangle()),
            Ty::Arr(t) => format!("a{}", t.mangle()),
            Ty::Opt(t) => format!("o{}", t.mangle()),
            Ty::Struct(t) => format!("s{}", t.mangle()),
        }
    }
    fn capy(&self) -> String {
        match self {
            Ty::Int => "i32".into(),
            Ty::Ptr(false, t) => format!("^{}", t.capy()),
            Ty::Ptr(true, t) => format!("^mut {}", t.capy()),
            Ty::Arr(t) => format!("[2]{}", t.capy()),
            Ty::Opt(t) => format!("?{}", t.capy()),
            Ty::Struct(t) => format!("S_{}", t.mangle()),
        }
    }
    /// struct ids for the Lean side: a stable number derived from the field type
    fn struct_id(&self) -> u64 {
        let mut h: u64 = 1469598103934665603;
        for b in self.mangle().bytes() {
            h = (h ^ b as u64).wrapping_mul(1099511628211);
        }
        h % 1_000_000
    }
    fn sexp(&self) -> String {
        match self {
            Ty::Int => "i".into(),
            Ty::Ptr(m, t) => format!("(p {} {})", *m as u8, t.sexp()),
            Ty::Arr(t) => format!("(a {})", t.sexp()),
            Ty::Opt(t) => format!("(o {})", t.sexp()),
            Ty::Struct(t) => format!("(s {})", t.struct_id()),
        }
    }
    fn pointer_free(&self) -> bool {
        match self {
            Ty::Int => true,
            Ty::Ptr(..) | Ty::Opt(_) => false,
            Ty::Arr(t) | Ty::Struct(t) => t.pointer_free(),
        }
    }
    fn depth(&self) -> usize {
        match self {
            Ty::Int => 0,
            Ty::Ptr(_, t) | Ty::Arr(t) | Ty::Opt(t) | Ty::Struct(t) => 1 + t.depth(),
        }
    }
    fn collect_structs(&self, out: &mut BTreeSet<Ty>) {
        match self {
            Ty::Int => {}
            Ty::Ptr(_, t) | Ty::Arr(t) | Ty::Opt(t) => t.collect_structs(out),
            Ty::Struct(t) => {
                t.collect_structs(out);
                out.insert(self.clone());
            }
        }
    }
}

fn b(t: Ty) -> Box<Ty> {
    Box::new(t)
}

/// all types with at most `d` constructors (no optional directly inside an optional)
fn types_upto(d: usize) -> Vec<Ty> {
    let mut levels: Vec<Vec<Ty>> = vec![vec![Ty::Int]];
    for k in 0..d {
        let mut next = vec![];
        for t in &levels[k] {
            next.push(Ty::Ptr(false, b(t.clone())));
            next.push(Ty::Ptr(true, b(t.clone())));
            next.push(Ty::Arr(b(t.clone())));
            next.push(Ty::Struct(b(t.clone())));
            if !matches!(t, Ty::Opt(_)) {
                next.push(Ty::Opt(b(t.clone())));
            }
        }
        levels.push(next);
    }
    levels.into_iter().flatten().collect()
}

// ---------------------------------------------------------------- PathLang (mirror of the Lean `Expr`)

#[derive(Clone, Debug, PartialEq, Eq, Hash)]
pub enum E {
    Lit,
    ArrayLit(Ty, Box<E>),
    StructLit(Ty, Box<E>),
    Ref(bool, Box<E>),
    Deref(Box<E>),
    Index(Box<E>),
    Block(Box<E>),
    Loc { mutable: bool, ty: Ty, annotate: bool, init: Option<Box<E>> },
    Param(Ty),
    Global(Ty),
    FileMember(Ty),
    Member(Box<E>, Ty),
    Call(Ty, Box<E>),
    Cast(Ty, Box<E>),
    Paren(Box<E>),
    Unwrap(Box<E>),
    If(Ty, Box<E>),
}

fn bx(e: E) -> Box<E> {
    Box::new(e)
}

/// what `e[i]` / `e.field` find below EVERY pointer level of `e`, and the mutability of each level
/// followed (outermost first)
fn peel(t: &Ty) -> (Ty, Vec<bool>) {
    let mut t = t.clone();
    let mut ms = vec![];
    while let Ty::Ptr(m, u) = t {
        ms.push(m);
        t = *u;
    }
    (t, ms)
}

pub fn type_of(e: &E) -> Option<Ty> {
    Some(match e {
        E::Lit => Ty::Int,
        E::ArrayLit(t, _) => Ty::Arr(b(t.clone())),
        E::StructLit(t, _) => t.clone(),
        E::Ref(m, e) => Ty::Ptr(*m, b(type_of(e)?)),
        E::Deref(e) => match type_of(e)? {
            Ty::Ptr(_, t) => *t,
            _ => return None,
        },
        E::Index(e) => match peel(&type_of(e)?).0 {
            Ty::Arr(t) => *t,
            _ => return None,
        },
        E::Block(e) | E::Paren(e) => type_of(e)?,
        E::Loc { ty, .. } | E::Param(ty) | E::Global(ty) | E::FileMember(ty) => ty.clone(),
        E::Member(prev, ty) => match peel(&type_of(prev)?).0 {
            Ty::Struct(f) if *f == *ty => ty.clone(),
            _ => return None,
        },
        E::Call(t, _) | E::Cast(t, _) | E::If(t, _) => t.clone(),
        E::Unwrap(e) => match type_of(e)? {
            Ty::Opt(t) => *t,
            _ => return None,
        },
    })
}

pub fn sexp(e: &E) -> String {
    match e {
        E::Lit => "(other i)".into(),
        E::ArrayLit(t, _) => format!("(al {})", t.sexp()),
        E::StructLit(t, _) => format!("(sl {})", t.sexp()),
        E::Ref(m, e) => format!("(ref {} {})", *m as u8, sexp(e)),
        E::Deref(e) => format!("(deref {})", sexp(e)),
        E::Index(e) => format!("(index {})", sexp(e)),
        E::Block(e) => format!("(block {})", sexp(e)),
        E::Loc { mutable, ty, init: Some(i), .. } => format!("(loc {} {} {})", *mutable as u8, ty.sexp(), sexp(i)),
        E::Loc { mutable, ty, init: None, .. } => format!("(locn {} {})", *mutable as u8, ty.sexp()),
        E::Param(t) => format!("(param {})", t.sexp()),
        E::Global(t) => format!("(global {})", t.sexp()),
        E::FileMember(t) => format!("(member (global f) {})", t.sexp()),
        E::Member(p, t) => format!("(member {} {})", sexp(p), t.sexp()),
        E::Call(t, _) => format!("(call {})", t.sexp()),
        E::Cast(t, _) => format!("(cast {})", t.sexp()),
        E::Paren(e) => format!("(paren {})", sexp(e)),
        E::Unwrap(e) => format!("(unwrap {})", sexp(e)),
        E::If(t, _) => format!("(other {})", t.sexp()),
    }
}

// ---------------------------------------------------------------- the oracle: place semantics from the property text

#[derive(Clone, Copy, Debug, PartialEq, Eq)]
enum Root {
    MutLocal,
    ImmLocal,
    Param,
    Global,
    Temp,
}

impl Root {
    fn name(self) -> &'static str {
        match self {
            Root::MutLocal => "mutLocal",
            Root::ImmLocal => "immLocal",
            Root::Param => "param",
            Root::Global => "global",
            Root::Temp => "temp",
        }
    }
}

/// (binding the path starts from, mutability of every pointer followed on the way)
fn place(e: &E) -> (Root, Vec<bool>) {
    let hop = |base: &E, m: bool| {
        let (r, mut h) = place(base);
        h.push(m);
        (r, h)
    };
    match e {
        E::Loc { mutable: true, .. } => (Root::MutLocal, vec![]),
        E::Loc { mutable: false, .. } => (Root::ImmLocal, vec![]),
        E::Param(_) => (Root::Param, vec![]),
        E::Global(_) | E::FileMember(_) => (Root::Global, vec![]),
        E::Deref(p) => match type_of(p) {
            Some(Ty::Ptr(m, _)) => hop(p, m),
            _ => place(p),
        },
        // fields and elements live where their container lives, unless the container is
        // reached through a pointer (auto-deref)
        E::Index(p) | E::Member(p, _) => match type_of(p) {
            Some(t) => {
                // one hop per pointer level (indexing and field access follow all of them)
                let (r, mut h) = place(p);
                h.extend(peel(&t).1);
                (r, h)
            }
            None => place(p),
        },
        E::Paren(p) | E::Unwrap(p) => place(p),
        // values, not places
        E::Lit | E::ArrayLit(..) | E::StructLit(..) | E::Ref(..) | E::Block(_) | E::Call(..) | E::Cast(..) | E::If(..) => {
            (Root::Temp, vec![])
        }
    }
}

/// 'w' writable, 'r' read-only, 'u' the property does not say (a temporary itself)
fn verdict(p: &(Root, Vec<bool>)) -> char {
    match p.1.last() {
        Some(true) => 'w',
        Some(false) => 'r',
        None => match p.0 {
            Root::MutLocal => 'w',
            Root::Temp => 'u',
            _ => 'r',
        },
    }
}

/// writable in every reading of the property: nothing immutable anywhere on the way
fn surely_writable(p: &(Root, Vec<bool>)) -> bool {
    p.1.iter().all(|m| *m) && (!p.1.is_empty() || p.0 == Root::MutLocal)
}

// ---------------------------------------------------------------- rendering to Capy source

#[derive(Default)]
struct FnCtx {
    decls: Vec<String>,
    params: Vec<(String, Ty)>,
    tys: BTreeSet<Ty>,
}

impl FnCtx {
    fn ty(&mut self, t: &Ty) -> String {
        self.tys.insert(t.clone());
        t.capy()
    }
}

fn render(e: &E, cx: &mut FnCtx) -> String {
    match e {
        E::Lit => "1".into(),
        E::ArrayLit(_, x) => {
            let s = render(x, cx);
            format!(".[{s}, {s}]")
        }
        E::StructLit(t, x) => {
            let s = render(x, cx);
            format!("{}.{{ f = {} }}", cx.ty(t), s)
        }
        E::Ref(true, x) => format!("^mut {}", render(x, cx)),
        E::Ref(false, x) => format!("^{}", render(x, cx)),
        E::Deref(x) => format!("{}^", render(x, cx)),
        E::Index(x) => format!("{}[1]", render(x, cx)),
        E::Block(x) => format!("{{ {} }}", render(x, cx)),
        E::Loc { mutable, ty, annotate, init } => {
            let init_s = init.as_ref().map(|i| render(i, cx));
            let name = format!("l{}", cx.decls.len());
            let tys = cx.ty(ty);
            let line = match (init_s, *annotate, *mutable) {
                (Some(i), true, true) => format!("{name} : {tys} = {i};"),
                (Some(i), true, false) => format!("{name} : {tys} : {i};"),
                (Some(i), false, true) => format!("{name} := {i};"),
                (Some(i), false, false) => format!("{name} :: {i};"),
                (None, _, _) => format!("{name} : {tys};"),
            };
            cx.decls.push(line);
            name
        }
        E::Param(t) => {
            let name = format!("a{}", cx.params.len());
            cx.ty(t);
            cx.params.push((name.clone(), t.clone()));
            name
        }
        E::Global(t) => {
            cx.ty(t);
            format!("g_{}", t.mangle())
        }
        E::FileMember(t) => format!("other.g_{}", t.mangle()),
        E::Member(p, _) => format!("{}.f", render(p, cx)),
        E::Call(t, x) => {
            let s = render(x, cx);
            cx.ty(t);
            format!("id_{}({})", t.mangle(), s)
        }
        E::Cast(t, x) => {
            let s = render(x, cx);
            format!("({}).({})", cx.ty(t), s)
        }
        E::Paren(x) => format!("({})", render(x, cx)),
        E::Unwrap(x) => format!("#unwrap({})", render(x, cx)),
        E::If(_, x) => {
            let s = render(x, cx);
            format!("if true {{ {s} }} else {{ {s} }}")
        }
    }
}

#[derive(Clone, Copy, Debug, PartialEq, Eq, Hash, PartialOrd, Ord)]
pub enum Op {
    Assign,
    Compound,
    RefMut,
    RefImm,
}

impl Op {
    fn name(self) -> &'static str {
        match self {
            Op::Assign => "assign",
            Op::Compound => "compound",
            Op::RefMut => "refmut",
            Op::RefImm => "ref",
        }
    }
}

#[derive(Clone, Debug)]
pub struct Case {
    pub target: E,
    pub op: Op,
}

/// operand of `^` / `^mut`: a name or something parenthesised (`^mut p^` is `(^mut p)^`)
fn ref_operand(e: E) -> E {
    match e {
        E::Loc { .. } | E::Param(_) | E::Global(_) | E::Paren(_) => e,
        other => E::Paren(bx(other)),
    }
}

/// the expression get_mutability is called on, for this case
fn walked(c: &Case) -> E {
    match c.op {
        Op::Assign | Op::Compound => c.target.clone(),
        Op::RefMut | Op::RefImm => ref_operand(c.target.clone()),
    }
}

struct Rendered {
    text: String,
    /// byte offset of the statement inside `text`
    stmt_at: usize,
    tys: BTreeSet<Ty>,
}

fn render_case(name: &str, c: &Case) -> Rendered {
    let mut cx = FnCtx::default();
    let w = walked(c);
    let t = render(&w, &mut cx);
    let stmt = match c.op {
        Op::Assign => format!("{t} = {t};"),
        Op::Compound => format!("{t} += 1;"),
        Op::RefMut => format!("^mut {t};"),
        Op::RefImm => format!("^{t};"),
    };
    let params = cx.params.iter().map(|(n, t)| format!("{n}: {}", t.capy())).collect::<Vec<_>>().join(", ");
    let mut text = format!("{name} :: ({params}) {{\n");
    for d in &cx.decls {
        text.push_str("    ");
        text.push_str(d);
        text.push('\n');
    }
    text.push_str("    ");
    let stmt_at = text.len();
    text.push_str(&stmt);
    text.push_str("\n}\n");
    Rendered { text, stmt_at, tys: cx.tys }
}

/// globals must be const, and `g : [2]i32 : ..` (array annotation on a global) panics in the
/// pinned front end, struct literals are not const: integers and (nested) arrays, unannotated
fn global_types() -> Vec<Ty> {
    vec![Ty::Int, Ty::Arr(b(Ty::Int)), Ty::Arr(b(Ty::Arr(b(Ty::Int))))]
}

fn other_file() -> String {
    let mut structs = BTreeSet::new();
    for t in global_types() {
        t.collect_structs(&mut structs);
    }
    let mut s = String::new();
    let mut v: Vec<&Ty> = structs.iter().collect();
    v.sort_by_key(|t| t.depth());
    for st in v {
        if let Ty::Struct(f) = st {
            s.push_str(&format!("{} :: struct {{ f: {} }};\n", st.capy(), f.capy()));
        }
    }
    for t in global_types() {
        let mut cx = FnCtx::default();
        let init = render(&canon(&t), &mut cx);
        s.push_str(&format!("g_{} :: {};\n", t.mangle(), init));
    }
    s
}

/// prelude of the main file for the types used by the cases in it
fn prelude(tys: &BTreeSet<Ty>, with_globals: bool) -> String {
    let mut all = tys.clone();
    if with_globals {
        all.extend(global_types());
    }
    let mut structs = BTreeSet::new();
    for t in &all {
        t.collect_structs(&mut structs);
    }
    let mut s = String::from("other :: #import(\"other.capy\");\n");
    let mut v: Vec<&Ty> = structs.iter().collect();
    v.sort_by_key(|t| t.depth());
    for st in v {
        if let Ty::Struct(f) = st {
            s.push_str(&format!("{} :: struct {{ f: {} }};\n", st.capy(), f.capy()));
        }
    }
    for t in &all {
        s.push_str(&format!("id_{} :: (v: {}) -> {} {{ v }}\n", t.mangle(), t.capy(), t.capy()));
    }
    if with_globals {
        for t in global_types() {
            let mut cx = FnCtx::default();
            let init = render(&canon(&t), &mut cx);
            s.push_str(&format!("g_{} :: {};\n", t.mangle(), init));
        }
    }
    s
}

// ---------------------------------------------------------------- generation

/// a value of type `t` built the obvious way (pointers point at fresh `:=` locals)
fn canon(t: &Ty) -> E {
    match t {
        Ty::Int => E::Lit,
        Ty::Ptr(m, u) => E::Ref(*m, bx(fresh_local(u, true))),
        Ty::Arr(u) => E::ArrayLit((**u).clone(), bx(canon(u))),
        Ty::Opt(u) => canon(u),
        Ty::Struct(u) => E::StructLit(t.clone(), bx(canon(u))),
    }
}

fn fresh_local(t: &Ty, mutable: bool) -> E {
    E::Loc { mutable, ty: t.clone(), annotate: true, init: Some(bx(canon(t))) }
}

fn has_default(t: &Ty) -> bool {
    match t {
        Ty::Int => true,
        Ty::Arr(u) | Ty::Struct(u) => has_default(u),
        Ty::Ptr(..) | Ty::Opt(_) => false,
    }
}

/// the roots of the property's quantifier for type `t`: `:=` / `::` locals (with the
/// initialiser shapes that matter to the walk), parameter, global (own file / other file)
fn core_roots(t: &Ty) -> Vec<E> {
    let mut v = vec![fresh_local(t, true), fresh_local(t, false), E::Param(t.clone())];
    if let Ty::Ptr(false, u) = t {
        // declared `^T`, initialised with `^mut ..`
        for mutable in [true, false] {
            v.push(E::Loc {
                mutable,
                ty: t.clone(),
                annotate: true,
                init: Some(bx(E::Ref(true, bx(fresh_local(u, true))))),
            });
        }
    }
    // a copy of a parameter / of a call result
    v.push(E::Loc { mutable: true, ty: t.clone(), annotate: false, init: Some(bx(E::Param(t.clone()))) });
    v.push(E::Loc { mutable: false, ty: t.clone(), annotate: true, init: Some(bx(E::Call(t.clone(), bx(canon(t))))) });
    if has_default(t) {
        v.push(E::Loc { mutable: true, ty: t.clone(), annotate: true, init: None });
    }
    if global_types().contains(t) {
        v.push(E::Global(t.clone()));
        v.push(E::FileMember(t.clone()));
    }
    v
}

/// value roots (temporaries)
fn temp_roots(t: &Ty) -> Vec<E> {
    let mut v = vec![
        E::Call(t.clone(), bx(canon(t))),
        E::Cast(t.clone(), bx(fresh_local(t, true))),
        E::Paren(bx(E::If(t.clone(), bx(fresh_local(t, false))))),
        E::Block(bx(fresh_local(t, true))),
    ];
    match t {
        Ty::Ptr(m, u) => v.push(E::Paren(bx(E::Ref(*m, bx(fresh_local(u, true)))))),
        Ty::Arr(_) | Ty::Struct(_) => v.push(canon(t)),
        _ => {}
    }
    v
}

#[derive(Clone, Copy, Debug, PartialEq, Eq)]
enum Step {
    Deref,
    Index,
    Member,
    Paren,
    Unwrap,
    // extended
    Block,
    Ref(bool),
    Bind { mutable: bool, annotate: bool, weaken: bool },
    Call,
    Cast,
    If,
}

const CORE_STEPS: [Step; 5] = [Step::Deref, Step::Index, Step::Member, Step::Paren, Step::Unwrap];

/// postfix operators need a base that is not a prefix expression
fn postfix_base(e: E) -> E {
    match e {
        E::Ref(..) | E::If(..) | E::Cast(..) => E::Paren(bx(e)),
        other => other,
    }
}

fn apply(step: Step, e: &E) -> Option<E> {
    let t = type_of(e)?;
    match step {
        Step::Deref => matches!(t, Ty::Ptr(..)).then(|| E::Deref(bx(postfix_base(e.clone())))),
        Step::Index => {
            let ok = matches!(peel(&t).0, Ty::Arr(_));
            ok.then(|| E::Index(bx(postfix_base(e.clone()))))
        }
        Step::Member => {
            let f = match peel(&t).0 {
                Ty::Struct(f) => Some((*f).clone()),
                _ => None,
            };
            f.map(|f| E::Member(bx(postfix_base(e.clone())), f))
        }
        Step::Paren => (!matches!(e, E::Paren(_))).then(|| E::Paren(bx(e.clone()))),
        Step::Unwrap => matches!(t, Ty::Opt(_)).then(|| E::Unwrap(bx(e.clone()))),
        Step::Block => Some(E::Block(bx(e.clone()))),
        Step::Ref(m) => Some(E::Ref(m, bx(ref_operand(e.clone())))),
        Step::Bind { mutable, annotate, weaken } => {
            let (ty, annotate) = match (&t, weaken) {
                (Ty::Ptr(true, u), true) => (Ty::Ptr(false, u.clone()), true),
                _ => (t.clone(), annotate || matches!(t, Ty::Opt(_))),
            };
            Some(E::Loc { mutable, ty, annotate, init: Some(bx(e.clone())) })
        }
        Step::Call => Some(E::Call(t.clone(), bx(e.clone()))),
        Step::Cast => Some(E::Cast(t.clone(), bx(e.clone()))),
        Step::If => Some(E::Paren(bx(E::If(t.clone(), bx(e.clone()))))),
    }
}

fn ops_for(e: &E) -> Vec<Op> {
    let mut v = vec![Op::Assign, Op::RefMut, Op::RefImm];
    if type_of(e) == Some(Ty::Int) {
        v.push(Op::Compound);
    }
    v
}

/// every chain of at most `len` core steps from every core root of every type of depth ≤ `d`
fn exhaustive_targets(d: usize, len: usize) -> Vec<E> {
    let mut out = vec![];
    for t in types_upto(d) {
        let mut level = core_roots(&t);
        for k in 0..=len {
            out.extend(level.iter().cloned());
            if k == len {
                break;
            }
            let mut next = vec![];
            for e in &level {
                for s in CORE_STEPS {
                    if let Some(n) = apply(s, e) {
                        next.push(n);
                    }
                }
            }
            level = next;
        }
    }
    out
}

fn random_ty(rng: &mut Rng, d: usize) -> Ty {
    if d == 0 || rng.chance(1, 6) {
        return Ty::Int;
    }
    let sub = random_ty(rng, d - 1);
    match rng.below(7) {
        0 | 1 => Ty::Ptr(false, b(sub)),
        2 | 3 => Ty::Ptr(true, b(sub)),
        4 => Ty::Arr(b(sub)),
        5 => Ty::Struct(b(sub)),
        _ => {
            if matches!(sub, Ty::Opt(_)) {
                Ty::Arr(b(sub))
            } else {
                Ty::Opt(b(sub))
            }
        }
    }
}

fn random_target(rng: &mut Rng, max_steps: usize) -> E {
    let t = random_ty(rng, 5);
    let mut roots = core_roots(&t);
    roots.extend(temp_roots(&t));
    let mut e = rng.pick(&roots).clone();
    let n = 1 + rng.below(max_steps as u64) as usize;
    for _ in 0..n {
        // prefer the steps that consume the type (they reach the interesting arms)
        let cands: Vec<Step> = if rng.chance(3, 5) {
            CORE_STEPS.to_vec()
        } else {
            vec![
                Step::Block,
                Step::Ref(false),
                Step::Ref(true),
                Step::Bind { mutable: true, annotate: false, weaken: false },
                Step::Bind { mutable: false, annotate: false, weaken: false },
                Step::Bind { mutable: true, annotate: true, weaken: false },
                Step::Bind { mutable: rng.chance(1, 2), annotate: true, weaken: true },
                Step::Call,
                Step::Cast,
                Step::If,
            ]
        };
        let mut opts: Vec<E> = cands.iter().filter_map(|s| apply(*s, &e)).collect();
        if opts.is_empty() {
            opts = CORE_STEPS.iter().chain([Step::Block, Step::Call].iter()).filter_map(|s| apply(*s, &e)).collect();
        }
        if opts.is_empty() {
            break;
        }
        e = rng.pick(&opts).clone();
    }
    e
}

// ---------------------------------------------------------------- running the real front end

#[derive(Clone, Debug, Default, PartialEq)]
pub struct Observed {
    /// `CannotMutate` at this statement / `MutableRefToImmutableData` at the statement's `^mut`
    rejected: bool,
    help: String,
    /// other diagnostics inside the function (the generated program is not well-typed)
    other: Vec<String>,
}

fn help_name(h: &Option<hir_ty::TyDiagnosticHelp>) -> String {
    match h {
        None => "-".into(),
        Some(h) => match &h.kind {
            hir_ty::TyDiagnosticHelpKind::ImmutableParam { assignment } => format!("ImmutableParam{}", *assignment as u8),
            k => {
                let s = format!("{:?}", k);
                s.split(|c: char| c == ' ' || c == '{' || c == '(').next().unwrap_or("").to_string()
            }
        },
    }
}

/// one analysis for a batch of cases; `Err` = the front end panicked
fn analyse(cases: &[Case]) -> Result<(Vec<Observed>, Vec<String>), String> {
    let mut bodies = vec![];
    let mut tys = BTreeSet::new();
    let mut uses_globals = false;
    for (i, c) in cases.iter().enumerate() {
        let r = render_case(&format!("t{i}"), c);
        tys.extend(r.tys.iter().cloned());
        uses_globals |= r.text.contains("g_");
        bodies.push(r);
    }
    let pre = prelude(&tys, uses_globals);
    let mut main = pre.clone();
    let mut spans = vec![];
    for r in &bodies {
        let start = main.len();
        main.push_str(&r.text);
        spans.push((start, main.len(), start + r.stmt_at));
    }
    let ops: Vec<Op> = cases.iter().map(|c| c.op).collect();
    let texts: Vec<String> = bodies.iter().map(|r| r.text.clone()).collect();
    let files = vec![("other.capy".to_string(), other_file()), ("main.capy".to_string(), main)];
    frontend::with_analysis(files, None, false, move |a| {
        let main_file = a.files.last().unwrap().0;
        let mut obs: Vec<Observed> = vec![Observed::default(); spans.len()];
        let mut stray = vec![];
        let head = |s: String| s.split(|c: char| c == ' ' || c == '{' || c == '(').next().unwrap_or("").to_string();
        for (f, e) in &a.syntax_errors {
            let _ = f;
            stray.push(format!("syntax:{:?}", e));
        }
        for (_, d) in &a.index_diags {
            stray.push(format!("index:{:?}", d.kind));
        }
        for (_, d) in &a.lowering_diags {
            stray.push(format!("lower:{:?}", d.kind));
        }
        for d in &a.ty_diags {
            let at: usize = u32::from(d.range.start()) as usize;
            let kind = head(format!("{:?}", d.kind));
            let idx = if d.file == main_file { spans.iter().position(|(s, e, _)| *s <= at && at < *e) } else { None };
            match idx {
                None => stray.push(format!("ty:{kind}@{at}")),
                Some(i) => {
                    let stmt_at = spans[i].2;
                    let mine = match ops[i] {
                        Op::Assign | Op::Compound => kind == "CannotMutate",
                        Op::RefMut | Op::RefImm => kind == "MutableRefToImmutableData" && at == stmt_at,
                    };
                    if mine && !obs[i].rejected {
                        obs[i].rejected = true;
                        obs[i].help = help_name(&d.help);
                    } else {
                        obs[i].other.push(kind);
                    }
                }
            }
        }
        let _ = &texts;
        (obs, stray)
    })
}

// ---------------------------------------------------------------- comparison

#[derive(Debug, Clone)]
struct ModelAns {
    wt: bool,
    old_a: String,
    old_r: String,
    new_a: String,
    new_r: String,
    place: String,
    verdict: char,
    sure: bool,
}

fn parse_model(line: &str) -> Option<ModelAns> {
    let mut m = BTreeMap::new();
    for part in line.split_whitespace() {
        let (k, v) = part.split_once('=')?;
        m.insert(k.to_string(), v.to_string());
    }
    Some(ModelAns {
        wt: m.get("wt")? == "1",
        old_a: m.get("old_a")?.clone(),
        old_r: m.get("old_r")?.clone(),
        new_a: m.get("new_a")?.clone(),
        new_r: m.get("new_r")?.clone(),
        place: m.get("place")?.clone(),
        verdict: m.get("verdict")?.chars().next()?,
        sure: m.get("sure")? == "1",
    })
}

/// leaf the target is built on (locals are leaves here): used in finding labels
fn head(e: &E) -> &'static str {
    match e {
        E::Deref(x) | E::Index(x) | E::Paren(x) | E::Unwrap(x) | E::Block(x) | E::Member(x, _) => head(x),
        E::Lit => "literal",
        E::ArrayLit(..) => "array-literal",
        E::StructLit(..) => "struct-literal",
        E::Ref(..) => "ref",
        E::Loc { .. } => "local",
        E::Param(_) => "param",
        E::Global(_) | E::FileMember(_) => "global",
        E::Call(..) => "call",
        E::Cast(..) => "cast",
        E::If(..) => "if",
    }
}

fn case_json(c: &Case) -> Value {
    let r = render_case("t0", c);
    let program = format!("{}{}", prelude(&r.tys, r.text.contains("g_")), r.text);
    json!({"op": c.op.name(), "expr": sexp(&walked(c)), "source": r.text, "program": program})
}

/// which version of `get_mutability` is in the tree under test? (`p : ^i32 = ^mut x; p^ = p^;`)
fn detect_fixed() -> Result<bool, String> {
    let x = fresh_local(&Ty::Int, true);
    let p = E::Loc { mutable: true, ty: Ty::Ptr(false, b(Ty::Int)), annotate: true, init: Some(bx(E::Ref(true, bx(x)))) };
    let c = Case { target: E::Deref(bx(p)), op: Op::Assign };
    let (obs, _) = analyse(&[c])?;
    Ok(obs[0].rejected)
}

struct Runner<'a> {
    rep: &'a mut Report,
    fixed: bool,
    seen: BTreeSet<String>,
}

impl<'a> Runner<'a> {
    fn run_batch(&mut self, cases: &[Case], answers: &[String], pre: Option<Result<(Vec<Observed>, Vec<String>), String>>) {
        let analysed = match pre {
            Some(a) => a,
            None => analyse(cases),
        };
        let observed = match analysed {
            Ok((o, stray)) => {
                if !stray.is_empty() {
                    self.rep.hit("stray-diagnostics-outside-cases");
                    if self.rep.notes.len() < 5 {
                        self.rep.notes.push(format!("diagnostics outside the case functions: {:?}", &stray[..stray.len().min(4)]));
                    }
                }
                o
            }
            Err(msg) => {
                if std::env::var("CVH_C14_VERBOSE").is_ok() {
                    eprintln!("C14: panic {} ({} cases)", msg, cases.len());
                    if cases.len() == 1 { eprintln!("{}", render_case("t0", &cases[0]).text); }
                }
                // find the culprit(s) one by one
                if cases.len() > 1 {
                    let mid = cases.len() / 2;
                    self.run_batch(&cases[..mid], &answers[..mid], None);
                    self.run_batch(&cases[mid..], &answers[mid..], None);
                } else {
                    self.rep.case(None);
                    self.rep.hit("front-end-panic");
                    self.rep.disagree(case_json(&cases[0]), json!(format!("PANIC {msg}")), json!(answers[0]));
                    self.rep.oracle_fail("front-end-panic", case_json(&cases[0]), json!(format!("PANIC {msg}")), json!("a verdict"), "the front end panicked on a generated target");
                }
                return;
            }
        };
        for ((c, o), ans) in cases.iter().zip(observed).zip(answers) {
            self.compare(c, &o, ans);
        }
    }

    fn compare(&mut self, c: &Case, o: &Observed, ans: &str) {
        let w = walked(c);
        let key = format!("{}:{}", c.op.name(), sexp(&w));
        let pl = place(&w);
        let v = verdict(&pl);
        let nontrivial = !pl.1.is_empty() || !matches!(w, E::Loc { .. } | E::Param(_) | E::Global(_));
        if !o.other.is_empty() {
            // not a well-typed program: outside the domain of the theorems
            self.rep.case(None);
            self.rep.hit(&format!("skipped-other-diagnostic:{}", o.other[0]));
            if self.rep.notes.len() < 8 {
                self.rep.notes.push(format!("generated case with other diagnostics {:?}: {}", o.other, render_case("t", c).text.replace('\n', " ")));
            }
            return;
        }
        let first = self.seen.insert(key.clone());
        self.rep.case(if nontrivial && first { Some(key) } else { None });
        self.rep.hit(&format!("{}:{}:hops{}:{}", c.op.name(), pl.0.name(), pl.1.len().min(3), if o.rejected { "rejected" } else { "accepted" }));
        if self.rep.evaluations % 3571 == 7 {
            self.rep.sample(json!({"case": case_json(c), "rejected": o.rejected, "help": o.help, "place": format!("{}:{:?}", pl.0.name(), pl.1), "verdict": v.to_string()}));
        }
        let imp = if o.rejected { o.help.clone() } else { "Mutable".to_string() };
        // 1. model vs implementation (verdict and help kind)
        match parse_model(ans) {
            None => {
                if ans != "?" {
                    self.rep.disagree(case_json(c), json!(imp), json!(ans));
                }
            }
            Some(m) => {
                let (old, new) = match c.op {
                    Op::Assign | Op::Compound => (&m.old_a, &m.new_a),
                    Op::RefMut | Op::RefImm => (&m.old_r, &m.new_r),
                };
                let model = if self.fixed { new } else { old };
                let imp_cmp = if c.op == Op::RefImm {
                    // `^e` never calls get_mutability: nothing may be reported
                    if o.rejected { imp.clone() } else { model.clone() }
                } else {
                    imp.clone()
                };
                if &imp_cmp != model {
                    self.rep.disagree(case_json(c), json!(imp), json!(format!("{} [{}]", model, if self.fixed { "fixed" } else { "pinned" })));
                }
                if !m.wt {
                    self.rep.disagree(case_json(c), json!("well-typed (no other diagnostic)"), json!("typeOf = none"));
                }
                // the oracle here and the Lean spec are the same function
                let here = format!("{}:{}", pl.0.name(), if pl.1.is_empty() { "-".to_string() } else { pl.1.iter().map(|b| if *b { '1' } else { '0' }).collect() });
                if here != m.place || v != m.verdict || surely_writable(&pl) != m.sure {
                    self.rep.disagree(case_json(c), json!(format!("oracle {here} {v}")), json!(format!("spec {} {}", m.place, m.verdict)));
                }
            }
        }
        // 2. implementation vs the property
        match c.op {
            Op::RefImm => {
                if o.rejected {
                    self.rep.oracle_fail("immutable-ref-rejected", case_json(c), json!(imp), json!("accepted"), "`^e` must always be allowed");
                }
            }
            _ => {
                let site = if matches!(c.op, Op::RefMut) { "mutref" } else { "assign" };
                if v == 'r' && !o.rejected {
                    let root = if pl.1.is_empty() { pl.0.name().to_string() } else { format!("through-immutable-pointer:{}", head(&w)) };
                    self.rep.oracle_fail(
                        &format!("accepted-readonly:{site}:{root}"),
                        case_json(c),
                        json!("accepted"),
                        json!(format!("rejected: place {}:{:?} is read-only", pl.0.name(), pl.1)),
                        "immutable data can be modified",
                    );
                }
                if surely_writable(&pl) && o.rejected {
                    self.rep.oracle_fail(
                        &format!("rejected-writable:{site}:{}", head(&w)),
                        case_json(c),
                        json!(format!("rejected ({})", o.help)),
                        json!(format!("accepted: place {}:{:?} is writable (only `^mut` pointers on the way)", pl.0.name(), pl.1)),
                        "a write to mutable data is refused",
                    );
                }
            }
        }
    }
}

pub fn run(tier: &str, seed: u64, widen: bool) -> Report {
    let mut rep = Report::new(
        "C14",
        "hir_ty (in-process front end, CannotMutate / MutableRefToImmutableData + help kind per generated function) vs Lean model CapyV.Mutability.getMutability and vs the place semantics",
        "targets = chains of {deref, index, field, paren, #unwrap} of length <= 4 over roots {:= local, :: local (canonical / `^mut` initialiser under a declared `^T` / copy of a parameter / copy of a call result / no initialiser), parameter, global, global of another file} for every type with <= 4 constructors over {^, ^mut, [2], ?, struct} (quick: all types with <= 2 constructors + seeded samples of 3000 / 2000 targets over types with 3 / 4; thorough: all types with <= 4, i.e. every chain), then seeded random targets (quick 4000, thorough 40000) of up to 4 (widen: 6) steps that also use blocks, ^/^mut of the path, locals bound to the path (annotated, inferred, weakened to ^T), calls, casts, if; each with plain assignment, compound assignment (i32 targets), ^mut and ^. Non-trivial = not a bare binding; distinct by (operation, target)",
    );
    let mut rng = Rng::new(seed);
    let fixed = match detect_fixed() {
        Ok(f) => f,
        Err(e) => {
            rep.notes.push(format!("probe program panicked: {e}"));
            false
        }
    };
    rep.notes.push(format!(
        "tree under test: {} (probe `p : ^i32 = ^mut x; p^ = p^;` is {})",
        if fixed { "fixed get_mutability (FIX.patch applied)" } else { "pinned get_mutability" },
        if fixed { "rejected" } else { "accepted" }
    ));
    rep.hit(if fixed { "tree:fixed" } else { "tree:pinned" });
    // the conversion side: pointer towers converted implicitly (theorems Props/C14Fit.lean)
    crate::c14_fit::run(&mut rep, tier, widen);
    let mut cases: Vec<Case> = vec![];
    let thorough = tier == "thorough" || widen;
    // exhaustive part
    let mut targets;
    if thorough {
        targets = exhaustive_targets(4, 4);
        rep.exhaustive = true;
    } else {
        targets = exhaustive_targets(2, 4);
        let d3: Vec<E> = exhaustive_targets(3, 4).into_iter().filter(|e| root_depth(e) == 3).collect();
        for _ in 0..3000 {
            targets.push(rng.pick(&d3).clone());
        }
        let d4: Vec<E> = exhaustive_targets(4, 4).into_iter().filter(|e| root_depth(e) == 4).collect();
        for _ in 0..2000 {
            targets.push(rng.pick(&d4).clone());
        }
    }
    for t in targets {
        for op in ops_for(&t) {
            cases.push(Case { target: t.clone(), op });
        }
    }
    // random part
    let n_random = if widen { 200_000 } else if thorough { 40_000 } else { 4_000 };
    let max_steps = if widen { 6 } else { 4 };
    for _ in 0..n_random {
        let t = random_target(&mut rng, max_steps);
        let ops = ops_for(&t);
        let op = *rng.pick(&ops);
        cases.push(Case { target: t, op });
    }
    let mut runner = Runner { rep: &mut rep, fixed, seen: BTreeSet::new() };
    let verbose = std::env::var("CVH_C14_VERBOSE").is_ok();
    if verbose {
        eprintln!("C14: {} cases; exhaustive targets d2={} d3={} d4={}", cases.len(), exhaustive_targets(2, 4).len(), exhaustive_targets(3, 4).len(), exhaustive_targets(4, 4).len());
    }
    let t0 = std::time::Instant::now();
    let mut answers: Vec<String> = Vec::with_capacity(cases.len());
    for chunk in cases.chunks(20_000) {
        let reqs: Vec<String> = chunk.iter().map(|c| format!("C14 gm {}", sexp(&walked(c)))).collect();
        answers.extend(lean::ask(&reqs));
    }
    if verbose {
        eprintln!("C14: lean answered at {:.1}s", t0.elapsed().as_secs_f64());
    }
    let par: usize = std::env::var("CVH_C14_PAR").ok().and_then(|s| s.parse().ok()).unwrap_or(6);
    let chunks: Vec<(&[Case], &[String])> = cases.chunks(250).zip(answers.chunks(250)).collect();
    for (i, group) in chunks.chunks(par).enumerate() {
        // the analyses of one group run concurrently (each on its own thread, as always)
        let analysed: Vec<Result<(Vec<Observed>, Vec<String>), String>> = std::thread::scope(|sc| {
            let hs: Vec<_> = group.iter().map(|(c, _)| sc.spawn(move || analyse(c))).collect();
            hs.into_iter().map(|h| h.join().unwrap_or_else(|_| Err("analysis thread died".into()))).collect()
        });
        for ((chunk, ans), a) in group.iter().zip(analysed) {
            runner.run_batch(chunk, ans, Some(a));
        }
        if verbose && i % 10 == 0 {
            eprintln!("C14: group {i} done at {:.1}s", t0.elapsed().as_secs_f64());
        }
    }
    rep
}

fn root_depth(e: &E) -> usize {
    match e {
        E::Deref(x) | E::Index(x) | E::Paren(x) | E::Unwrap(x) | E::Member(x, _) => root_depth(x),
        other => type_of(other).map(|t| t.depth()).unwrap_or(0),
    }
}

pub fn replay(input: &Value) -> String {
    let src = input["source"].as_str().unwrap_or("");
    let op = input["op"].as_str().unwrap_or("");
    let expr = input["expr"].as_str().unwrap_or("");
    let model = lean::ask(&[format!("C14 gm {expr}")]).pop().unwrap_or_default();
    let main = input["program"].as_str().unwrap_or(src).to_string();
    let files = vec![("other.capy".to_string(), other_file()), ("main.capy".to_string(), main)];
    let r = frontend::with_analysis(files, None, false, |a| a.kinds());
    let kinds = match r {
        Ok(k) => k,
        Err(e) => return format!("front end PANIC {e}\nSPEC-MISMATCH"),
    };
    let rejected = kinds.iter().any(|k| k == "ty:CannotMutate" || k == "ty:MutableRefToImmutableData");
    let m = parse_model(&model);
    let mut out = format!("{src}diagnostics: {kinds:?}\nmodel/spec: {model}\n");
    if let Some(m) = m {
        let bad = (m.verdict == 'r' && !rejected && op != "ref") || (m.sure && rejected) || (op == "ref" && rejected);
        if bad {
            out.push_str("SPEC-MISMATCH: the implementation's verdict contradicts the place semantics\n");
        } else {
            out.push_str("implementation agrees with the place semantics\n");
        }
    }
    out
}
