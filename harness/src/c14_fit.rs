//! C14, the conversion side: towers of pointers `^m0 ^m1 .. i32` (and slices of pointers) converted
//! implicitly — by an annotated definition, by passing an argument, by assigning to an existing
//! variable, by returning — to every other tower of the same height. The front end's verdict is
//! compared with `CapyV.Ty.canFitInto` (Lean, Model/TyRel.lean; theorems Props/C14Fit.lean:
//! `fit_no_gain`, `fit_invariant_below_top`, `no_const_cast_hole`) and with the soundness rule
//! itself: an accepted conversion never makes a level writable, and never changes a level below a
//! writable one (the `T** -> const T**` hole of seeded change C14_3).
use crate::frontend;
use crate::lean;
use crate::report::Report;
use crate::ty;
use serde_json::json;

#[derive(Clone, Debug)]
struct Tower {
    /// outermost first; `None` = a slice level `[]`, `Some(m)` = `^` / `^mut`
    levels: Vec<Option<bool>>,
}

impl Tower {
    fn capy(&self) -> String {
        let mut s = String::new();
        for l in &self.levels {
            s.push_str(match l {
                None => "[]",
                Some(true) => "^mut ",
                Some(false) => "^",
            });
        }
        s.push_str("i32");
        s
    }
    fn ty(&self) -> ty::T {
        let mut t = ty::i(32);
        for l in self.levels.iter().rev() {
            t = match l {
                None => ty::slice(t),
                Some(m) => ty::ptr(*m, t),
            };
        }
        t
    }
    /// may the data at level `i` be written through this type (every level above is writable)?
    /// A slice level is a writable view.
    fn writable(&self, i: usize) -> bool {
        self.levels[i].unwrap_or(true)
    }
}

fn towers(h: usize, with_slices: bool) -> Vec<Tower> {
    let opts: Vec<Option<bool>> = if with_slices { vec![Some(false), Some(true), None] } else { vec![Some(false), Some(true)] };
    let mut all: Vec<Vec<Option<bool>>> = vec![vec![]];
    for _ in 0..h {
        all = all.into_iter().flat_map(|v| opts.iter().map(move |o| { let mut w = v.clone(); w.push(*o); w })).collect();
    }
    all.into_iter().map(|levels| Tower { levels }).collect()
}

/// is the conversion `s -> d` (same height, same constructors up to mutability) unsound?
/// `Some(reason)` if accepting it lets immutable data be written.
fn unsound(s: &Tower, d: &Tower) -> Option<&'static str> {
    let n = s.levels.len();
    for i in 0..n {
        if d.writable(i) && !s.writable(i) {
            return Some("a level becomes writable");
        }
    }
    for i in 0..n {
        for j in i + 1..n {
            if d.writable(i) && s.levels[j] != d.levels[j] {
                return Some("a level below a writable level changes");
            }
        }
    }
    None
}

const FORMS: [&str; 4] = ["annotated-definition", "argument", "assignment", "return"];

fn render(name: &str, s: &Tower, d: &Tower, form: usize) -> String {
    let (st, dt) = (s.capy(), d.capy());
    match form {
        0 => format!("{name} :: (p: {st}) {{\n    q : {dt} = p;\n}}\n"),
        1 => format!("{name}_take :: (q: {dt}) {{}}\n{name} :: (p: {st}) {{\n    {name}_take(p);\n}}\n"),
        2 => format!("{name} :: (p: {st}, q0: {dt}) {{\n    q := q0;\n    q = p;\n}}\n"),
        _ => format!("{name} :: (p: {st}) -> {dt} {{\n    p\n}}\n"),
    }
}

pub fn run(rep: &mut Report, tier: &str, widen: bool) {
    let thorough = tier == "thorough" || widen;
    let mut pairs: Vec<(Tower, Tower)> = vec![];
    for h in 1..=3 {
        // pointer-only towers: all pairs; with slice levels (thorough, or height <= 2): pairs with
        // the same constructor at every level
        let ts = towers(h, thorough || h <= 2);
        for s in &ts {
            for d in &ts {
                if s.levels.iter().zip(d.levels.iter()).all(|(a, b)| a.is_some() == b.is_some()) {
                    pairs.push((s.clone(), d.clone()));
                }
            }
        }
    }
    let mut src = String::new();
    let mut spans = vec![];
    let mut cases = vec![];
    for (k, (s, d)) in pairs.iter().enumerate() {
        for form in 0..FORMS.len() {
            let start = src.len();
            src.push_str(&render(&format!("t{k}_{form}"), s, d, form));
            spans.push((start, src.len()));
            cases.push((s.clone(), d.clone(), form));
        }
    }
    let reqs: Vec<String> = pairs.iter().map(|(s, d)| format!("C12 rel {} | {} @ ", ty::sexp(&s.ty()), ty::sexp(&d.ty()))).collect();
    let answers = lean::ask(&reqs);
    let spans2 = spans.clone();
    let analysed = frontend::with_analysis(vec![("main.capy".to_string(), src.clone())], None, false, move |a| {
        let mut rejected = vec![vec![]; spans2.len()];
        let mut stray = vec![];
        for (_, e) in &a.syntax_errors {
            stray.push(format!("syntax:{:?}", e));
        }
        for (_, d) in &a.lowering_diags {
            stray.push(format!("lower:{:?}", d.kind));
        }
        for d in &a.ty_diags {
            let at: usize = u32::from(d.range.start()) as usize;
            let kind = format!("{:?}", d.kind).split(|c: char| c == ' ' || c == '{' || c == '(').next().unwrap_or("").to_string();
            match spans2.iter().position(|(s, e)| *s <= at && at < *e) {
                Some(i) => rejected[i].push(kind),
                None => stray.push(format!("ty:{kind}@{at}")),
            }
        }
        (rejected, stray)
    });
    let (rejected, stray) = match analysed {
        Ok(x) => x,
        Err(msg) => {
            rep.case(None);
            rep.oracle_fail("front-end-panic", json!({"stream": "pointer-conversions", "source": src}), json!(format!("PANIC {msg}")), json!("verdicts"), "the front end panicked on the pointer-conversion program");
            return;
        }
    };
    if !stray.is_empty() {
        rep.hit("pointer-conversions:stray-diagnostics");
        rep.notes.push(format!("pointer-conversion program: diagnostics outside the cases: {:?}", &stray[..stray.len().min(4)]));
    }
    for (i, (s, d, form)) in cases.iter().enumerate() {
        let model = &answers[i / FORMS.len()];
        let kinds = &rejected[i];
        let rej = !kinds.is_empty();
        let input = json!({"stream": "pointer-conversions", "found": s.capy(), "expected": d.capy(), "form": FORMS[*form], "source": render("t", s, d, *form)});
        rep.case(Some(format!("fit|{}|{}|{}", s.capy(), d.capy(), FORMS[*form])));
        rep.hit(&format!("pointer-conversion:{}:height{}:{}", FORMS[*form], s.levels.len(), if rej { "rejected" } else { "accepted" }));
        if kinds.iter().any(|k| k != "Mismatch") {
            rep.hit(&format!("pointer-conversion:other-diagnostic:{}", kinds[0]));
        }
        // model: the first bit of `relCode` is canFitInto
        if model != "?" {
            let mfit = model.starts_with('1');
            if mfit == rej {
                rep.disagree(input.clone(), json!(if rej { format!("rejected {:?}", kinds) } else { "accepted".into() }), json!(format!("canFitInto = {mfit} ({model})")));
            }
        }
        if let Some(why) = unsound(s, d) {
            rep.hit("pointer-conversion:unsound-pair");
            if !rej {
                rep.oracle_fail(
                    &format!("accepted-readonly:pointer-conversion:{}", FORMS[*form]),
                    input,
                    json!("accepted"),
                    json!(format!("rejected: {why}")),
                    "an implicit pointer conversion hands out write access to data that is only reachable read-only",
                );
            }
        } else if s.levels == d.levels && rej {
            rep.oracle_fail("rejected-writable:pointer-conversion-identity", input, json!(format!("rejected {:?}", kinds)), json!("accepted"), "a value is refused where its own type is expected");
        }
        rep.traces_validated += 1;
    }
}
