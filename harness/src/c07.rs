//! C07 — a program is built if and only if no error was reported.
//! Correspondence on the real CLI (run with `--verbose-types local`, which switches on
//! `track_unsafe_to_compile` and prints a marker when something was flagged): well-typed
//! generated programs and the same programs with ONE rule-breaking mutation
//! (type / mutability / const / scope). Observed: error diagnostics, the unsafe marker, exit
//! status, whether an object/executable was written; compared with the gate model
//! `CapyV.Gate.gate` and with the property.
use crate::core::{self, GenCfg, Stmt, Ty};
use crate::lean;
use crate::report::Report;
use crate::rng::Rng;
use serde_json::json;
use std::process::Command;

#[derive(Debug, Clone)]
struct Obs {
    errors: bool,
    unsafe_marker: bool,
    panicked: bool,
    status: Option<i32>,
    object: bool,
    exe: bool,
    tail: String,
}

fn observe(idx: usize, src: &str) -> Obs {
    observe_files(idx, src, &[])
}

fn observe_files(idx: usize, src: &str, extra: &[(String, String)]) -> Obs {
    let base = std::env::var("CVH_SCRATCH").unwrap_or_else(|_| "/verif/.build/e2e".into());
    let dir = std::path::PathBuf::from(base).join(format!("c07_p{}_{}", std::process::id(), idx));
    let _ = std::fs::remove_dir_all(&dir);
    std::fs::create_dir_all(&dir).unwrap();
    std::fs::write(dir.join("main.capy"), src).unwrap();
    for (name, text) in extra {
        std::fs::write(dir.join(name), text).unwrap();
    }
    let out = Command::new(crate::e2e::capy_bin())
        .current_dir(&dir)
        .args(["build", "main.capy", "--mod-dir", &crate::e2e::mod_dir(), "--color", "never", "-o", "prog", "--verbose-types", "local"])
        .output();
    let o = match out {
        Ok(o) => o,
        Err(e) => {
            return Obs { errors: false, unsafe_marker: false, panicked: true, status: None, object: false, exe: false, tail: format!("spawn: {e}") }
        }
    };
    let text = format!("{}{}", String::from_utf8_lossy(&o.stdout), String::from_utf8_lossy(&o.stderr));
    let obs = Obs {
        errors: text.lines().any(|l| l.starts_with("error")),
        unsafe_marker: text.contains("SOMETHING WAS UNSAFE TO COMPILE"),
        panicked: text.contains("panicked at") || o.status.code() == Some(101),
        status: o.status.code(),
        object: dir.join("out").join("prog.o").exists(),
        exe: dir.join("out").join("prog").exists(),
        tail: text.lines().filter(|l| l.starts_with("error") || l.contains("panicked") || l.contains("Cranelift")).take(3).collect::<Vec<_>>().join(" / "),
    };
    let _ = std::fs::remove_dir_all(&dir);
    obs
}

/// rule-breaking snippets (statement level, self-contained). Each was confirmed to be reported
/// as an error by the compiler when placed alone in `main`.
const CATALOG: &[(&str, &str)] = &[
    ("type:bool-into-int", "m_a : i32 = true;"),
    ("type:int-into-bool", "m_b : bool = u8.(3);"),
    ("type:ill-typed-operand", "m_c := i32.(1) + true;"),
    ("type:literal-out-of-range", "m_d : u8 = 300;"),
    ("type:str-into-int", "m_e : i32 = \"str\";"),
    ("type:array-size-mismatch", "m_f := i32.[1, 2]; m_g : [3]i32 = m_f;"),
    ("type:optional-into-plain", "m_h : ?i32 = nil; m_i : i32 = m_h;"),
    ("type:call-non-function", "m_j := 5; m_j();"),
    ("type:wrong-arg-count", "m_k :: (a: i32) -> i32 { a }; m_k(1, 2);"),
    ("type:wrong-arg-type", "m_l :: (a: i32) -> i32 { a }; m_l(true);"),
    ("type:no-such-field", "M_S :: struct { a: i32 }; m_s := M_S.{ a = 1 }; m_s.zz;"),
    ("type:struct-literal-wrong-field", "M_T :: struct { a: i32 }; m_t := M_T.{ b = 1 };"),
    ("type:index-non-array", "m_m := 5; m_m[0];"),
    ("type:deref-non-pointer", "m_n := 5; m_n^;"),
    ("type:if-condition-non-bool", "if 5 { }"),
    ("type:if-branches-mismatch", "m_o : i32 = if true { 1 } else { \"s\" };"),
    ("type:lambda-return-mismatch", "m_p :: () -> i32 { true };"),
    ("type:non-exhaustive-switch", "M_E :: enum { A, B }; m_e2 : M_E = M_E.A; switch v in m_e2 { A => {} }"),
    ("type:unwrap-non-sum", "m_q := 5; m_r := #unwrap(m_q, i32);"),
    ("mutability:assign-immutable", "m_u : i32 : i32.(1); m_u = i32.(2);"),
    ("mutability:assign-param", "m_v :: (a: i32) { a = 2; };"),
    ("mutability:write-through-immutable-pointer", "m_w := 5; m_x := ^m_w; m_x^ = 6;"),
    ("mutability:element-of-immutable-array", "m_y :: i32.[1, 2]; m_y[0] = 5;"),
    ("mutability:mut-ref-of-immutable", "m_z :: 5; m_z2 := ^mut m_z;"),
    ("const:runtime-array-size", "m_n1 := 3; m_arr : [m_n1]u8;"),
    ("const:runtime-comptime-arg", "m_n2 := 3; m_g1 :: (comptime x: i32) {}; m_g1(m_n2);"),
    ("const:runtime-type", "m_n3 := i32; m_v3 : m_n3 = 1;"),
    ("const:uninitialised-local-array-size", "m_n4 : usize; m_a4 : [m_n4]i32;"),
    ("const:uninitialised-local-comptime-arg", "m_n5 : i32; m_g5 :: (comptime x: i32) {}; m_g5(m_n5);"),
    ("const:parameter-array-size", "m_f6 :: (n: usize) { a : [n]u8; };"),
    ("const:call-result-array-size", "m_f7 :: () -> usize { 3 }; m_a7 : [m_f7()]u8;"),
    ("const:mutable-global-like-local-type", "m_t8 := i32; m_f8 :: (x: m_t8) {};"),
    ("scope:undefined-name", "core.println(m_undefined_name);"),
    ("scope:use-after-block", "{ m_q1 := 1; } core.println(m_q1);"),
    ("scope:undefined-module-member", "core.zzz_no_such();"),
    ("scope:undefined-type", "m_t1 : NoSuchType = 1;"),
    ("scope:unknown-label", "break `nolabel;"),
    ("syntax:missing-expression", "m_s1 := ;"),
    ("syntax:unclosed-paren", "m_s2 := (1 + ;"),
    ("syntax:double-operator", "m_s3 := 1 +* 2;"),
    ("syntax:stray-token", "m_s4 := 1 2;"),
];

/// where the snippet goes. All of these are type-checked by the compiler whether or not the code
/// is ever executed or even referenced.
const PLACEMENTS: &[&str] = &[
    "main", "main:if-true", "main:while-false", "main:block", "main:defer", "main:comptime", "main:uncalled-lambda",
    "helper-fn", "unused-global-fn", "imported-file:uncalled-fn",
    // a function of an imported file that the ENTRY file evaluates at compile time (as a type):
    // the error is in another file than the comptime block that reaches it (seeded change C07_3)
    "imported-file:fn-evaluated-at-compile-time",
];

struct Mutant {
    kind: &'static str,
    placement: &'static str,
    source: String,
    extra: Vec<(String, String)>,
}

/// one rule-breaking edit of a well-typed program
fn mutate(rng: &mut Rng, p: &core::Program, nth: usize) -> Mutant {
    // the catalog is walked round-robin so that every snippet occurs in every run; the placement is random
    let (kind, snippet) = CATALOG[nth % CATALOG.len()];
    let mut placement = *rng.pick(PLACEMENTS);
    // `break` to an unknown label inside a defer is a different error (jump out of a defer) and a
    // syntax error swallows the wrapper's closing brace unpredictably: keep those at top level
    if kind.starts_with("syntax") && placement != "helper-fn" && placement != "unused-global-fn" && !placement.starts_with("imported-file:") {
        placement = "main";
    }
    if placement == "helper-fn" && p.fns.len() < 2 {
        placement = "unused-global-fn";
    }
    let mut q = p.clone();
    let mut extra = vec![];
    let wrapped = |w: &str| -> String {
        match w {
            "main:if-true" => format!("if true {{ {snippet} }}"),
            "main:while-false" => format!("while false {{ {snippet} }}"),
            "main:block" => format!("{{ {snippet} }}"),
            "main:defer" => format!("defer {{ {snippet} }};"),
            "main:comptime" => format!("comptime {{ {snippet} }}"),
            "main:uncalled-lambda" => format!("m_lam :: () {{ {snippet} }};"),
            _ => snippet.to_string(),
        }
    };
    let mut tail = String::new();
    match placement {
        "helper-fn" => {
            let k = 1 + rng.below(q.fns.len() as u64 - 1) as usize;
            q.fns[k].body.insert(0, Stmt::Raw(snippet.to_string()));
        }
        "unused-global-fn" => tail = format!("\nm_unused :: () {{\n    {snippet}\n}}\n"),
        "imported-file:uncalled-fn" => {
            tail = "\nm_other :: #import(\"m_other.capy\");\n".to_string();
            extra.push(("m_other.capy".to_string(), format!("core :: #mod(\"core\");\n\nm_helper :: () {{\n    {snippet}\n}}\n")));
        }
        "imported-file:fn-evaluated-at-compile-time" => {
            tail = "\nm_other :: #import(\"m_other.capy\");\nM_T :: comptime { m_other.m_make() };\nm_use :: (v: M_T) -> M_T { v }\n".to_string();
            extra.push(("m_other.capy".to_string(), format!("core :: #mod(\"core\");\n\nm_make :: () -> type {{\n    {snippet}\n    i32\n}}\n")));
        }
        w => {
            let main = &mut q.fns[0];
            let pos = rng.below(main.body.len() as u64 + 1) as usize;
            // never after the final `return`
            let pos = pos.min(main.body.len().saturating_sub(1));
            main.body.insert(pos, Stmt::Raw(wrapped(w)));
        }
    }
    Mutant { kind, placement, source: format!("{}{}", q.capy(), tail), extra }
}

pub fn run(tier: &str, seed: u64, widen: bool) -> Report {
    let mut rep = Report::new(
        "C07",
        "real capy CLI run with --verbose-types local (error diagnostics, unsafe marker, exit status, object/executable written) vs the gate model CapyV.Gate.gate",
        "seeded well-typed CapyCore programs (generator of C01, no runtime faults) and five mutants of each: one rule-breaking snippet out of a catalog of 41 (19 type, 5 mutability, 8 const, 5 scope, 4 syntax errors) placed in main (top level / if true / while false / block / defer / comptime block / uncalled lambda), in a helper function, in an unused global function, in an uncalled function of an imported file or in a function of an imported file that the entry file evaluates at compile time; non-trivial = mutated program; distinct by source text",
    );
    if !crate::e2e::available() {
        rep.notes.push("capy CLI binary missing".into());
        return rep;
    }
    let mut rng = Rng::new(seed);
    let n = if widen { 400 } else if tier == "thorough" { 200 } else { 36 };
    let cfg = GenCfg { faults: false, ..GenCfg::default() };
    let mut cases: Vec<(String, &'static str)> = vec![];
    let mut placements: Vec<&'static str> = vec![];
    let mut extras: Vec<Vec<(String, String)>> = vec![];
    for _ in 0..n {
        let p = core::gen_program(&mut rng, &cfg);
        if p.fns[0].ret == Ty::Void && p.fns[0].body.is_empty() {
            continue;
        }
        cases.push((p.capy(), "valid"));
        placements.push("-");
        extras.push(vec![]);
        // several mutants per base program: the catalog x placement space is what matters here
        for _ in 0..5 {
            let m = mutate(&mut rng, &p, placements.len());
            cases.push((m.source, m.kind));
            placements.push(m.placement);
            extras.push(m.extra);
        }
    }
    // run the CLI on 16 workers
    let jobs = 16;
    let cases_arc = std::sync::Arc::new(cases.clone());
    let extras_arc = std::sync::Arc::new(extras.clone());
    let next = std::sync::Arc::new(std::sync::atomic::AtomicUsize::new(0));
    let results = std::sync::Arc::new(std::sync::Mutex::new(vec![None; cases.len()]));
    let mut hs = vec![];
    for _ in 0..jobs {
        let (c, nx, rs) = (cases_arc.clone(), next.clone(), results.clone());
        let ex = extras_arc.clone();
        hs.push(std::thread::spawn(move || loop {
            let i = nx.fetch_add(1, std::sync::atomic::Ordering::SeqCst);
            if i >= c.len() {
                break;
            }
            let o = observe_files(i, &c[i].0, &ex[i]);
            rs.lock().unwrap()[i] = Some(o);
        }));
    }
    for h in hs {
        let _ = h.join();
    }
    let results: Vec<Obs> = results.lock().unwrap().iter().map(|o| o.clone().unwrap()).collect();
    // gate model: feed the observed stage results, compare the observed outcome
    let reqs: Vec<String> = results
        .iter()
        .map(|o| {
            format!(
                "C07 gate {} {} 1 {} {} 0",
                o.errors as u8,
                // the CLI panics on its own assertion when something was flagged without an error
                (o.unsafe_marker && !o.errors) as u8,
                0,
                0
            )
        })
        .collect();
    let answers = lean::ask(&reqs);
    for ((((src, kind), o), model), (placement, extra)) in cases.iter().zip(results.iter()).zip(answers.iter()).zip(placements.iter().zip(extras.iter())) {
        rep.case(if *kind != "valid" { Some(src.clone()) } else { None });
        rep.hit(&format!("kind:{kind}"));
        if *kind != "valid" {
            rep.hit(&format!("placement:{placement}"));
        }
        let got = format!(
            "{}",
            if o.panicked { "assertPanic" } else if o.exe { "built" } else if o.object { "objectOnlyLinkFailed" } else if o.errors { "rejected" } else if o.status == Some(0) { "codegenErrorExit0" } else { "entryPointError" }
        );
        let input = json!({"source": src, "mutation": kind, "placement": placement, "extra_files": extra});
        if rep.evaluations % 17 == 1 {
            rep.sample(json!({"mutation": kind, "outcome": got, "errors": o.errors, "unsafe_marker": o.unsafe_marker, "status": o.status}));
        }
        if model != "?" && *model != got {
            rep.disagree(input.clone(), json!(format!("{got} ({o:?})")), json!(model));
        }
        // the property, on the implementation's own observations
        if *kind == "valid" {
            if o.errors {
                rep.oracle_fail("valid-program-rejected", input.clone(), json!(o.tail), json!("no error"), "a well-typed program was reported erroneous");
            } else if o.unsafe_marker {
                rep.oracle_fail("unsafe-without-error", input.clone(), json!(o.tail), json!("nothing flagged"), "no error reported but something was flagged unsafe to compile");
            } else if !o.exe || o.status != Some(0) {
                rep.oracle_fail("no-error-but-not-built", input.clone(), json!(format!("{o:?}")), json!("object and executable"), "no error reported but the build did not succeed");
            }
        } else {
            if !o.errors {
                rep.oracle_fail("rule-breaking-program-accepted", input.clone(), json!(format!("{o:?}")), json!("an error diagnostic"), "a rule-breaking mutation was not reported");
            }
            if o.errors && (o.object || o.exe) {
                rep.oracle_fail("built-despite-errors", input.clone(), json!(format!("{o:?}")), json!("nothing generated"), "errors were reported and yet an object was written");
            }
            if o.errors && !o.unsafe_marker && !kind.starts_with("scope") && !kind.starts_with("syntax") {
                // an error inside an expression must flag the code containing it
                rep.oracle_fail("error-not-flagged-unsafe", input.clone(), json!(format!("{o:?}")), json!("flagged unsafe"), "an error was reported for an expression but nothing was flagged unsafe to compile");
            }
        }
        if o.errors != !(o.object || o.exe) && !o.panicked {
            rep.oracle_fail("object-iff-no-error", input, json!(format!("{o:?}")), json!("object ⇔ no error"), "object written does not coincide with absence of errors");
        }
    }
    rep.traces_validated = rep.evaluations;
    rep
}

pub fn replay(input: &serde_json::Value) -> String {
    let extra: Vec<(String, String)> = input["extra_files"]
        .as_array()
        .map(|a| a.iter().filter_map(|p| Some((p[0].as_str()?.to_string(), p[1].as_str()?.to_string()))).collect())
        .unwrap_or_default();
    let o = observe_files(0, input["source"].as_str().unwrap_or(""), &extra);
    format!("implementation: {o:?}")
}
