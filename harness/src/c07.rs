//! C07 — a program is built if and only if no error was reported.
//! Correspondence on the real CLI (run with `--verbose-types local`, which switches on
//! `track_unsafe_to_compile` and prints a marker when something was flagged): well-typed
//! generated programs and the same programs with ONE rule-breaking mutation
//! (type / mutability / const / scope). Observed: error diagnostics, the unsafe marker, exit
//! status, whether an object/executable was written; compared with the gate model
//! `CapyV.Gate.gate` and with the property.
use crate::core::{self, GenCfg, Stmt, Ty};
use crate::lean;
use crate::report::Report;
use crate::rng::Rng;
use serde_json::json;
use std::process::Command;

#[derive(Debug, Clone)]
struct Obs {
    errors: bool,
    unsafe_marker: bool,
    panicked: bool,
    status: Option<i32>,
    object: bool,
    exe: bool,
    tail: String,
}

fn observe(idx: usize, src: &str) -> Obs {
    let base = std::env::var("CVH_SCRATCH").unwrap_or_else(|_| "/verif/.build/e2e".into());
    let dir = std::path::PathBuf::from(base).join(format!("c07_p{}_{}", std::process::id(), idx));
    let _ = std::fs::remove_dir_all(&dir);
    std::fs::create_dir_all(&dir).unwrap();
    std::fs::write(dir.join("main.capy"), src).unwrap();
    let out = Command::new(crate::e2e::capy_bin())
        .current_dir(&dir)
        .args(["build", "main.capy", "--mod-dir", &crate::e2e::mod_dir(), "--color", "never", "-o", "prog", "--verbose-types", "local"])
        .output();
    let o = match out {
        Ok(o) => o,
        Err(e) => {
            return Obs { errors: false, unsafe_marker: false, panicked: true, status: None, object: false, exe: false, tail: format!("spawn: {e}") }
        }
    };
    let text = format!("{}{}", String::from_utf8_lossy(&o.stdout), String::from_utf8_lossy(&o.stderr));
    let obs = Obs {
        errors: text.lines().any(|l| l.starts_with("error")),
        unsafe_marker: text.contains("SOMETHING WAS UNSAFE TO COMPILE"),
        panicked: text.contains("panicked at") || o.status.code() == Some(101),
        status: o.status.code(),
        object: dir.join("out").join("prog.o").exists(),
        exe: dir.join("out").join("prog").exists(),
        tail: text.lines().filter(|l| l.starts_with("error") || l.contains("panicked") || l.contains("Cranelift")).take(3).collect::<Vec<_>>().join(" / "),
    };
    let _ = std::fs::remove_dir_all(&dir);
    obs
}

/// one rule-breaking edit of a well-typed program; returns the kind
fn mutate(rng: &mut Rng, p: &mut core::Program) -> &'static str {
    let main = &mut p.fns[0];
    let pos = rng.below(main.body.len() as u64 + 1) as usize;
    // never after the final `return`
    let pos = pos.min(main.body.len().saturating_sub(1));
    let (kind, text): (&'static str, String) = match rng.below(6) {
        0 => ("type:bool-into-int", "mut_a : i32 = true;".into()),
        1 => ("type:int-into-bool", "mut_b : bool = u8.(3);".into()),
        2 => ("mutability:assign-immutable", "mut_c : i32 : i32.(1);\n    mut_c = i32.(2);".into()),
        3 => ("scope:undefined-name", "core.println(mut_undefined_name);".into()),
        4 => ("const:runtime-array-size", "mut_n := 3;\n    mut_arr : [mut_n]u8;".into()),
        _ => ("type:wrong-arity-call", "core.println(i32.(1) + true);".into()),
    };
    main.body.insert(pos, Stmt::Raw(text));
    kind
}

pub fn run(tier: &str, seed: u64, widen: bool) -> Report {
    let mut rep = Report::new(
        "C07",
        "real capy CLI run with --verbose-types local (error diagnostics, unsafe marker, exit status, object/executable written) vs the gate model CapyV.Gate.gate",
        "seeded well-typed CapyCore programs (generator of C01, no runtime faults) and each of them with one rule-breaking mutation inserted in main: bool into int, int into bool, assignment to an immutable binding, undefined name, runtime value as array size, ill-typed operand; non-trivial = mutated program; distinct by source text",
    );
    if !crate::e2e::available() {
        rep.notes.push("capy CLI binary missing".into());
        return rep;
    }
    let mut rng = Rng::new(seed);
    let n = if widen { 600 } else if tier == "thorough" { 300 } else { 40 };
    let cfg = GenCfg { faults: false, ..GenCfg::default() };
    let mut cases: Vec<(String, &'static str)> = vec![];
    for _ in 0..n {
        let p = core::gen_program(&mut rng, &cfg);
        if p.fns[0].ret == Ty::Void && p.fns[0].body.is_empty() {
            continue;
        }
        cases.push((p.capy(), "valid"));
        let mut q = p.clone();
        let kind = mutate(&mut rng, &mut q);
        cases.push((q.capy(), kind));
    }
    // run the CLI on 16 workers
    let jobs = 16;
    let cases_arc = std::sync::Arc::new(cases.clone());
    let next = std::sync::Arc::new(std::sync::atomic::AtomicUsize::new(0));
    let results = std::sync::Arc::new(std::sync::Mutex::new(vec![None; cases.len()]));
    let mut hs = vec![];
    for _ in 0..jobs {
        let (c, nx, rs) = (cases_arc.clone(), next.clone(), results.clone());
        hs.push(std::thread::spawn(move || loop {
            let i = nx.fetch_add(1, std::sync::atomic::Ordering::SeqCst);
            if i >= c.len() {
                break;
            }
            let o = observe(i, &c[i].0);
            rs.lock().unwrap()[i] = Some(o);
        }));
    }
    for h in hs {
        let _ = h.join();
    }
    let results: Vec<Obs> = results.lock().unwrap().iter().map(|o| o.clone().unwrap()).collect();
    // gate model: feed the observed stage results, compare the observed outcome
    let reqs: Vec<String> = results
        .iter()
        .map(|o| {
            format!(
                "C07 gate {} {} 1 {} {} 0",
                o.errors as u8,
                // the CLI panics on its own assertion when something was flagged without an error
                (o.unsafe_marker && !o.errors) as u8,
                0,
                0
            )
        })
        .collect();
    let answers = lean::ask(&reqs);
    for (((src, kind), o), model) in cases.iter().zip(results.iter()).zip(answers.iter()) {
        rep.case(if *kind != "valid" { Some(src.clone()) } else { None });
        rep.hit(&format!("kind:{kind}"));
        let got = format!(
            "{}",
            if o.panicked { "assertPanic" } else if o.exe { "built" } else if o.object { "objectOnlyLinkFailed" } else if o.errors { "rejected" } else if o.status == Some(0) { "codegenErrorExit0" } else { "entryPointError" }
        );
        let input = json!({"source": src, "mutation": kind});
        if rep.evaluations % 17 == 1 {
            rep.sample(json!({"mutation": kind, "outcome": got, "errors": o.errors, "unsafe_marker": o.unsafe_marker, "status": o.status}));
        }
        if model != "?" && *model != got {
            rep.disagree(input.clone(), json!(format!("{got} ({o:?})")), json!(model));
        }
        // the property, on the implementation's own observations
        if *kind == "valid" {
            if o.errors {
                rep.oracle_fail("valid-program-rejected", input.clone(), json!(o.tail), json!("no error"), "a well-typed program was reported erroneous");
            } else if o.unsafe_marker {
                rep.oracle_fail("unsafe-without-error", input.clone(), json!(o.tail), json!("nothing flagged"), "no error reported but something was flagged unsafe to compile");
            } else if !o.exe || o.status != Some(0) {
                rep.oracle_fail("no-error-but-not-built", input.clone(), json!(format!("{o:?}")), json!("object and executable"), "no error reported but the build did not succeed");
            }
        } else {
            if !o.errors {
                rep.oracle_fail("rule-breaking-program-accepted", input.clone(), json!(format!("{o:?}")), json!("an error diagnostic"), "a rule-breaking mutation was not reported");
            }
            if o.errors && (o.object || o.exe) {
                rep.oracle_fail("built-despite-errors", input.clone(), json!(format!("{o:?}")), json!("nothing generated"), "errors were reported and yet an object was written");
            }
            if o.errors && !o.unsafe_marker && !kind.starts_with("scope") {
                // an error inside an expression must flag the code containing it
                rep.oracle_fail("error-not-flagged-unsafe", input.clone(), json!(format!("{o:?}")), json!("flagged unsafe"), "an error was reported for an expression but nothing was flagged unsafe to compile");
            }
        }
        if o.errors != !(o.object || o.exe) && !o.panicked {
            rep.oracle_fail("object-iff-no-error", input, json!(format!("{o:?}")), json!("object ⇔ no error"), "object written does not coincide with absence of errors");
        }
    }
    rep.traces_validated = rep.evaluations;
    rep
}

pub fn replay(input: &serde_json::Value) -> String {
    let o = observe(0, input["source"].as_str().unwrap_or(""));
    format!("implementation: {o:?}")
}
