//! C01, aggregate comparison: `==` / `!=` on arrays, slices, structs, optionals, error unions and
//! enums whose items have tail padding (size != stride) or tags. Pairs that are equal, and pairs that
//! agree on item 0 and differ only at a later item / field / tag, are compared by the built program;
//! the printed booleans are checked against structural equality (Lean: `CapyV.AggEq.veq`, proved to
//! be equality of values) and against the equality computed here.
use crate::e2e::{self, Program};
use crate::lean;
use crate::report::Report;
use crate::rng::Rng;
use serde_json::json;

#[derive(Clone, Debug, PartialEq)]
enum V {
    Int(i64),
    Nil,
    Tag(u32, Box<V>),
    Agg(Vec<V>),
}

impl V {
    fn sexp(&self) -> String {
        match self {
            V::Int(z) => format!("(i {z})"),
            V::Nil => "nil".into(),
            V::Tag(k, v) => format!("(t {k} {})", v.sexp()),
            V::Agg(vs) => format!("(a {})", vs.iter().map(|v| v.sexp()).collect::<Vec<_>>().join(" ")),
        }
    }
}

#[derive(Clone, Copy, Debug, PartialEq)]
enum Item {
    I32,
    U8,
    OptI16,
    OptI32,
    OptI64,
    /// struct { a: i32, b: u8 } — size 5, stride 8
    S5,
    /// struct { a: i64, b: u8, c: u16 } — size 12, stride 16
    S12,
    /// bool!i64
    Eu,
    /// enum { A: i64, B: u8, C }
    En,
}

const ITEMS: [Item; 9] = [Item::I32, Item::U8, Item::OptI16, Item::OptI32, Item::OptI64, Item::S5, Item::S12, Item::Eu, Item::En];

impl Item {
    fn ty(self) -> &'static str {
        match self {
            Item::I32 => "i32",
            Item::U8 => "u8",
            Item::OptI16 => "?i16",
            Item::OptI32 => "?i32",
            Item::OptI64 => "?i64",
            Item::S5 => "S5",
            Item::S12 => "S12",
            Item::Eu => "bool!i64",
            Item::En => "En",
        }
    }
    /// a random value: (Capy expression, model value)
    fn gen(self, rng: &mut Rng) -> (String, V) {
        let small = |rng: &mut Rng| rng.below(100) as i64;
        match self {
            Item::I32 => {
                let z = small(rng) - 50;
                (format!("i32.({z})"), V::Int(z))
            }
            Item::U8 => {
                let z = small(rng);
                (format!("u8.({z})"), V::Int(z))
            }
            Item::OptI16 | Item::OptI32 | Item::OptI64 => {
                if rng.chance(1, 4) {
                    ("nil".into(), V::Nil)
                } else {
                    let z = small(rng);
                    let t = &self.ty()[1..];
                    (format!("{t}.({z})"), V::Tag(1, Box::new(V::Int(z))))
                }
            }
            Item::S5 => {
                let (a, b) = (small(rng), small(rng));
                (format!("S5.{{ a = {a}, b = {b} }}"), V::Agg(vec![V::Int(a), V::Int(b)]))
            }
            Item::S12 => {
                let (a, b, c) = (small(rng), small(rng), small(rng));
                (format!("S12.{{ a = {a}, b = {b}, c = {c} }}"), V::Agg(vec![V::Int(a), V::Int(b), V::Int(c)]))
            }
            Item::Eu => {
                if rng.chance(1, 3) {
                    let b = rng.chance(1, 2);
                    (format!("mk_err({b})"), V::Tag(0, Box::new(V::Int(b as i64))))
                } else {
                    let z = small(rng);
                    (format!("mk_ok({z})"), V::Tag(1, Box::new(V::Int(z))))
                }
            }
            Item::En => match rng.below(3) {
                0 => {
                    let z = small(rng);
                    (format!("En.A.({z})"), V::Tag(0, Box::new(V::Int(z))))
                }
                1 => {
                    let z = small(rng);
                    (format!("En.B.({z})"), V::Tag(1, Box::new(V::Int(z))))
                }
                _ => ("En.C".into(), V::Tag(2, Box::new(V::Agg(vec![])))),
            },
        }
    }
}

struct Case {
    what: String,
    decls: String,
    /// expressions printed, each a bool
    exprs: Vec<String>,
    a: V,
    b: V,
}

fn gen_case(rng: &mut Rng, k: usize) -> Case {
    let item = *rng.pick(&ITEMS);
    let n = 2 + rng.below(4) as usize;
    let mut ea = vec![];
    let mut va = vec![];
    for _ in 0..n {
        let (e, v) = item.gen(rng);
        ea.push(e);
        va.push(v);
    }
    let mut eb = ea.clone();
    let mut vb = va.clone();
    let kind = rng.below(4);
    // 0: equal; 1: differ only at the LAST item; 2: differ only at a random item >= 1; 3: differ at item 0
    let at = match kind {
        0 => None,
        1 => Some(n - 1),
        2 => Some(1 + rng.below(n as u64 - 1) as usize),
        _ => Some(0),
    };
    if let Some(i) = at {
        for _ in 0..20 {
            let (e, v) = item.gen(rng);
            if v != va[i] {
                eb[i] = e;
                vb[i] = v;
                break;
            }
        }
    }
    let t = item.ty();
    let shape = rng.below(4);
    let (decls, exprs) = match shape {
        // arrays
        0 => (
            format!("    a{k} : [{n}]{t} = .[{}];\n    b{k} : [{n}]{t} = .[{}];\n", ea.join(", "), eb.join(", ")),
            vec![format!("a{k} == b{k}"), format!("a{k} != b{k}"), format!("b{k} == a{k}"), format!("a{k} == a{k}")],
        ),
        // slices
        1 => (
            format!(
                "    a{k} : [{n}]{t} = .[{}];\n    b{k} : [{n}]{t} = .[{}];\n    sa{k} : []{t} = a{k};\n    sb{k} : []{t} = b{k};\n",
                ea.join(", "),
                eb.join(", ")
            ),
            vec![format!("sa{k} == sb{k}"), format!("sa{k} != sb{k}"), format!("sb{k} == sa{k}"), format!("sa{k} == sa{k}")],
        ),
        // arrays as struct fields between guards
        2 => (
            format!(
                "    Wk{k} :: struct {{ g: u8, arr: [{n}]{t}, h: u8 }};\n    a{k} := Wk{k}.{{ g = 1, arr = .[{}], h = 2 }};\n    b{k} := Wk{k}.{{ g = 1, arr = .[{}], h = 2 }};\n",
                ea.join(", "),
                eb.join(", ")
            ),
            vec![format!("a{k}.arr == b{k}.arr"), format!("a{k}.arr != b{k}.arr"), format!("a{k} == b{k}"), format!("a{k} == a{k}")],
        ),
        // behind pointers
        _ => (
            format!(
                "    a{k} : [{n}]{t} = .[{}];\n    b{k} : [{n}]{t} = .[{}];\n    pa{k} := ^a{k};\n    pb{k} := ^b{k};\n",
                ea.join(", "),
                eb.join(", ")
            ),
            vec![format!("pa{k}^ == pb{k}^"), format!("pa{k}^ != pb{k}^"), format!("pb{k}^ == pa{k}^"), format!("pa{k}^ == pa{k}^")],
        ),
    };
    Case {
        what: format!(
            "{}:[{n}]{t}:{}",
            ["array", "slice", "struct-field", "through-pointer"][shape as usize],
            match at {
                None => "equal".to_string(),
                Some(0) => "differ-at-0".to_string(),
                Some(i) if i == n - 1 => "differ-at-last".to_string(),
                Some(_) => "differ-in-the-middle".to_string(),
            }
        ),
        decls,
        exprs,
        a: V::Agg(va),
        b: V::Agg(vb),
    }
}

pub fn run(rep: &mut Report, rng: &mut Rng, tier: &str, widen: bool) {
    let n_prog = if widen { 120 } else if tier == "thorough" { 60 } else { 8 };
    let per = 12;
    let mut all_cases: Vec<Vec<Case>> = vec![];
    let mut progs = vec![];
    for _ in 0..n_prog {
        let cases: Vec<Case> = (0..per).map(|k| gen_case(rng, k)).collect();
        let mut src = String::from(
            "core :: #mod(\"core\");\nS5 :: struct { a: i32, b: u8 };\nS12 :: struct { a: i64, b: u8, c: u16 };\nEn :: enum { A: i64, B: u8, C };\nmk_ok :: (v: i64) -> bool!i64 { v }\nmk_err :: (b: bool) -> bool!i64 { b }\n\nmain :: () {\n",
        );
        for (k, c) in cases.iter().enumerate() {
            src.push_str(&c.decls);
            for e in &c.exprs {
                src.push_str(&format!("    core.println(\"#{k} \", {e});\n"));
            }
        }
        src.push_str("}\n");
        progs.push(Program::single(&src));
        all_cases.push(cases);
    }
    let outs = e2e::run_all(&progs, e2e::Limits::default());
    let mut reqs = vec![];
    for cases in &all_cases {
        for c in cases {
            reqs.push(format!("C01 aggeq {} | {}", c.a.sexp(), c.b.sexp()));
        }
    }
    let answers = lean::ask(&reqs);
    let mut ai = 0;
    for ((cases, out), prog) in all_cases.iter().zip(outs.iter()).zip(progs.iter()) {
        let built = out.built && out.run_status == Some(0);
        let text = out.stdout();
        for (k, c) in cases.iter().enumerate() {
            let model = &answers[ai];
            ai += 1;
            rep.case(Some(format!("aggeq|{}|{}|{}", c.what, c.a.sexp(), c.b.sexp())));
            rep.hit(&format!("aggeq:{}", c.what.split(':').next().unwrap_or("")));
            rep.hit(&format!("aggeq:{}", c.what.rsplit(':').next().unwrap_or("")));
            let input = json!({"stream": "aggregate-equality", "what": c.what, "a": c.a.sexp(), "b": c.b.sexp(), "source": prog.files[0].1});
            if !built {
                rep.oracle_fail(
                    "aggeq-program-not-built",
                    input,
                    json!(format!("{} {}", out.run_summary(), out.compile_out.lines().filter(|l| l.starts_with("error") || l.contains("panicked")).take(2).collect::<Vec<_>>().join(" / "))),
                    json!("built"),
                    "a program comparing aggregates was rejected or crashed",
                );
                continue;
            }
            let got: Vec<String> = text.lines().filter_map(|l| l.strip_prefix(&format!("#{k} "))).map(|x| x.trim().to_string()).collect();
            let eq = c.a == c.b;
            let want = vec![eq.to_string(), (!eq).to_string(), eq.to_string(), "true".to_string()];
            if model != "?" && got.first().map(|s| s.as_str()) != Some(model.as_str()) {
                rep.disagree(input.clone(), json!(got), json!(model));
            }
            if got != want {
                rep.oracle_fail("wrong-output", input, json!(got), json!(want), "`==` / `!=` on aggregates is not structural equality of the values");
            }
            rep.traces_validated += 1;
        }
    }
}
