//! C20 — results do not depend on the order of definitions or files.
//! Generated programs (C01's generator: types, functions, calls across definitions) are printed
//! with their global definitions in random textual orders and split over up to 3 files that
//! import each other; every variant is built by the real CLI and run. Oracle (from the property
//! text): all variants are accepted or all rejected, and all accepted variants behave identically
//! (stdout and exit status); the baseline variant is additionally compared with the reference
//! interpreter.
use crate::c01::{observe, FUEL};
use crate::core::{self, GenCfg, Global};
use crate::e2e::{self, Program as E2eProgram};
use crate::lean;
use crate::report::Report;
use crate::rng::Rng;
use serde_json::json;

fn shuffle<T>(rng: &mut Rng, v: &mut [T]) {
    for i in (1..v.len()).rev() {
        let j = rng.below(i as u64 + 1) as usize;
        v.swap(i, j);
    }
}

pub fn run(tier: &str, seed: u64, widen: bool) -> Report {
    let mut rep = Report::new(
        "C20",
        "real capy CLI + executable on permuted / partitioned variants of one program; baseline also vs CapyV.Core.run",
        "seeded CapyCore programs with >= 3 global definitions (structs, helper functions calling each other, main); per program: the generator's order, 3 random permutations of the global definitions in one file, and 2 random partitions into 2-3 files (cyclic imports, qualified references); second stream: dependency graphs of 3-12 global definitions (typed / untyped constants, constants computed by comptime blocks calling functions and generics, aliases of aliases, structs and functions over aliases, a generic, array lengths from constants), each in the generator's order, 3 permutations and 3 partitions into 2-3 files, compared with an independent evaluation of the graph; non-trivial = a variant whose order differs from the baseline; distinct by variant text",
    );
    if !e2e::available() {
        rep.notes.push("capy CLI binary missing".into());
        return rep;
    }
    let mut rng = Rng::new(seed);
    let n = if widen { 400 } else if tier == "thorough" { 200 } else { 20 };
    let cfg = GenCfg { faults: false, max_fns: 6, ..GenCfg::default() };
    let mut all: Vec<E2eProgram> = vec![];
    let mut meta: Vec<(usize, String)> = vec![]; // (program index, variant description)
    let mut progs = vec![];
    while progs.len() < n {
        let p = core::gen_program(&mut rng, &cfg);
        if p.globals().len() < 3 {
            continue;
        }
        let pi = progs.len();
        let base_order = p.globals();
        all.push(E2eProgram::single(&p.capy_ordered(&base_order)));
        meta.push((pi, "baseline".into()));
        for k in 0..3 {
            let mut o = base_order.clone();
            shuffle(&mut rng, &mut o);
            all.push(E2eProgram::single(&p.capy_ordered(&o)));
            meta.push((pi, format!("permutation-{k}")));
        }
        for k in 0..2 {
            let nfiles = 2 + rng.below(2) as usize;
            let mut o = base_order.clone();
            shuffle(&mut rng, &mut o);
            let assign: Vec<usize> = o.iter().map(|g| if *g == Global::Fn(0) { 0 } else { rng.below(nfiles as u64) as usize }).collect();
            let o2 = o.clone();
            let file_of = move |g: Global| assign[o2.iter().position(|x| *x == g).unwrap()];
            let files = p.capy_files(&o, &file_of, nfiles);
            all.push(E2eProgram { files });
            meta.push((pi, format!("partition-{k}-into-{nfiles}-files")));
        }
        progs.push(p);
    }
    let outcomes = e2e::run_all(&all, e2e::Limits::default());
    let reqs: Vec<String> = progs.iter().map(|p| format!("CORE run {FUEL} {}", p.sexp())).collect();
    let answers = lean::ask(&reqs);
    let mut base_obs: Vec<Option<String>> = vec![None; progs.len()];
    for ((pi, what), out) in meta.iter().zip(outcomes.iter()) {
        if what == "baseline" {
            base_obs[*pi] = Some(observe(out));
        }
    }
    for (((pi, what), out), prog) in meta.iter().zip(outcomes.iter()).zip(all.iter()) {
        let got = observe(out);
        let text: String = prog.files.iter().map(|(n, t)| format!("// ---- {n}\n{t}")).collect();
        rep.case(if what != "baseline" { Some(text.clone()) } else { None });
        rep.hit(&format!("variant:{}", what.split('-').next().unwrap_or("")));
        let base = base_obs[*pi].clone().unwrap_or_default();
        let input = json!({"variant": what, "files": text, "baseline": progs[*pi].capy_ordered(&progs[*pi].globals())});
        if what == "baseline" {
            let model = &answers[*pi];
            if model != "?" && !model.starts_with("out-of-fuel") && !model.starts_with("stuck") && *model != got {
                rep.disagree(input.clone(), json!(got), json!(model));
            }
            if rep.evaluations % 7 == 1 {
                rep.sample(json!({"files": text, "observed": got}));
            }
            continue;
        }
        rep.traces_validated += 1;
        if got != base {
            let label = if got.starts_with("not-built") != base.starts_with("not-built") {
                "acceptance-depends-on-order"
            } else if got.starts_with("compile-timeout") || base.starts_with("compile-timeout") {
                "compile-timeout"
            } else {
                "behaviour-depends-on-order"
            };
            rep.oracle_fail(label, input, json!(got), json!(base), "a reordered / re-partitioned variant behaves differently from the baseline");
        }
    }
    // second stream: dependency graphs of global definitions (constants, comptime, aliases, generics)
    crate::c20_globals::run(&mut rep, &mut rng, tier, widen);
    rep
}

pub fn replay(input: &serde_json::Value) -> String {
    format!("variant {}: re-run with the same seed; files:\n{}", input["variant"], input["files"].as_str().unwrap_or(""))
}
