//! C11 — switches are exhaustive, non-redundant and dispatch on the runtime variant.
//!
//! Streams (one generator of `Case`s feeds all of them):
//!  (a) acceptance, in-process: the generated program goes through the real front end
//!      (`frontend::with_analysis`); the diagnostics of the switch (kinds + the types they carry)
//!      are compared with the Lean model `CapyV.Switch.checkSwitch` evaluated on the *real*
//!      `Intern<Ty>` values taken from the analysis, and acceptance is compared with the oracle
//!      below, which is written from the property text on the generator's own description.
//!  (c) discriminants: the discriminants inside the real `Ty::Enum` and the
//!      `DiscriminantUsedAlready` diagnostics vs `CapyV.Switch.assignDiscriminants`; oracle:
//!      pairwise distinct, manual ones honoured.
//!  (b) end to end: accepted cases are built with the real CLI and run with one value per
//!      variant; which arm printed and what the argument printed, vs the model
//!      (`compileSwitch`/`dispatch`/`binding`) and vs the oracle (the arm naming the value's
//!      variant, else the default arm, payload / whole value).
use crate::e2e::{self, Program};
use crate::frontend;
use crate::lean;
use crate::report::Report;
use crate::rng::Rng;
use crate::ty;
use hir::common::{NaiveGlobalLoc, NaiveLoc, Name, Ty};
use serde_json::{json, Value};

// ---- generator-level description ---------------------------------------------------------

#[derive(Clone, Copy, Debug, PartialEq, Eq)]
pub enum P {
    Void,
    I32,
    U8,
    Bool,
    Str,
    Char,
    F64,
    Struct,
    OptI32,
    Arr,
    /// `[2]i32` written literally as the arm (corpus only: known finding)
    ArrLit,
    DistI32,
    Ptr,
    OtherEnum,
}

const ALL_P: [P; 13] =
    [P::Void, P::I32, P::U8, P::Bool, P::Str, P::Char, P::F64, P::Struct, P::OptI32, P::Arr, P::DistI32, P::Ptr, P::OtherEnum];

impl P {
    fn code(self) -> &'static str {
        match self {
            P::Void => "void",
            P::I32 => "i32",
            P::U8 => "u8",
            P::Bool => "bool",
            P::Str => "str",
            P::Char => "char",
            P::F64 => "f64",
            P::Struct => "S",
            P::OptI32 => "?i32",
            P::Arr => "A2",
            P::ArrLit => "[2]i32",
            P::DistI32 => "DI",
            P::Ptr => "^i32",
            P::OtherEnum => "Other",
        }
    }
    fn from_code(s: &str) -> Option<P> {
        ALL_P.iter().copied().chain(std::iter::once(P::ArrLit)).find(|p| p.code() == s)
    }
    /// a value expression of this type (k makes values of different variants differ)
    fn value(self, k: usize) -> String {
        match self {
            P::Void => "{}".into(),
            P::I32 => format!("{}", 100 + k),
            P::U8 => format!("{}", 200 + k),
            P::Bool => "true".into(),
            P::Str => format!("\"s{k}\""),
            P::Char => "'c'".into(),
            P::F64 => "2.5".into(),
            P::Struct => format!("S.{{ x = {}, y = {} }}", 10 + k, 50 + k),
            P::OptI32 => format!("{}", 90 + k),
            P::Arr | P::ArrLit => format!("i32.[1, {}]", 20 + k),
            P::DistI32 => format!("{}", 30 + k),
            P::Ptr => "^gx".into(),
            P::OtherEnum => "oy".into(),
        }
    }
    /// statements printing a value `v` whose type is this payload type or a variant wrapping it
    fn print(self, v: &str) -> String {
        match self {
            P::Void => "core.println(\"void\");".into(),
            P::Struct => format!("core.println({v}.x, \" \", {v}.y);"),
            P::Arr | P::ArrLit => format!("core.println({v}[1]);"),
            P::Ptr => format!("pp := (^i32).({v}); core.println(pp^);"),
            P::OtherEnum => format!("switch ow in Other.({v}) {{ Other.X => core.println(\"X\"), Other.Y => core.println(\"Y \", ow), Other.Z => core.println(\"Z\"), Other.Bogus => core.println(\"B\"), }}"),
            _ => format!("core.println({v});"),
        }
    }
    fn expect(self, k: usize) -> String {
        match self {
            P::Void => "void".into(),
            P::I32 => format!("{}", 100 + k),
            P::U8 => format!("{}", 200 + k),
            P::Bool => "true".into(),
            P::Str => format!("s{k}"),
            P::Char => "c".into(),
            P::F64 => "2.500".into(),
            P::Struct => format!("{} {}", 10 + k, 50 + k),
            P::OptI32 => format!("{}", 90 + k),
            P::Arr | P::ArrLit => format!("{}", 20 + k),
            P::DistI32 => format!("{}", 30 + k),
            P::Ptr => "77".into(),
            P::OtherEnum => "Y 8".into(),
        }
    }
}

#[derive(Clone, Debug, PartialEq)]
pub enum Kind {
    /// (payload, manual discriminant)
    Enum(Vec<(P, Option<u32>)>),
    /// `?P` (tagged) — variants [P, nil]
    Optional(P),
    /// `?^i32` (nullable pointer) — variants [^i32, nil]
    OptPtr,
    /// `Err!Ok` — variants [Err, Ok]
    ErrUnion(P, P),
}

#[derive(Clone, Copy, Debug, PartialEq, Eq)]
pub enum NonVar {
    /// `.Bogus`
    ShortBogus,
    /// `.X` (a variant name of another enum) / any shorthand on a non-enum
    ShortOther,
    /// `u64`
    Unrelated,
    /// `Other.X`
    OtherVariant,
    /// `N :: distinct nil`
    DistinctNil,
    /// `Other.Z` (`Z: nil`)
    NilPayloadVariant,
    /// the scrutinee type itself
    Whole,
    /// `S2`, structurally equal to `S`
    TwinStruct,
}

const ALL_NONVAR: [NonVar; 8] = [
    NonVar::ShortBogus,
    NonVar::ShortOther,
    NonVar::Unrelated,
    NonVar::OtherVariant,
    NonVar::DistinctNil,
    NonVar::NilPayloadVariant,
    NonVar::Whole,
    NonVar::TwinStruct,
];

#[derive(Clone, Copy, Debug, PartialEq, Eq)]
pub enum ArmSpec {
    /// names variant k; `short` = `.Name` (enums only; on non-enums this is a non-variant arm)
    Variant { k: usize, short: bool },
    Non(NonVar),
}

#[derive(Clone, Debug, PartialEq)]
pub struct Case {
    pub kind: Kind,
    /// number of `distinct` wrappers around the sum type
    pub wrappers: usize,
    pub arms: Vec<ArmSpec>,
    pub default: bool,
    pub with_arg: bool,
}

impl Case {
    pub fn n_variants(&self) -> usize {
        match &self.kind {
            Kind::Enum(vs) => vs.len(),
            _ => 2,
        }
    }
    fn is_enum(&self) -> bool {
        matches!(self.kind, Kind::Enum(_))
    }
    /// payload of variant k (`None` = the `nil` variant of an optional)
    fn payload(&self, k: usize) -> Option<P> {
        match &self.kind {
            Kind::Enum(vs) => Some(vs[k].0),
            Kind::Optional(p) => if k == 0 { Some(*p) } else { None },
            Kind::OptPtr => if k == 0 { Some(P::Ptr) } else { None },
            Kind::ErrUnion(e, p) => Some(if k == 0 { *e } else { *p }),
        }
    }
    /// fully-qualified arm text of variant k
    fn qual(&self, k: usize) -> String {
        match &self.kind {
            Kind::Enum(_) => format!("E.V{k}"),
            _ => match self.payload(k) {
                Some(p) => p.code().to_string(),
                None => "nil".into(),
            },
        }
    }
    /// The variant an arm names (property-level reading, from the generator's description).
    fn names(&self, a: &ArmSpec) -> Option<usize> {
        match a {
            ArmSpec::Variant { k, short } => {
                if *short && !self.is_enum() {
                    None
                } else {
                    Some(*k)
                }
            }
            ArmSpec::Non(_) => None,
        }
    }
    fn arm_text(&self, a: &ArmSpec) -> String {
        match a {
            ArmSpec::Variant { k, short: true } => {
                if self.is_enum() { format!(".V{k}") } else { ".X".into() }
            }
            ArmSpec::Variant { k, short: false } => self.qual(*k),
            ArmSpec::Non(n) => match n {
                NonVar::ShortBogus => ".Bogus9".into(),
                NonVar::ShortOther => ".X".into(),
                NonVar::Unrelated => "u64".into(),
                NonVar::OtherVariant => "Other.X".into(),
                NonVar::DistinctNil => "N".into(),
                NonVar::NilPayloadVariant => "Other.Z".into(),
                NonVar::Whole => "T".into(),
                NonVar::TwinStruct => "S2".into(),
            },
        }
    }
    fn manual_discrs(&self) -> Vec<Option<u32>> {
        match &self.kind {
            Kind::Enum(vs) => vs.iter().map(|v| v.1).collect(),
            _ => vec![],
        }
    }

    // ---- the property's own oracle -----------------------------------------------------
    /// "accepted only if it names only variants of that type, names each at most once, and
    /// either names all of them or has a default arm" (+ the declaration itself is valid:
    /// manual discriminants pairwise different).
    pub fn oracle_accepts(&self) -> bool {
        let named: Vec<Option<usize>> = self.arms.iter().map(|a| self.names(a)).collect();
        if named.iter().any(|n| n.is_none()) {
            return false;
        }
        let ks: Vec<usize> = named.into_iter().flatten().collect();
        for (i, k) in ks.iter().enumerate() {
            if ks[..i].contains(k) {
                return false;
            }
        }
        if !self.default && !(0..self.n_variants()).all(|k| ks.contains(&k)) {
            return false;
        }
        let ms: Vec<u32> = self.manual_discrs().into_iter().flatten().collect();
        for (i, m) in ms.iter().enumerate() {
            if ms[..i].contains(m) {
                return false;
            }
        }
        true
    }
    /// "exactly the arm for the value's current variant executes … or the default arm"
    pub fn oracle_target(&self, k: usize) -> String {
        match self.arms.iter().position(|a| self.names(a) == Some(k)) {
            Some(i) => format!("arm{i}"),
            None => "default".into(),
        }
    }

    // ---- source text ---------------------------------------------------------------------
    fn sum_ty_text(&self) -> String {
        match &self.kind {
            Kind::Enum(_) => "E".into(),
            Kind::Optional(p) => format!("?{}", p.code()),
            Kind::OptPtr => "?^i32".into(),
            Kind::ErrUnion(e, p) => format!("{}!{}", e.code(), p.code()),
        }
    }
    fn decls(&self) -> String {
        let mut s = String::new();
        s.push_str("S :: struct { x: i32, y: i64 };\nS2 :: struct { x: i32, y: i64 };\nDI :: distinct i32;\nN :: distinct nil;\nA2 :: [2]i32;\n");
        s.push_str("Other :: enum { X, Y: i32, Z: nil, Bogus };\n");
        if let Kind::Enum(vs) = &self.kind {
            s.push_str("E :: enum {\n");
            for (k, (p, d)) in vs.iter().enumerate() {
                s.push_str(&format!("    V{k}"));
                if *p != P::Void {
                    s.push_str(&format!(": {}", p.code()));
                }
                if let Some(d) = d {
                    s.push_str(&format!(" | {d}"));
                }
                s.push_str(",\n");
            }
            s.push_str("};\n");
        }
        s.push_str(&format!("T0 :: {};\n", self.sum_ty_text()));
        for w in 0..self.wrappers {
            s.push_str(&format!("T{} :: distinct T{};\n", w + 1, w));
        }
        s.push_str(&format!("T :: T{};\n", self.wrappers));
        s
    }
    fn qualified_arms(&self) -> Vec<String> {
        self.arms
            .iter()
            .filter(|a| !self.arm_text(a).starts_with('.'))
            .map(|a| self.arm_text(a))
            .collect()
    }
    /// `sig`: a function whose parameter types are the scrutinee type and the type every
    /// fully-qualified arm denotes (read back from the analysis)
    fn sig(&self) -> String {
        let mut s = String::from("sig :: (e: T");
        for (i, q) in self.qualified_arms().iter().enumerate() {
            s.push_str(&format!(", a{i}: {q}"));
        }
        s.push_str(") {}\n");
        s
    }
    fn switch_head(&self) -> &'static str {
        if self.with_arg { "switch v in e" } else { "switch e" }
    }
    /// in-process acceptance program (no `core`)
    pub fn src_check(&self, with_switch: bool) -> String {
        let mut s = self.decls();
        s.push_str(&self.sig());
        s.push_str("f :: (e: T) {\n");
        if with_switch {
            s.push_str(&format!("    {} {{\n", self.switch_head()));
            for a in &self.arms {
                s.push_str(&format!("        {} => {{}},\n", self.arm_text(a)));
            }
            if self.default {
                s.push_str("        _ => {},\n");
            }
            s.push_str("    }\n");
        }
        s.push_str("}\n");
        s
    }
    /// expression of type `T` holding variant k
    fn value_of(&self, k: usize) -> (String, String) {
        // (setup statements, expression)
        let base = match &self.kind {
            Kind::Enum(vs) => {
                let p = vs[k].0;
                let inner = match p {
                    P::Void => format!("E.V{k}"),
                    P::Struct => format!("E.V{k}.{{ x = {}, y = {} }}", 10 + k, 50 + k),
                    _ => format!("E.V{k}.({})", p.value(k)),
                };
                (format!("    b{k} : T0 = {inner};\n"), format!("b{k}"))
            }
            _ => {
                let inner = match self.payload(k) {
                    Some(p) => p.value(k),
                    None => "nil".into(),
                };
                (format!("    b{k} : T0 = {inner};\n"), format!("b{k}"))
            }
        };
        let mut expr = base.1;
        for w in 0..self.wrappers {
            expr = format!("T{}.({})", w + 1, expr);
        }
        (base.0, expr)
    }
    /// end-to-end program: every arm prints its index and the payload bound to `v`; the
    /// default arm prints what the whole value is through a nested exhaustive switch
    pub fn src_run(&self) -> String {
        let mut s = String::from("core :: #mod(\"core\");\n");
        s.push_str(&self.decls());
        s.push_str("f :: (e: T) {\n    switch v in e {\n");
        for (i, a) in self.arms.iter().enumerate() {
            let k = self.names(a).unwrap_or(0);
            let pr = match self.payload(k) {
                Some(p) => p.print("v"),
                None => "core.println(\"nil\");".into(),
            };
            s.push_str(&format!("        {} => {{ core.print(\"arm{i} \"); {pr} }},\n", self.arm_text(a)));
        }
        if self.default {
            s.push_str("        _ => {\n            core.print(\"default \");\n            switch w in v {\n");
            for k in 0..self.n_variants() {
                let pr = match self.payload(k) {
                    Some(p) => p.print("w"),
                    None => "core.println(\"nil\");".into(),
                };
                s.push_str(&format!("                {} => {{ core.print(\"w{k} \"); {pr} }},\n", self.qual(k)));
            }
            s.push_str("            }\n        },\n");
        }
        s.push_str("    }\n}\n");
        // the same switch used as a VALUE; every second arm leaves the function with `return`
        // instead of yielding a value (fix 97f7ffe: such a switch failed Cranelift verification)
        s.push_str("fv :: (e: T) -> i32 {\n    x := switch v in e {\n");
        for (i, a) in self.arms.iter().enumerate() {
            if i % 2 == 1 {
                s.push_str(&format!("        {} => {{ return {}; }},\n", self.arm_text(a), 100 + i));
            } else {
                s.push_str(&format!("        {} => {i},\n", self.arm_text(a)));
            }
        }
        if self.default {
            s.push_str("        _ => 99,\n");
        }
        s.push_str("    };\n    x + 1000\n}\n");
        s.push_str("main :: () {\n    gx : i32 = 77;\n    oy : Other = Other.Y.(8);\n");
        for k in 0..self.n_variants() {
            let (setup, expr) = self.value_of(k);
            s.push_str(&setup);
            s.push_str(&format!("    core.print(\"k{k} \");\n    f({expr});\n"));
            s.push_str(&format!("    core.print(\"v{k} \");\n    core.println(fv({expr}));\n"));
        }
        s.push_str("}\n");
        s
    }
    /// expected `v{k} N` line of the value switch
    pub fn oracle_value_line(&self, k: usize) -> String {
        match self.arms.iter().position(|a| self.names(a) == Some(k)) {
            Some(i) if i % 2 == 1 => format!("v{k} {}", 100 + i),
            Some(i) => format!("v{k} {}", 1000 + i),
            None => format!("v{k} 1099"),
        }
    }
    /// expected stdout line for variant k, from the property text
    pub fn oracle_line(&self, k: usize) -> String {
        let pay = match self.payload(k) {
            Some(p) => p.expect(k),
            None => "nil".into(),
        };
        match self.arms.iter().position(|a| self.names(a) == Some(k)) {
            Some(i) => format!("k{k} arm{i} {pay}"),
            None => format!("k{k} default w{k} {pay}"),
        }
    }

    pub fn to_json(&self) -> Value {
        let kind = match &self.kind {
            Kind::Enum(vs) => json!({"enum": vs.iter().map(|(p, d)| json!([p.code(), d])).collect::<Vec<_>>()}),
            Kind::Optional(p) => json!({"optional": p.code()}),
            Kind::OptPtr => json!("optptr"),
            Kind::ErrUnion(e, p) => json!({"errunion": [e.code(), p.code()]}),
        };
        let arms: Vec<Value> = self
            .arms
            .iter()
            .map(|a| match a {
                ArmSpec::Variant { k, short } => json!({"k": k, "short": short}),
                ArmSpec::Non(n) => json!({"non": ALL_NONVAR.iter().position(|x| x == n).unwrap()}),
            })
            .collect();
        json!({"kind": kind, "wrappers": self.wrappers, "arms": arms, "default": self.default, "with_arg": self.with_arg})
    }
    pub fn from_json(v: &Value) -> Option<Case> {
        let kind = if let Some(vs) = v["kind"]["enum"].as_array() {
            Kind::Enum(
                vs.iter()
                    .map(|e| Some((P::from_code(e[0].as_str()?)?, e[1].as_u64().map(|d| d as u32))))
                    .collect::<Option<Vec<_>>>()?,
            )
        } else if let Some(p) = v["kind"]["optional"].as_str() {
            Kind::Optional(P::from_code(p)?)
        } else if let Some(ep) = v["kind"]["errunion"].as_array() {
            Kind::ErrUnion(P::from_code(ep[0].as_str()?)?, P::from_code(ep[1].as_str()?)?)
        } else {
            Kind::OptPtr
        };
        let arms = v["arms"]
            .as_array()?
            .iter()
            .map(|a| {
                if let Some(n) = a["non"].as_u64() {
                    Some(ArmSpec::Non(*ALL_NONVAR.get(n as usize)?))
                } else {
                    Some(ArmSpec::Variant { k: a["k"].as_u64()? as usize, short: a["short"].as_bool()? })
                }
            })
            .collect::<Option<Vec<_>>>()?;
        Some(Case {
            kind,
            wrappers: v["wrappers"].as_u64()? as usize,
            arms,
            default: v["default"].as_bool()?,
            with_arg: v["with_arg"].as_bool()?,
        })
    }
}

// ---- implementation side: the real front end ------------------------------------------------

#[derive(Clone, Debug, Default)]
pub struct Extract {
    /// S-expression of the scrutinee type
    pub scrut: String,
    /// model arms in source order: `(s <key>)` / `(q <ty>)`
    pub arms: Vec<String>,
    /// diagnostics of the switch check, rendered like the driver renders the model's
    pub switch_diags: Vec<String>,
    /// `DiscriminantUsedAlready` values
    pub dup_discrs: Vec<u64>,
    /// everything else (kind names)
    pub other_diags: Vec<String>,
    /// discriminants inside the real `Ty::Enum` (if the scrutinee is an enum)
    pub discrs: Vec<u64>,
    /// S-expressions of the variant types of the scrutinee
    pub variants: Vec<String>,
}

fn extract(case: &Case, a: &frontend::Analysis) -> Result<Extract, String> {
    let mut ex = Extract::default();
    let file = a.files.last().ok_or("no file")?.0;
    let key = a.interner.get_interned("sig").ok_or("sig not interned")?;
    let sig = a
        .tys
        .try_naive(NaiveLoc::Global(NaiveGlobalLoc { file, name: Name(key) }), a.world_bodies)
        .map_err(|_| "no signature for sig".to_string())?;
    let Ty::ConcreteFunction { param_tys, .. } = sig.as_ref() else {
        return Err(format!("sig is not a function: {}", ty::sexp(&sig)));
    };
    let scrut = param_tys.first().ok_or("sig has no params")?.ty;
    ex.scrut = ty::sexp(&scrut);
    match scrut.absolute_ty() {
        Ty::Enum { variants, .. } => {
            for v in variants {
                if let Ty::EnumVariant { discriminant, .. } = v.as_ref() {
                    ex.discrs.push(*discriminant);
                }
                ex.variants.push(ty::sexp(v));
            }
        }
        Ty::Optional { sub_ty } => ex.variants = vec![ty::sexp(sub_ty), "nil".into()],
        Ty::ErrorUnion { error_ty, payload_ty } => ex.variants = vec![ty::sexp(error_ty), ty::sexp(payload_ty)],
        _ => {}
    }
    let mut qi = 1;
    for arm in &case.arms {
        let text = case.arm_text(arm);
        if let Some(name) = text.strip_prefix('.') {
            let k = a.interner.get_interned(name).map(|k| k.to_raw()).unwrap_or(4_000_000);
            ex.arms.push(format!("(s {k})"));
        } else {
            let t = param_tys.get(qi).ok_or("missing arm type param")?.ty;
            qi += 1;
            ex.arms.push(format!("(q {})", ty::sexp(&t)));
        }
    }
    for d in &a.ty_diags {
        use hir_ty::{ExpectedTy, TyDiagnosticKind as K};
        match &d.kind {
            K::Mismatch { expected: ExpectedTy::SumType, .. } => ex.switch_diags.push("MismatchSum".into()),
            K::Mismatch { expected: ExpectedTy::Enum, .. } => ex.switch_diags.push("MismatchEnum".into()),
            K::NotAVariantOfSumType { ty: t, .. } => ex.switch_diags.push(format!("NotAVariant:{}", ty::sexp(t))),
            K::NotAShorthandVariantOfSumType { ty: k, .. } => ex.switch_diags.push(format!("NotAShorthand:{}", k.to_raw())),
            K::SwitchAlreadyCoversVariant { ty: t } => ex.switch_diags.push(format!("Already:{}", ty::sexp(t))),
            K::SwitchDoesNotCoverVariant { ty: t } => ex.switch_diags.push(format!("Missing:{}", ty::sexp(t))),
            K::DiscriminantUsedAlready { value } => ex.dup_discrs.push(*value),
            other => {
                let s = format!("{other:?}");
                ex.other_diags.push(format!("ty:{}", s.split(|c: char| c == ' ' || c == '{' || c == '(').next().unwrap_or("")));
            }
        }
    }
    for k in a.kinds() {
        if !k.starts_with("ty:") {
            ex.other_diags.push(k);
        }
    }
    Ok(ex)
}

/// `Ok(extract)` or `Err(panic message)` for the program with the switch; on a panic the types
/// are read from the same program without the switch.
fn analyse(case: &Case) -> (Result<Extract, String>, Option<Extract>) {
    let c2 = case.clone();
    let r = frontend::with_analysis(vec![("main.capy".into(), case.src_check(true))], None, false, move |a| extract(&c2, a));
    match r {
        Ok(Ok(ex)) => (Ok(ex.clone()), Some(ex)),
        Ok(Err(e)) => (Err(format!("harness: {e}")), None),
        Err(p) => {
            let c1 = case.clone();
            let r1 = frontend::with_analysis(vec![("main.capy".into(), case.src_check(false))], None, false, move |a| extract(&c1, a));
            (Err(p), r1.ok().and_then(|x| x.ok()))
        }
    }
}

/// Does the tree under test contain `FIX.patch`? (decides which transcription the model
/// comparison uses: `checkSwitch`/`compileSwitch true` or the pinned ones). Probe: the confirmed
/// crash `D :: distinct ?i32; switch d { i32 => {}, nil => {} }`.
fn tree_is_fixed() -> bool {
    let probe = Case {
        kind: Kind::Optional(P::I32),
        wrappers: 1,
        arms: vec![ArmSpec::Variant { k: 0, short: false }, ArmSpec::Variant { k: 1, short: false }],
        default: false,
        with_arg: false,
    };
    analyse(&probe).0.is_ok()
}

// ---- generators --------------------------------------------------------------------------

fn gen_kind(rng: &mut Rng) -> Kind {
    match rng.below(10) {
        0..=5 => {
            let n = 1 + rng.below(6) as usize;
            let mut vs = vec![];
            let mut used: Vec<u32> = vec![];
            for _ in 0..n {
                let p = *rng.pick(&ALL_P);
                let d = if rng.chance(1, 3) {
                    // small pool so that collisions with automatic values and (rarely) between
                    // manual values occur; 255 makes the next automatic value 256
                    let pool = [0u32, 1, 2, 3, 5, 7, 20, 200, 254, 255];
                    let mut d = *rng.pick(&pool);
                    if used.contains(&d) && !rng.chance(1, 8) {
                        d = (d + 11) % 250;
                    }
                    used.push(d);
                    Some(d)
                } else {
                    None
                };
                vs.push((p, d));
            }
            Kind::Enum(vs)
        }
        6 | 7 => Kind::Optional(*rng.pick(&[P::I32, P::U8, P::Bool, P::Str, P::Struct, P::DistI32, P::F64, P::Arr, P::OtherEnum])),
        8 => Kind::OptPtr,
        _ => {
            // (numeric error types are rejected at the declaration when the payload is numeric
            // too: `ImpossibleToDifferentiateErrorUnion`)
            let e = *rng.pick(&[P::Str, P::OtherEnum]);
            let p = *rng.pick(&[P::I32, P::Void, P::Struct, P::Bool, P::Ptr, P::F64, P::U8, P::DistI32]);
            Kind::ErrUnion(e, p)
        }
    }
}

fn gen_case(rng: &mut Rng) -> Case {
    let kind = gen_kind(rng);
    let wrappers = match rng.below(6) {
        0 | 1 => 1,
        2 => 2,
        _ => 0,
    };
    let mut c = Case { kind, wrappers, arms: vec![], default: rng.chance(1, 3), with_arg: rng.chance(2, 3) };
    let n = c.n_variants();
    let is_enum = c.is_enum();
    // start from a permutation of a subset, then perturb
    let mut ks: Vec<usize> = (0..n).collect();
    for i in (1..ks.len()).rev() {
        let j = rng.below(i as u64 + 1) as usize;
        ks.swap(i, j);
    }
    let style = rng.below(10);
    let keep = if style < 5 { n } else { rng.below(n as u64 + 1) as usize };
    ks.truncate(keep);
    for k in ks {
        c.arms.push(ArmSpec::Variant { k, short: is_enum && rng.chance(1, 2) });
    }
    if style == 7 || style == 8 {
        // a duplicate (possibly in the other spelling)
        if !c.arms.is_empty() {
            let ArmSpec::Variant { k, .. } = *rng.pick(&c.arms) else { unreachable!() };
            let pos = rng.below(c.arms.len() as u64 + 1) as usize;
            c.arms.insert(pos, ArmSpec::Variant { k, short: is_enum && rng.chance(1, 2) });
        }
    }
    if style == 9 || rng.chance(1, 12) {
        let nv = *rng.pick(&ALL_NONVAR);
        let pos = rng.below(c.arms.len() as u64 + 1) as usize;
        c.arms.insert(pos, ArmSpec::Non(nv));
    }
    if !is_enum && rng.chance(1, 15) && !c.arms.is_empty() {
        // shorthand on a non-enum
        let i = rng.below(c.arms.len() as u64) as usize;
        if let ArmSpec::Variant { k, .. } = c.arms[i] {
            c.arms[i] = ArmSpec::Variant { k, short: true };
        }
    }
    c
}

/// all arm lists of length ≤ `max_len` over both spellings of the first two variants and two
/// non-variant arms, × default, over six small sum types
fn exhaustive_cases(max_len: usize) -> Vec<Case> {
    let kinds = vec![
        (Kind::Enum(vec![(P::I32, None), (P::Void, Some(5))]), 0),
        (Kind::Enum(vec![(P::Str, None), (P::Struct, None)]), 1),
        (Kind::Optional(P::I32), 0),
        (Kind::Optional(P::DistI32), 1),
        (Kind::ErrUnion(P::Str, P::I32), 0),
        (Kind::ErrUnion(P::OtherEnum, P::Void), 2),
        (Kind::OptPtr, 0),
    ];
    let mut out = vec![];
    for (kind, wrappers) in kinds {
        let is_enum = matches!(kind, Kind::Enum(_));
        let mut alphabet = vec![
            ArmSpec::Variant { k: 0, short: false },
            ArmSpec::Variant { k: 1, short: false },
            ArmSpec::Non(NonVar::Unrelated),
            ArmSpec::Non(NonVar::DistinctNil),
        ];
        if is_enum {
            alphabet.push(ArmSpec::Variant { k: 0, short: true });
            alphabet.push(ArmSpec::Variant { k: 1, short: true });
            alphabet.push(ArmSpec::Non(NonVar::ShortBogus));
        } else {
            alphabet.push(ArmSpec::Non(NonVar::ShortOther));
        }
        let mut lists: Vec<Vec<ArmSpec>> = vec![vec![]];
        let mut frontier: Vec<Vec<ArmSpec>> = vec![vec![]];
        for _ in 0..max_len {
            let mut next = vec![];
            for l in &frontier {
                for a in &alphabet {
                    let mut l2 = l.clone();
                    l2.push(*a);
                    next.push(l2);
                }
            }
            lists.extend(next.iter().cloned());
            frontier = next;
        }
        for l in lists {
            for default in [false, true] {
                out.push(Case { kind: kind.clone(), wrappers, arms: l.clone(), default, with_arg: l.len() % 2 == 0 });
            }
        }
    }
    out
}

/// past failures and the shapes of the repo's own tests
fn corpus() -> Vec<Case> {
    let v = |k, short| ArmSpec::Variant { k, short };
    vec![
        // corpus/probes/C11_distinct_optional_switch_unreachable.capy
        Case { kind: Kind::Optional(P::I32), wrappers: 1, arms: vec![v(0, false), v(1, false)], default: false, with_arg: true },
        // distinct enum, shorthand / qualified
        Case { kind: Kind::Enum(vec![(P::I32, None), (P::Void, None)]), wrappers: 1, arms: vec![v(0, true), v(1, true)], default: false, with_arg: true },
        Case { kind: Kind::Enum(vec![(P::I32, None), (P::Void, None)]), wrappers: 2, arms: vec![v(1, false), v(0, false)], default: false, with_arg: true },
        // distinct error union
        Case { kind: Kind::ErrUnion(P::Str, P::I32), wrappers: 1, arms: vec![v(0, false), v(1, false)], default: false, with_arg: true },
        // `N :: distinct nil` / `Other.Z` (nil payload) as an arm of an optional
        Case { kind: Kind::Optional(P::I32), wrappers: 0, arms: vec![v(0, false), ArmSpec::Non(NonVar::DistinctNil)], default: false, with_arg: true },
        Case { kind: Kind::Optional(P::I32), wrappers: 0, arms: vec![v(0, false), ArmSpec::Non(NonVar::NilPayloadVariant)], default: true, with_arg: false },
        // nullable pointer with a default arm
        Case { kind: Kind::OptPtr, wrappers: 0, arms: vec![v(1, false)], default: true, with_arg: true },
        Case { kind: Kind::OptPtr, wrappers: 0, arms: vec![v(0, false)], default: true, with_arg: true },
        Case { kind: Kind::OptPtr, wrappers: 0, arms: vec![], default: true, with_arg: true },
        Case { kind: Kind::OptPtr, wrappers: 1, arms: vec![v(1, false), v(0, false)], default: false, with_arg: true },
        // pointer payload in a tagged union, bound to the switch argument
        Case { kind: Kind::Enum(vec![(P::Ptr, None), (P::I32, None)]), wrappers: 0, arms: vec![v(0, true), v(1, true)], default: false, with_arg: true },
        Case { kind: Kind::ErrUnion(P::Str, P::Ptr), wrappers: 0, arms: vec![v(0, false), v(1, false)], default: false, with_arg: true },
        // automatic discriminant after `| 255`
        Case { kind: Kind::Enum(vec![(P::Void, Some(255)), (P::I32, None)]), wrappers: 0, arms: vec![v(0, true), v(1, true)], default: false, with_arg: true },
        // examples/enums_and_switch_statements.capy: 7 → 6 variants, one manual discriminant
        Case {
            kind: Kind::Enum(vec![(P::Str, None), (P::Void, None), (P::I32, None), (P::Void, Some(20)), (P::Struct, None), (P::Void, None)]),
            wrappers: 0,
            arms: vec![v(1, true), v(0, true), v(2, true), v(3, true), v(5, true), v(4, true)],
            default: false,
            with_arg: true,
        },
        // `[2]i32` written literally as an arm whose body uses the argument (known finding)
        Case { kind: Kind::Optional(P::ArrLit), wrappers: 0, arms: vec![v(1, false), v(0, false)], default: false, with_arg: true },
        // duplicate manual discriminants
        Case { kind: Kind::Enum(vec![(P::Void, Some(3)), (P::Void, Some(3)), (P::Void, None)]), wrappers: 0, arms: vec![v(0, true), v(1, true), v(2, true)], default: false, with_arg: false },
    ]
}

// ---- running -----------------------------------------------------------------------------

fn shape_key(c: &Case) -> String {
    c.to_json().to_string()
}

fn kind_label(c: &Case) -> &'static str {
    match (&c.kind, c.wrappers > 0) {
        (Kind::Enum(_), false) => "enum",
        (Kind::Enum(_), true) => "distinct-enum",
        (Kind::Optional(_), false) => "optional",
        (Kind::Optional(_), true) => "distinct-optional",
        (Kind::OptPtr, false) => "optional-pointer",
        (Kind::OptPtr, true) => "distinct-optional-pointer",
        (Kind::ErrUnion(..), false) => "error-union",
        (Kind::ErrUnion(..), true) => "distinct-error-union",
    }
}

/// label of a front-end panic (known findings are keyed by it)
fn panic_label(c: &Case) -> String {
    if c.wrappers > 0 {
        "distinct-sum-type-unreachable".into()
    } else if c.arms.iter().any(|a| matches!(a, ArmSpec::Non(NonVar::DistinctNil | NonVar::NilPayloadVariant)))
        && matches!(c.kind, Kind::Optional(_) | Kind::OptPtr)
    {
        "nil-like-arm-of-optional-unreachable".into()
    } else {
        "front-end-panic".into()
    }
}

struct Checked {
    case: Case,
    types: Option<Extract>,
    accepted_by_impl: bool,
}

fn run_acceptance(cases: &[Case], fixed: bool, rep: &mut Report) -> Vec<Checked> {
    let mode = if fixed { "fixed" } else { "pinned" };
    let mut results = vec![];
    let mut reqs = vec![];
    let mut analysed = vec![];
    for c in cases {
        let (r, types) = analyse(c);
        if let Some(t) = &types {
            reqs.push(format!("C11 check {mode} {} {} | {}", if c.default { 1 } else { 0 }, t.scrut, t.arms.join(" | ")));
            reqs.push(format!(
                "C11 discr {}",
                c.manual_discrs().iter().map(|d| d.map(|x| x.to_string()).unwrap_or("-".into())).collect::<Vec<_>>().join(" ")
            ));
        }
        analysed.push((r, types));
    }
    let answers = lean::ask(&reqs);
    let mut ai = 0;
    for (c, (r, types)) in cases.iter().zip(analysed.into_iter()) {
        let input = json!({"stream": "acceptance", "case": c.to_json(), "source": c.src_check(true)});
        let oracle = c.oracle_accepts();
        rep.hit(&format!("kind:{}", kind_label(c)));
        rep.hit(if oracle { "oracle:accept" } else { "oracle:reject" });
        let nontrivial = !c.arms.is_empty() || c.default;
        rep.case(if nontrivial { Some(shape_key(c)) } else { None });
        let (model_check, model_discr) = if types.is_some() {
            ai += 2;
            (answers[ai - 2].clone(), answers[ai - 1].clone())
        } else {
            ("?".to_string(), "?".to_string())
        };
        let model_outcome = model_check.split(" spec=").next().unwrap_or("").to_string();
        let model_spec = model_check.split(" spec=").nth(1).unwrap_or("").to_string();
        let mut accepted_by_impl = false;
        match &r {
            Err(p) if p.starts_with("harness:") => {
                rep.notes.push(format!("{p} on {}", c.to_json()));
                rep.disagree(input.clone(), json!(p), json!(model_outcome));
            }
            Err(p) => {
                rep.hit("impl:panic");
                let first = p.lines().next().unwrap_or("").to_string();
                // a panic is never what the property allows (accept or reject, not crash)
                rep.oracle_fail(
                    &panic_label(c),
                    input.clone(),
                    json!(format!("PANIC {first}")),
                    json!(if oracle { "accept" } else { "reject with a diagnostic" }),
                    "the type checker panicked on a switch",
                );
                if model_outcome != "?" && model_outcome != "panic" {
                    // the transcription of the code under test must predict the panic too
                    // (pinned transcription on a pinned tree); on a fixed tree there is none
                    rep.disagree(input.clone(), json!("panic"), json!(model_outcome));
                }
            }
            Ok(ex) => {
                let impl_outcome = if ex.switch_diags.is_empty() { "ok".to_string() } else { ex.switch_diags.join(";") };
                for d in &ex.switch_diags {
                    rep.hit(&format!("diag:{}", d.split(':').next().unwrap_or("")));
                }
                accepted_by_impl = ex.switch_diags.is_empty() && ex.dup_discrs.is_empty() && ex.other_diags.is_empty();
                rep.hit(if accepted_by_impl { "impl:accept" } else { "impl:reject" });
                if rep.evaluations % 211 == 1 {
                    rep.sample(json!({"case": c.to_json(), "implementation": impl_outcome, "model": model_outcome, "oracle_accepts": oracle}));
                }
                // model = implementation, diagnostic by diagnostic, with the types they carry
                if model_outcome != "?" && model_outcome != impl_outcome {
                    rep.disagree(input.clone(), json!(impl_outcome), json!(model_outcome));
                }
                // the Lean statement of the acceptance rule = the Rust oracle (same rule, two authors)
                if !model_spec.is_empty() && model_spec != "?" {
                    let switch_oracle = {
                        let mut c2 = c.clone();
                        if let Kind::Enum(vs) = &mut c2.kind {
                            for v in vs.iter_mut() {
                                v.1 = None;
                            }
                        }
                        c2.oracle_accepts()
                    };
                    if (model_spec == "accept") != switch_oracle {
                        rep.disagree(input.clone(), json!(format!("rust-oracle={switch_oracle}")), json!(format!("lean-spec={model_spec}")));
                    }
                }
                // discriminants
                if c.is_enum() {
                    let impl_d = format!(
                        "dups=[{}] discr=[{}]",
                        ex.dup_discrs.iter().map(|x| x.to_string()).collect::<Vec<_>>().join(","),
                        ex.discrs.iter().map(|x| x.to_string()).collect::<Vec<_>>().join(",")
                    );
                    if model_discr != "?" && model_discr != impl_d {
                        rep.disagree(json!({"stream": "discriminants", "case": c.to_json()}), json!(impl_d), json!(model_discr));
                    }
                    if ex.dup_discrs.is_empty() {
                        let mut seen = vec![];
                        let mut injective = true;
                        for d in &ex.discrs {
                            if seen.contains(d) {
                                injective = false;
                            }
                            seen.push(*d);
                        }
                        let honoured = c.manual_discrs().iter().zip(ex.discrs.iter()).all(|(m, d)| m.map(|m| m as u64 == *d).unwrap_or(true));
                        if !injective || !honoured {
                            rep.oracle_fail(
                                "discriminants-not-injective",
                                input.clone(),
                                json!(impl_d),
                                json!("pairwise distinct discriminants, manual ones as written"),
                                "an accepted enum declaration has clashing or altered discriminants",
                            );
                        }
                    }
                }
                // oracle: acceptance
                if accepted_by_impl != oracle {
                    if !ex.other_diags.is_empty() && !oracle {
                        // rejected for another reason; fine
                    } else if !ex.other_diags.is_empty() {
                        rep.oracle_fail(
                            "unexpected-diagnostic",
                            input.clone(),
                            json!(ex.other_diags),
                            json!("accept"),
                            "a switch the property accepts was rejected with an unrelated diagnostic",
                        );
                    } else {
                        rep.oracle_fail(
                            if oracle { "rejects-valid-switch" } else { "accepts-invalid-switch" },
                            input.clone(),
                            json!(impl_outcome),
                            json!(if oracle { "accept" } else { "reject" }),
                            "acceptance differs from: only variants, each at most once, all of them or a default arm",
                        );
                    }
                }
            }
        }
        results.push(Checked { case: c.clone(), types, accepted_by_impl });
    }
    results
}

/// label of an end-to-end failure
fn e2e_label(c: &Case, out: &e2e::Outcome) -> String {
    let first = out.compile_out.lines().find(|l| l.contains("panicked at")).unwrap_or("").to_string();
    if out.compiler_panicked() {
        if out.compile_out.contains("was not given a type") {
            return "array-type-arm-switch-argument".into();
        }
        if c.wrappers > 0 && first.contains("hir_ty") {
            return "distinct-sum-type-unreachable".into();
        }
        if c.wrappers > 0 && first.contains("functions.rs") && out.compile_out.contains("unreachable") {
            return "distinct-sum-type-unreachable".into();
        }
        if out.compile_out.contains("default.is_none()") || out.compile_out.contains("arm_blocks.len()") {
            return "nullable-pointer-switch-default-arm".into();
        }
        if out.compile_out.contains("!payload_ty.is_non_zero()") {
            return "pointer-payload-switch-argument".into();
        }
        if out.compile_out.contains("does not fit the maximum switch entry") || out.compile_out.contains("switch entry") {
            return "auto-discriminant-exceeds-u8".into();
        }
        return "compiler-panic".into();
    }
    if !out.built {
        return "accepted-switch-not-built".into();
    }
    "wrong-arm-or-binding".into()
}

fn run_e2e(checked: &[Checked], fixed: bool, limit: usize, rng: &mut Rng, rep: &mut Report) {
    if !e2e::available() {
        rep.notes.push("capy CLI binary missing: end-to-end stream skipped".into());
        return;
    }
    let mode = if fixed { "fixed" } else { "pinned" };
    // accepted by the oracle (the property says these must run), corpus first then a sample
    let mut pool: Vec<&Checked> = checked.iter().filter(|c| c.case.oracle_accepts() && c.case.with_arg && c.types.is_some()).collect();
    let mut seen = std::collections::BTreeSet::new();
    pool.retain(|c| seen.insert(shape_key(&c.case)));
    let head = pool.len().min(corpus().len());
    let mut chosen: Vec<&Checked> = pool[..head].to_vec();
    let mut rest: Vec<&Checked> = pool[head..].to_vec();
    while chosen.len() < limit && !rest.is_empty() {
        let i = rng.below(rest.len() as u64) as usize;
        chosen.push(rest.swap_remove(i));
    }
    let progs: Vec<Program> = chosen.iter().map(|c| Program::single(&c.case.src_run())).collect();
    let outcomes = e2e::run_all(&progs, e2e::Limits::default());
    let reqs: Vec<String> = chosen
        .iter()
        .map(|c| {
            let t = c.types.as_ref().unwrap();
            format!("C11 dispatch {mode} {} {} | {}", if c.case.default { 1 } else { 0 }, t.scrut, t.arms.join(" | "))
        })
        .collect();
    let answers = lean::ask(&reqs);
    // the default arm of the generated program contains the harness's own probe: an exhaustive
    // switch with an argument over the bound value; the compiler must get through that one too
    let probe_reqs: Vec<String> = chosen
        .iter()
        .map(|c| {
            let t = c.types.as_ref().unwrap();
            format!("C11 dispatch {mode} 0 {} | {}", t.scrut, t.variants.iter().map(|v| format!("(q {v})")).collect::<Vec<_>>().join(" | "))
        })
        .collect();
    let probe_answers = lean::ask(&probe_reqs);
    for (((ch, out), model), probe) in chosen.iter().zip(outcomes.iter()).zip(answers.iter()).zip(probe_answers.iter()) {
        let model = if ch.case.default && probe == "panic" { probe } else { model };
        let c = &ch.case;
        let n = c.n_variants();
        let input = json!({"stream": "end-to-end", "case": c.to_json(), "source": c.src_run()});
        rep.hit(&format!("e2e:{}", kind_label(c)));
        let ran = out.built && out.run_status == Some(0);
        let lines: Vec<String> = out.stdout().lines().map(|l| l.trim_end().to_string()).collect();
        let model_targets: Vec<String> = model.split(';').map(|s| s.split('=').next().unwrap_or("").to_string()).collect();
        if !ran {
            rep.hit(if out.compiler_panicked() { "e2e:compiler-panic" } else if !out.built { "e2e:not-built" } else { "e2e:run-failed" });
        }
        for k in 0..n {
            rep.case(Some(format!("{}#k{k}", shape_key(c))));
            rep.traces_validated += 1;
            let want = c.oracle_line(k);
            let got = if ran {
                lines.iter().find(|l| l.starts_with(&format!("k{k} "))).cloned().unwrap_or_else(|| "MISSING".into())
            } else {
                let why = out
                    .compile_out
                    .lines()
                    .filter(|l| l.contains("panicked at") || l.starts_with("error") || l.contains("assertion") || l.contains("does not fit"))
                    .take(2)
                    .collect::<Vec<_>>()
                    .join(" / ");
                format!("NOT-RUN({} {})", out.run_summary(), why)
            };
            if rep.evaluations % 37 == 1 {
                rep.sample(json!({"case": c.to_json(), "variant": k, "stdout": got, "model": model}));
            }
            // model: which arm, and payload vs whole value
            // the model abstracts arm *expressions* to the types they denote; the one crash that
            // depends on how the arm is spelled (`[2]i32` literally) is reported through the oracle only
            let spelled_array_crash = !ran && e2e_label(c, out) == "array-type-arm-switch-argument";
            if model != "?" && !spelled_array_crash {
                let got_target = got.split(' ').nth(1).unwrap_or("").to_string();
                let m = if model == "panic" { "panic".to_string() } else { model_targets.get(k).cloned().unwrap_or_default() };
                let impl_t = if ran { got_target } else if out.compiler_panicked() { "panic".to_string() } else { "not-run".to_string() };
                if m != impl_t {
                    rep.disagree(input.clone(), json!(format!("variant {k}: {impl_t}")), json!(format!("variant {k}: {m} ({model})")));
                }
            }
            if ran {
                let wantv = c.oracle_value_line(k);
                let gotv = lines.iter().find(|l| l.starts_with(&format!("v{k} "))).cloned().unwrap_or_else(|| "MISSING".into());
                rep.hit(if wantv.len() == format!("v{k} ").len() + 3 { "e2e:value-switch:arm-returned" } else { "e2e:value-switch:arm-yielded" });
                if gotv != wantv {
                    rep.oracle_fail("value-switch-wrong-arm", input.clone(), json!(gotv), json!(wantv), "the switch used as a value did not yield the value of (or leave through) the arm of the value's variant");
                }
            }
            if got != want {
                rep.oracle_fail(&e2e_label(c, out), input.clone(), json!(got), json!(want), "the built program did not run exactly the arm of the value's variant with the right argument");
            } else {
                rep.hit(if want.contains(" default ") { "e2e:default-arm-ran" } else { "e2e:variant-arm-ran" });
            }
        }
    }
}

pub fn run(tier: &str, seed: u64, widen: bool) -> Report {
    let mut rep = Report::new(
        "C11",
        "real front end in-process (diagnostics of Expr::Switch and the discriminants inside Ty::Enum, with the real Intern<Ty> values) vs Lean model CapyV.Switch.checkSwitch/assignDiscriminants; real capy CLI + built executable (arm that ran, argument printed) vs CapyV.Switch.compileSwitch/dispatch/binding",
        "corpus of past failures, then exhaustive: every arm list of length <= L (quick 2, thorough 3) over both spellings of two variants + non-variant arms, x default, over 7 small sum types (enum, optional, error union, optional pointer, with 0-2 distinct wrappers); then seeded random: enums of 1-6 variants with payloads from 13 types and manual discriminants from a pool incl. 255 and clashes, optionals, optional pointers, error unions, 0-2 distinct wrappers, arm lists = permuted subsets +- duplicate +- non-variant arm (8 kinds) +- shorthand on non-enum, optional default arm, with/without switch argument; end to end: a sample of the accepted cases, one run per variant value. non-trivial = the switch has at least one arm; distinct by the full case description (and the variant for runs)",
    );
    let mut rng = Rng::new(seed);
    let fixed = tree_is_fixed();
    rep.notes.push(format!("tree under test: {}", if fixed { "contains FIX.patch (model: checkSwitch / compileSwitch true)" } else { "pinned code (model: checkSwitchPinned / compileSwitch false)" }));
    rep.hit(if fixed { "tree:fixed" } else { "tree:pinned" });
    let thorough = tier == "thorough";
    let (max_len, n_random, n_e2e) = if widen { (3, 60_000, 1500) } else if thorough { (3, 12_000, 500) } else { (2, 1_500, 72) };
    let mut cases = corpus();
    cases.extend(exhaustive_cases(max_len));
    for _ in 0..n_random {
        cases.push(gen_case(&mut rng));
    }
    rep.exhaustive = false;
    let checked = run_acceptance(&cases, fixed, &mut rep);
    let _ = checked.iter().filter(|c| c.accepted_by_impl).count();
    run_e2e(&checked, fixed, n_e2e, &mut rng, &mut rep);
    rep
}

pub fn replay(input: &Value) -> String {
    let Some(case) = Case::from_json(&input["case"]) else {
        return "cannot parse the case".into();
    };
    let fixed = tree_is_fixed();
    let mut rep = Report::new("C11", "replay", "replay");
    let checked = run_acceptance(&[case.clone()], fixed, &mut rep);
    let mut rng = Rng::new(1);
    if input["stream"] == "end-to-end" {
        run_e2e(&checked, fixed, 1, &mut rng, &mut rep);
    }
    let mut s = format!("case: {}\noracle accepts: {}\n", case.to_json(), case.oracle_accepts());
    for d in &rep.model_disagreements {
        s.push_str(&format!("MODEL-MISMATCH implementation={} model={}\n", d["implementation"], d["model"]));
    }
    for f in &rep.oracle_failures {
        s.push_str(&format!("SPEC-MISMATCH [{}] implementation={} spec={}\n", f["label"], f["implementation"], f["spec"]));
    }
    if rep.model_disagreements.is_empty() && rep.oracle_failures.is_empty() {
        s.push_str("implementation = model = spec\n");
    }
    s
}
