//! C01, evaluation order: expressions whose leaves have an observable effect (`tick(^mut n, tag)`
//! prints `tag`, increments the shared counter and yields it) inside struct literals written in a
//! permuted field order, array literals, call arguments and binary operands, nested two levels. The
//! built program prints the tags as the effects happen and then every stored value; both must be
//! what left-to-right evaluation IN WRITTEN ORDER gives (Lean: `CapyV.EvalOrder.run`, theorems
//! `effects_in_written_order`, `leaves_see_earlier_effects`).
use crate::e2e::{self, Program};
use crate::lean;
use crate::report::Report;
use crate::rng::Rng;
use serde_json::json;

#[derive(Clone, Debug)]
enum Node {
    Tick(u32),
    /// `sum2(a, b)` / `sum3(a, b, c)`: arguments in written order
    Call(Vec<Node>),
    /// `a - b`
    Sub(Box<Node>, Box<Node>),
}

impl Node {
    fn capy(&self) -> String {
        match self {
            Node::Tick(t) => format!("tick(^mut n, {t})"),
            Node::Call(a) => format!("sum{}({})", a.len(), a.iter().map(|x| x.capy()).collect::<Vec<_>>().join(", ")),
            Node::Sub(a, b) => format!("({} - {})", a.capy(), b.capy()),
        }
    }
    fn sexp(&self) -> String {
        match self {
            Node::Tick(t) => format!("(t {t})"),
            Node::Call(a) => format!("(n {})", a.iter().map(|x| x.sexp()).collect::<Vec<_>>().join(" ")),
            Node::Sub(a, b) => format!("(n {} {})", a.sexp(), b.sexp()),
        }
    }
    /// evaluate in written order: pushes tags, returns the value
    fn eval(&self, n: &mut i64, tags: &mut Vec<u32>) -> i64 {
        match self {
            Node::Tick(t) => {
                tags.push(*t);
                *n += 1;
                *n
            }
            Node::Call(a) => {
                let vs: Vec<i64> = a.iter().map(|x| x.eval(n, tags)).collect();
                vs.iter().fold(0, |acc, v| acc * 10 + v)
            }
            Node::Sub(a, b) => {
                let x = a.eval(n, tags);
                let y = b.eval(n, tags);
                x - y
            }
        }
    }
}

struct Gen<'a> {
    rng: &'a mut Rng,
    next_tag: u32,
}

impl<'a> Gen<'a> {
    fn tick(&mut self) -> Node {
        self.next_tag += 1;
        Node::Tick(self.next_tag)
    }
    fn scalar(&mut self, depth: u32) -> Node {
        match self.rng.below(if depth == 0 { 2 } else { 6 }) {
            0 | 1 | 2 => self.tick(),
            3 | 4 => {
                let k = 2 + self.rng.below(2) as usize;
                Node::Call((0..k).map(|_| self.scalar(depth - 1)).collect())
            }
            _ => Node::Sub(Box::new(self.scalar(depth - 1)), Box::new(self.scalar(depth - 1))),
        }
    }
}

struct Case {
    what: &'static str,
    /// statements building `v{k}` and printing its parts
    stmts: String,
    /// the whole expression in written order (for the model)
    sexp: String,
    want_tags: Vec<u32>,
    want_vals: Vec<i64>,
}

fn gen_case(rng: &mut Rng, k: usize, tag_base: u32) -> (Case, u32) {
    let mut g = Gen { rng, next_tag: tag_base };
    let shape = g.rng.below(4);
    let nf = 2 + g.rng.below(3) as usize; // 2..4 members / items / arguments
    // the members in WRITTEN order: (declared index, initialiser)
    let mut order: Vec<usize> = (0..nf).collect();
    if shape == 0 {
        // a permutation that is not the identity whenever possible
        for i in (1..nf).rev() {
            let j = g.rng.below(i as u64 + 1) as usize;
            order.swap(i, j);
        }
        if order.iter().enumerate().all(|(i, o)| i == *o) {
            order.swap(0, 1);
        }
    }
    let inits: Vec<Node> = (0..nf).map(|_| g.scalar(2)).collect();
    let written: Vec<(usize, Node)> = order.iter().cloned().zip(inits.into_iter()).collect();
    // expected: evaluate in written order from the current counter (0 at the start of each case)
    let mut n = 0i64;
    let mut tags = vec![];
    let mut by_decl = vec![0i64; nf];
    for (decl, init) in &written {
        by_decl[*decl] = init.eval(&mut n, &mut tags);
    }
    let sexp = format!("(n {})", written.iter().map(|(_, e)| e.sexp()).collect::<Vec<_>>().join(" "));
    let (what, stmts, vals): (&'static str, String, Vec<i64>) = match shape {
        0 => {
            let lit = written.iter().map(|(d, e)| format!("f{d} = {}", e.capy())).collect::<Vec<_>>().join(", ");
            let prints: String = (0..nf).map(|d| format!("    core.println(\"#{k} \", v{k}.f{d});\n")).collect();
            ("struct-literal-permuted", format!("    n = 0;\n    v{k} := S{nf}.{{ {lit} }};\n{prints}"), by_decl.clone())
        }
        1 => {
            let lit = written.iter().map(|(_, e)| e.capy()).collect::<Vec<_>>().join(", ");
            let prints: String = (0..nf).map(|d| format!("    core.println(\"#{k} \", v{k}[{d}]);\n")).collect();
            ("array-literal", format!("    n = 0;\n    v{k} := i64.[ {lit} ];\n{prints}"), by_decl.clone())
        }
        2 => {
            let nf2 = nf.min(3);
            let args = &written[..nf2];
            // recompute for the shorter argument list
            let mut n2 = 0i64;
            let mut t2 = vec![];
            let vs: Vec<i64> = args.iter().map(|(_, e)| e.eval(&mut n2, &mut t2)).collect();
            let val = vs.iter().fold(0, |acc, v| acc * 10 + v);
            let call = format!("sum{nf2}({})", args.iter().map(|(_, e)| e.capy()).collect::<Vec<_>>().join(", "));
            let sx = format!("(n {})", args.iter().map(|(_, e)| e.sexp()).collect::<Vec<_>>().join(" "));
            let c = Case { what: "call-arguments", stmts: format!("    n = 0;\n    v{k} := {call};\n    core.println(\"#{k} \", v{k});\n"), sexp: sx, want_tags: t2, want_vals: vec![val] };
            return (c, g.next_tag);
        }
        _ => {
            let a = &written[0].1;
            let b = &written[1].1;
            let mut n2 = 0i64;
            let mut t2 = vec![];
            let x = a.eval(&mut n2, &mut t2);
            let y = b.eval(&mut n2, &mut t2);
            let c = Case {
                what: "binary-operands",
                stmts: format!("    n = 0;\n    v{k} := {} - {};\n    core.println(\"#{k} \", v{k});\n", a.capy(), b.capy()),
                sexp: format!("(n {} {})", a.sexp(), b.sexp()),
                want_tags: t2,
                want_vals: vec![x - y],
            };
            return (c, g.next_tag);
        }
    };
    (Case { what, stmts, sexp, want_tags: tags, want_vals: vals }, g.next_tag)
}

pub fn run(rep: &mut Report, rng: &mut Rng, tier: &str, widen: bool) {
    let n_prog = if widen { 100 } else if tier == "thorough" { 50 } else { 6 };
    let per = 14;
    let mut all: Vec<Vec<Case>> = vec![];
    let mut progs = vec![];
    for _ in 0..n_prog {
        let mut cases = vec![];
        let mut tag = 0;
        let mut src = String::from(
            "core :: #mod(\"core\");\nS2 :: struct { f0: i64, f1: i64 };\nS3 :: struct { f0: i64, f1: i64, f2: i64 };\nS4 :: struct { f0: i64, f1: i64, f2: i64, f3: i64 };\n\
             tick :: (c: ^mut i64, tag: i64) -> i64 { core.println(\"T \", tag); c^ = c^ + 1; c^ }\n\
             sum2 :: (a: i64, b: i64) -> i64 { a * 10 + b }\nsum3 :: (a: i64, b: i64, c: i64) -> i64 { (a * 10 + b) * 10 + c }\n\nmain :: () {\n    n : i64 = 0;\n",
        );
        for k in 0..per {
            let (c, t) = gen_case(rng, k, tag);
            tag = t;
            src.push_str(&format!("    core.println(\"B {k}\");\n"));
            src.push_str(&c.stmts);
            cases.push(c);
        }
        src.push_str("}\n");
        progs.push(Program::single(&src));
        all.push(cases);
    }
    let outs = e2e::run_all(&progs, e2e::Limits::default());
    let mut reqs = vec![];
    for cases in &all {
        for c in cases {
            reqs.push(format!("C01 order {}", c.sexp));
        }
    }
    let answers = lean::ask(&reqs);
    let mut ai = 0;
    for ((cases, out), prog) in all.iter().zip(outs.iter()).zip(progs.iter()) {
        let ok = out.built && out.run_status == Some(0);
        let text = out.stdout();
        // split the output into per-case sections at the `B k` markers
        let mut sections: Vec<Vec<String>> = vec![vec![]; cases.len()];
        let mut cur: Option<usize> = None;
        for line in text.lines() {
            if let Some(k) = line.strip_prefix("B ") {
                cur = k.trim().parse().ok();
            } else if let Some(k) = cur {
                if k < sections.len() {
                    sections[k].push(line.trim().to_string());
                }
            }
        }
        for (k, c) in cases.iter().enumerate() {
            let model = &answers[ai];
            ai += 1;
            rep.case(Some(format!("order|{}|{}", c.what, c.sexp)));
            rep.hit(&format!("order:{}", c.what));
            let input = json!({"stream": "evaluation-order", "what": c.what, "expression": c.sexp, "source": prog.files[0].1});
            if !ok {
                rep.oracle_fail(
                    "order-program-not-built",
                    input,
                    json!(format!("{} {}", out.run_summary(), out.compile_out.lines().filter(|l| l.starts_with("error") || l.contains("panicked")).take(2).collect::<Vec<_>>().join(" / "))),
                    json!("built"),
                    "an evaluation-order program was rejected or crashed",
                );
                continue;
            }
            let got_tags: Vec<String> = sections[k].iter().filter_map(|l| l.strip_prefix("T ")).map(|x| x.trim().to_string()).collect();
            let got_vals: Vec<String> = sections[k].iter().filter_map(|l| l.strip_prefix(&format!("#{k} "))).map(|x| x.trim().to_string()).collect();
            let want_tags: Vec<String> = c.want_tags.iter().map(|t| t.to_string()).collect();
            let want_vals: Vec<String> = c.want_vals.iter().map(|v| v.to_string()).collect();
            // the model answers `tags ; leaf values`: the tags are compared
            if model != "?" {
                let mtags = model.split(" ; ").next().unwrap_or("");
                if mtags != got_tags.join(",") {
                    rep.disagree(input.clone(), json!(got_tags.join(",")), json!(model));
                }
            }
            if got_tags != want_tags || got_vals != want_vals {
                rep.oracle_fail(
                    "wrong-output",
                    input,
                    json!({"tags": got_tags.join(","), "values": got_vals.join(",")}),
                    json!({"tags": want_tags.join(","), "values": want_vals.join(",")}),
                    "effects did not happen in the order the operands are written, or a stored value is not what that order gives",
                );
            }
            rep.traces_validated += 1;
        }
    }
}
