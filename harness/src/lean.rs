//! Batch access to the compiled Lean driver `capyv` (one request per line).
use std::io::Write;
use std::process::{Command, Stdio};

pub fn capyv_path() -> String {
    std::env::var("CAPYV").unwrap_or_else(|_| "/verif/lean/.lake/build/bin/capyv".to_string())
}

/// Send all requests, get one answer line per request. Uses a writer thread so large
/// batches cannot dead-lock on pipe buffers.
pub static NO_MODEL: std::sync::atomic::AtomicBool = std::sync::atomic::AtomicBool::new(false);

pub fn no_model() -> bool {
    NO_MODEL.load(std::sync::atomic::Ordering::Relaxed)
}

pub fn ask(requests: &[String]) -> Vec<String> {
    if requests.is_empty() {
        return vec![];
    }
    if no_model() {
        // the Lean driver does not build: oracle-only run
        return requests.iter().map(|_| "?".to_string()).collect();
    }
    let mut child = Command::new(capyv_path())
        .stdin(Stdio::piped())
        .stdout(Stdio::piped())
        .spawn()
        .expect("cannot start capyv (build the Lean project first)");
    let mut stdin = child.stdin.take().unwrap();
    let mut payload = String::with_capacity(requests.iter().map(|r| r.len() + 1).sum());
    for r in requests {
        debug_assert!(!r.contains('\n'));
        payload.push_str(r);
        payload.push('\n');
    }
    let writer = std::thread::spawn(move || {
        let _ = stdin.write_all(payload.as_bytes());
    });
    let out = child.wait_with_output().expect("capyv failed");
    writer.join().ok();
    let text = String::from_utf8_lossy(&out.stdout);
    let lines: Vec<String> = text.lines().map(|s| s.to_string()).collect();
    assert_eq!(
        lines.len(),
        requests.len(),
        "capyv answered {} lines for {} requests (status {:?})",
        lines.len(),
        requests.len(),
        out.status
    );
    lines
}

pub fn hex(bytes: &[u8]) -> String {
    if bytes.is_empty() {
        return "-".into();
    }
    let mut s = String::with_capacity(bytes.len() * 2);
    for b in bytes {
        s.push_str(&format!("{:02x}", b));
    }
    s
}
