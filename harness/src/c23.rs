//! C23 — parsing is total, terminating and lossless.
//! Each input is parsed by the real parser (hook H2: traced entry point) in a CHILD process
//! of this binary so that a hang or an abort is an outcome (deadline, bisected to the input).
//! Checks per input: no panic; time within a linear budget; tree text == input; the tree's
//! tokens are exactly the lexer's tokens in order; every syntax-error offset within the input;
//! the kernel preconditions of the Lean sink theorem on the real trace (every `bump` on a
//! non-trivia token inside the token list, every non-trivia token bumped exactly once, parser
//! stops at end of input); and the Lean sink model replayed on the real event trace yields the
//! real tree (correspondence).
use crate::lean;
use crate::report::Report;
use crate::rng::Rng;
use serde_json::{json, Value};
use std::io::{BufRead, BufReader, Write};
use std::process::{Command, Stdio};
use std::time::Duration;
use syntax::TokenKind;

const PIECES: &[&str] = &[
    "a", "b", "_", "x1", "5", "1.5", "0x1F", "0b10", "true", "\"s\"", "'c'", "\"a\\n\"", " ", "\n", "\t", "// c\n", "//\n",
    "(", ")", "[", "]", "{", "}", ".", ",", ";", ":", "::", ":=", "=", "==", "!=", "<", ">", "<=", ">=", "+", "-", "*", "/", "%",
    "&", "&&", "|", "||", "~", "!", "^", "<<", ">>", "->", "=>", "#", "?", "`", "...", "+=", "-=",
    "if", "else", "while", "loop", "switch", "in", "distinct", "mut", "extern", "struct", "enum", "comptime", "return",
    "break", "continue", "defer", "try", "as", "import", "é", "\u{a0}", "@", "$", "\\",
];

/// reduced set for exhaustive enumeration
const SMALL: &[&str] = &[
    "a", "5", "(", ")", "[", "]", "{", "}", ".", ",", ";", "::", "=", "+", "^", "`", "#", "=>", "->", ":",
    " ", "struct", "switch", "comptime", "\"s\"", "-", "mut", "?", "if", "else", "while", "enum", "try", "+=",
];

fn is_trivia(k: TokenKind) -> bool {
    matches!(k, TokenKind::Whitespace | TokenKind::CommentLeader | TokenKind::CommentContents)
}

pub fn corpus_files() -> Vec<String> {
    let mut v = vec![];
    let roots = ["/repo/examples", "/repo/core/src", "/repo/crates/parser/src/tests"];
    let repo = std::env::var("CAPY_MOD_DIR").unwrap_or("/repo".into());
    for r in roots {
        let r = r.replace("/repo", &repo);
        let mut stack = vec![std::path::PathBuf::from(r)];
        while let Some(d) = stack.pop() {
            let Ok(rd) = std::fs::read_dir(&d) else { continue };
            let mut entries: Vec<_> = rd.flatten().map(|e| e.path()).collect();
            entries.sort();
            for p in entries {
                if p.is_dir() {
                    stack.push(p);
                } else if let Ok(t) = std::fs::read_to_string(&p) {
                    // parser fixtures are `input\n===\nexpected tree`
                    let text = t.split("\n===\n").next().unwrap_or("").to_string();
                    if !text.is_empty() && text.len() < 65536 {
                        v.push(text);
                    }
                }
            }
        }
    }
    v
}

fn enumerate_small(max_len: usize, alphabet: &[&str], out: &mut Vec<String>) {
    let mut cur: Vec<usize> = vec![];
    loop {
        out.push(cur.iter().map(|&i| alphabet[i]).collect::<Vec<_>>().join(""));
        let mut i = cur.len();
        loop {
            if i == 0 {
                if cur.len() == max_len {
                    return;
                }
                cur = vec![0; cur.len() + 1];
                break;
            }
            i -= 1;
            if cur[i] + 1 < alphabet.len() {
                cur[i] += 1;
                for c in cur.iter_mut().skip(i + 1) {
                    *c = 0;
                }
                break;
            }
        }
    }
}

pub fn mutate(rng: &mut Rng, text: &str) -> String {
    let tokens = lexer::lex(text);
    let n = tokens.len();
    if n == 0 {
        return rng.pick(PIECES).to_string();
    }
    let mut parts: Vec<String> = (0..n)
        .map(|i| {
            let r = tokens.range(i);
            text[usize::from(r.start())..usize::from(r.end())].to_string()
        })
        .collect();
    let edits = 1 + rng.below(3);
    for _ in 0..edits {
        let i = rng.below(parts.len() as u64) as usize;
        match rng.below(5) {
            0 => {
                parts.remove(i);
            }
            1 => parts.insert(i, rng.pick(PIECES).to_string()),
            2 => parts[i] = rng.pick(PIECES).to_string(),
            3 => {
                let j = rng.below(parts.len() as u64) as usize;
                parts.swap(i, j);
            }
            _ => {
                // byte-level: drop one char
                let mut cs: Vec<char> = parts[i].chars().collect();
                if !cs.is_empty() {
                    let k = rng.below(cs.len() as u64) as usize;
                    cs.remove(k);
                }
                parts[i] = cs.into_iter().collect();
            }
        }
        if parts.is_empty() {
            break;
        }
    }
    // keep a window so that runs stay fast but sometimes keep the whole file
    if parts.len() > 400 && !rng.chance(1, 8) {
        let start = rng.below((parts.len() - 300) as u64) as usize;
        parts = parts[start..start + 300].to_vec();
    }
    parts.concat()
}

pub fn gen_inputs(tier: &str, seed: u64, widen: bool) -> (Vec<(String, bool)>, usize) {
    let mut rng = Rng::new(seed);
    let mut texts: Vec<String> = vec![];
    // 0. past failures first
    for t in [
        "a :: i32.(.[);", "a :: i32.(.{);", "a :: i32.(switch x {);", "x0 . try", "x0. (x1)", "x0 + = x1", "x0 . {", "",
        " ", "a", "a ::", "(", ")", "a :: (", "a :: () {", "a :: #", "a :: #x(", "a :: x.[", "a :: .[", "`", "a :: `l: {",
    ] {
        texts.push(t.to_string());
    }
    // 1. exhaustive short sequences over a reduced token set
    let k = if tier == "thorough" || widen { 4 } else { 3 };
    enumerate_small(k, SMALL, &mut texts);
    let n_exh = texts.len();
    // 2. token soups
    let n_soup = if widen { 60_000 } else if tier == "thorough" { 20_000 } else { 3000 };
    for _ in 0..n_soup {
        let n = 1 + rng.below(14);
        let mut s = String::new();
        for _ in 0..n {
            s.push_str(*rng.pick(PIECES));
            match rng.below(9) {
                0..=2 => s.push(' '),
                // a comment between two tokens (the parser must skip every kind of trivia wherever it skips whitespace)
                3 => s.push_str(" // c\n"),
                _ => {}
            }
        }
        texts.push(s);
    }
    // 3. nesting
    for open in ["(", "[", "{", ".[", ".{", "f(", "a :: (", "x :: {", "^", "-", "?"] {
        for depth in [50usize, 200] {
            texts.push(open.repeat(depth));
            texts.push(format!("a :: {}5", open.repeat(depth)));
        }
    }
    // 4. mutations of the corpus
    let corpus = corpus_files();
    let n_mut = if widen { 20_000 } else if tier == "thorough" { 6000 } else { 800 };
    if !corpus.is_empty() {
        for c in &corpus {
            texts.push(c.clone());
        }
        for _ in 0..n_mut {
            let base = rng.pick(&corpus);
            texts.push(mutate(&mut rng, base));
        }
    }
    // 4b. trivia between every pair of adjacent tokens of the (small) corpus files, one place at a time
    let n_triv = if widen { 40_000 } else if tier == "thorough" { 15_000 } else { 2500 };
    let small: Vec<&String> = corpus.iter().filter(|c| c.len() <= 1500).collect();
    if !small.is_empty() {
        let mut made = 0;
        let mut guard = 0;
        while made < n_triv && guard < n_triv * 4 {
            guard += 1;
            let base = *rng.pick(&small);
            let toks = lexer::lex(base);
            if toks.len() < 2 {
                continue;
            }
            let k = 1 + rng.below(toks.len() as u64 - 1) as usize;
            let at: usize = u32::from(toks.range(k).start()) as usize;
            if !base.is_char_boundary(at) {
                continue;
            }
            let piece = *rng.pick(&[" // c\n", "//\n", "\n", " ", "\t// é\n", " // a // b\n  "]);
            let mut t = String::with_capacity(base.len() + piece.len());
            t.push_str(&base[..at]);
            t.push_str(piece);
            t.push_str(&base[at..]);
            texts.push(t);
            made += 1;
        }
    }
    // 4c. repetition: one small (mostly erroneous) item repeated many times in one input — state that
    // leaks per error (counters, recovery stacks) only shows after hundreds of errors (seeded change
    // C23_2: an expression-depth counter leaked by every missing-expression error, hang after 255)
    for item in [
        "k :: 1 + ;\n", "a :: ;\n", "x :: (1;\n", "f :: () { 1 + };\n", "s :: .{ a = };\n", "b :: 1 +* 2;\n", "c :: i32.(;\n",
        "d :: [;\n", "e :: if { };\n", "g :: x.;\n", "h :: #;\n", "i :: `;\n", "j :: 1 2;\n", ") ", "} ", "] ", "( ", "{ ", "+ ",
        "ok :: 1;\n", "m :: () { x := 1; };\n",
    ] {
        for n in [64usize, 300, 1100] {
            if n == 1100 && !(tier == "thorough" || widen) && item.len() > 8 {
                continue;
            }
            texts.push(item.repeat(n));
            // ... followed by something valid
            texts.push(format!("{}main :: () {{ }}\n", item.repeat(n)));
            // ... and inside a function body
            texts.push(format!("f :: () {{\n{}}}\n", item.repeat(n)));
        }
    }
    // 4d. stray separators at element positions of every list construct, nested in every context
    // that passes its own recovery set down (cast value, member value, parameter type, field type,
    // array item, call argument, parentheses): a list loop that does not consume a token which its
    // caller's recovery set contains makes no progress (seeded change C23_3: `i32.(switch x { , })`)
    {
        let contexts = [
            "a :: %;\n", "a :: i32.(%);\n", "a :: S.{ f = % };\n", "a :: (x: %) {};\n", "a :: struct { f: % };\n", "a :: .[%];\n",
            "a :: f(%);\n", "a :: (%);\n", "a :: () { x := %; };\n", "a :: enum { V: % };\n", "a :: [%]i32;\n", "a :: () -> % {};\n",
        ];
        let lists = [
            "switch x { $ }", "switch x { .a => 1$ $ .b => 2 }", "switch x { .a => 1, $ }", "S.{ $ }", "S.{ f = 1$ $ g = 2 }", ".[ $ ]",
            ".[1$ $ 2]", "f($)", "f(1$ $ 2)", "struct { $ }", "struct { f: i32$ $ g: i32 }", "enum { $ }", "enum { A$ $ B }",
            "(x: i32$ $ y: i32) {}", "($) {}", "{ $ }", "{ x := 1$ $ y := 2; }", "#d($)", "comptime { $ }",
        ];
        let strays = [",", ";", "=>", ")", "}", "]", ":", "=", "|", "."];
        for c in contexts {
            for l in lists {
                for st in strays {
                    texts.push(c.replace('%', &l.replace('$', st)));
                }
            }
        }
    }
    // 5. random unicode / bytes
    for _ in 0..(n_soup / 10) {
        let n = rng.below(40);
        let s: String = (0..n)
            .map(|_| char::from_u32(rng.below(0x2fff) as u32).unwrap_or('a'))
            .collect();
        texts.push(s);
    }
    let mut out = vec![];
    for t in texts {
        out.push((t.clone(), false));
        out.push((t, true));
    }
    (out, n_exh * 2)
}

fn tok_name(k: TokenKind) -> String {
    format!("{:?}", k)
}

/// child: parse inputs[start..end], one `B i` line before and one `E i <json>` after each
fn inputs_path() -> std::path::PathBuf {
    let base = std::env::var("CVH_SCRATCH").unwrap_or_else(|_| "/verif/.build/e2e".into());
    std::path::PathBuf::from(base)
}

/// Only the lines `start..end` are decoded (a child is restarted after every hang or crash, and
/// decoding millions of lines each time is what made a loaded machine look like a dead child).
fn load_inputs(path: &str, start: usize, end: usize) -> Vec<(String, bool)> {
    let f = std::io::BufReader::new(std::fs::File::open(path).expect("inputs file"));
    f.lines()
        .map_while(Result::ok)
        .enumerate()
        .skip(start)
        .take(end.saturating_sub(start))
        .map(|(_, l)| {
            let v: Value = serde_json::from_str(&l).expect("input line");
            (v[0].as_str().unwrap().to_string(), v[1].as_bool().unwrap())
        })
        .collect()
}

pub fn child(path: &str, start: usize, end: usize) {
    let inputs = load_inputs(path, start, end);
    let stdout = std::io::stdout();
    {
        // ready: from here on silence means a hang, before it only a slow start
        let mut o = stdout.lock();
        writeln!(o, "R").unwrap();
        o.flush().unwrap();
    }
    for i in start..(start + inputs.len()) {
        {
            let mut o = stdout.lock();
            writeln!(o, "B {i}").unwrap();
            o.flush().unwrap();
        }
        let (text, repl) = &inputs[i - start];
        // CPU time of this thread, so that a loaded machine does not look like a slow parser
        let t0 = thread_cpu_micros();
        let res = std::panic::catch_unwind(|| check_one(text, *repl));
        let micros = thread_cpu_micros().saturating_sub(t0);
        let v = match res {
            Ok(mut v) => {
                v["micros"] = json!(micros);
                v
            }
            Err(p) => json!({"panic": crate::frontend::panic_message(p), "micros": micros}),
        };
        let mut o = stdout.lock();
        writeln!(o, "E {i} {v}").unwrap();
        o.flush().unwrap();
    }
}

fn thread_cpu_micros() -> u64 {
    let mut ts = libc::timespec { tv_sec: 0, tv_nsec: 0 };
    unsafe {
        libc::clock_gettime(libc::CLOCK_THREAD_CPUTIME_ID, &mut ts);
    }
    ts.tv_sec as u64 * 1_000_000 + ts.tv_nsec as u64 / 1000
}

fn check_one(text: &str, repl: bool) -> Value {
    let tokens = lexer::lex(text);
    let n = tokens.len();
    let traced = parser::verif::parse_traced(&tokens, text, repl);
    let tree = traced.parse.syntax_tree();
    let mut problems: Vec<String> = vec![];
    // losslessness
    let root = tree.root();
    if root.text(tree) != text {
        problems.push("tree-text-differs".into());
    }
    let mut tok_idx = 0usize;
    let mut tree_events = String::new();
    let mut depth: i64 = 0;
    for ev in tree.events() {
        match ev {
            syntax::Event::StartNode(node) => {
                depth += 1;
                tree_events.push_str(&format!("S{} ", node.kind(tree) as u16));
            }
            syntax::Event::FinishNode => {
                depth -= 1;
                tree_events.push_str("F ");
            }
            syntax::Event::AddToken(tok) => {
                let (kind, range) = (tok.kind(tree), tok.range(tree));
                if tok_idx >= n || tokens.kind(tok_idx) != kind || tokens.range(tok_idx) != range {
                    problems.push(format!("tree-token-{tok_idx}-differs-from-lexer"));
                }
                tree_events.push_str(&format!("T{tok_idx} "));
                tok_idx += 1;
            }
        }
    }
    if tok_idx != n {
        problems.push(format!("tree-has-{tok_idx}-tokens-lexer-{n}"));
    }
    if depth != 0 {
        problems.push("tree-unbalanced".into());
    }
    // error locations
    for e in traced.parse.errors() {
        let (s, e2) = match e.kind {
            parser::SyntaxErrorKind::Missing { offset } => (u32::from(offset), u32::from(offset)),
            parser::SyntaxErrorKind::UnexpectedToken { range, .. } | parser::SyntaxErrorKind::UnexpectedNode { range, .. } => {
                (u32::from(range.start()), u32::from(range.end()))
            }
        };
        if s as usize > text.len() || e2 as usize > text.len() || s > e2 {
            problems.push(format!("error-location-{s}..{e2}-outside-input-{}", text.len()));
        }
    }
    // kernel preconditions on the real trace
    let mut bumped = vec![0u32; n];
    let mut last = None;
    for &b in &traced.bumps {
        if b >= n {
            problems.push(format!("bump-at-eof-{b}"));
            continue;
        }
        if is_trivia(tokens.kind(b)) {
            problems.push(format!("bump-on-trivia-{b}"));
        }
        if let Some(l) = last {
            if b <= l {
                problems.push(format!("bump-not-increasing-{l}-{b}"));
            }
        }
        last = Some(b);
        bumped[b] += 1;
    }
    for i in 0..n {
        let want = if is_trivia(tokens.kind(i)) { 0 } else { 1 };
        if bumped[i] != want {
            problems.push(format!("token-{i}-bumped-{}-times", bumped[i]));
            break;
        }
    }
    let adds = traced.events.iter().filter(|e| matches!(e, parser::verif::TraceEvent::AddToken)).count();
    if adds != traced.bumps.len() {
        problems.push("addtoken-events-differ-from-bumps".into());
    }
    problems.truncate(6);
    // request for the Lean sink model (small inputs only)
    let model_req = if n <= 120 {
        let kinds: Vec<String> = (0..n).map(|i| tok_name(tokens.kind(i))).collect();
        let evs: Vec<String> = traced
            .events
            .iter()
            .map(|e| match e {
                parser::verif::TraceEvent::StartNode(k) => format!("S{}", *k as u16),
                parser::verif::TraceEvent::FinishNode => "F".to_string(),
                parser::verif::TraceEvent::AddToken => "A".to_string(),
            })
            .collect();
        Some(format!(
            "C23 sink {} {} {}",
            syntax::NodeKind::Comment as u16,
            if kinds.is_empty() { "-".to_string() } else { kinds.join(",") },
            evs.join(",")
        ))
    } else {
        None
    };
    json!({"tokens": n, "errors": traced.parse.errors().len(), "problems": problems,
           "model_req": model_req, "tree_events": tree_events.trim_end(), "bytes": text.len()})
}

struct Child {
    proc: std::process::Child,
    rx: std::sync::mpsc::Receiver<String>,
}

fn spawn_child(path: &str, start: usize, end: usize) -> Child {
    let mut cmd = Command::new(std::env::current_exe().unwrap());
    cmd.args(["C23"])
        .env("CVH_C23_CHILD", format!("{start}:{end}:{path}"))
        .stdin(Stdio::null())
        .stdout(Stdio::piped())
        .stderr(Stdio::null());
    let mut proc = cmd.spawn().expect("spawn C23 child");
    let out = proc.stdout.take().unwrap();
    let (tx, rx) = std::sync::mpsc::channel();
    std::thread::spawn(move || {
        for line in BufReader::new(out).lines().map_while(Result::ok) {
            if tx.send(line).is_err() {
                break;
            }
        }
    });
    Child { proc, rx }
}

pub fn run(tier: &str, seed: u64, widen: bool) -> Report {
    if let Ok(r) = std::env::var("CVH_C23_CHILD") {
        let mut it = r.splitn(3, ':');
        let (a, b, path) = (it.next().unwrap(), it.next().unwrap(), it.next().unwrap());
        child(path, a.parse().unwrap(), b.parse().unwrap());
        std::process::exit(0);
    }
    let mut rep = Report::new(
        "C23",
        "real parser (hook parser::verif::parse_traced, both entry points, child process with deadline) vs Lean sink model CapyV.ParserKernel on the real event trace; kernel preconditions and losslessness checked on every trace",
        "past failures; ALL sequences of <= 3 (thorough: 4) pieces over a 34-piece reduced token set; seeded token soups over 95 pieces (every token kind, comments, non-ASCII, invalid chars); bracket/prefix nesting to depth 200; every corpus file (examples, core, the parser's 228 fixtures) and seeded token/byte mutations of them up to 64 KiB; random Unicode; each as source file and as REPL line. Non-trivial = input has a syntax error or > 8 tokens; distinct by (entry point, text)",
    );
    let (inputs, n_exh) = gen_inputs(tier, seed, widen);
    rep.exhaustive = n_exh > 0;
    let total = inputs.len();
    let dir = inputs_path();
    let _ = std::fs::create_dir_all(&dir);
    let path = dir.join(format!("c23_inputs_{}.jsonl", std::process::id()));
    {
        let mut f = std::io::BufWriter::new(std::fs::File::create(&path).expect("inputs file"));
        for (t, r) in &inputs {
            writeln!(f, "{}", json!([t, r])).unwrap();
        }
    }
    let path_s = path.to_string_lossy().to_string();
    // parallel children over slices
    let jobs = 12usize;
    let chunk = (total + jobs - 1) / jobs;
    let mut handles = vec![];
    for j in 0..jobs {
        let (s, e) = (j * chunk, ((j + 1) * chunk).min(total));
        if s >= e {
            continue;
        }
        let p = path_s.clone();
        handles.push(std::thread::spawn(move || supervise(&p, s, e)));
    }
    let mut results: Vec<(usize, Value)> = vec![];
    for h in handles {
        results.extend(h.join().unwrap());
    }
    results.sort_by_key(|r| r.0);
    let _ = std::fs::remove_file(&path);
    if results.len() != total {
        rep.notes.push(format!("{} of {} inputs produced no result (child start-up failure)", total - results.len(), total));
        rep.oracle_fail("harness-lost-inputs", json!({"missing": total - results.len()}), json!("no result"), json!("a result per input"), "the supervisor lost inputs");
    }
    // model requests in one batch
    let mut reqs = vec![];
    let mut req_of = vec![];
    for (i, v) in &results {
        if let Some(r) = v["model_req"].as_str() {
            reqs.push(r.to_string());
            req_of.push(*i);
        }
    }
    let answers = lean::ask(&reqs);
    let mut model_answer = std::collections::HashMap::new();
    for (i, a) in req_of.iter().zip(answers) {
        model_answer.insert(*i, a);
    }
    for (i, v) in &results {
        let (text, repl) = &inputs[*i];
        let input = json!({"text": text, "repl_line": repl});
        let n = v["tokens"].as_u64().unwrap_or(0);
        let nontrivial = v["errors"].as_u64().unwrap_or(0) > 0 || n > 8;
        rep.case(if nontrivial { Some(format!("{repl}:{text}")) } else { None });
        if let Some(h) = v["hang"].as_bool() {
            if h {
                rep.hit("hang");
                rep.oracle_fail("parser-hang", input, json!("no result within the deadline"), json!("terminates"), "the parser did not return");
                continue;
            }
        }
        if let Some(p) = v["panic"].as_str() {
            rep.hit("panic");
            let label = if p.contains("index out of bounds") { "parser-panic-index" } else { "parser-panic" };
            rep.oracle_fail(label, input, json!(p), json!("no panic"), "the parser panicked");
            continue;
        }
        if v["crashed"].as_bool() == Some(true) {
            rep.hit("abort");
            rep.oracle_fail("parser-abort", input, json!("child died (stack overflow / abort)"), json!("no crash"), "the parser process died");
            continue;
        }
        rep.hit(if v["errors"].as_u64().unwrap_or(0) > 0 { "parsed-with-errors" } else { "parsed-clean" });
        rep.traces_validated += 1;
        // linear-time budget on the parsing thread's CPU time: 0.3 s + 100 µs per byte (opt-level 1, debug assertions)
        let micros = v["micros"].as_u64().unwrap_or(0);
        let bytes = v["bytes"].as_u64().unwrap_or(0);
        if micros > 300_000 + 100 * bytes {
            rep.oracle_fail("parse-time-superlinear", input.clone(), json!(format!("{micros} us for {bytes} bytes")), json!("roughly linear"), "parse time budget exceeded");
        }
        for p in v["problems"].as_array().cloned().unwrap_or_default() {
            let p = p.as_str().unwrap_or("").to_string();
            let label = p.split(|c: char| c.is_ascii_digit()).next().unwrap_or("").trim_end_matches('-').to_string();
            rep.oracle_fail(&label, input.clone(), json!(p), json!("lossless tree / kernel protocol"), "losslessness or kernel precondition violated");
        }
        if let Some(m) = model_answer.get(i) {
            let real = v["tree_events"].as_str().unwrap_or("");
            if m != real {
                rep.disagree(input.clone(), json!(real), json!(m));
            }
        }
        if rep.evaluations % 4001 == 7 {
            rep.sample(json!({"text": text, "repl_line": repl, "tokens": n, "errors": v["errors"], "tree_events": v["tree_events"]}));
        }
    }
    rep
}

fn supervise(path: &str, start: usize, end: usize) -> Vec<(usize, Value)> {
    let mut out = vec![];
    let mut next = start;
    let mut idle_restarts = 0;
    while next < end {
        let mut child = spawn_child(path, next, end);
        let mut current: Option<usize> = None;
        let mut ready = false;
        loop {
            // until the child said "R" it is still starting (loading its inputs): allow 10 minutes
            match child.rx.recv_timeout(Duration::from_secs(if ready { 20 } else { 600 })) {
                Ok(line) => {
                    if line == "R" {
                        ready = true;
                    } else if let Some(i) = line.strip_prefix("B ") {
                        current = i.trim().parse().ok();
                    } else if let Some(rest) = line.strip_prefix("E ") {
                        let (i, js) = rest.split_once(' ').unwrap_or((rest, "{}"));
                        let i: usize = i.parse().unwrap_or(0);
                        out.push((i, serde_json::from_str(js).unwrap_or(json!({}))));
                        next = i + 1;
                        current = None;
                    }
                }
                Err(std::sync::mpsc::RecvTimeoutError::Timeout) => {
                    // hang on `current`
                    let _ = child.proc.kill();
                    let _ = child.proc.wait();
                    if let Some(i) = current {
                        out.push((i, json!({"hang": true})));
                        next = i + 1;
                    } else {
                        // the child produced nothing at all (slow start on a loaded machine): retry
                        idle_restarts += 1;
                        if idle_restarts > 5 {
                            next = end;
                        }
                    }
                    break;
                }
                Err(std::sync::mpsc::RecvTimeoutError::Disconnected) => {
                    let _ = child.proc.wait();
                    if let Some(i) = current {
                        // died while parsing i (abort / stack overflow)
                        out.push((i, json!({"crashed": true})));
                        next = i + 1;
                    } else if next < end {
                        idle_restarts += 1;
                        if idle_restarts > 5 {
                            next = end;
                        }
                    }
                    break;
                }
            }
        }
    }
    out
}

pub fn replay(input: &serde_json::Value) -> String {
    let text = input["text"].as_str().unwrap_or("").to_string();
    let repl = input["repl_line"].as_bool().unwrap_or(false);
    let r = std::panic::catch_unwind(|| check_one(&text, repl));
    match r {
        Ok(v) if v["problems"].as_array().map(|a| a.is_empty()).unwrap_or(false) => format!("implementation: {v}\nAGREE"),
        Ok(v) => format!("implementation: {v}\nSPEC-MISMATCH"),
        Err(p) => format!("implementation: PANIC {}\nSPEC-MISMATCH", crate::frontend::panic_message(p)),
    }
}
