//! C26 — inference scheduling. Correspondence: the real `topo::TopoSort<u8>` vs the Lean model
//! `CapyV.Topo` (every return value and the full internal state after every call); oracle:
//! pending set + "waits on" relation maintained from the history alone (independent of both).
//! Streams: (1) exhaustive graph of protocol-following histories over a small universe,
//! (2) random longer protocol histories through a re-implementation of the `finish` loop,
//! compared with `CapyV.Sched.finish` too, (3) arbitrary call sequences (model == impl only,
//! including the underflow panic), (4) replay of the call sequences `hir_ty` really issues
//! (hook H3; skipped with a note when the hook is not in /repo).
use crate::lean;
use crate::report::Report;
use crate::rng::Rng;
use serde_json::{json, Value};
use std::collections::{BTreeSet, HashMap, VecDeque};
use std::panic::{catch_unwind, AssertUnwindSafe};
use topo::TopoSort;

#[path = "c26_hir.rs"]
mod hir_drive;

type T = TopoSort<u8>;

#[derive(Clone, Debug, PartialEq, Eq, Hash)]
pub enum Call {
    Insert(u8),
    Dep(u8, u8),
    Deps(u8, Vec<u8>),
    Extend(Vec<u8>),
    Remove(u8),
    PeekAll,
    Peek,
    InCycle,
    PeekAllCyclic,
    PeekCyclic,
    PopAll,
    Pop,
    PopCyclic,
    PopAllCyclic,
    Len,
    IsEmpty,
    Clear,
}

fn dots(v: &[u8]) -> String {
    v.iter().map(|x| x.to_string()).collect::<Vec<_>>().join(".")
}
fn list<'a, I: IntoIterator<Item = &'a u8>>(v: I) -> String {
    format!("[{}]", v.into_iter().map(|x| x.to_string()).collect::<Vec<_>>().join(","))
}

impl Call {
    fn tok(&self) -> String {
        match self {
            Call::Insert(x) => format!("i{x}"),
            Call::Dep(p, c) => format!("d{p}.{c}"),
            Call::Deps(p, cs) => {
                if cs.is_empty() {
                    format!("D{p}")
                } else {
                    format!("D{p}.{}", dots(cs))
                }
            }
            Call::Extend(xs) => format!("e{}", dots(xs)),
            Call::Remove(x) => format!("r{x}"),
            Call::PeekAll => "pa".into(),
            Call::Peek => "pk".into(),
            Call::InCycle => "ic".into(),
            Call::PeekAllCyclic => "pc".into(),
            Call::PeekCyclic => "pkc".into(),
            Call::PopAll => "po".into(),
            Call::Pop => "pp".into(),
            Call::PopCyclic => "poc".into(),
            Call::PopAllCyclic => "pac".into(),
            Call::Len => "ln".into(),
            Call::IsEmpty => "em".into(),
            Call::Clear => "cl".into(),
        }
    }
    fn parse(t: &str) -> Option<Call> {
        Some(match t {
            "pa" => Call::PeekAll,
            "pk" => Call::Peek,
            "ic" => Call::InCycle,
            "pc" => Call::PeekAllCyclic,
            "pkc" => Call::PeekCyclic,
            "po" => Call::PopAll,
            "pp" => Call::Pop,
            "poc" => Call::PopCyclic,
            "pac" => Call::PopAllCyclic,
            "ln" => Call::Len,
            "em" => Call::IsEmpty,
            "cl" => Call::Clear,
            _ => {
                let (c, rest) = t.split_at(1);
                let ns: Vec<u8> = if rest.is_empty() {
                    vec![]
                } else {
                    rest.split('.').map(|x| x.parse().ok()).collect::<Option<Vec<u8>>>()?
                };
                match (c, ns.len()) {
                    ("i", 1) => Call::Insert(ns[0]),
                    ("d", 2) => Call::Dep(ns[0], ns[1]),
                    ("D", n) if n >= 1 => Call::Deps(ns[0], ns[1..].to_vec()),
                    ("e", _) => Call::Extend(ns),
                    ("r", 1) => Call::Remove(ns[0]),
                    _ => return None,
                }
            }
        })
    }
    fn mutating(&self) -> bool {
        matches!(self, Call::Insert(_) | Call::Dep(..) | Call::Deps(..) | Call::Extend(_) | Call::Remove(_))
    }
}

fn b(x: bool) -> &'static str {
    if x {
        "t"
    } else {
        "f"
    }
}

/// One call into the real crate. `Err(())` = it panicked (the `num_children -= 1` underflow).
fn exec(t: &mut T, c: &Call) -> Result<String, ()> {
    catch_unwind(AssertUnwindSafe(|| match c {
        Call::Insert(x) => b(t.insert(*x)).to_string(),
        Call::Dep(p, c) => {
            t.insert_dep(*p, *c);
            "-".into()
        }
        Call::Deps(p, cs) => {
            t.insert_deps(*p, cs.iter().copied());
            "-".into()
        }
        Call::Extend(xs) => {
            t.extend(xs.iter().copied());
            "-".into()
        }
        Call::Remove(x) => b(t.remove(x)).to_string(),
        Call::PeekAll => match t.peek_all() {
            Ok(v) => format!("ok{}", list(v)),
            Err(_) => "cyc".into(),
        },
        Call::Peek => match t.peek() {
            None => "none".into(),
            Some(Ok(k)) => format!("ok{k}"),
            Some(Err(_)) => "cyc".into(),
        },
        Call::InCycle => b(t.in_cycle()).to_string(),
        Call::PeekAllCyclic => match t.peek_all_cyclic() {
            None => "none".into(),
            Some(v) => format!("some{}", list(v)),
        },
        Call::PeekCyclic => match t.peek_cyclic() {
            None => "none".into(),
            Some(k) => format!("some{k}"),
        },
        Call::PopAll => match t.pop_all() {
            Ok(v) => format!("ok{}", list(&v)),
            Err(_) => "cyc".into(),
        },
        Call::Pop => match t.pop() {
            None => "none".into(),
            Some(Ok(k)) => format!("ok{k}"),
            Some(Err(_)) => "cyc".into(),
        },
        Call::PopCyclic => match t.pop_cyclic() {
            None => "none".into(),
            Some(k) => format!("some{k}"),
        },
        Call::PopAllCyclic => match t.pop_all_cyclic() {
            None => "none".into(),
            Some(v) => format!("some{}", list(&v)),
        },
        Call::Len => t.len().to_string(),
        Call::IsEmpty => b(t.is_empty()).to_string(),
        Call::Clear => {
            t.clear();
            "-".into()
        }
    }))
    .map_err(|_| ())
}

/// Full internal state `{k:n:[p,p];…}` read off the derived `Debug` output
/// (`k: Dependencies { num_children: n, parents: {p, p} }` in map order).
fn state_str(t: &T) -> String {
    let s = format!("{:?}", t);
    let pat = ": Dependencies { num_children: ";
    let mut out = vec![];
    let mut pos = 0;
    while let Some(i) = s[pos..].find(pat) {
        let i = pos + i;
        let kstart = s[..i].rfind(|c: char| !c.is_ascii_digit()).map(|j| j + 1).unwrap_or(0);
        let key = &s[kstart..i];
        let rest = &s[i + pat.len()..];
        let ncomma = rest.find(',').unwrap();
        let n = &rest[..ncomma];
        let pstart = rest.find("parents: {").unwrap() + "parents: {".len();
        let pend = pstart + rest[pstart..].find('}').unwrap();
        let parents: Vec<&str> = rest[pstart..pend].split(", ").filter(|x| !x.is_empty()).collect();
        out.push(format!("{key}:{n}:[{}]", parents.join(",")));
        pos = i + pat.len() + pend;
    }
    format!("{{{}}}", out.join(";"))
}

/// Rebuild a real `TopoSort` in a given state (parents first so counters come out right is not
/// possible in general through the API), so states are only ever reached by running calls.
fn run_impl(calls: &[Call]) -> (Vec<String>, T) {
    let mut t = T::new();
    let mut out = vec![];
    for c in calls {
        match exec(&mut t, c) {
            Ok(r) => out.push(format!("{r}@{}", state_str(&t))),
            Err(()) => {
                out.push("UNDERFLOW".into());
                break;
            }
        }
    }
    (out, t)
}

fn toks(calls: &[Call]) -> String {
    calls.iter().map(|c| c.tok()).collect::<Vec<_>>().join(" ")
}

// ---------------------------------------------------------------------------------------
// The oracle: written from the property text, from the history alone.
// ---------------------------------------------------------------------------------------
#[derive(Clone, Default, PartialEq, Eq, Hash, Debug)]
struct Oracle {
    pending: Vec<u8>,          // registered and not completed since (order of registration)
    done: BTreeSet<u8>,        // completed at least once and not re-registered
    waits: BTreeSet<(u8, u8)>, // p registered a dependency on c; c has not completed since
}

impl Oracle {
    fn pend(&mut self, x: u8) {
        if !self.pending.contains(&x) {
            self.pending.push(x);
        }
    }
    /// `false` when the call leaves the usage protocol
    fn legal(&self, c: &Call) -> bool {
        match c {
            Call::Insert(x) => !self.done.contains(x),
            Call::Dep(p, c) => !self.done.contains(p) && !self.done.contains(c),
            Call::Deps(p, cs) => !self.done.contains(p) && cs.iter().all(|c| !self.done.contains(c)),
            Call::Extend(xs) => {
                let set: BTreeSet<_> = xs.iter().collect();
                set.len() == xs.len() && xs.iter().all(|x| !self.done.contains(x) && !self.pending.contains(x))
            }
            Call::Remove(x) => self.pending.contains(x),
            _ => true,
        }
    }
    fn apply(&mut self, c: &Call) {
        match c {
            Call::Insert(x) => self.pend(*x),
            Call::Dep(p, c) => {
                self.pend(*c);
                self.pend(*p);
                self.waits.insert((*p, *c));
            }
            Call::Deps(p, cs) => {
                for c in cs {
                    self.pend(*c);
                    self.pend(*p);
                    self.waits.insert((*p, *c));
                }
            }
            Call::Extend(xs) => {
                for x in xs {
                    self.pend(*x);
                }
            }
            Call::Remove(x) => {
                self.pending.retain(|y| y != x);
                self.done.insert(*x);
                self.waits.retain(|(_, c)| c != x);
            }
            _ => {}
        }
    }
    fn waiting(&self, p: u8) -> bool {
        self.waits.iter().any(|(q, c)| *q == p && self.pending.contains(c))
    }
    fn ready(&self) -> BTreeSet<u8> {
        self.pending.iter().copied().filter(|p| !self.waiting(*p)).collect()
    }
    fn cyclic(&self) -> bool {
        !self.pending.is_empty() && self.pending.iter().all(|p| self.waiting(*p))
    }
}

fn set_of(s: &str) -> BTreeSet<u8> {
    // "ok[1,2]" / "some[1,2]" → {1,2}
    let a = s.find('[').map(|i| i + 1).unwrap_or(s.len());
    let z = s.rfind(']').unwrap_or(s.len());
    s[a..z].split(',').filter_map(|x| x.parse().ok()).collect()
}

/// Compare what the implementation observably says in its current state with the oracle.
fn check_observers(t: &mut T, o: &Oracle, input: &dyn Fn() -> Value, rep: &mut Report) {
    let pa = exec(t, &Call::PeekAll).unwrap_or("PANIC".into());
    let want_cyc = o.cyclic();
    let ready = o.ready();
    if want_cyc {
        if pa != "cyc" {
            rep.oracle_fail("peek_all:cycle-missed", input(), json!(pa), json!("cyc"), "every pending item waits on a pending item but peek_all offers work");
        }
    } else if pa == "cyc" {
        rep.oracle_fail("peek_all:false-cycle", input(), json!(pa), json!(format!("ok{:?}", ready)), "cycle reported although some pending item has no pending dependency");
    } else if !pa.starts_with("ok") || set_of(&pa) != ready {
        rep.oracle_fail("peek_all:offer", input(), json!(pa), json!(format!("ok{:?}", ready)), "round does not offer exactly the pending items whose registered dependencies have completed");
    }
    let ic = exec(t, &Call::InCycle).unwrap_or("PANIC".into());
    if ic != b(want_cyc) {
        rep.oracle_fail("in_cycle", input(), json!(ic), json!(b(want_cyc)), "in_cycle differs from `pending non-empty and every pending item waits on a pending item`");
    }
    let pc = exec(t, &Call::PeekAllCyclic).unwrap_or("PANIC".into());
    let pend: BTreeSet<u8> = o.pending.iter().copied().collect();
    let ok = if want_cyc { pc.starts_with("some") && set_of(&pc) == pend } else { pc == "none" };
    if !ok {
        rep.oracle_fail("peek_all_cyclic", input(), json!(pc), json!(if want_cyc { format!("some{:?}", pend) } else { "none".into() }), "cycle-breaking offer is not exactly the pending items / offered without a cycle");
    }
    let ln = exec(t, &Call::Len).unwrap_or("PANIC".into());
    let em = exec(t, &Call::IsEmpty).unwrap_or("PANIC".into());
    if ln != o.pending.len().to_string() || em != b(o.pending.is_empty()) {
        rep.oracle_fail("len/is_empty", input(), json!(format!("{ln} {em}")), json!(format!("{} {}", o.pending.len(), b(o.pending.is_empty()))), "schedule size differs from the number of pending items (does not empty once everything completed)");
    }
}

/// Run a whole history on the implementation with the oracle alongside (observers after every
/// mutating call). Returns false when the history left the protocol (then the oracle is not applied
/// from that point on).
fn check_history_oracle(calls: &[Call], rep: &mut Report, label: &str) -> bool {
    let mut t = T::new();
    let mut o = Oracle::default();
    let mut legal = true;
    for (i, c) in calls.iter().enumerate() {
        if !o.legal(c) {
            legal = false;
        }
        let r = exec(&mut t, c);
        if !legal {
            if r.is_err() {
                break;
            }
            continue;
        }
        let input = || json!({"calls": toks(&calls[..=i]), "stream": label});
        match &r {
            Err(()) => {
                rep.oracle_fail("remove:underflow", input(), json!("PANIC (num_children underflow)"), json!("no panic on a protocol-following history"), "remove panicked on a protocol-following history");
                break;
            }
            Ok(res) => {
                if let Call::Remove(x) = c {
                    // legal ⇒ x was pending
                    if res != "t" {
                        rep.oracle_fail("remove:result", input(), json!(res), json!("t"), &format!("remove({x}) of a pending item returned false"));
                    }
                }
            }
        }
        o.apply(c);
        // the pop_* family completes what it returns; `clear` is outside the protocol
        let popped: Vec<u8> = match (c, r.as_ref().map(|s| s.as_str()).unwrap_or("")) {
            (Call::PopAll, res) if res.starts_with("ok") => set_of(res).into_iter().collect(),
            (Call::Pop, res) if res.starts_with("ok") => res[2..].parse().ok().into_iter().collect(),
            (Call::PopCyclic, res) if res.starts_with("some") => res[4..].parse().ok().into_iter().collect(),
            (Call::PopAllCyclic, res) if res.starts_with("some") => set_of(res).into_iter().collect(),
            (Call::Clear, _) => {
                legal = false;
                vec![]
            }
            _ => vec![],
        };
        for x in &popped {
            if !o.legal(&Call::Remove(*x)) {
                rep.oracle_fail("pop:not-pending", input(), json!(r.clone().unwrap_or_default()), json!(format!("pending {:?}", o.pending)), "a pop returned an item that is not pending");
            }
            o.apply(&Call::Remove(*x));
        }
        if legal && (c.mutating() || !popped.is_empty()) {
            check_observers(&mut t, &o, &input, rep);
        }
    }
    legal
}

// ---------------------------------------------------------------------------------------
// Stream 1: exhaustive graph of protocol-following histories over a universe of n items.
// A node = (implementation state, oracle state, items of this round still to process).
// ---------------------------------------------------------------------------------------
#[derive(Clone)]
struct Node {
    t: T,
    o: Oracle,
    todo: Vec<u8>,
    path: Vec<Call>, // one history that reaches this node (for reporting)
    rounds: u32,
}

fn subsets(xs: &[u8]) -> Vec<Vec<u8>> {
    (0..(1u32 << xs.len())).map(|m| xs.iter().enumerate().filter(|(i, _)| m >> i & 1 == 1).map(|(_, x)| *x).collect()).collect()
}

/// returns (nodes visited, complete?)
fn explore(universe: u8, cap: usize, rep: &mut Report) -> (usize, bool) {
    let items: Vec<u8> = (1..=universe).collect();
    let mut seen: HashMap<(String, Oracle, Vec<u8>), ()> = HashMap::new();
    let mut queue: VecDeque<Node> = VecDeque::new();
    // initial `extend` with every non-empty prefix-closed choice: every non-empty subset in order
    for init in subsets(&items) {
        if init.is_empty() {
            continue;
        }
        let mut t = T::new();
        let c = Call::Extend(init.clone());
        let _ = exec(&mut t, &c);
        let mut o = Oracle::default();
        o.apply(&c);
        queue.push_back(Node { t, o, todo: vec![], path: vec![c], rounds: 0 });
    }
    let mut fan_reqs: Vec<String> = vec![];
    let mut fan_want: Vec<(String, Vec<String>, String)> = vec![]; // (state, impl answers, path)
    let mut complete = true;
    while let Some(mut n) = queue.pop_front() {
        let st = state_str(&n.t);
        let key = (st.clone(), n.o.clone(), n.todo.clone());
        if seen.contains_key(&key) {
            continue;
        }
        if seen.len() >= cap || rep.oracle_failure_count > 20_000 {
            complete = false;
            break;
        }
        seen.insert(key, ());
        let path = n.path.clone();
        let input = || json!({"calls": toks(&path), "stream": "exhaustive"});
        check_observers(&mut n.t, &n.o, &input, rep);
        let nontrivial = !n.o.waits.is_empty() || n.o.done.len() >= 2;
        rep.case(if nontrivial { Some(format!("x{universe}:{st}:{:?}:{:?}", n.o.done, n.todo)) } else { None });
        if n.todo.is_empty() {
            // round boundary: what does the implementation offer?
            if n.t.is_empty() {
                rep.hit("exh:finished");
                continue;
            }
            let (offer, cyc) = match n.t.peek_all() {
                Ok(v) => (v.into_iter().copied().collect::<Vec<_>>(), false),
                Err(_) => match n.t.peek_all_cyclic() {
                    Some(v) => (v.into_iter().copied().collect::<Vec<_>>(), true),
                    None => {
                        rep.oracle_fail("finish:unwrap", input(), json!("peek_all Err but peek_all_cyclic None"), json!("consistent"), "finish would panic on unwrap");
                        continue;
                    }
                },
            };
            rep.hit(if cyc { "exh:round-cyclic" } else { "exh:round-leaves" });
            n.todo = offer;
            n.rounds += 1;
            queue.push_back(n);
            continue;
        }
        // process the next offered item: complete it, or register deps on any set of
        // not-yet-completed items of the universe (itself, pending ones, brand-new ones, none)
        let x = n.todo[0];
        let rest = n.todo[1..].to_vec();
        let not_done: Vec<u8> = items.iter().copied().filter(|y| !n.o.done.contains(y)).collect();
        let mut choices = vec![Call::Remove(x)];
        for d in subsets(&not_done) {
            choices.push(Call::Deps(x, d));
        }
        let mut answers = vec![];
        for c in &choices {
            let mut t2 = n.t.clone();
            let mut o2 = n.o.clone();
            debug_assert!(o2.legal(c));
            let r = exec(&mut t2, c);
            let mut p2 = n.path.clone();
            p2.push(c.clone());
            match r {
                Err(()) => {
                    answers.push("UNDERFLOW".to_string());
                    rep.oracle_fail("remove:underflow", json!({"calls": toks(&p2), "stream": "exhaustive"}), json!("PANIC (num_children underflow)"), json!("no panic"), "remove panicked on a protocol-following history");
                }
                Ok(res) => {
                    answers.push(format!("{res}@{}", state_str(&t2)));
                    if matches!(c, Call::Remove(_)) && res != "t" {
                        rep.oracle_fail("remove:result", json!({"calls": toks(&p2), "stream": "exhaustive"}), json!(res), json!("t"), "remove of an offered item returned false");
                    }
                    o2.apply(c);
                    rep.hit(match c {
                        Call::Remove(_) if n.o.waiting(x) => "exh:complete-with-pending-deps",
                        Call::Remove(_) => "exh:complete",
                        Call::Deps(_, d) if d.is_empty() => "exh:needs-nothing",
                        Call::Deps(_, d) if d.contains(&x) => "exh:needs-self",
                        Call::Deps(_, d) if d.iter().any(|y| !n.o.pending.contains(y)) => "exh:needs-new-item",
                        _ => "exh:needs-pending",
                    });
                    queue.push_back(Node { t: t2, o: o2, todo: rest.clone(), path: p2, rounds: n.rounds });
                }
            }
        }
        fan_reqs.push(format!("C26 fan {st} pa ic pc pk pkc ln em {}", toks(&choices)));
        let mut obs = vec![];
        for c in [Call::PeekAll, Call::InCycle, Call::PeekAllCyclic, Call::Peek, Call::PeekCyclic, Call::Len, Call::IsEmpty] {
            let mut t2 = n.t.clone();
            obs.push(format!("{}@{st}", exec(&mut t2, &c).unwrap_or("PANIC".into())));
        }
        obs.extend(answers);
        fan_want.push((st, obs, toks(&n.path)));
    }
    // model == implementation on every (state, call) pair of the graph
    for (reqs, wants) in fan_reqs.chunks(40_000).zip(fan_want.chunks(40_000)) {
        let got = lean::ask(reqs);
        for (g, (st, want, path)) in got.iter().zip(wants) {
            let w = want.join(" ");
            if *g != w {
                rep.disagree(json!({"state": st, "reached_by": path, "stream": "exhaustive"}), json!(w), json!(g));
            }
        }
    }
    (seen.len(), complete)
}

// ---------------------------------------------------------------------------------------
// Stream 2: random longer protocol histories through the `finish` loop
// ---------------------------------------------------------------------------------------
struct FinishRun {
    items: Vec<u8>,
    rounds: Vec<Vec<(u8, Option<Vec<u8>>)>>, // None = complete, Some(deps) = needs
    offers: Vec<(Vec<u8>, bool)>,
    calls: Vec<Call>,
    finished: bool,
}

fn random_finish(rng: &mut Rng, universe: u8, max_rounds: usize) -> FinishRun {
    let n0 = 1 + rng.below(universe as u64) as u8;
    let mut items: Vec<u8> = (1..=universe).collect();
    // random distinct initial items
    for i in (1..items.len()).rev() {
        let j = rng.below(i as u64 + 1) as usize;
        items.swap(i, j);
    }
    items.truncate(n0 as usize);
    let mut t = T::new();
    let mut calls = vec![Call::Extend(items.clone())];
    t.extend(items.iter().copied());
    let mut done: BTreeSet<u8> = BTreeSet::new();
    let mut attempts: HashMap<u8, u32> = HashMap::new();
    let mut run = FinishRun { items: items.clone(), rounds: vec![], offers: vec![], calls: vec![], finished: false };
    let eager = rng.below(4); // how quickly items complete
    for _ in 0..max_rounds {
        if t.is_empty() {
            run.finished = true;
            break;
        }
        let (mut offer, cyc) = match t.peek_all() {
            Ok(v) => (v.into_iter().copied().collect::<Vec<_>>(), false),
            Err(_) => (t.peek_all_cyclic().map(|v| v.into_iter().copied().collect::<Vec<_>>()).unwrap_or_default(), true),
        };
        run.offers.push((offer.clone(), cyc));
        if cyc {
            offer.sort(); // the checker sorts a cyclic round
        }
        let mut script = vec![];
        for x in offer {
            let a = attempts.entry(x).or_insert(0);
            *a += 1;
            let complete = cyc && rng.chance(3, 4) || *a > 3 || rng.below(4 + eager) >= 3;
            if complete {
                let c = Call::Remove(x);
                if exec(&mut t, &c).is_err() {
                    calls.push(c);
                    run.calls = calls;
                    return run;
                }
                calls.push(c);
                done.insert(x);
                script.push((x, None));
            } else {
                let k = rng.below(4) as usize;
                let mut deps = vec![];
                for _ in 0..k {
                    let y = 1 + rng.below(universe as u64) as u8;
                    if !done.contains(&y) {
                        deps.push(y);
                    }
                }
                let c = Call::Deps(x, deps.clone());
                let _ = exec(&mut t, &c);
                calls.push(c);
                script.push((x, Some(deps)));
            }
        }
        run.rounds.push(script);
    }
    if t.is_empty() {
        run.finished = true;
    }
    run.calls = calls;
    run
}

fn finish_request(items: &[u8], rounds: &[Vec<(u8, Option<Vec<u8>>)>]) -> String {
    let rs: Vec<String> = rounds
        .iter()
        .map(|r| {
            if r.is_empty() {
                "-".to_string()
            } else {
                r.iter()
                    .map(|(x, d)| match d {
                        None => format!("{x}=c"),
                        Some(ds) => format!("{x}=n{}", dots(ds)),
                    })
                    .collect::<Vec<_>>()
                    .join(",")
            }
        })
        .collect();
    format!("C26 finish {} {}", if items.is_empty() { "-".into() } else { dots(items) }, rs.join(" "))
}

fn offers_str(offers: &[(Vec<u8>, bool)]) -> String {
    offers.iter().map(|(l, c)| format!("{}{}", list(l), if *c { "C" } else { "L" })).collect::<Vec<_>>().join(" ")
}

/// model == implementation for whole call sequences (`C26 run`), oracle alongside, and the Lean
/// specification (`C26 spec`) against the Rust oracle.
fn check_sequences(seqs: &[Vec<Call>], label: &str, expect_legal: bool, rep: &mut Report) {
    let reqs: Vec<String> = seqs.iter().map(|s| format!("C26 run {}", toks(s))).collect();
    let answers = lean::ask(&reqs);
    let spec_reqs: Vec<String> = seqs.iter().map(|s| format!("C26 spec {}", toks(&s.iter().filter(|c| c.mutating()).cloned().collect::<Vec<_>>()))).collect();
    let spec_answers = lean::ask(&spec_reqs);
    for ((s, model), spec) in seqs.iter().zip(answers.iter()).zip(spec_answers.iter()) {
        let (got, _) = run_impl(s);
        let got_s = got.join(" ");
        let underflow = got.last().map(|x| x == "UNDERFLOW").unwrap_or(false);
        if &got_s != model {
            rep.disagree(json!({"calls": toks(s), "stream": label}), json!(got_s), json!(model));
        }
        let legal = check_history_oracle(s, rep, label);
        // Rust oracle vs the Lean specification the theorems are about
        if spec != "?" {
            let mut o = Oracle::default();
            let mut want = vec![];
            for c in s.iter().filter(|c| c.mutating()) {
                if !o.legal(c) {
                    want.push("ILLEGAL".to_string());
                    break;
                }
                o.apply(c);
                let ready: Vec<u8> = o.pending.iter().copied().filter(|p| !o.waiting(*p)).collect();
                want.push(format!("L@{}@{}@{}", list(&ready), b(o.cyclic()), list(&o.pending)));
            }
            let w = want.join(" ");
            if &w != spec {
                rep.disagree(json!({"calls": toks(s), "stream": format!("{label}:oracle-vs-lean-spec")}), json!(w), json!(spec));
            }
        }
        if expect_legal && !legal {
            rep.disagree(json!({"calls": toks(s), "stream": format!("{label}:generator-left-protocol")}), json!("illegal"), json!("legal"));
        }
        let deps = s.iter().filter(|c| matches!(c, Call::Dep(..) | Call::Deps(..))).count();
        let rem = s.iter().filter(|c| matches!(c, Call::Remove(_))).count();
        rep.case(if deps > 0 && rem > 0 { Some(format!("{label}:{}", toks(s))) } else { None });
        rep.hit(&format!("{label}:{}", if underflow { "underflow" } else if legal { "legal" } else { "left-protocol" }));
        if rep.samples.len() < 6 && rep.evaluations % 977 == 3 {
            rep.sample(json!({"stream": label, "calls": toks(s), "implementation": got_s}));
        }
    }
}

fn random_call(rng: &mut Rng, n: u8) -> Call {
    let it = |rng: &mut Rng| 1 + rng.below(n as u64) as u8;
    match rng.below(24) {
        0..=1 => Call::Insert(it(rng)),
        2..=6 => Call::Dep(it(rng), it(rng)),
        7..=8 => {
            let p = it(rng);
            let k = rng.below(4);
            Call::Deps(p, (0..k).map(|_| it(rng)).collect())
        }
        9 => {
            let k = rng.below(4);
            Call::Extend((0..k).map(|_| it(rng)).collect())
        }
        10..=14 => Call::Remove(it(rng)),
        15 => Call::PeekAll,
        16 => Call::Peek,
        17 => Call::InCycle,
        18 => Call::PeekAllCyclic,
        19 => Call::PopAll,
        20 => Call::Pop,
        21 => Call::PopCyclic,
        22 => rng.pick(&[Call::PopAllCyclic, Call::PeekCyclic, Call::Len, Call::IsEmpty]).clone(),
        _ => Call::Clear,
    }
}

// ---------------------------------------------------------------------------------------
// Stream 4: the sequences hir_ty really issues (hook H3)
// ---------------------------------------------------------------------------------------
fn logged_to_call(op: &str, args: &[usize]) -> Option<Call> {
    let a = |i: usize| args.get(i).map(|x| (*x + 1) as u8);
    Some(match op {
        "insert_dep" => Call::Dep(a(0)?, a(1)?),
        "insert" => Call::Insert(a(0)?),
        "extend" => Call::Extend(args.iter().map(|x| (*x + 1) as u8).collect()),
        "remove" => Call::Remove(a(0)?),
        "peek_all" => Call::PeekAll,
        "peek" => Call::Peek,
        "in_cycle" => Call::InCycle,
        "peek_all_cyclic" => Call::PeekAllCyclic,
        "peek_cyclic" => Call::PeekCyclic,
        "is_empty" => Call::IsEmpty,
        "len" => Call::Len,
        "clear" => Call::Clear,
        "pop_all_cyclic" => Call::PopAllCyclic,
        _ => return None,
    })
}

fn replay_traces(traces: Vec<hir_drive::HirTrace>, rep: &mut Report) {
    let mut seqs = vec![];
    let mut fin_reqs = vec![];
    let mut fin_want = vec![];
    for tr in &traces {
        rep.hit(&format!("trace:{}{}", tr.kind, if tr.panicked { ":checker-panicked" } else { "" }));
        if tr.ops.iter().any(|(_, a, _)| a.iter().any(|x| *x > 250)) {
            rep.hit("trace:skipped-too-many-items");
            continue;
        }
        let mut calls = vec![];
        let mut t = T::new();
        let mut in_sync = true;
        // reconstruction of the `finish` script
        let mut items: Vec<u8> = vec![];
        let mut rounds: Vec<Vec<(u8, Option<Vec<u8>>)>> = vec![];
        let mut offers: Vec<(Vec<u8>, bool)> = vec![];
        let mut shape_ok = true;
        for (i, (op, args, len_before)) in tr.ops.iter().enumerate() {
            let Some(c) = logged_to_call(op, args) else {
                rep.disagree(json!({"program": tr.program, "stream": "hir_ty-trace"}), json!(format!("unknown logged op {op}")), json!("-"));
                in_sync = false;
                break;
            };
            if t.len() != *len_before {
                rep.disagree(json!({"program": tr.program, "stream": "hir_ty-trace", "at": i}), json!(format!("len_before {len_before}")), json!(format!("replayed len {}", t.len())));
                in_sync = false;
                break;
            }
            match &c {
                Call::Extend(xs) if i == 0 => items = xs.clone(),
                Call::PeekAll => {
                    if let Ok(v) = t.peek_all() {
                        offers.push((v.into_iter().copied().collect(), false));
                        rounds.push(vec![]);
                    }
                }
                Call::PeekAllCyclic => {
                    if let Some(v) = t.peek_all_cyclic() {
                        offers.push((v.into_iter().copied().collect(), true));
                        rounds.push(vec![]);
                    }
                }
                Call::Remove(x) => match rounds.last_mut() {
                    Some(r) => r.push((*x, None)),
                    None => shape_ok = false,
                },
                Call::Dep(p, ch) => match rounds.last_mut() {
                    Some(r) => match r.last_mut() {
                        Some((q, Some(ds))) if q == p => ds.push(*ch),
                        _ => r.push((*p, Some(vec![*ch]))),
                    },
                    None => shape_ok = false,
                },
                Call::IsEmpty | Call::InCycle => {}
                _ => shape_ok = false,
            }
            if exec(&mut t, &c).is_err() {
                calls.push(c);
                break;
            }
            calls.push(c);
        }
        if !in_sync {
            continue;
        }
        rep.traces_validated += 1;
        if rep.samples.len() < 6 && (tr.kind == "cyclic" || tr.kind == "generic") {
            rep.sample(json!({"stream": "hir_ty-trace", "program": tr.program, "calls": toks(&calls)}));
        }
        // offered items that neither completed nor registered anything: `insert_deps(x, [])`
        for (r, (off, _)) in rounds.iter_mut().zip(offers.iter()) {
            for x in off {
                if !r.iter().any(|(y, _)| y == x) {
                    r.push((*x, Some(vec![])));
                }
            }
        }
        if shape_ok && !tr.panicked && !items.is_empty() {
            fin_reqs.push(finish_request(&items, &rounds));
            fin_want.push((format!("finished:{} {}", rounds.len(), offers_str(&offers)), tr.program.clone()));
        } else if !shape_ok {
            rep.hit("trace:not-finish-shaped");
            rep.disagree(json!({"program": tr.program, "stream": "hir_ty-trace:shape"}), json!(toks(&calls)), json!("extend; (peek_all [peek_all_cyclic]; (remove|insert_dep)*; is_empty)*"));
        }
        seqs.push(calls);
    }
    // every return value + state vs the model, oracle alongside, protocol predicate (expect legal)
    check_sequences(&seqs, "hir_ty-trace", true, rep);
    let got = lean::ask(&fin_reqs);
    for (g, (w, prog)) in got.iter().zip(fin_want) {
        rep.hit("trace:finish-script");
        if g.trim_end() != w.trim_end() {
            rep.disagree(json!({"program": prog, "stream": "hir_ty-trace:Sched.finish"}), json!(w), json!(g));
        }
    }
}

pub fn run(tier: &str, seed: u64, widen: bool) -> Report {
    let thorough = tier == "thorough";
    let mut rep = Report::new(
        "C26",
        "topo::TopoSort<u8> (every public method: return value + full internal state after every call) vs Lean model CapyV.Topo; round loop vs CapyV.Sched.finish; Rust oracle vs Lean spec CapyV.SchedSpec; hir_ty's real call sequences (hook H3) replayed through all of them",
        "stream 1: the whole graph of protocol-following histories (finish-style rounds: every offered item completes or registers deps on any subset of not-yet-completed items incl. itself / brand-new ones / none; cycle-breaking rounds included; unbounded number of rounds) over a universe of 3 items (complete graph, `exhaustive` refers to this) and of 4 items (breadth-first up to a node cap, see notes), each distinct (state, oracle state, round position) visited once; stream 2: seeded random finish runs over up to 12 items and 40 rounds; stream 3: arbitrary call sequences (all of length <= 3 (quick) / 4 (thorough) over 3 items, plus random ones over <= 5 items up to 30 calls); stream 4: hir_ty traces on generated Capy programs; non-trivial = has a dependency registration and a completion (streams 2-4) / a waits-on edge or two completions (stream 1); distinct by call sequence / node",
    );
    let mut rng = Rng::new(seed);

    // ---- stream 1
    let t0 = std::time::Instant::now();
    // the graph has 47 608 nodes on the pinned code; a cap keeps a broken implementation whose
    // state space is unbounded (e.g. counters that keep growing) from hanging the run
    let (n3, c3) = explore(3, 400_000, &mut rep);
    if !c3 {
        rep.disagree(json!({"stream": "exhaustive", "universe": 3}), json!(format!("state graph not exhausted after {n3} nodes")), json!("finite graph (47608 nodes on the pinned code)"));
    }
    rep.notes.push(format!("exhaustive graph, universe 3: {n3} nodes, complete={c3}, {:.1}s", t0.elapsed().as_secs_f64()));
    // `exhaustive` refers to the universe-3 graph; the universe-4 graph is breadth-first up to a cap
    let exhaustive = c3;
    let cap4 = if widen { 1_500_000 } else if thorough { 500_000 } else { 40_000 };
    let t0 = std::time::Instant::now();
    let (n4, c4) = explore(4, cap4, &mut rep);
    rep.notes.push(format!("exhaustive graph, universe 4: {n4} nodes (breadth-first, cap {cap4}), complete={c4}, {:.1}s", t0.elapsed().as_secs_f64()));
    let _ = c4;
    rep.exhaustive = exhaustive;

    // ---- stream 2
    let n_fin = if widen { 30_000 } else if thorough { 8_000 } else { 1_500 };
    let mut seqs = vec![];
    let mut fin_reqs = vec![];
    let mut fin_want = vec![];
    for i in 0..n_fin {
        let universe = if i % 3 == 0 { 4 } else { 2 + rng.below(11) as u8 };
        let max_rounds = if i % 3 == 0 { 8 } else { 40 };
        let r = random_finish(&mut rng, universe, max_rounds);
        fin_reqs.push(finish_request(&r.items, &r.rounds));
        let mut t = T::new();
        for c in &r.calls {
            let _ = exec(&mut t, c);
        }
        let want = if r.finished { format!("finished:{}", r.rounds.len()) } else { format!("more:{}", state_str(&t)) };
        fin_want.push((format!("{want} {}", offers_str(&r.offers[..r.rounds.len().min(r.offers.len())])), toks(&r.calls)));
        rep.hit(if r.finished { "finish:finished" } else { "finish:round-limit" });
        if r.offers.iter().any(|o| o.1) {
            rep.hit("finish:had-cyclic-round");
        }
        // observers interleaved so that return values are compared too
        let mut calls = vec![];
        for c in r.calls {
            calls.push(c);
            if rng.chance(1, 3) {
                calls.push(Call::PeekAll);
                calls.push(Call::PeekAllCyclic);
            }
        }
        seqs.push(calls);
    }
    check_sequences(&seqs, "finish-random", true, &mut rep);
    let got = lean::ask(&fin_reqs);
    for (g, (w, calls)) in got.iter().zip(fin_want) {
        if g != "?" && g.trim_end() != w.trim_end() {
            rep.disagree(json!({"calls": calls, "stream": "finish-random:Sched.finish"}), json!(w), json!(g));
        }
    }

    // ---- stream 3: arbitrary sequences (model == implementation only)
    let mut alphabet = vec![];
    for x in 1..=3u8 {
        alphabet.push(Call::Insert(x));
        alphabet.push(Call::Remove(x));
        for y in 1..=3u8 {
            alphabet.push(Call::Dep(x, y));
        }
    }
    alphabet.push(Call::Extend(vec![1, 2]));
    alphabet.push(Call::Extend(vec![2, 2, 3]));
    alphabet.push(Call::PopAll);
    alphabet.push(Call::PopCyclic);
    let max_len = if thorough || widen { 4 } else { 3 };
    let mut seqs = vec![];
    let mut idx = vec![0usize; 0];
    loop {
        let mut s: Vec<Call> = idx.iter().map(|&i| alphabet[i].clone()).collect();
        s.push(Call::PeekAll);
        s.push(Call::PeekAllCyclic);
        seqs.push(s);
        let mut i = idx.len();
        loop {
            if i == 0 {
                idx = vec![0; idx.len() + 1];
                break;
            }
            i -= 1;
            if idx[i] + 1 < alphabet.len() {
                idx[i] += 1;
                for j in i + 1..idx.len() {
                    idx[j] = 0;
                }
                break;
            }
        }
        if idx.len() > max_len {
            break;
        }
    }
    for chunk in seqs.chunks(50_000) {
        check_sequences(chunk, "arbitrary-exhaustive", false, &mut rep);
    }
    let n_arb = if widen { 60_000 } else if thorough { 20_000 } else { 3_000 };
    let mut seqs = vec![];
    for _ in 0..n_arb {
        let n = 2 + rng.below(4) as u8;
        let len = 1 + rng.below(30) as usize;
        seqs.push((0..len).map(|_| random_call(&mut rng, n)).collect::<Vec<_>>());
    }
    check_sequences(&seqs, "arbitrary-random", false, &mut rep);

    // ---- stream 4
    if hir_drive::hook_present() {
        let n_prog = if widen { 3_000 } else if thorough { 1_000 } else { 200 };
        let traces = catch_unwind(AssertUnwindSafe(|| hir_drive::collect(&mut rng, n_prog))).unwrap_or_default();
        if traces.is_empty() {
            rep.notes.push("hook H3 present but no trace was collected".into());
        }
        replay_traces(traces, &mut rep);
    } else {
        rep.hit("trace:skipped-hook-absent");
        rep.notes.push("stream 4 (replay of hir_ty's real TopoSort call sequences) skipped: hook H3 (topo::verif, see HOOK.patch) is not present in the topo crate this harness was built against".into());
    }
    rep
}

pub fn replay(input: &Value) -> String {
    let calls: Vec<Call> = input["calls"].as_str().unwrap_or("").split_whitespace().filter_map(Call::parse).collect();
    let (got, _) = run_impl(&calls);
    let model = lean::ask(&[format!("C26 run {}", toks(&calls))]);
    let spec = lean::ask(&[format!("C26 spec {}", toks(&calls.iter().filter(|c| c.mutating()).cloned().collect::<Vec<_>>()))]);
    let mut rep = Report::new("C26", "replay", "replay");
    check_history_oracle(&calls, &mut rep, "replay");
    let fails: Vec<String> = rep.oracle_failures.iter().map(|f| format!("{}: got {} want {}", f["label"], f["implementation"], f["spec"])).collect();
    format!(
        "implementation: {}\nmodel: {}\nspec (per mutating call: legal@ready@cyclic@pending): {}\n{}",
        got.join(" "),
        model[0],
        spec[0],
        if fails.is_empty() { "AGREE".to_string() } else { format!("SPEC-MISMATCH {}", fails.join("; ")) }
    )
}
