//! C02, "aggregates are copied": generated CopyLang programs (lean/CapyV/Model/CopyLang.lean) —
//! several aggregate variables, copies between them in every syntactic form a local definition or
//! assignment can take, scalar writes (direct, through a pointer, in a callee) to sources and to
//! copies, prints of single cells — are printed as Capy, built with the real CLI and run; the
//! printed cells are compared with the Lean model `CapyV.Copy.run` and with an independent
//! by-value evaluation done here.
use crate::e2e::{self, Program};
use crate::lean;
use crate::report::Report;
use crate::rng::Rng;
use serde_json::json;

#[derive(Clone, Copy, PartialEq, Eq, Debug)]
enum Shape {
    Pt,
    W,
    A2,
    N3,
}

impl Shape {
    fn name(self) -> &'static str {
        match self {
            Shape::Pt => "Pt",
            Shape::W => "W",
            Shape::A2 => "[2]Pt",
            Shape::N3 => "[3]i32",
        }
    }
    /// leaf paths, in cell order, with the largest value the cell's type can hold
    fn leaves(self) -> Vec<(&'static str, i64)> {
        match self {
            Shape::Pt => vec![(".x", 100_000), (".y", 100_000)],
            Shape::W => vec![(".g", 250), (".p.x", 100_000), (".p.y", 100_000), (".h", 250)],
            Shape::A2 => vec![("[0].x", 100_000), ("[0].y", 100_000), ("[1].x", 100_000), ("[1].y", 100_000)],
            Shape::N3 => vec![("[0]", 100_000), ("[1]", 100_000), ("[2]", 100_000)],
        }
    }
    /// places of aggregate type inside a value of this shape: (path, shape, cell offset)
    fn subs(self) -> Vec<(&'static str, Shape, usize)> {
        let mut v = vec![("", self, 0)];
        match self {
            Shape::W => v.push((".p", Shape::Pt, 1)),
            Shape::A2 => {
                v.push(("[0]", Shape::Pt, 0));
                v.push(("[1]", Shape::Pt, 2));
            }
            _ => {}
        }
        v
    }
    fn len(self) -> usize {
        self.leaves().len()
    }
    fn literal(self, cells: &[i64]) -> String {
        let v: Vec<String> = cells.iter().map(|c| c.to_string()).collect();
        self.literal_s(&v)
    }
    /// the literal with arbitrary member expressions
    fn literal_s(self, cells: &[String]) -> String {
        match self {
            Shape::Pt => format!("Pt.{{ x = {}, y = {} }}", cells[0], cells[1]),
            Shape::W => format!("W.{{ g = {}, p = {}, h = {} }}", cells[0], Shape::Pt.literal_s(&cells[1..3]), cells[3]),
            Shape::A2 => format!("Pt.[ {}, {} ]", Shape::Pt.literal_s(&cells[0..2]), Shape::Pt.literal_s(&cells[2..4])),
            Shape::N3 => format!("i32.[ {}, {}, {} ]", cells[0], cells[1], cells[2]),
        }
    }
    fn first_fn(self) -> &'static str {
        match self {
            Shape::Pt => "first_pt",
            Shape::W => "first_w",
            Shape::A2 => "first_a2",
            Shape::N3 => "first_n3",
        }
    }
    fn id_fn(self) -> &'static str {
        match self {
            Shape::Pt => "id_pt",
            Shape::W => "id_w",
            Shape::A2 => "id_a2",
            Shape::N3 => "id_n3",
        }
    }
}

#[derive(Clone, Debug)]
struct Var {
    shape: Shape,
    mutable: bool,
}

#[derive(Clone, Debug)]
enum Op {
    Init { x: usize, cells: Vec<i64> },
    /// form, dst, (src var, sub-place index)
    Def { form: u32, dst: usize, src: usize, sub: usize },
    /// how: 0 direct, 1 through the pointer companion, 2 in a callee
    Set { x: usize, leaf: usize, v: i64, how: u32 },
    Assign { dst: usize, dsub: usize, src: usize, ssub: usize },
    /// `x = T.{ … }` whose members are constants (`Err(c)`) or cells `(var, leaf)` of variables — of
    /// `x` itself too: the literal must be built from the OLD values
    Lit { x: usize, srcs: Vec<Result<(usize, usize), i64>> },
    Obs { x: usize, leaf: usize },
}

pub const N_FORMS: u32 = 13;
pub fn form_name(f: u32) -> &'static str {
    match f {
        0 => "c := s",
        1 => "c :: s",
        2 => "c : T = s",
        3 => "c :: { s }",
        4 => "c :: if t { s } else { s }",
        5 => "c :: id(s)",
        6 => "c :: p^ (deref of a pointer to s)",
        7 => "c :: `b: { if t { break `b s; } s }",
        9 => "c := first(id(s), id(literal)) (two register-returned aggregates alive in one expression)",
        10 => "c := if t { s } else { s } (mutable)",
        11 => "c := { s } (mutable)",
        12 => "c := `b: { if t { break `b s; } s } (mutable)",
        _ => "c := literal; c = s",
    }
}

struct Prog {
    vars: Vec<Var>,
    ops: Vec<Op>,
}

fn place(vars: &[Var], x: usize, path: &str, via_ptr: bool) -> String {
    let _ = vars;
    if via_ptr {
        format!("p{x}^{path}")
    } else {
        format!("v{x}{path}")
    }
}

impl Prog {
    fn to_capy(&self) -> String {
        let mut s = String::from("core :: #mod(\"core\");\n\nPt :: struct { x: i32, y: i32 };\nW :: struct { g: u8, p: Pt, h: u8 };\n\n");
        s.push_str("id_pt :: (v: Pt) -> Pt { v }\nid_w :: (v: W) -> W { v }\nid_a2 :: (v: [2]Pt) -> [2]Pt { v }\nid_n3 :: (v: [3]i32) -> [3]i32 { v }\n");
        s.push_str("first_pt :: (p: Pt, q: Pt) -> Pt { p }\nfirst_w :: (p: W, q: W) -> W { p }\nfirst_a2 :: (p: [2]Pt, q: [2]Pt) -> [2]Pt { p }\nfirst_n3 :: (p: [3]i32, q: [3]i32) -> [3]i32 { p }\n");
        s.push_str("set_i32 :: (p: ^mut i32, v: i32) { p^ = v; }\nset_u8 :: (p: ^mut u8, v: u8) { p^ = v; }\n\nmain :: () {\n    t := true;\n");
        for op in &self.ops {
            match op {
                Op::Init { x, cells } => {
                    let v = &self.vars[*x];
                    s.push_str(&format!("    v{x} {} {};\n", if v.mutable { ":=" } else { "::" }, v.shape.literal(cells)));
                    self.companion(&mut s, *x);
                }
                Op::Def { form, dst, src, sub } => {
                    let sv = &self.vars[*src];
                    let (path, shape, _) = sv.shape.subs()[*sub];
                    let direct = place(&self.vars, *src, path, false);
                    let line = match form {
                        0 => format!("v{dst} := {direct};"),
                        1 => format!("v{dst} :: {direct};"),
                        2 => format!("v{dst} : {} = {direct};", shape.name()),
                        3 => format!("v{dst} :: {{ {direct} }};"),
                        4 => format!("v{dst} :: if t {{ {direct} }} else {{ {direct} }};"),
                        5 => format!("v{dst} :: {}({direct});", shape.id_fn()),
                        6 => format!("v{dst} :: {};", place(&self.vars, *src, path, true)),
                        7 => format!("v{dst} :: `b{dst}: {{ if t {{ break `b{dst} {direct}; }} {direct} }};"),
                        10 => format!("v{dst} := if t {{ {direct} }} else {{ {direct} }};"),
                        11 => format!("v{dst} := {{ {direct} }};"),
                        12 => format!("v{dst} := `b{dst}: {{ if t {{ break `b{dst} {direct}; }} {direct} }};"),
                        9 => {
                            let other = vec![77i64; shape.len()];
                            format!("v{dst} := {}({}({direct}), {}({}));", shape.first_fn(), shape.id_fn(), shape.id_fn(), shape.literal(&other))
                        }
                        _ => {
                            let zeros = vec![0i64; shape.len()];
                            format!("v{dst} := {};\n    v{dst} = {direct};", shape.literal(&zeros))
                        }
                    };
                    s.push_str(&format!("    {line}\n"));
                    self.companion(&mut s, *dst);
                }
                Op::Set { x, leaf, v, how } => {
                    let (path, max) = self.vars[*x].shape.leaves()[*leaf];
                    let line = match how {
                        0 => format!("{} = {v};", place(&self.vars, *x, path, false)),
                        1 => format!("{} = {v};", place(&self.vars, *x, path, true)),
                        _ => format!("{}(^mut {}, {v});", if max < 1000 { "set_u8" } else { "set_i32" }, place(&self.vars, *x, path, false)),
                    };
                    s.push_str(&format!("    {line}\n"));
                }
                Op::Assign { dst, dsub, src, ssub } => {
                    let (dp, _, _) = self.vars[*dst].shape.subs()[*dsub];
                    let (sp, _, _) = self.vars[*src].shape.subs()[*ssub];
                    s.push_str(&format!("    {} = {};\n", place(&self.vars, *dst, dp, false), place(&self.vars, *src, sp, false)));
                }
                Op::Lit { x, srcs } => {
                    let exprs: Vec<String> = srcs
                        .iter()
                        .map(|s| match s {
                            Err(c) => c.to_string(),
                            Ok((v, leaf)) => place(&self.vars, *v, self.vars[*v].shape.leaves()[*leaf].0, false),
                        })
                        .collect();
                    s.push_str(&format!("    v{x} = {};\n", self.vars[*x].shape.literal_s(&exprs)));
                }
                Op::Obs { x, leaf } => {
                    let (path, _) = self.vars[*x].shape.leaves()[*leaf];
                    s.push_str(&format!("    core.println({});\n", place(&self.vars, *x, path, false)));
                }
            }
        }
        s.push_str("}\n");
        s
    }
    /// `pN := ^mut vN;` / `pN := ^vN;` right after the definition of `vN`
    fn companion(&self, s: &mut String, x: usize) {
        if self.vars[x].mutable {
            s.push_str(&format!("    p{x} := ^mut v{x};\n"));
        } else {
            s.push_str(&format!("    p{x} := ^v{x};\n"));
        }
    }
    fn wire(&self) -> String {
        let mut parts = vec![];
        for op in &self.ops {
            parts.push(match op {
                Op::Init { x, cells } => format!("i {x} {}", cells.iter().map(|c| c.to_string()).collect::<Vec<_>>().join(",")),
                Op::Def { form, dst, src, sub } => {
                    let (_, shape, off) = self.vars[*src].shape.subs()[*sub];
                    format!("d {form} {dst} {src} {off} {}", shape.len())
                }
                Op::Set { x, leaf, v, .. } => format!("s {x} {leaf} {v}"),
                Op::Assign { dst, dsub, src, ssub } => {
                    let (_, shape, doff) = self.vars[*dst].shape.subs()[*dsub];
                    let (_, _, soff) = self.vars[*src].shape.subs()[*ssub];
                    format!("a {dst} {doff} {src} {soff} {}", shape.len())
                }
                Op::Lit { x, srcs } => format!(
                    "l {x} {}",
                    srcs.iter().map(|s| match s { Err(c) => format!("k{c}"), Ok((v, l)) => format!("c{v}.{l}") }).collect::<Vec<_>>().join(" ")
                ),
                Op::Obs { x, leaf } => format!("o {x} {leaf}"),
            });
        }
        parts.join(" ; ")
    }
    /// the oracle: every variable owns its cells
    fn expected(&self) -> Vec<i64> {
        let mut store: Vec<Vec<i64>> = vec![vec![]; self.vars.len()];
        let mut out = vec![];
        for op in &self.ops {
            match op {
                Op::Init { x, cells } => store[*x] = cells.clone(),
                Op::Def { dst, src, sub, .. } => {
                    let (_, shape, off) = self.vars[*src].shape.subs()[*sub];
                    store[*dst] = store[*src][off..off + shape.len()].to_vec();
                }
                Op::Set { x, leaf, v, .. } => store[*x][*leaf] = *v,
                Op::Assign { dst, dsub, src, ssub } => {
                    let (_, shape, doff) = self.vars[*dst].shape.subs()[*dsub];
                    let (_, _, soff) = self.vars[*src].shape.subs()[*ssub];
                    let vals: Vec<i64> = store[*src][soff..soff + shape.len()].to_vec();
                    store[*dst][doff..doff + shape.len()].copy_from_slice(&vals);
                }
                Op::Lit { x, srcs } => {
                    let vals: Vec<i64> = srcs.iter().map(|s| match s { Err(c) => *c, Ok((v, l)) => store[*v][*l] }).collect();
                    store[*x] = vals;
                }
                Op::Obs { x, leaf } => out.push(store[*x][*leaf]),
            }
        }
        out
    }
}

fn gen(rng: &mut Rng, rep: &mut Report) -> Prog {
    let mut vars: Vec<Var> = vec![];
    let mut ops = vec![];
    let mut next_val = 1 + rng.below(50) as i64;
    let mut fresh = |max: i64| {
        next_val += 1;
        if max < 1000 {
            next_val % 250
        } else {
            next_val
        }
    };
    // initial variables: one of each of 2-3 shapes, mostly mutable
    let shapes = [Shape::Pt, Shape::W, Shape::A2, Shape::N3];
    let n0 = 2 + rng.below(2) as usize;
    for k in 0..n0 {
        let shape = if k == 0 { Shape::W } else { *rng.pick(&shapes) };
        let cells: Vec<i64> = shape.leaves().iter().map(|(_, m)| fresh(*m)).collect();
        vars.push(Var { shape, mutable: rng.chance(5, 6) });
        ops.push(Op::Init { x: vars.len() - 1, cells });
    }
    let n_ops = 14 + rng.below(14);
    for _ in 0..n_ops {
        let c = rng.below(100);
        if c < 30 && vars.len() < 14 {
            // a copy
            let src = rng.below(vars.len() as u64) as usize;
            let subs = vars[src].shape.subs();
            let sub = rng.below(subs.len() as u64) as usize;
            let form = rng.below(N_FORMS as u64) as u32;
            let mutable = matches!(form, 0 | 2 | 8 | 9 | 10 | 11 | 12);
            vars.push(Var { shape: subs[sub].1, mutable });
            rep.hit(&format!("copy-form:{}", form_name(form)));
            rep.hit(if sub == 0 { "copy-source:whole-variable" } else { "copy-source:field-or-element" });
            ops.push(Op::Def { form, dst: vars.len() - 1, src, sub });
        } else if c < 62 {
            let muts: Vec<usize> = (0..vars.len()).filter(|i| vars[*i].mutable).collect();
            if muts.is_empty() {
                continue;
            }
            let x = *rng.pick(&muts);
            let leaves = vars[x].shape.leaves();
            let leaf = rng.below(leaves.len() as u64) as usize;
            let how = rng.below(3) as u32;
            rep.hit(["write:direct", "write:through-pointer", "write:in-callee"][how as usize]);
            ops.push(Op::Set { x, leaf, v: fresh(leaves[leaf].1), how });
        } else if c < 68 {
            // assignment of a literal whose members read variables, the destination included
            let muts: Vec<usize> = (0..vars.len()).filter(|i| vars[*i].mutable).collect();
            if muts.is_empty() {
                continue;
            }
            let x = *rng.pick(&muts);
            let leaves = vars[x].shape.leaves();
            let mut srcs = vec![];
            for (_, max) in &leaves {
                // a cell of the same kind (u8 cells only from u8 cells) of x itself (2/3) or of any variable
                let small = *max < 1000;
                let mut cands: Vec<(usize, usize)> = vec![];
                for (v, var) in vars.iter().enumerate() {
                    for (l, (_, m)) in var.shape.leaves().iter().enumerate() {
                        if (*m < 1000) == small && (v == x || rng.chance(1, 3)) {
                            cands.push((v, l));
                        }
                    }
                }
                if cands.is_empty() || rng.chance(1, 5) {
                    srcs.push(Err(fresh(*max)));
                } else {
                    srcs.push(Ok(*rng.pick(&cands)));
                }
            }
            rep.hit(if srcs.iter().any(|s| matches!(s, Ok((v, _)) if *v == x)) { "literal-assign:reads-its-destination" } else { "literal-assign:other-sources" });
            ops.push(Op::Lit { x, srcs });
        } else if c < 76 {
            // aggregate assignment between places of the same shape
            let muts: Vec<usize> = (0..vars.len()).filter(|i| vars[*i].mutable).collect();
            if muts.is_empty() {
                continue;
            }
            let dst = *rng.pick(&muts);
            let dsubs = vars[dst].shape.subs();
            let dsub = rng.below(dsubs.len() as u64) as usize;
            let want = dsubs[dsub].1;
            let mut cands = vec![];
            for (i, v) in vars.iter().enumerate() {
                for (k, s) in v.shape.subs().iter().enumerate() {
                    if s.1 == want {
                        cands.push((i, k));
                    }
                }
            }
            let (src, ssub) = *rng.pick(&cands);
            rep.hit(if src == dst { "assign:within-one-variable" } else { "assign:between-variables" });
            ops.push(Op::Assign { dst, dsub, src, ssub });
        } else {
            let x = rng.below(vars.len() as u64) as usize;
            let leaf = rng.below(vars[x].shape.len() as u64) as usize;
            ops.push(Op::Obs { x, leaf });
        }
    }
    // finally every cell of every variable
    for x in 0..vars.len() {
        for leaf in 0..vars[x].shape.len() {
            ops.push(Op::Obs { x, leaf });
        }
    }
    Prog { vars, ops }
}

/// the shape of seeded change C02_1 and relatives, always run first
fn corpus() -> Vec<Prog> {
    let mut v = vec![];
    for form in 0..N_FORMS {
        let vars = vec![
            Var { shape: Shape::W, mutable: true },
            Var { shape: Shape::W, mutable: matches!(form, 0 | 2 | 8 | 9 | 10 | 11 | 12) },
            Var { shape: Shape::Pt, mutable: matches!(form, 0 | 2 | 8 | 9 | 10 | 11 | 12) },
        ];
        let mut ops = vec![
            Op::Init { x: 0, cells: vec![7, 1, 2, 9] },
            Op::Def { form, dst: 1, src: 0, sub: 0 },
            Op::Def { form, dst: 2, src: 0, sub: 1 },
            Op::Set { x: 0, leaf: 1, v: 100, how: 0 },
            Op::Set { x: 0, leaf: 2, v: 200, how: 1 },
            Op::Set { x: 0, leaf: 0, v: 77, how: 2 },
        ];
        if vars[1].mutable {
            // writes to the copies must not reach the source either
            ops.push(Op::Set { x: 1, leaf: 3, v: 55, how: 0 });
            ops.push(Op::Set { x: 2, leaf: 0, v: 66, how: 0 });
        }
        for x in 0..3usize {
            for leaf in 0..vars[x].shape.len() {
                ops.push(Op::Obs { x, leaf });
            }
        }
        v.push(Prog { vars, ops });
    }
    // `p = P.{ x = p.y, y = p.x }` and the array version (the pinned compiler built the literal in place)
    v.push(Prog {
        vars: vec![Var { shape: Shape::Pt, mutable: true }, Var { shape: Shape::N3, mutable: true }],
        ops: vec![
            Op::Init { x: 0, cells: vec![1, 2] },
            Op::Init { x: 1, cells: vec![10, 20, 30] },
            Op::Lit { x: 0, srcs: vec![Ok((0, 1)), Ok((0, 0))] },
            Op::Lit { x: 1, srcs: vec![Ok((1, 2)), Ok((1, 1)), Ok((1, 0))] },
            Op::Obs { x: 0, leaf: 0 },
            Op::Obs { x: 0, leaf: 1 },
            Op::Obs { x: 1, leaf: 0 },
            Op::Obs { x: 1, leaf: 2 },
        ],
    });
    v
}

pub fn run(rep: &mut Report, rng: &mut Rng, tier: &str, widen: bool) {
    let n = if widen { 400 } else if tier == "thorough" { 160 } else { 24 };
    let mut progs = corpus();
    while progs.len() < n + N_FORMS as usize + 1 {
        progs.push(gen(rng, rep));
    }
    let sources: Vec<Program> = progs.iter().map(|p| Program::single(&p.to_capy())).collect();
    let outcomes = e2e::run_all(&sources, e2e::Limits::default());
    let reqs: Vec<String> = progs.iter().map(|p| format!("C02 copy {}", p.wire())).collect();
    let answers = lean::ask(&reqs);
    for ((p, o), model) in progs.iter().zip(outcomes.iter()).zip(answers.iter()) {
        let src = p.to_capy();
        let copies = p.ops.iter().filter(|o| matches!(o, Op::Def { .. })).count();
        rep.case(Some(format!("copy:{}", p.wire())));
        rep.hit(&format!("copies-in-program={}", copies.min(8)));
        let input = json!({"ops": p.wire(), "source": src});
        let want: Vec<String> = p.expected().iter().map(|x| x.to_string()).collect();
        if !o.built {
            rep.oracle_fail(
                "copy-program-not-built",
                input,
                json!(o.compile_out.lines().filter(|l| l.contains("error") || l.contains("panicked")).take(3).collect::<Vec<_>>()),
                json!("accepted"),
                "a generated copy program was rejected or crashed the compiler",
            );
            continue;
        }
        let got: Vec<String> = o.stdout().lines().map(|x| x.trim().to_string()).collect();
        let got_s = got.join(",");
        if model != "?" && *model != got_s {
            rep.disagree(input.clone(), json!(got_s), json!(model));
        }
        if o.run_status != Some(0) || got != want {
            // which copy form is involved in the first differing cell is not recoverable from the
            // output alone; label by the direction of the difference
            let label = if o.run_status != Some(0) { "copy-program-crashed" } else { "copy-not-independent" };
            rep.oracle_fail(label, input, json!({"status": o.run_summary(), "cells": got_s}), json!(want.join(",")), "a value read through one variable differs from what by-value copying prescribes: a write to another variable was visible through it (or was lost)");
        }
        rep.traces_validated += 1;
    }
}
