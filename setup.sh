#!/bin/sh
# Run once after a fresh restore, offline: builds the Lean project and the Rust harness
# (against /repo's working tree) from files on disk only.
set -e
cd "$(dirname "$0")"
OLDPWD_VERIF="$(pwd)"
export CARGO_NET_OFFLINE=true
export CARGO_TARGET_DIR="$(pwd)/.build/harness"
python3 tools/gen.py
(cd lean && lake build capyv CapyV)
(cd harness && cargo build --offline)
# the real CLI used by the end-to-end properties (same flags as ./check)
(cd /repo && CARGO_TARGET_DIR="$OLDPWD_VERIF/.build/capy" cargo build -p capy --offline --config profile.dev.package.hir_ty.debug-assertions=false --config profile.dev.package.codegen.debug-assertions=false --config profile.dev.opt-level=1 --config profile.dev.debug=1)
echo setup-ok
