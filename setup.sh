#!/bin/sh
# Run once after a fresh restore, offline: builds the Lean project and the Rust harness
# (against /repo's working tree) from files on disk only.
set -e
cd "$(dirname "$0")"
export CARGO_NET_OFFLINE=true
export CARGO_TARGET_DIR="$(pwd)/.build/harness"
python3 tools/gen.py
(cd lean && lake build capyv CapyV)
(cd harness && cargo build --offline)
echo setup-ok
