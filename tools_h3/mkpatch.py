#!/usr/bin/env python3
"""Regenerates the H3-hooked topo/src/lib.rs from the pristine one (argv[1] -> argv[2])."""
import sys
s = open(sys.argv[1]).read()

def ins_after(anchor, add):
    global s
    assert s.count(anchor) == 1, (anchor, s.count(anchor))
    s = s.replace(anchor, anchor + add)

def ins_before(anchor, add):
    global s
    assert s.count(anchor) == 1, (anchor, s.count(anchor))
    s = s.replace(anchor, add + anchor)

MODULE = '''/// Verification hook H3 (only with `--cfg capy_verif`): a thread-local log of the
/// operations performed on any `TopoSort` of this thread, so an external harness can
/// record the exact operation sequence a client issues and replay it elsewhere.
///
/// With the cfg off nothing in this crate changes.
///
/// Every logged method pushes ONE entry as its very first action (before it does
/// anything else), then runs its unchanged body.  Methods that call other logged
/// methods therefore produce nested entries *after* their own.  Exact sequences
/// (`X?` = only under the stated condition, `*` = repeated):
///
/// ```text
/// len               -> len
/// is_empty          -> is_empty
/// clear             -> clear
/// insert_dep(p,c)   -> insert_dep[p,c]
/// insert(i)         -> insert[i]
/// extend(is)        -> extend[is...]
/// remove(c)         -> remove[c]
/// peek_all          -> peek_all, is_empty             (always exactly one is_empty)
/// peek              -> peek, is_empty?                (is_empty iff no item has 0 open deps)
/// in_cycle          -> in_cycle, is_empty
/// peek_cyclic       -> peek_cyclic, in_cycle, is_empty
/// peek_all_cyclic   -> peek_all_cyclic, in_cycle, is_empty
/// pop_all_cyclic    -> pop_all_cyclic, in_cycle, is_empty
/// insert_deps(p,cs) -> insert_dep[p,c]*               (no own entry; one per child, in order)
/// pop               -> peek, is_empty?, remove[k]?    (no own entry; remove iff peek gave Ok(k))
/// pop_all           -> peek_all, is_empty, remove[k]* (no own entry; one remove per leaf, in order)
/// pop_cyclic        -> in_cycle, is_empty, remove[k]? (no own entry; remove iff in_cycle)
/// ```
///
/// `args` are per-`TopoSort`-instance ids: items are numbered 0,1,2,... in order of
/// first appearance as an argument of `insert_dep` (parent first, then child),
/// `insert`, `extend` or `remove` on that instance (a clone inherits the numbering of
/// its source).  `len_before` is `self.top.len()` at entry of the method.
#[cfg(capy_verif)]
pub mod verif {
    use std::cell::{Cell, RefCell};

    #[derive(Debug, Clone, PartialEq, Eq)]
    pub struct LoggedOp {
        pub op: &'static str,
        pub args: Vec<usize>,
        pub len_before: usize,
    }

    thread_local! {
        static LOG: RefCell<Option<Vec<LoggedOp>>> = const { RefCell::new(None) };
        static LIMIT: Cell<usize> = const { Cell::new(usize::MAX) };
    }

    /// Starts (or restarts, with an empty log) logging on this thread.
    pub fn start() {
        start_with_limit(usize::MAX);
    }

    /// Like `start`, but the operation that would push entry number `max_ops + 1` panics
    /// instead (before it touches the `TopoSort`).  This is a cooperative watchdog for a
    /// harness whose client may be stuck in a scheduling loop that never empties the
    /// `TopoSort`; the `max_ops` entries logged so far can still be `take`n.
    pub fn start_with_limit(max_ops: usize) {
        LIMIT.with(|l| l.set(max_ops));
        LOG.with(|l| *l.borrow_mut() = Some(Vec::new()));
    }

    /// Stops logging on this thread and returns what was logged (empty if not started).
    pub fn take() -> Vec<LoggedOp> {
        LOG.with(|l| l.borrow_mut().take()).unwrap_or_default()
    }

    /// No-op unless `start` was called on this thread.
    pub(crate) fn log(op: &'static str, args: Vec<usize>, len_before: usize) {
        LOG.with(|l| {
            if let Some(log) = l.borrow_mut().as_mut() {
                if log.len() >= LIMIT.with(|m| m.get()) {
                    panic!("capy_verif: topo op limit exceeded at `{op}`");
                }
                log.push(LoggedOp {
                    op,
                    args,
                    len_before,
                });
            }
        });
    }
}

'''
ins_before("#[derive(Debug)]\npub struct CycleErr;", MODULE)

ins_after("    top: IndexMap<T, Dependencies<T>>,\n", '''    /// numbers items by first appearance; only used for the verification log (hook H3)
    #[cfg(capy_verif)]
    ids: IndexSet<T>,
''')
ins_after("            top: IndexMap::default(),\n", '''            #[cfg(capy_verif)]
            ids: IndexSet::default(),
''')
ins_after("impl<T: Hash + Eq + Clone> TopoSort<T> {\n", '''    #[cfg(capy_verif)]
    fn verif_id(&mut self, item: &T) -> usize {
        self.ids.insert_full(item.clone()).0
    }

''')

def simple(sig, op):
    ins_after(sig, f'''        #[cfg(capy_verif)]
        verif::log("{op}", Vec::new(), self.top.len());
''')

simple("    pub fn len(&self) -> usize {\n", "len")
simple("    pub fn is_empty(&self) -> bool {\n", "is_empty")
ins_after("        let child = child.into();\n", '''        #[cfg(capy_verif)]
        {
            let args = vec![self.verif_id(&parent), self.verif_id(&child)];
            verif::log("insert_dep", args, self.top.len());
        }
''')
ins_after('''    pub fn insert<U>(&mut self, item: U) -> bool
    where
        U: Into<T>,
    {
''', '''        #[cfg(capy_verif)]
        let item: T = item.into();
        #[cfg(capy_verif)]
        {
            let args = vec![self.verif_id(&item)];
            verif::log("insert", args, self.top.len());
        }
''')
ins_after('''    pub fn extend<I, U>(&mut self, items: I)
    where
        I: IntoIterator<Item = U>,
        U: Into<T>,
    {
''', '''        #[cfg(capy_verif)]
        let items: Vec<T> = items.into_iter().map(Into::into).collect();
        #[cfg(capy_verif)]
        {
            let args = items.iter().map(|item| self.verif_id(item)).collect();
            verif::log("extend", args, self.top.len());
        }
''')
simple("    pub fn peek(&self) -> Option<Result<&T, CycleErr>> {\n", "peek")
simple("    pub fn peek_all(&self) -> Result<Vec<&T>, CycleErr> {\n", "peek_all")
simple("    pub fn in_cycle(&self) -> bool {\n", "in_cycle")
simple("    pub fn pop_all_cyclic(&mut self) -> Option<Vec<T>> {\n", "pop_all_cyclic")
simple("    pub fn peek_cyclic(&self) -> Option<&T> {\n", "peek_cyclic")
simple("    pub fn peek_all_cyclic(&self) -> Option<Vec<&T>> {\n", "peek_all_cyclic")
ins_after("    pub fn remove(&mut self, child: &T) -> bool {\n", '''        #[cfg(capy_verif)]
        {
            let args = vec![self.verif_id(child)];
            verif::log("remove", args, self.top.len());
        }
''')
simple("    pub fn clear(&mut self) {\n", "clear")
open(sys.argv[2], "w").write(s)
