import CapyV.Props.C25
