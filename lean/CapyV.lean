import CapyV.Props.C25
import CapyV.Props.C27
import CapyV.Props.C03
import CapyV.Props.C22
import CapyV.Props.C23
import CapyV.Props.C23Loops
import CapyV.Props.C26
