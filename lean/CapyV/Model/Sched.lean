import CapyV.Model.Topo
/-!
# Model of the round loop of `hir_ty::InferenceCtx::finish` (`/repo/crates/hir_ty/src/lib.rs`)

```
self.to_infer.extend(items);
if self.to_infer.is_empty() { return }
loop {
    let leaves = match self.to_infer.peek_all() {
        Ok(leaves) => leaves,
        Err(_) => { let mut cyclic = self.to_infer.peek_all_cyclic().unwrap(); cyclic.sort_by(..); cyclic }
    };
    assert!(!leaves.is_empty());
    for inferrable in leaves {
        match self.infer(inferrable) {
            Ok(_) => { self.to_infer.remove(&inferrable); }
            Err(deps) => { self.to_infer.insert_deps(inferrable, deps); }
        }
    }
    if self.to_infer.is_empty() { break }
}
```
`infer` (the type checker proper) is a parameter: a *script* gives, per round, the items in
the order they are processed and what `infer` answered for each. The custom `sort_by` of a
cyclic round only permutes the offered items, so the script's order must be a permutation
of the offered list (`List.isPerm`); nothing else about the order is modelled.
-/
namespace CapyV.Sched
open CapyV.Topo

/-- what `self.infer(item)` returned -/
inductive Decision where
  | complete                    -- `Ok(_)`
  | needs (deps : List Nat)     -- `Err(deps)`
  deriving DecidableEq, Repr

abbrev RoundScript := List (Nat × Decision)

/-- `leaves` of one loop iteration and whether it is a cycle-breaking round;
`none` = `peek_all_cyclic().unwrap()` on `None` (panic). -/
def roundLeaves (s : Topo) : Option (List Nat × Bool) :=
  match peekAll s with
  | .ok l => some (l, false)
  | .cycle =>
    match peekAllCyclic s with
    | none => none
    | some c => some (c, true)

/-- the mutating calls issued by the `for inferrable in leaves` loop -/
def roundOps : RoundScript → List Op
  | [] => []
  | (x, .complete) :: r => .remove x :: roundOps r
  | (x, .needs ds) :: r => .deps x ds :: roundOps r

inductive Result where
  | finished (rounds : Nat)        -- `to_infer` became empty: `break`
  | more (s : Topo)                -- script exhausted, the loop would go on from `s`
  | badScript (round : Nat)        -- script does not process exactly the offered items
  | panicUnwrap (round : Nat)      -- `peek_all_cyclic().unwrap()` on `None`
  | panicAssert (round : Nat)      -- `assert!(!leaves.is_empty())`
  | panicUnderflow (round : Nat)   -- `num_children -= 1` on zero inside `remove`
  deriving DecidableEq, Repr

def finishLoop (s : Topo) (n : Nat) : List RoundScript → Result
  | [] => .more s
  | r :: rs =>
    match roundLeaves s with
    | none => .panicUnwrap n
    | some (l, _) =>
      if l.isEmpty then .panicAssert n
      else if ¬ (r.map (·.1)).isPerm l then .badScript n
      else
        match run s (roundOps r) with
        | none => .panicUnderflow n
        | some s' => if s'.isEmpty then .finished (n + 1) else finishLoop s' (n + 1) rs

/-- `finish` restricted to its use of `to_infer` -/
def finish (items : List Nat) (script : List RoundScript) : Result :=
  let s := extend [] items
  if s.isEmpty then .finished 0 else finishLoop s 0 script

/-- what each round offered (for the driver / for statements about rounds) -/
def offers (s : Topo) : List RoundScript → List (List Nat × Bool)
  | [] => []
  | r :: rs =>
    match roundLeaves s with
    | none => []
    | some lc =>
      match run s (roundOps r) with
      | none => [lc]
      | some s' => lc :: (if s'.isEmpty then [] else offers s' rs)

end CapyV.Sched
