/-!
# Model of symbol mangling (C27)

Transcribed arm by arm from
* `crates/codegen/src/mangle.rs` (`create_mangled_for_*`, `create_mangled_for_file`,
  `add_part`, `mangle_internal`, `MangledPartKind::to_code`), and
* `crates/hir/src/common/names.rs` (`FileName::get_components`).

Strings are lists of UTF-8 **bytes** (`List Nat`): `str::len` is a byte length, and the
byte-level tests used by the code (`'.'`, `".capy"`, ASCII digit) are exact on UTF-8.

Abstracted (std behaviour, not code under test): `Path::components`, `is_sub_dir_of`,
`strip_prefix`.  A file is given as `FileD`: which base directory the path lies under
(`mod_dir` is tested first, then `env::current_dir()`, otherwise the code hits
`unreachable!()`), and the list of normal components of the path relative to that
directory.  The doc comment in mangle.rs says names start with `_C`; the code never
pushes such a prefix and neither does the model.
-/
namespace CapyV.Mangle

/-- `MangledPartKind` -/
inductive Kind where
  | module | fileOrFolder | name | genericId | lambda | comptime | internalData
  deriving DecidableEq, Repr

/-- `MangledPartKind::to_code` (ASCII of `M F N G L Z I`). -/
def Kind.code : Kind → Nat
  | .module => 77
  | .fileOrFolder => 70
  | .name => 78
  | .genericId => 71
  | .lambda => 76
  | .comptime => 90
  | .internalData => 73

/-- `char::to_ascii_lowercase` on a byte. -/
def toAsciiLower (b : Nat) : Nat := if 65 ≤ b ∧ b ≤ 90 then b + 32 else b

/-- `char::is_ascii_digit` -/
def isDigit (b : Nat) : Bool := decide (48 ≤ b) && decide (b ≤ 57)

/-- Decimal rendering (`usize::to_string`, `u32::to_string`), fuel-structured. -/
def natDigitsF : Nat → Nat → List Nat
  | 0, _ => []
  | f + 1, n => if n < 10 then [48 + n] else natDigitsF f (n / 10) ++ [48 + n % 10]

def natDigits (n : Nat) : List Nat := natDigitsF (n + 1) n

/-- `text.starts_with(|ch| ch.is_ascii_digit())` -/
def startsWithDigit : List Nat → Bool
  | [] => false
  | b :: _ => isDigit b

/-- `add_part`: what is appended to `mangled` for one part. -/
def addPart (k : Kind) (t : List Nat) : List Nat :=
  if startsWithDigit t then
    natDigits (t.length + 1) ++ [toAsciiLower k.code] ++ t
  else
    natDigits t.length ++ t

/-! ### `FileName::get_components` -/

inductive Root where
  /-- the path is under `mod_dir` (`is_mod`) -/
  | mod
  /-- not under `mod_dir`, under `env::current_dir()` -/
  | cwd
  /-- under neither: `unreachable!()` -/
  | outside
  deriving DecidableEq, Repr

structure FileD where
  root : Root
  /-- normal components of the path relative to the base directory, raw -/
  comps : List (List Nat)
  deriving DecidableEq, Repr

def DOT : Nat := 46
def DASH : Nat := 45
/-- `".capy"` -/
def dotCapy : List Nat := [46, 99, 97, 112, 121]
/-- `"src"` -/
def SRC : List Nat := [115, 114, 99]

def hasDot (c : List Nat) : Bool := c.any (· == DOT)

/-- `str::strip_suffix(".capy")` -/
def stripSuffixCapy (c : List Nat) : Option (List Nat) :=
  if 5 ≤ c.length ∧ c.drop (c.length - 5) = dotCapy then some (c.take (c.length - 5)) else none

/-- `str::replace('.', "-")` -/
def replaceDots (c : List Nat) : List Nat := c.map fun b => if b = DOT then DASH else b

/-- the closure mapped over the components in `get_components` -/
def xformComponent (c : List Nat) : List Nat :=
  if hasDot c then
    let res := match stripSuffixCapy c with
      | some r => r
      | none => c
    replaceDots res
  else c

/-- `FileNameComponents` -/
structure Components where
  modName : Option (List Nat)
  subParts : List (List Nat)
  deriving DecidableEq, Repr

/-- `FileName::get_components`; `none` = the `unreachable!()` arm. -/
def getComponents (f : FileD) : Option Components :=
  match f.root with
  | .outside => none
  | root =>
    let isMod := decide (root = .mod)
    -- `.nth(1)` of the *raw* relative components
    let hasSrc := decide (f.comps[1]? = some SRC)
    let components := f.comps.map xformComponent
    -- `let mod_name = if is_mod { components.next() } else { None };`
    let modName := if isMod then components.head? else none
    let components := if isMod then components.tail else components
    -- `if has_src { components.next(); }`
    let components := if hasSrc then components.tail else components
    some { modName := modName, subParts := components }

/-! ### `create_mangled_for_file` -/

abbrev Part := Kind × List Nat

def E : Nat := 69

def createMangledForFile (file : FileD) (finalParts : List Part) : Option (List Nat) :=
  match getComponents file with
  | none => none
  | some components =>
    -- letters first
    let m₀ := if components.modName.isSome then [Kind.module.code] else []
    let m₁ := m₀ ++ components.subParts.map (fun _ => Kind.fileOrFolder.code)
    let m₂ := m₁ ++ finalParts.map (fun p => p.1.code)
    -- now the actual parts
    let m₃ := m₂ ++ (match components.modName with
      | some modName => addPart .module modName
      | none => [])
    let m₄ := m₃ ++ components.subParts.flatMap (addPart .fileOrFolder)
    let m₅ := m₄ ++ finalParts.flatMap (fun p => addPart p.1 p.2)
    some (m₅ ++ [E])

/-! ### Entity descriptors and the `Mangle` impls -/

/-- `NaiveLoc`: a global by name, or a lambda by arena index.  `bound` is the result of
`get_naive_lambda_global` for this lambda (the thread-local `GLOBAL_LAMBDAS`): the name
of the global *of the same file* the lambda is directly bound to. -/
inductive Base where
  | global (name : List Nat)
  | lambda (idx : Nat) (bound : Option (List Nat))
  deriving DecidableEq, Repr

/-- what is mangled: a `ConcreteLoc`, a `ComptimeLoc`, or `(ComptimeLoc, &str)` -/
inductive Extra where
  | code
  | comptime (idx : Nat)
  | comptimeData (idx : Nat) (data : List Nat)
  deriving DecidableEq, Repr

structure Entity where
  file : FileD
  base : Base
  /-- `comptime_args().map(raw_start)` -/
  generic : Option Nat
  extra : Extra
  deriving DecidableEq, Repr

def mangledForNaiveGlobal (file : FileD) (name : List Nat) (finalParts : List Part) :=
  createMangledForFile file ((Kind.name, name) :: finalParts)

def mangledForNaiveLambda (file : FileD) (idx : Nat) (bound : Option (List Nat))
    (finalParts : List Part) :=
  match bound with
  | some global => mangledForNaiveGlobal file global finalParts
  | none => createMangledForFile file ((Kind.lambda, natDigits idx) :: finalParts)

def mangledForNaive (file : FileD) (base : Base) (finalParts : List Part) :=
  match base with
  | .global name => mangledForNaiveGlobal file name finalParts
  | .lambda idx bound => mangledForNaiveLambda file idx bound finalParts

def genericParts (generic : Option Nat) : List Part :=
  match generic with
  | some key => [(Kind.genericId, natDigits key)]
  | none => []

def mangledForConcrete (file : FileD) (base : Base) (generic : Option Nat)
    (finalParts : List Part) :=
  mangledForNaive file base (genericParts generic ++ finalParts)

/-- `to_mangled_name` of `ConcreteLoc` / `ComptimeLoc` / `(ComptimeLoc, &str)`;
`none` = panic. -/
def mangle (e : Entity) : Option (List Nat) :=
  match e.extra with
  | .code => mangledForConcrete e.file e.base e.generic []
  | .comptime idx =>
    mangledForConcrete e.file e.base e.generic [(Kind.comptime, natDigits idx)]
  | .comptimeData idx data =>
    mangledForConcrete e.file e.base e.generic
      [(Kind.comptime, natDigits idx), (Kind.internalData, data)]

/-- `mangle_internal`: `format!("_CI{}{}E", name.len(), name)` -/
def mangleInternal (name : List Nat) : List Nat :=
  [95, 67, 73] ++ natDigits name.length ++ name ++ [E]

/-- `"main"` -/
def MAIN : List Nat := [109, 97, 105, 110]

/-! ### Identity of entities and the well-formedness guard -/

/-- A lambda directly bound to a global *is* that global's function (the compiler's own
`Ord for NaiveLoc` identifies them): descriptors are compared after this resolution. -/
def Base.resolve : Base → Base
  | .lambda _ (some g) => .global g
  | b => b

def Entity.resolve (e : Entity) : Entity := { e with base := e.base.resolve }

/-- no `.` at all -/
def dotless (c : List Nat) : Bool := !hasDot c

/-- `stem.capy` with a dot-free stem -/
def isCapyFile (c : List Nat) : Bool :=
  match stripSuffixCapy c with
  | some stem => dotless stem
  | none => false

/-- directories dot-free, the last component a `.capy` file with a dot-free stem
(excludes the `dot-dash` and `capy-strip` collision classes) -/
def compsShapeOK : List (List Nat) → Bool
  | [] => false
  | [f] => isCapyFile f
  | d :: rest => dotless d && compsShapeOK rest

/-- the text looks like the digit escape of its own kind: lower-case code, then a digit
(excludes the `digit-escape` collision class) -/
def looksEscaped (k : Kind) : List Nat → Bool
  | c :: d :: _ => decide (c = toAsciiLower k.code) && isDigit d
  | _ => false

def fileWF (f : FileD) : Bool :=
  match f.root with
  | .outside => false
  | .cwd =>
    compsShapeOK f.comps
      -- the `src` skip does not fire (excludes the `src-skip` class)
      && !decide (f.comps[1]? = some SRC)
      && f.comps.all (fun c => !looksEscaped .fileOrFolder (xformComponent c))
  | .mod =>
    compsShapeOK f.comps
      -- module sources live under `<mod>/src/` (ditto)
      && decide (f.comps[1]? = some SRC)
      && (match f.comps with
          | m :: _ :: rest =>
            !looksEscaped .module (xformComponent m)
              && rest.all (fun c => !looksEscaped .fileOrFolder (xformComponent c))
          | _ => false)

/-- identifiers and data names never start with a digit -/
def nameOK (t : List Nat) : Bool := !startsWithDigit t

def Base.namesOK : Base → Bool
  | .global n => nameOK n
  | .lambda _ _ => true

def Extra.namesOK : Extra → Bool
  | .comptimeData _ d => nameOK d
  | _ => true

/-- names of the (resolved) descriptor are identifier-like -/
def Entity.namesOK (e : Entity) : Bool := e.base.resolve.namesOK && e.extra.namesOK

/-- The decidable guard of `mangle_injective_partial`. -/
def WF (e : Entity) : Bool := fileWF e.file && e.namesOK

def Base.isGlobal : Base → Bool
  | .global _ => true
  | .lambda _ _ => false

def Extra.tag : Extra → Nat
  | .code => 0
  | .comptime _ => 1
  | .comptimeData _ _ => 2

/-- The entity's kind as far as the symbol shape is concerned: global or lambda (after
resolution), generic instance or not, code / comptime block / comptime data. -/
def Entity.shape (e : Entity) : Bool × Bool × Nat :=
  (e.base.resolve.isGlobal, e.generic.isSome, e.extra.tag)

end CapyV.Mangle
