/-
C01 — `==` / `!=` on aggregates (arrays, slices, structs, optionals, error unions, enums).

The compiler compares aggregates member by member (`compile_array_compare`,
`compile_complex_compare`); the meaning is structural equality of the values. `V` is the value
tree, `veq` the comparison the generated programs are checked against.
-/
namespace CapyV.AggEq

inductive V where
  | int (z : Int)
  | nil
  /-- `some v` of an optional / the payload of an error union or enum variant `k` -/
  | tag (k : Nat) (v : V)
  /-- struct fields / array items, in order -/
  | agg (vs : List V)
  deriving Repr

mutual
def veq : V → V → Bool
  | .int a, .int b => a == b
  | .nil, .nil => true
  | .tag k v, .tag l w => k == l && veq v w
  | .agg vs, .agg ws => veqs vs ws
  | _, _ => false
def veqs : List V → List V → Bool
  | [], [] => true
  | v :: vs, w :: ws => veq v w && veqs vs ws
  | _, _ => false
end

end CapyV.AggEq
