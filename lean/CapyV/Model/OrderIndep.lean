/-
C20 — an abstract model of how `InferenceCtx::finish` computes the result of every global:
items are offered by the scheduler (C26: exactly the pending items whose *registered*
dependencies have all completed; an item with nothing registered is offered at once), `infer`
either completes an item from the results of the items it refers to, or asks for the ones that
are not finished yet, which are then registered (and become pending themselves).

`Sys.deps x` = the globals `x`'s body refers to; `Sys.f x rs` = `x`'s inferred result given the
results `rs` of those globals (in `deps` order). The real `infer` (5 500 lines) is not
modelled; that it has this shape — a function of the item and of the results it reads — is what
the end-to-end permutation runs of the harness test.
-/
namespace CapyV.OrderIndep

structure Sys (R : Type) where
  deps : Nat → List Nat
  f : Nat → List R → R

structure St (R : Type) where
  /-- completed items with their results, newest first -/
  done : List (Nat × R)
  /-- pending items in registration order -/
  pending : List Nat
  /-- dependencies registered by a pending item when it was last processed -/
  waits : List (Nat × List Nat)

def lookupR {R} (x : Nat) : List (Nat × R) → Option R
  | [] => none
  | (y, r) :: rest => if x = y then some r else lookupR x rest

def isDone {R} (st : St R) (x : Nat) : Bool := (lookupR x st.done).isSome

def waitsOf {R} (st : St R) (x : Nat) : List Nat :=
  match st.waits.find? (fun p => p.1 == x) with
  | some p => p.2
  | none => []

/-- `self.infer(x)`: complete from the results of the items referred to, or report the missing ones -/
def inferAbs {R} (sys : Sys R) (st : St R) (x : Nat) : R ⊕ List Nat :=
  let missing := (sys.deps x).filter fun d => !isDone st d
  if missing.isEmpty then .inl (sys.f x ((sys.deps x).filterMap fun d => lookupR d st.done))
  else .inr missing

/-- one iteration of `for inferrable in leaves` -/
def processLeaf {R} (sys : Sys R) (st : St R) (x : Nat) : St R :=
  match inferAbs sys st x with
  | .inl r =>
    { done := (x, r) :: st.done,
      pending := st.pending.filter (· != x),
      waits := st.waits.filter (fun p => p.1 != x) }
  | .inr ds =>
    let newItems := ds.filter fun d => !(st.pending.contains d) && !isDone st d
    { done := st.done,
      pending := st.pending ++ newItems.eraseDups,
      waits := (x, ds) :: st.waits.filter (fun p => p.1 != x) }

/-- the leaves of a round are computed once, before the `for` loop -/
def leaves {R} (st : St R) : List Nat :=
  st.pending.filter fun x => (waitsOf st x).all (isDone st)

def round {R} (sys : Sys R) (st : St R) : St R :=
  (leaves st).foldl (processLeaf sys) st

def rounds {R} (sys : Sys R) : Nat → St R → St R
  | 0, st => st
  | n + 1, st => rounds sys n (round sys st)

/-- `self.to_infer.extend(items)`: the order in which the globals were indexed -/
def init {R} (seeds : List Nat) : St R := { done := [], pending := seeds.eraseDups, waits := [] }

/-- reachability in the reference graph -/
inductive Reach {R} (sys : Sys R) (seeds : List Nat) : Nat → Prop where
  | seed {x} : x ∈ seeds → Reach sys seeds x
  | step {x d} : Reach sys seeds x → d ∈ sys.deps x → Reach sys seeds d

end CapyV.OrderIndep
