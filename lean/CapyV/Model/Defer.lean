/-
C03 — model of how `crates/codegen/src/compiler/functions.rs` compiles `defer`
(as of the `fix:` commit that gives loops a defer frame and lets jumps run exactly the
defers registered so far).

* `Stmt` is the source fragment ("DeferLang"): events, `defer { body }` (the deferred
  expression is an arbitrary block: events, nested blocks and loops with their own labels,
  `if`, nested `defer`s, jumps), nested blocks (optionally labelled), loops, `if`,
  `break`/`return` (`brk`), `continue` (`cont`) and `.try` propagation (`tryS`, a conditional
  `brk`). Every runtime condition is a *decision* drawn from an oracle, so one semantics
  covers every path.
* `loopC l cond body` is `l: while { cond; <decision> } { body }`, a loop whose condition is a
  block with statements (and jumps) of its own; `loop l body` is the special case of a
  condition without statements. `Expr::While` pushes the loop's frame BEFORE the condition is
  compiled (fix 2c2d7e7; before it the frame was pushed only after the condition, so a
  `break l` in the condition found no frame `l` and unwound the whole function).
* `compileStmts` mirrors `compile_stmt` / `Expr::Block` / `Expr::While` / `break_to_label` /
  `run_defers_up_to`: a *static* `defer_stack` of frames `(id?, deferred bodies)`;
  `Stmt::Defer` pushes the deferred expression onto the top frame at compile time and
  compiles nothing; the deferred expression is compiled — `compile_expr(defer)` — at EVERY
  emission site, under the defer stack that is current at that site:
    - a block pops its frame and then compiles the popped frame's defers (newest first) in
      its exit block, which is reached only by running off the end (`!no_eval`);
    - a jump (`run_defers_up_to`) walks the stack from the top down to and including the
      frame whose id is the target: it compiles the frame's defers (newest first) WHILE THE
      FRAME IS STILL ON THE STACK, then pops it (the popped frames are pushed back at the
      end), so the defers of a lower frame are compiled under the stack that ends at that
      frame.
  Compiling a deferred block pushes a frame of its own, so a `defer` nested in it registers
  onto that new frame, and jumps inside it re-enter `run_defers_up_to`.
* The recursion "compile a body taken from the stack" is not structural (in the real
  compiler it does not terminate for a deferred body that jumps to a label outside itself:
  the frame being unwound is still on the stack; HIR rejects such programs). `compileStmt`
  therefore takes the function `emit` that compiles a deferred body and `compileDeferred n`
  ties the knot with `n` = the number of nested re-entries allowed; `none` = the compiler
  panics (`expect`) or overflows its stack.
* `T` is the shape of the generated control flow; `execT` its obvious semantics.
-/
namespace CapyV.Defer

mutual
inductive Stmt where
  | print (c : Nat)
  /-- `defer { body }` -/
  | defer (body : Stmts)
  | block (label : Option Nat) (body : Stmts)
  | loop (label : Nat) (body : Stmts)
  /-- `label: while { cond; <decision> } { body }`: the condition is a block whose tail
  expression is the decision -/
  | loopC (label : Nat) (cond : Stmts) (body : Stmts)
  | ifS (body : Stmts)
  | brk (label : Nat)
  | cont (label : Nat)
  | tryS (label : Nat)
inductive Stmts where
  | nil
  | cons (s : Stmt) (rest : Stmts)
end

deriving instance DecidableEq for Stmt, Stmts
deriving instance Repr for Stmt, Stmts

/-- the defer of the atomic model: `defer print(c)` -/
def Stmt.deferP (c : Nat) : Stmt := .defer (.cons (.print c) .nil)

-- target: generated control flow, defers already placed
mutual
inductive T where
  | emit (c : Nat)
  /-- `exitCode`: the defers compiled in the block's exit block (fall-through only) -/
  | block (label : Option Nat) (body : Ts) (exitCode : Ts)
  | loop (label : Nat) (body : Ts) (exitCode : Ts)
  /-- a loop whose condition is a block: the condition's statements, the decision (the block's
  tail expression), `condExit` (the condition block's exit block: its defers), the branch, the
  body block -/
  | loopC (label : Nat) (cond : Ts) (condExit : Ts) (body : Ts) (exitCode : Ts)
  | ifT (body : Ts) (exitCode : Ts)
  /-- defers compiled inline, then the jump -/
  | jump (isCont : Bool) (label : Nat) (code : Ts)
  /-- `.try`: on the failing decision, inline defers then break -/
  | tryT (label : Nat) (code : Ts)
inductive Ts where
  | nil
  | cons (t : T) (rest : Ts)
end

deriving instance DecidableEq for T, Ts
deriving instance Repr for T, Ts

/-- one `DeferFrame`: `id` and the deferred expressions registered so far, newest first -/
abbrev Frame := Option Nat × List Stmts

/-- how `compile_expr(defer)` compiles a deferred body under a defer stack -/
abbrev Emit := Stmts → List Frame → Option Ts

def Ts.append : Ts → Ts → Ts
  | .nil, b => b
  | .cons t r, b => .cons t (Ts.append r b)

/-- `for defer in frame.defers.iter().rev() { self.compile_expr(*defer) }` under stack `fr` -/
def emitDefers (emit : Emit) : List Stmts → List Frame → Option Ts
  | [], _ => some .nil
  | b :: ds, fr =>
    match emit b fr with
    | none => none
    | some t =>
      match emitDefers emit ds fr with
      | none => none
      | some r => some (Ts.append t r)

/-- `run_defers_up_to(label)`: for every frame from the top down to and including the first
frame whose id is `label` (all frames if there is none): compile its defers, newest first,
with the frame still on the stack (the frames above it have been popped), then pop it. -/
def defersUpTo (emit : Emit) (l : Nat) : List Frame → Option Ts
  | [] => some .nil
  | (id, ds) :: rest =>
    match emitDefers emit ds ((id, ds) :: rest) with
    | none => none
    | some t =>
      if id = some l then some t else
      match defersUpTo emit l rest with
      | none => none
      | some r => some (Ts.append t r)

/-- `Stmt::Defer`: push onto the top frame (`expect("block didn't add to defer stack")`). -/
def registerDefer (b : Stmts) : List Frame → Option (List Frame)
  | [] => none
  | (id, ds) :: rest => some ((id, b :: ds) :: rest)

/-- the end of `Expr::Block`: `defer_stack.pop().expect("we just pushed this")`, then — only if
the end of the block is reachable (`!no_eval`) — the exit block compiles the popped frame's
defers under the remaining stack. Returns body code and exit code. -/
def closeBlock (emit : Emit) : Option (Ts × List Frame × Bool) → Option (Ts × Ts)
  | none => none
  | some (_, [], _) => none
  | some (tb, (_, ds) :: below, noEval) =>
    if noEval then some (tb, .nil) else
    match emitDefers emit ds below with
    | none => none
    | some ex => some (tb, ex)

mutual
/-- compile one statement under the static defer stack; returns the generated code, the new
stack and whether compilation of the enclosing statement list stops here (`no_eval`).
`none` = the compiler would panic / not terminate. -/
def compileStmt (emit : Emit) : Stmt → List Frame → Option (Ts × List Frame × Bool)
  | .print c, fr => some (.cons (.emit c) .nil, fr, false)
  | .defer b, fr => (registerDefer b fr).map fun fr' => (.nil, fr', false)
  | .block label body, fr =>
    match closeBlock emit (compileStmts emit body ((label, []) :: fr)) with
    | none => none
    | some (tb, ex) => some (.cons (.block label tb ex) .nil, fr, false)
  | .loop label body, fr =>
    -- the loop's own frame, then the body block (scope id `none`)
    match closeBlock emit (compileStmts emit body ((none, []) :: (some label, []) :: fr)) with
    | none => none
    | some (tb, ex) => some (.cons (.loop label tb ex) .nil, fr, false)
  | .loopC label cond body, fr =>
    -- `Expr::While`: the loop's own frame is pushed BEFORE the condition is compiled and popped
    -- after the body; the condition is an ordinary `Expr::Block` (scope id `none`), so is the body
    match closeBlock emit (compileStmts emit cond ((none, []) :: (some label, []) :: fr)) with
    | none => none
    | some (tc, exc) =>
      match closeBlock emit (compileStmts emit body ((none, []) :: (some label, []) :: fr)) with
      | none => none
      | some (tb, ex) => some (.cons (.loopC label tc exc tb ex) .nil, fr, false)
  | .ifS body, fr =>
    match closeBlock emit (compileStmts emit body ((none, []) :: fr)) with
    | none => none
    | some (tb, ex) => some (.cons (.ifT tb ex) .nil, fr, false)
  | .brk l, fr => (defersUpTo emit l fr).map fun code => (.cons (.jump false l code) .nil, fr, true)
  | .cont l, fr => (defersUpTo emit l fr).map fun code => (.cons (.jump true l code) .nil, fr, true)
  | .tryS l, fr => (defersUpTo emit l fr).map fun code => (.cons (.tryT l code) .nil, fr, false)
/-- the `for stmt in stmts` loop of `Expr::Block`: stops after a `break`/`continue`
(third component = `no_eval`) -/
def compileStmts (emit : Emit) : Stmts → List Frame → Option (Ts × List Frame × Bool)
  | .nil, fr => some (.nil, fr, false)
  | .cons s rest, fr =>
    match compileStmt emit s fr with
    | none => none
    | some (ts, fr', stop) =>
      if stop then some (ts, fr', true) else
      match compileStmts emit rest fr' with
      | none => none
      | some (tr, fr'', stop') => some (Ts.append ts tr, fr'', stop')
end

/-- `compile_expr(defer)` for `defer { body }`: an `Expr::Block` without scope id, compiled
under the stack of the emission site; inside it deferred bodies are compiled by
`compileDeferred n`. `compileDeferred 0` = the re-entry budget is exhausted. -/
def compileDeferred : Nat → Emit
  | 0, _, _ => none
  | n + 1, b, fr =>
    match closeBlock (compileDeferred n) (compileStmts (compileDeferred n) b ((none, []) :: fr)) with
    | none => none
    | some (tb, ex) => some (.cons (.block none tb ex) .nil)

mutual
/-- how deeply `defer`s are nested inside a statement -/
def deferDepthStmt : Stmt → Nat
  | .print _ => 0
  | .defer b => deferDepth b + 1
  | .block _ body => deferDepth body
  | .loop _ body => deferDepth body
  | .loopC _ cond body => max (deferDepth cond) (deferDepth body)
  | .ifS body => deferDepth body
  | .brk _ => 0
  | .cont _ => 0
  | .tryS _ => 0
def deferDepth : Stmts → Nat
  | .nil => 0
  | .cons s rest => max (deferDepthStmt s) (deferDepth rest)
end

/-- a function body: the outermost block, labelled `0` (the target of `return`). A deferred
body is compiled while compiling at most `deferDepth body` enclosing deferred bodies (for
programs whose deferred bodies do not jump out of themselves, `compile_total`). -/
def compileProgram (body : Stmts) : Option T :=
  let emit := compileDeferred (deferDepth body)
  match closeBlock emit (compileStmts emit body [(some 0, [])]) with
  | none => none
  | some (tb, ex) => some (.block (some 0) tb ex)

/-! ### run-time -/

structure St where
  /-- events printed so far, newest first -/
  trace : List Nat
  /-- remaining decisions -/
  oracle : List Bool
  deriving DecidableEq, Repr

def St.emit (st : St) (c : Nat) : St := { st with trace := c :: st.trace }
def St.emits (st : St) (cs : List Nat) : St := cs.foldl St.emit st
/-- next decision; an exhausted oracle answers `false` -/
def St.decide (st : St) : Bool × St :=
  match st.oracle with
  | [] => (false, st)
  | b :: r => (b, { st with oracle := r })

inductive Sig where
  | normal
  | brk (l : Nat)
  | cont (l : Nat)
  deriving DecidableEq, Repr

/-- Generic loop: `step` runs the condition and one iteration and says whether to go on.
`fuel` bounds the iterations of one loop execution (both semantics share it). -/
def iter (step : St → Option Sig × St) : Nat → St → Sig × St
  | 0, st => (.normal, st)
  | n + 1, st =>
    match step st with
    | (none, st') => iter step n st'          -- next iteration
    | (some sig, st') => (sig, st')           -- loop is left with `sig`

/-- a block's merge block is the target of `break label` -/
def catchBrk (label : Option Nat) : Sig × St → Sig × St
  | (.brk l, st) => if label = some l then (.normal, st) else (.brk l, st)
  | r => r

/-- what a loop does with the outcome of one iteration -/
def loopNext (label : Nat) : Sig × St → Option Sig × St
  | (.normal, st) => (none, st)
  | (.brk l, st) => if l = label then (some .normal, st) else (some (.brk l), st)
  | (.cont l, st) => if l = label then (none, st) else (some (.cont l), st)

mutual
def execT (fuel : Nat) : T → St → Sig × St
  | .emit c, st => (.normal, st.emit c)
  | .block label body exitCode, st =>
    match execTs fuel body st with
    | (.normal, st') => catchBrk label (execTs fuel exitCode st')
    | r => catchBrk label r
  | .ifT body exitCode, st =>
    match st.decide with
    | (false, st1) => (.normal, st1)
    | (true, st1) =>
      match execTs fuel body st1 with
      | (.normal, st') => execTs fuel exitCode st'
      | r => r
  | .loop label body exitCode, st =>
    iter (fun st =>
      match st.decide with
      | (false, st1) => (some .normal, st1)
      | (true, st1) =>
        match execTs fuel body st1 with
        | (.normal, st') => loopNext label (execTs fuel exitCode st')
        | r => loopNext label r) fuel st
  | .loopC label cond condExit body exitCode, st =>
    iter (fun st =>
      -- header: the condition block's statements; a jump in them leaves the block (its defers
      -- were compiled inline at the jump) and is handled like a jump in the body
      match execTs fuel cond st with
      | (.normal, st0) =>
        -- the tail expression (the decision) is evaluated, THEN the exit block runs the defers
        match st0.decide with
        | (d, st1) =>
          match execTs fuel condExit st1 with
          | (.normal, st2) =>
            if d then
              match execTs fuel body st2 with
              | (.normal, st') => loopNext label (execTs fuel exitCode st')
              | r => loopNext label r
            else (some .normal, st2)
          | r => loopNext label r
      | r => loopNext label r) fuel st
  | .jump isCont l code, st =>
    match execTs fuel code st with
    | (.normal, st') => (if isCont then .cont l else .brk l, st')
    | r => r
  | .tryT l code, st =>
    match st.decide with
    | (false, st1) => (.normal, st1)
    | (true, st1) =>
      match execTs fuel code st1 with
      | (.normal, st') => (.brk l, st')
      | r => r
def execTs (fuel : Nat) : Ts → St → Sig × St
  | .nil, st => (.normal, st)
  | .cons t rest, st =>
    match execT fuel t st with
    | (.normal, st') => execTs fuel rest st'
    | (sig, st') => (sig, st')
end

/-- what the compiled function prints for a given decision sequence -/
def runCompiled (fuel : Nat) (body : Stmts) (oracle : List Bool) : Option (List Nat) :=
  (compileProgram body).map fun t => (execT fuel t { trace := [], oracle }).2.trace.reverse

end CapyV.Defer
