/-
C03 — model of how `crates/codegen/src/compiler/functions.rs` compiles `defer`
(as of the `fix:` commit that gives loops a defer frame and lets jumps run exactly the
defers registered so far).

* `Stmt` is the source fragment ("DeferLang"): events, `defer`, nested blocks (optionally
  labelled), loops, `if`, `break`/`return` (`brk`), `continue` (`cont`) and `.try`
  propagation (`tryS`, a conditional `brk`). Every runtime condition is a *decision* drawn
  from an oracle, so one semantics covers every path.
* `compileStmts` mirrors `compile_stmt` / `Expr::Block` / `Expr::While` / `break_to_label` /
  `run_defers_up_to`: a *static* `defer_stack` of frames `(id?, defers)`; `defer` pushes
  onto the top frame at compile time; a block emits its frame's defers in its exit block
  (reached only by running off the end); a jump emits, inline, the defers of every frame
  from the top down to and including the target's frame and then jumps past the exit code.
* `T` is the shape of the generated control flow; `execT` its obvious semantics.
-/
namespace CapyV.Defer

mutual
inductive Stmt where
  | print (c : Nat)
  | defer (c : Nat)
  | block (label : Option Nat) (body : Stmts)
  | loop (label : Nat) (body : Stmts)
  | ifS (body : Stmts)
  | brk (label : Nat)
  | cont (label : Nat)
  | tryS (label : Nat)
inductive Stmts where
  | nil
  | cons (s : Stmt) (rest : Stmts)
end

deriving instance DecidableEq for Stmt, Stmts
deriving instance Repr for Stmt, Stmts

-- target: generated control flow, defers already placed
mutual
inductive T where
  | emit (c : Nat)
  /-- `exitCode`: the defers run in the block's exit block (fall-through only) -/
  | block (label : Option Nat) (body : Ts) (exitCode : List Nat)
  | loop (label : Nat) (body : Ts) (exitCode : List Nat)
  | ifT (body : Ts) (exitCode : List Nat)
  /-- defers emitted inline, then the jump -/
  | jump (isCont : Bool) (label : Nat) (code : List Nat)
  /-- `.try`: on the failing decision, inline defers then break -/
  | tryT (label : Nat) (code : List Nat)
inductive Ts where
  | nil
  | cons (t : T) (rest : Ts)
end

deriving instance DecidableEq for T, Ts
deriving instance Repr for T, Ts

/-- one `DeferFrame`: `id` and the defers registered so far, newest first -/
abbrev Frame := Option Nat × List Nat

/-- `run_defers_up_to(label)`: the defers of every frame from the top down to and including
the first frame whose id is `label` (all frames if there is none), each frame newest first. -/
def defersUpTo (l : Nat) : List Frame → List Nat
  | [] => []
  | (id, ds) :: rest => if id = some l then ds else ds ++ defersUpTo l rest

/-- `Stmt::Defer`: push onto the top frame (`expect("block didn't add to defer stack")`). -/
def registerDefer (c : Nat) : List Frame → Option (List Frame)
  | [] => none
  | (id, ds) :: rest => some ((id, c :: ds) :: rest)

def topDefers : List Frame → List Nat
  | [] => []
  | (_, ds) :: _ => ds

def Ts.append : Ts → Ts → Ts
  | .nil, b => b
  | .cons t r, b => .cons t (Ts.append r b)

mutual
/-- compile one statement under the static defer stack; returns the generated code, the new
stack and whether compilation of the enclosing statement list stops here (`no_eval`).
`none` = the compiler would panic. -/
def compileStmt : Stmt → List Frame → Option (Ts × List Frame × Bool)
  | .print c, fr => some (.cons (.emit c) .nil, fr, false)
  | .defer c, fr => (registerDefer c fr).map fun fr' => (.nil, fr', false)
  | .block label body, fr =>
    match compileStmts body ((label, []) :: fr) with
    | none => none
    | some (tb, fr') => some (.cons (.block label tb (topDefers fr')) .nil, fr, false)
  | .loop label body, fr =>
    -- the loop's own frame, then the body block (scope id `none`)
    match compileStmts body ((none, []) :: (some label, []) :: fr) with
    | none => none
    | some (tb, fr') => some (.cons (.loop label tb (topDefers fr')) .nil, fr, false)
  | .ifS body, fr =>
    match compileStmts body ((none, []) :: fr) with
    | none => none
    | some (tb, fr') => some (.cons (.ifT tb (topDefers fr')) .nil, fr, false)
  | .brk l, fr => some (.cons (.jump false l (defersUpTo l fr)) .nil, fr, true)
  | .cont l, fr => some (.cons (.jump true l (defersUpTo l fr)) .nil, fr, true)
  | .tryS l, fr => some (.cons (.tryT l (defersUpTo l fr)) .nil, fr, false)
/-- the `for stmt in stmts` loop of `Expr::Block`: stops after a `break`/`continue` -/
def compileStmts : Stmts → List Frame → Option (Ts × List Frame)
  | .nil, fr => some (.nil, fr)
  | .cons s rest, fr =>
    match compileStmt s fr with
    | none => none
    | some (ts, fr', stop) =>
      if stop then some (ts, fr') else
      match compileStmts rest fr' with
      | none => none
      | some (tr, fr'') => some (Ts.append ts tr, fr'')
end

/-- a function body: the outermost block, labelled `0` (the target of `return`) -/
def compileProgram (body : Stmts) : Option T :=
  match compileStmts body [(some 0, [])] with
  | none => none
  | some (tb, fr') => some (.block (some 0) tb (topDefers fr'))

/-! ### run-time -/

structure St where
  /-- events printed so far, newest first -/
  trace : List Nat
  /-- remaining decisions -/
  oracle : List Bool
  deriving DecidableEq, Repr

def St.emit (st : St) (c : Nat) : St := { st with trace := c :: st.trace }
def St.emits (st : St) (cs : List Nat) : St := cs.foldl St.emit st
/-- next decision; an exhausted oracle answers `false` -/
def St.decide (st : St) : Bool × St :=
  match st.oracle with
  | [] => (false, st)
  | b :: r => (b, { st with oracle := r })

inductive Sig where
  | normal
  | brk (l : Nat)
  | cont (l : Nat)
  deriving DecidableEq, Repr

/-- Generic loop: `step` runs the condition and one iteration and says whether to go on.
`fuel` bounds the iterations of one loop execution (both semantics share it). -/
def iter (step : St → Option Sig × St) : Nat → St → Sig × St
  | 0, st => (.normal, st)
  | n + 1, st =>
    match step st with
    | (none, st') => iter step n st'          -- next iteration
    | (some sig, st') => (sig, st')           -- loop is left with `sig`

mutual
def execT (fuel : Nat) : T → St → Sig × St
  | .emit c, st => (.normal, st.emit c)
  | .block label body exitCode, st =>
    match execTs fuel body st with
    | (.normal, st') => (.normal, st'.emits exitCode)
    | (.brk l, st') => if label = some l then (.normal, st') else (.brk l, st')
    | (.cont l, st') => (.cont l, st')
  | .ifT body exitCode, st =>
    match st.decide with
    | (false, st1) => (.normal, st1)
    | (true, st1) =>
      match execTs fuel body st1 with
      | (.normal, st') => (.normal, st'.emits exitCode)
      | (sig, st') => (sig, st')
  | .loop label body exitCode, st =>
    iter (fun st =>
      match st.decide with
      | (false, st1) => (some .normal, st1)
      | (true, st1) =>
        match execTs fuel body st1 with
        | (.normal, st') => (none, st'.emits exitCode)
        | (.brk l, st') => if l = label then (some .normal, st') else (some (.brk l), st')
        | (.cont l, st') => if l = label then (none, st') else (some (.cont l), st')) fuel st
  | .jump isCont l code, st => (if isCont then .cont l else .brk l, st.emits code)
  | .tryT l code, st =>
    match st.decide with
    | (false, st1) => (.normal, st1)
    | (true, st1) => (.brk l, st1.emits code)
def execTs (fuel : Nat) : Ts → St → Sig × St
  | .nil, st => (.normal, st)
  | .cons t rest, st =>
    match execT fuel t st with
    | (.normal, st') => execTs fuel rest st'
    | (sig, st') => (sig, st')
end

/-- what the compiled function prints for a given decision sequence -/
def runCompiled (fuel : Nat) (body : Stmts) (oracle : List Bool) : Option (List Nat) :=
  (compileProgram body).map fun t => (execT fuel t { trace := [], oracle }).2.trace.reverse

end CapyV.Defer
