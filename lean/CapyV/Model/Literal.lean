import CapyV.Generated.Escapes
import CapyV.Generated.IntLimits
/-!
# C09 — literals: model of the lowering, of the range check and of the defaulting path

Transcribed (arm by arm, same order) from
* `Ctx::lower_int_literal`, `lower_string_literal`, `lower_char_literal`
  (crates/hir/src/body.rs) — over the token text (`List Char`) / the component list,
* `u64::from_str_radix` / `str::parse::<u64|u32>` (std `from_str_radix`: sign handling, digit
  loop with `checked_mul` + `checked_add`),
* the `IntTooBigForType` check of `replace_weak_tys` / `expect_match`
  (crates/hir_ty/src/globals.rs) over the generated `get_max_int_size` table,
* the literal arms of `reinfer_expr`, the global defaulting of `finish_body`, and
  `finalize_int` + the `IntLiteral` arm of `compile_expr_with_args` (`iconst ty (n as i64)`).

Where Rust would panic (`strip_prefix(..).unwrap()`) the model returns `.panic`.
Code points are `Nat`s in the string/char part (no `Char` validity side conditions).
-/
namespace CapyV.Literal
open CapyV.Generated

def U64 : Nat := 18446744073709551616
def U32 : Nat := 4294967296

/-! ## integer literals -/

inductive Kind where
  | dec | hex | bin
  deriving DecidableEq, Repr

inductive Lowered where
  | ok (n : Nat)
  | outOfRange        -- `OutOfRangeIntLiteral` diagnostic, `Expr::Missing`
  | panic             -- an `unwrap()` of the lowering would fail
  deriving DecidableEq, Repr

/-- `char::to_digit(radix)` for radix ≤ 36 -/
def toDigit (radix : Nat) (c : Char) : Option Nat :=
  let n := c.toNat
  let d : Option Nat :=
    if 48 ≤ n ∧ n ≤ 57 then some (n - 48)
    else if 97 ≤ n ∧ n ≤ 122 then some (n - 97 + 10)
    else if 65 ≤ n ∧ n ≤ 90 then some (n - 65 + 10)
    else none
  match d with
  | some d => if d < radix then some d else none
  | none => none

/-- digit loop of `from_str_radix`: `result.checked_mul(radix)?.checked_add(digit)?`;
`bound` = 2^bits of the target type. `none` = `Err(InvalidDigit | PosOverflow)` -/
def parseDigits (radix bound : Nat) : Nat → List Char → Option Nat
  | acc, [] => some acc
  | acc, c :: cs =>
    match toDigit radix c with
    | none => none
    | some d =>
      let m := acc * radix
      if m < bound then
        let a := m + d
        if a < bound then parseDigits radix bound a cs else none
      else none

/-- `<unsigned>::from_str_radix`: empty → Err; a lone sign → Err; a leading `+` is skipped;
(`-` is not a sign for unsigned types: it reaches the digit loop and is an invalid digit) -/
def fromStrRadix (radix bound : Nat) (s : List Char) : Option Nat :=
  match s with
  | [] => none
  | c :: rest =>
    if (c = '+' ∨ c = '-') ∧ rest = [] then none
    else if c = '+' then parseDigits radix bound 0 rest
    else parseDigits radix bound 0 s

/-- `10_u64.checked_pow(e)` (std contract: `Some(10^e)` iff it is below 2^64, i.e. iff e ≤ 19;
`checkedPow10_contract` in Proofs/Literal.lean). Written with the bound on `e` so that the driver
never computes a gigantic power. -/
def checkedPow10 (e : Nat) : Option Nat :=
  if e ≤ 19 then some (10 ^ e) else none

def checkedMul (a b : Nat) : Option Nat :=
  if a * b < U64 then some (a * b) else none

def isE (c : Char) : Bool := c = 'e' || c = 'E'

/-- the piece up to the next `e`/`E` -/
def untilE : List Char → List Char
  | [] => []
  | c :: cs => if isE c then [] else c :: untilE cs

/-- first two items of `value.split(['e', 'E'])` (the code never looks at a third one) -/
def splitE : List Char → List Char × Option (List Char)
  | [] => ([], none)
  | c :: cs =>
    if isE c then ([], some (untilE cs))
    else
      let r := splitE cs
      (c :: r.1, r.2)

def stripPrefix : List Char → List Char → Option (List Char)
  | [], s => some s
  | _ :: _, [] => none
  | p :: ps, c :: cs => if p = c then stripPrefix ps cs else none

/-- `Ctx::lower_int_literal` on the token text -/
def lowerInt : Kind → List Char → Lowered
  | .dec, text =>
    let value := text.filter (· ≠ '_')
    let parts := splitE value
    match fromStrRadix 10 U64 parts.1 with
    | none => .outOfRange
    | some base =>
      match parts.2 with
      | none => .ok base
      | some e =>
        -- `0eN` is 0 whatever `N` is, even when `10^N` itself does not fit
        if base = 0 then .ok 0 else
        match fromStrRadix 10 U32 e with
        | none => .outOfRange
        | some e =>
          match checkedPow10 e with
          | none => .outOfRange
          | some p =>
            match checkedMul base p with
            | none => .outOfRange
            | some r => .ok r
  | .hex, text =>
    match stripPrefix ['0', 'x'] text with
    | none => .panic
    | some value =>
      match fromStrRadix 16 U64 value with
      | some v => .ok v
      | none => .outOfRange
  | .bin, text =>
    match stripPrefix ['0', 'b'] text with
    | none => .panic
    | some value =>
      match fromStrRadix 2 U64 value with
      | some v => .ok v
      | none => .outOfRange

/-- `lower_int_literal` as it was at the pin (before fix: the `0eN` repair): the power is computed,
checked, before it is multiplied by the mantissa -/
def lowerIntOld : Kind → List Char → Lowered
  | .dec, text =>
    let value := text.filter (· ≠ '_')
    let parts := splitE value
    match fromStrRadix 10 U64 parts.1 with
    | none => .outOfRange
    | some base =>
      match parts.2 with
      | none => .ok base
      | some e =>
        match fromStrRadix 10 U32 e with
        | none => .outOfRange
        | some e =>
          match checkedPow10 e with
          | none => .outOfRange
          | some p =>
            match checkedMul base p with
            | none => .outOfRange
            | some r => .ok r
  | .hex, text =>
    match stripPrefix ['0', 'x'] text with
    | none => .panic
    | some value =>
      match fromStrRadix 16 U64 value with
      | some v => .ok v
      | none => .outOfRange
  | .bin, text =>
    match stripPrefix ['0', 'b'] text with
    | none => .panic
    | some value =>
      match fromStrRadix 2 U64 value with
      | some v => .ok v
      | none => .outOfRange

/-! ## spellings (the quantifier of the property) and the value they spell -/

/-- An integer literal as written. `dec m e`: mantissa characters and, if present, the exponent
(`true` = written with `E`) — digits and `_`. `hex`/`bin`: the characters after `0x`/`0b`. -/
inductive Spelling where
  | dec (mant : List Char) (exp : Option (Bool × List Char))
  | hex (digits : List Char)
  | bin (digits : List Char)
  deriving Repr

def isDecDigit (c : Char) : Bool := 48 ≤ c.toNat && c.toNat ≤ 57
def isHexDigit (c : Char) : Bool :=
  (48 ≤ c.toNat && c.toNat ≤ 57) || (97 ≤ c.toNat && c.toNat ≤ 102) || (65 ≤ c.toNat && c.toNat ≤ 70)
def isBinDigit (c : Char) : Bool := c.toNat = 48 || c.toNat = 49

/-- `\d[\d_]*` (ASCII digits) -/
def decPart : List Char → Bool
  | [] => false
  | c :: cs => isDecDigit c && cs.all (fun c => isDecDigit c || c = '_')

/-- the spelling is one token of tokenizer.txt: `Int = /(\d[\d_]*)+([eE](\d[\d_]*)+)?/`,
`Hex = /0x[0-9a-fA-F]+/`, `Bin = /0b[01]+/` -/
def Spelling.wf : Spelling → Bool
  | .dec m none => decPart m
  | .dec m (some (_, x)) => decPart m && decPart x
  | .hex ds => !ds.isEmpty && ds.all isHexDigit
  | .bin ds => !ds.isEmpty && ds.all isBinDigit

def Spelling.kind : Spelling → Kind
  | .dec _ _ => .dec
  | .hex _ => .hex
  | .bin _ => .bin

def Spelling.text : Spelling → List Char
  | .dec m none => m
  | .dec m (some (up, x)) => m ++ (if up then 'E' else 'e') :: x
  | .hex ds => '0' :: 'x' :: ds
  | .bin ds => '0' :: 'b' :: ds

/-- value of one written digit (decimal, hex upper/lower) -/
def digitVal (c : Char) : Nat :=
  let n := c.toNat
  if 48 ≤ n ∧ n ≤ 57 then n - 48
  else if 97 ≤ n ∧ n ≤ 122 then n - 97 + 10
  else n - 65 + 10

/-- positional notation: the first digit is the most significant one -/
def positional (radix : Nat) : List Nat → Nat
  | [] => 0
  | d :: ds => d * radix ^ ds.length + positional radix ds

/-- the digits of a decimal part: separators are not digits -/
def decDigits (m : List Char) : List Nat := (m.filter (· ≠ '_')).map digitVal

/-- **Spec**: the number a spelling denotes (mathematical, unbounded) -/
def value : Spelling → Nat
  | .dec m none => positional 10 (decDigits m)
  | .dec m (some (_, x)) => positional 10 (decDigits m) * 10 ^ positional 10 (decDigits x)
  | .hex ds => positional 16 (ds.map digitVal)
  | .bin ds => positional 2 (ds.map digitVal)

/-- The one family of spellings whose value fits but which the checked arithmetic of the
lowering REFUSED AT THE PIN (`lowerIntOld`): mantissa zero with an exponent ≥ 20 (`0e20`): `10^e` overflows before it is
multiplied by 0. -/
def Spelling.zeroTimesHugePower : Spelling → Bool
  | .dec m (some (_, x)) => positional 10 (decDigits m) = 0 && 20 ≤ positional 10 (decDigits x)
  | _ => false

/-! ## integer types, the range check, defaulting, the runtime value -/

/-- `Ty::IInt(width)` / `Ty::UInt(width)`; width 0 = weak (`{int}`/`{uint}`), 255 = isize/usize -/
structure ITy where
  signed : Bool
  width : Nat
  deriving DecidableEq, Repr

def ITy.wf (t : ITy) : Bool :=
  t.width = 8 || t.width = 16 || t.width = 32 || t.width = 64 || t.width = 128 || t.width = 255

/-- the strong integer types of the language -/
def allITys : List ITy :=
  [⟨true, 8⟩, ⟨true, 16⟩, ⟨true, 32⟩, ⟨true, 64⟩, ⟨true, 128⟩, ⟨true, 255⟩,
   ⟨false, 8⟩, ⟨false, 16⟩, ⟨false, 32⟩, ⟨false, 64⟩, ⟨false, 128⟩, ⟨false, 255⟩]

def getMaxIntSize (t : ITy) : Option Nat :=
  if t.signed then getMaxIntSizeI t.width else getMaxIntSizeU t.width

/-- `if let Some(max) = ty.get_max_int_size() { if num > max { IntTooBigForType } }` -/
def acceptsAt (t : ITy) (n : Nat) : Bool :=
  match getMaxIntSize t with
  | some max => !(n > max)
  | none => true

/-- `finalize_int`: number of bits of the Cranelift type (pointer width 64) -/
def finalBits (t : ITy) : Nat :=
  if t.width = 255 then 64 else if t.width = 0 then weakFinalBits else t.width

/-- `calc_single`: `IInt(w) ↦ signed`, `UInt(0) ↦ finalize_int(0, true)` whose arm 0 ignores the
flag, `UInt(w) ↦ unsigned` -/
def finalSigned (t : ITy) : Bool :=
  if t.width = 0 then weakFinalSigned else t.signed

/-- the number a program observes: `iconst ty (n as i64)` keeps the low `bits` bits (128-bit:
the u64 zero-extended), read back in two's complement when the type is signed -/
def finalValue (t : ITy) (n : Nat) : Int :=
  let b := finalBits t
  let r := n % 2 ^ b
  if finalSigned t ∧ 2 ^ (b - 1) ≤ r then (r : Int) - (2 ^ b : Nat) else (r : Int)

/-- the IntLiteral arm of `reinfer_expr`: a still-weak literal that is too big is widened -/
def reinferLit (t : ITy) (n : Nat) : ITy :=
  if t.signed ∧ t.width = 0 ∧ n > weakIIntWidenAbove then ⟨true, weakIIntWidenTo⟩
  else if ¬ t.signed ∧ t.width = 0 ∧ n > weakUIntWidenAbove then ⟨false, weakUIntWidenTo⟩
  else t

/-- is `t` weak (replaceable by a strong integer type)? -/
def ITy.weak (t : ITy) : Bool := t.width = 0

/-- Type and acceptance of an unannotated literal `x := n` (local) / `g :: n` (global):
`infer_expr` gives `{uint}`, `reinfer_expr` may widen it; a global that is still weak is
replaced by `i32` through `replace_weak_tys`, which range-checks. `none` = rejected. -/
def defaultTy (global : Bool) (n : Nat) : Option ITy :=
  let t := reinferLit ⟨false, 0⟩ n
  if global ∧ t.weak then
    (if acceptsAt ⟨true, 32⟩ n then some ⟨true, 32⟩ else none)
  else some t

/-- the same for a negated literal `x := -n`: unary minus turns the literal into `{int}` -/
def defaultTyNeg (n : Nat) : ITy := reinferLit ⟨true, 0⟩ n

/-- **Spec**: `n` is representable at the type (two's complement range; isize/usize = 64 bit) -/
def fits (t : ITy) (n : Nat) : Prop :=
  let b := if t.width = 255 then 64 else t.width
  if t.signed then n < 2 ^ (b - 1) else n < 2 ^ b

instance (t : ITy) (n : Nat) : Decidable (fits t n) := by
  unfold fits; exact inferInstance

/-! ## string and char literals -/

inductive Component where
  | escape (c : Nat)            -- `\c`, c = code point after the backslash
  | contents (cs : List Nat)    -- a run of ordinary characters (code points)
  deriving Repr, DecidableEq

inductive Diag where
  | invalidEscape | emptyChar | tooManyChars | nonU8
  deriving Repr, DecidableEq

/-- `lower_string_literal`: (text, diagnostics in order) -/
def lowerString : List Component → List Nat × List Diag
  | [] => ([], [])
  | .escape c :: rest =>
    let r := lowerString rest
    match escapeString c with
    | some v => (v :: r.1, r.2)
    | none => (r.1, .invalidEscape :: r.2)
  | .contents cs :: rest =>
    let r := lowerString rest
    (cs ++ r.1, r.2)

/-- the component loop of `lower_char_literal`: (text, total_len, diagnostics) -/
def charLoop : List Component → List Nat × Nat × List Diag
  | [] => ([], 0, [])
  | .escape c :: rest =>
    let r := charLoop rest
    match escapeChar c with
    | some v => (v :: r.1, r.2.1 + 1, r.2.2)
    | none => (r.1, r.2.1 + 1, .invalidEscape :: r.2.2)
  | .contents cs :: rest =>
    let r := charLoop rest
    (cs ++ r.1, r.2.1 + cs.length, r.2.2)

/-- `lower_char_literal`: (`Expr::CharLiteral` byte, diagnostics in order) -/
def lowerChar (comps : List Component) : Nat × List Diag :=
  let r := charLoop comps
  let text := r.1
  let total := r.2.1
  let diags := r.2.2
  if total < 1 then (0, diags ++ [.emptyChar])
  else if total = 1 then
    -- text.chars().next().unwrap_or('\0').try_into::<u8>()
    let ch := match text with
      | [] => 0
      | c :: _ => c
    if ch < 256 then (ch, diags) else (0, diags ++ [.nonU8])
  else (0, diags ++ [.tooManyChars])

/-- **Spec** escape table (README-free: the conventional C/Odin escapes the language lists in
its lowering comments: null, bell, backspace, line feed, form feed, carriage return, tab,
vertical tab, escape, the two quotes and the backslash) -/
def specEscape (c : Nat) : Option Nat :=
  match c with
  | 48 => some 0      -- \0
  | 97 => some 7      -- \a
  | 98 => some 8      -- \b
  | 110 => some 10    -- \n
  | 102 => some 12    -- \f
  | 114 => some 13    -- \r
  | 116 => some 9     -- \t
  | 118 => some 11    -- \v
  | 101 => some 27    -- \e
  | 34 => some 34     -- \"
  | 39 => some 39     -- \'
  | 92 => some 92     -- \\
  | _ => none

/-- **Spec**: what a component list spells, `none` if some escape is not an escape -/
def specString : List Component → Option (List Nat)
  | [] => some []
  | .escape c :: rest =>
    match specEscape c, specString rest with
    | some v, some r => some (v :: r)
    | _, _ => none
  | .contents cs :: rest =>
    match specString rest with
    | some r => some (cs ++ r)
    | none => none

end CapyV.Literal
