/-!
# C15 — `get_const` / `const_data` and their use sites (`hir_ty/src/globals.rs`)

Executable model of the *const walk* of the type checker, arm by arm, in the order of the Rust:

* `arm`        — one iteration of the `match` in `get_const` (what is pushed on `to_check`,
                 or which non-const answer is returned),
* `loop`       — the worklist of `get_const` (`to_check`, `idx`, and — after the `fix:` — the
                 `parents` chain that is searched before a global's body is pushed),
* `constData`  — `const_data` (the evaluator the use sites call after `get_const` said `Const`),
* `useSite`    — the three evaluating use sites (`const_ty` `ArrayDecl` size, `EnumDecl`
                 discriminant, `evaluate_comptime_args`) and `globalSite` (`finish_body`).

A program is a finite table of nodes; a node stands for one `(ConcreteLoc, Idx<Expr>)` pair and
refers to other nodes by index (local → its value, global → the global's body, member of a file →
the imported global's body, array literal → its items). The table is a graph: nothing in this file
assumes it is acyclic; non-termination of the Rust loop shows up as `Out.outOfFuel`.

Rewrites with respect to the Rust (harmless, checked by the correspondence run):
`to_check[..idx]` is dead after `idx` has passed it, so the model drops the processed prefix
(FIFO list); an arm that evaluates to `Runtime`/`Unknown` and an early `return` of the same value
are the same thing (`Step.ret`).
-/
namespace CapyV.Const

/-- `ExprIsConst` -/
inductive IsC where
  | const | runtime | unknown
  deriving DecidableEq, Repr

/-- `ComptimeResult` as far as the const positions look at it -/
inductive Val where
  | int (n : Nat)
  | float (bits : Nat)
  | ty (id : Nat)
  | data (id : Nat)
  deriving DecidableEq, Repr

/-- expressions of the first arm of `get_const` which `const_data` cannot evaluate -/
inductive NoData where
  | boolLit | strLit | lambda | «import» | missing
  deriving DecidableEq, Repr

/-- the first arm of `get_const` (`Missing | Lambda | Import | PrimitiveTy | StructDecl | Distinct |
Comptime | StringLiteral | IntLiteral | FloatLiteral | BoolLiteral`): always `Const` -/
inductive Atom where
  | intLit (n : Nat)
  | floatLit (bits : Nat)
  /-- `PrimitiveTy`, `StructDecl`, `Distinct`, a `Lambda` without body: expression of type `type`
  with its meta type (if `const_ty` has recorded one) -/
  | tyLit (metaTy : Option Nat)
  /-- `comptime { .. }`: `safe` = `is_safe_to_compile`, `result` = what the JIT returns -/
  | comptime (safe : Bool) (result : Val)
  | noData (k : NoData)
  deriving DecidableEq, Repr

/-- what the `_` arm of `get_const` / `const_data` looks at: the inferred type of the expression -/
inductive TyClass where
  | type | file | value
  deriving DecidableEq, Repr

/-- the expression kinds that fall into the `_` arm -/
inductive OtherKind where
  /-- `'a'` -/
  | charLit
  /-- `^T`, `[n]T`, `[]T`, `?T`, `E!T`, `enum { .. }`: type-valued literals outside the first arm -/
  | typeExpr
  | paren | arith | call | block | cast | fieldOf | param
  deriving DecidableEq, Repr

inductive Node where
  | atom (a : Atom)
  /-- `ArrayLiteral`; `isArray` = `self.tys[loc][expr].is_array()` -/
  | arrayLit (isArray : Bool) (items : List Nat)
  /-- `LocalGlobal`: `global_is_extern`, `all_finished_locations.contains`, `global_body` -/
  | localGlobal (ext finished : Bool) (body : Nat)
  /-- `Local`: `local_def.mutable`, `local_def.value` -/
  | «local» (mutable : Bool) (value : Option Nat)
  /-- `Member { previous, name }`: `prevIsFile` = the type of `previous` *in the area of the
  expression itself* is `Ty::File`; then `global_exists`, `global_is_extern`, finished, body -/
  | member (prevIsFile : Bool) (prev : Nat) (exist ext finished : Bool) (body : Nat)
  | comptimeParam (idx : Nat)
  | other (k : OtherKind) (cls : TyClass) (metaTy : Option Nat)
  deriving Repr

structure Prog where
  nodes : List Node
  /-- `self.loc.comptime_args()` of the location under inference -/
  args : List Val

def Prog.node? (p : Prog) (e : Nat) : Option Node := p.nodes[e]?

/-- one iteration of the `match`: return a non-const answer, or push and go on -/
inductive Step where
  | ret (r : IsC)
  /-- `plain` is pushed without a check; the body of a global only if it is not its own ancestor -/
  | cont (plain : List Nat) (globalBody : Option Nat)
  deriving Repr

def arm : Node → Step
  | .atom _ => .cont [] none
  | .arrayLit true items => .cont items none
  -- not an array type: falls into `_`; the type of an array literal is never `type`/`file`
  | .arrayLit false _ => .ret .runtime
  | .localGlobal ext finished body =>
    if ext then .ret .runtime
    else if !finished then .ret .unknown
    else .cont [] (some body)
  | .local mutable value =>
    if mutable then .ret .runtime
    else match value with
      | none => .ret .unknown
      | some v => .cont [v] none
  | .member prevIsFile prev exist ext finished body =>
    if prevIsFile then
      if !exist then .ret .unknown
      else if ext then .ret .runtime
      else if !finished then .ret .unknown
      else .cont [prev] (some body)
    else .ret .runtime
  | .comptimeParam _ => .cont [] none
  | .other _ cls _ => if cls = .value then .ret .runtime else .cont [] none

inductive Out where
  | done (r : IsC)
  /-- the Rust loop would still be running -/
  | outOfFuel
  /-- arena index out of range: the Rust would panic -/
  | dangling
  deriving DecidableEq, Repr

/-- an entry of `to_check` together with its `parents` chain (nearest first) -/
structure Ent where
  e : Nat
  anc : List Nat
  deriving Repr

/-- the loop of `get_const` after the `fix:` (a global that is its own ancestor is `Runtime`) -/
def loop (p : Prog) : Nat → List Ent → Out
  | _, [] => .done .const
  | 0, _ :: _ => .outOfFuel
  | f + 1, ent :: rest =>
    match p.node? ent.e with
    | none => .dangling
    | some n =>
      match arm n with
      | .ret r => .done r
      | .cont plain none => loop p f (rest ++ plain.map (fun c => ⟨c, ent.e :: ent.anc⟩))
      | .cont plain (some b) =>
        if b ∈ ent.e :: ent.anc then .done .runtime
        else loop p f (rest ++ plain.map (fun c => ⟨c, ent.e :: ent.anc⟩) ++ [⟨b, ent.e :: ent.anc⟩])

def getConst (p : Prog) (fuel : Nat) (e : Nat) : Out := loop p fuel [⟨e, []⟩]

/-- the loop as it was before the `fix:` (no ancestor check) -/
def loopUnfixed (p : Prog) : Nat → List Nat → Out
  | _, [] => .done .const
  | 0, _ :: _ => .outOfFuel
  | f + 1, e :: rest =>
    match p.node? e with
    | none => .dangling
    | some n =>
      match arm n with
      | .ret r => .done r
      | .cont plain gb => loopUnfixed p f (rest ++ plain ++ gb.toList)

inductive DataOut where
  | val (v : Val)
  /-- `Ok(None)` -/
  | none
  | panic
  | outOfFuel
  | dangling
  deriving DecidableEq, Repr

/-- `const_data` (recursion of the Rust = fuel recursion here) -/
def constData (p : Prog) : Nat → Nat → DataOut
  | 0, _ => .outOfFuel
  | f + 1, e =>
    match p.node? e with
    | none => .dangling
    | some n =>
      match n with
      | .atom (.intLit k) => .val (.int k)
      | .atom (.floatLit b) => .val (.float b)
      | .atom (.comptime safe r) => if safe then .val r else .none
      | .local _ (some v) => constData p f v
      -- assert!(local_def.value.is_some())
      | .local _ none => .panic
      | .localGlobal _ _ body => constData p f body
      | .member prevIsFile _ _ _ _ body => if prevIsFile then constData p f body else .none
      | .comptimeParam i =>
        match p.args[i]? with
        | some v => .val v
        | none => .panic
      -- `_`: a type-valued expression with a recorded meta type
      | .atom (.tyLit (some m)) => .val (.ty m)
      | .atom (.tyLit none) => .none
      | .atom (.noData _) => .none
      | .arrayLit _ _ => .none
      | .other _ cls m =>
        if cls = .type then
          match m with
          | some t => .val (.ty t)
          | none => .none
        else .none

inductive Diag where
  | arraySizeNotConst | discriminantNotConst | comptimeArgNotConst | globalNotConst
  deriving DecidableEq, Repr

inductive SiteRes where
  | accepted (v : Val)
  /-- `Ty::Unknown` / `break 'discrim_calc` / `ArgsContainDiagnostics` -/
  | rejected
  | panic
  /-- no answer (fuel / dangling index) -/
  | stuck
  deriving DecidableEq, Repr

structure SiteOut where
  diag : Option Diag
  /-- `const_data` (and through it the JIT) was called -/
  evaluated : Bool
  result : SiteRes
  deriving DecidableEq, Repr

/-- the common shape of the three evaluating sites: `get_const`, report if `Runtime`, stay silent
if `Unknown`, otherwise `const_data`. `intOnly`: the array-size and discriminant sites `panic!` /
`unreachable!()` on anything but `ComptimeResult::Integer`; `evaluate_comptime_args` panics on
`None` only. -/
def useSite (d : Diag) (intOnly : Bool) (p : Prog) (fuel e : Nat) : SiteOut :=
  match getConst p fuel e with
  | .done .const =>
    match constData p fuel e with
    | .val (.int n) => ⟨none, true, .accepted (.int n)⟩
    | .val v => if intOnly then ⟨none, true, .panic⟩ else ⟨none, true, .accepted v⟩
    | .none => ⟨none, true, .panic⟩
    | .panic => ⟨none, true, .panic⟩
    | .outOfFuel => ⟨none, true, .stuck⟩
    | .dangling => ⟨none, true, .stuck⟩
  | .done .runtime => ⟨some d, false, .rejected⟩
  | .done .unknown => ⟨none, false, .rejected⟩
  | .outOfFuel => ⟨none, false, .stuck⟩
  | .dangling => ⟨none, false, .stuck⟩

def arrayLenSite := useSite .arraySizeNotConst true
def discriminantSite := useSite .discriminantNotConst true
def comptimeArgSite := useSite .comptimeArgNotConst false

/-- `finish_body` of a global: reports, never evaluates -/
def globalSite (isBuiltin : Bool) (p : Prog) (fuel e : Nat) : SiteOut :=
  match getConst p fuel e with
  | .done .runtime => if isBuiltin then ⟨none, false, .rejected⟩ else ⟨some .globalNotConst, false, .rejected⟩
  | .done _ => ⟨none, false, .rejected⟩
  | _ => ⟨none, false, .stuck⟩

/-! ## the reference structure and the fuel that suffices on acyclic programs -/

def kids (n : Node) : List Nat :=
  match arm n with
  | .ret _ => []
  | .cont plain gb => plain ++ gb.toList

def Prog.kidsOf (p : Prog) (e : Nat) : List Nat :=
  match p.node? e with
  | some n => kids n
  | none => []

/-- size of the unfolding of `e` to depth `d` (the loop has no visited set: shared nodes are
expanded once per path) -/
def cost (p : Prog) : Nat → Nat → Nat
  | 0, _ => 1
  | d + 1, e => 1 + ((p.kidsOf e).map (cost p d)).sum

end CapyV.Const
