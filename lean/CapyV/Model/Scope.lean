/-
C05 — model of name resolution in `crates/hir/src/body.rs` (`Ctx`), as of the `fix:` commit
that gives every switch arm its own scope.

* `Expr`/`Stmts`/`Arms`/`Params` is the source fragment ("ScopeLang"): identifier uses,
  blocks with `x := e` / `x :: e` locals, `switch x in e { arm … }`, lambdas with parameters
  and comptime parameters (their types and the return type are expressions), `comptime e`,
  and `seq` for every other compound expression (its children are lowered left to right in the
  same context: calls, binary expressions, `if`/`while` around their block bodies, casts,
  struct literals, assignments, `defer`, `return e`, …). Names are numbers; every binder
  carries a `tag` chosen by the front end (the harness uses the source offset of the binder;
  the Rust uses the arena index of the `LocalDef` / `SwitchArg` / the `ast::Param`).
* `Ctx` is the mutable state of the Rust `Ctx`: `scopes : Vec<FxHashMap<Key, Local>>`
  (head of the list = last element of the `Vec`; a map is an association list searched from
  the front, `insert` = cons, so a later insert overwrites), `params`, `inline_header_params`.
* `lowerExpr … : Option (Ctx × List Res)`: the state after lowering and what each
  identifier use (`lower_var_ref`, in lowering order) resolved to. `none` = the Rust panics
  (`insert_into_current_scope` on an empty `scopes` unwraps `None`;
  `assert!(self.inline_header_params.is_empty())` at the start of `lower_lambda`).
* `fixed = false` is `lower_switch` before the fix (argument inserted into the *current*
  scope, no scope per arm); it exists only for `switch_arg_leak_counterexample`.
-/
namespace CapyV.Scope

mutual
inductive Expr where
  /-- anything without identifiers (literals, a missing expression, `.Shorthand`, `_`) -/
  | lit
  /-- `ast::VarRef` -/
  | use (x : Nat)
  /-- compound expression without scoping of its own -/
  | seq (es : Exprs)
  /-- `{ stmts; tail }` (`lit` = no tail expression) -/
  | block (ss : Stmts) (tail : Expr)
  /-- `switch arg in scrut { arms }` -/
  | switch (arg : Option Nat) (scrut : Expr) (arms : Arms)
  /-- `(params) -> ret { body; tail }`; a lambda without body (function type, `extern`) has
  the empty body -/
  | lambda (ps : Params) (ret : Expr) (body : Stmts) (tail : Expr)
  /-- `comptime e` -/
  | comptime (e : Expr)
inductive Exprs where
  | nil
  | cons (e : Expr) (rest : Exprs)
inductive Stmts where
  | nil
  /-- `x : ty = val;` / `x :: val;` (`Stmt::LocalDef`) -/
  | defn (x tag : Nat) (ty val : Expr) (rest : Stmts)
  /-- every other statement -/
  | expr (e : Expr) (rest : Stmts)
inductive Arms where
  | nil
  /-- `variant => body`; `tag` names the `SwitchArg` allocated for this arm -/
  | cons (tag : Nat) (variant body : Expr) (rest : Arms)
inductive Params where
  | nil
  | cons (x tag : Nat) (ct : Bool) (ty : Expr) (rest : Params)
end

deriving instance DecidableEq for Expr, Exprs, Stmts, Arms, Params
deriving instance Repr for Expr, Exprs, Stmts, Arms, Params

/-- `Local` of body.rs -/
inductive Local where
  | defn (tag : Nat)
  | switchArm (tag : Nat)
  deriving DecidableEq, Repr

/-- `ParamInfo` of body.rs (`tag` stands for `ast`) -/
structure PInfo where
  tag : Nat
  realIdx : Nat
  comptimeIdx : Option Nat
  deriving DecidableEq, Repr

/-- the `ParamInfo` built in the parameter loop of `lower_lambda` -/
def paramInfo (tag idx : Nat) (ct : Bool) (cidx : Nat) : PInfo :=
  { tag := tag, realIdx := idx, comptimeIdx := if ct then some cidx else none }

/-- what `lower_var_ref` produced -/
inductive Res where
  /-- `Expr::Local` -/
  | local (tag : Nat)
  /-- `Expr::SwitchArgument` -/
  | switchArg (tag : Nat)
  /-- `Expr::Param` -/
  | param (tag idx : Nat)
  /-- `Expr::ComptimeParam` -/
  | comptimeParam (tag idx cidx : Nat)
  /-- `Expr::InlineParam` -/
  | inlineParam (tag idx cidx : Nat)
  /-- `Expr::Missing` + `InlineParamNotComptime` -/
  | inlineNotComptime (x : Nat)
  /-- `Expr::LocalGlobal` -/
  | global (x : Nat)
  /-- `Expr::PrimitiveTy` -/
  | prim (x : Nat)
  /-- `Expr::Nil` -/
  | nil
  /-- `Expr::Missing` + `UndefinedRef` -/
  | undefined (x : Nat)
  deriving DecidableEq, Repr

/-- what does not change during lowering: the file's `Index`, the names `PrimitiveTy::parse`
accepts, `Key::nil()` -/
structure Env where
  globals : List Nat
  prims : List Nat
  nilKey : Nat
  deriving Repr

abbrev Scope := List (Nat × Local)

structure Ctx where
  scopes : List Scope
  params : List (Nat × PInfo)
  inline : List (Nat × PInfo)
  deriving DecidableEq, Repr

/-- `Ctx::new` -/
def Ctx.init : Ctx := { scopes := [[]], params := [], inline := [] }

/-- `look_up_in_current_scope` -/
def lookupScopes (x : Nat) : List Scope → Option Local
  | [] => none
  | s :: rest =>
    match s.lookup x with
    | some l => some l
    | none => lookupScopes x rest

/-- the tail of `lower_var_ref`: index, primitive types, `nil`, `UndefinedRef` -/
def lookupOuter (env : Env) (x : Nat) : Res :=
  if env.globals.contains x then .global x
  else if env.prims.contains x then .prim x
  else if x == env.nilKey then .nil
  else .undefined x

/-- `lower_var_ref` -/
def lowerVarRef (env : Env) (c : Ctx) (x : Nat) : Res :=
  match c.inline.lookup x with
  | some p =>
    match p.comptimeIdx with
    | some ci => .inlineParam p.tag p.realIdx ci
    | none => .inlineNotComptime x
  | none =>
    match lookupScopes x c.scopes with
    | some (.defn t) => .local t
    | some (.switchArm t) => .switchArg t
    | none =>
      match c.params.lookup x with
      | some p =>
        match p.comptimeIdx with
        | some ci => .comptimeParam p.tag p.realIdx ci
        | none => .param p.tag p.realIdx
      | none => lookupOuter env x

/-- `create_new_child_scope` -/
def Ctx.push (c : Ctx) : Ctx := { c with scopes := [] :: c.scopes }

/-- `destroy_current_scope` (`Vec::pop`, silently nothing on an empty stack) -/
def Ctx.pop (c : Ctx) : Ctx := { c with scopes := c.scopes.tail }

/-- `insert_into_current_scope`: `self.scopes.last_mut().unwrap()` -/
def Ctx.insert (c : Ctx) (x : Nat) (l : Local) : Option Ctx :=
  match c.scopes with
  | [] => none
  | s :: rest => some { c with scopes := ((x, l) :: s) :: rest }

def Ctx.insertArg (c : Ctx) (arg : Option Nat) (tag : Nat) : Option Ctx :=
  match arg with
  | some x => c.insert x (.switchArm tag)
  | none => some c

mutual
def lowerExpr (fixed : Bool) (env : Env) : Expr → Ctx → Option (Ctx × List Res)
  | .lit, c => some (c, [])
  | .use x, c => some (c, [lowerVarRef env c x])
  | .seq es, c => lowerExprs fixed env es c
  -- lower_block
  | .block ss tail, c =>
    match lowerStmts fixed env ss c.push with
    | none => none
    | some (c1, r1) =>
      match lowerExpr fixed env tail c1 with
      | none => none
      | some (c2, r2) => some (c2.pop, r1 ++ r2)
  -- lower_switch
  | .switch arg scrut arms, c =>
    match lowerExpr fixed env scrut c with
    | none => none
    | some (c1, r1) =>
      match lowerArms fixed env arg arms c1 with
      | none => none
      | some (c2, r2) => some (c2, r1 ++ r2)
  -- lower_lambda
  | .lambda ps ret body tail, c =>
    if c.inline.isEmpty then
      match lowerParams fixed env ps 0 0 [] c with
      | none => none
      | some (c1, keys, r1) =>
        match lowerExpr fixed env ret c1 with
        | none => none
        | some (c2, r2) =>
          -- inline_header_params.clear(); old_params = replace(params, param_keys);
          -- old_scopes = take(scopes); then the body, a block
          match lowerStmts fixed env body ({ scopes := [], params := keys, inline := [] } : Ctx).push with
          | none => none
          | some (c3, r3) =>
            match lowerExpr fixed env tail c3 with
            | none => none
            | some (c4, r4) =>
              some ({ scopes := c2.scopes, params := c2.params, inline := c4.pop.inline },
                    r1 ++ r2 ++ r3 ++ r4)
    else none
  -- lower_comptime
  | .comptime e, c =>
    match lowerExpr fixed env e { scopes := [], params := [], inline := c.inline } with
    | none => none
    | some (c1, r) => some ({ scopes := c.scopes, params := c.params, inline := c1.inline }, r)
def lowerExprs (fixed : Bool) (env : Env) : Exprs → Ctx → Option (Ctx × List Res)
  | .nil, c => some (c, [])
  | .cons e rest, c =>
    match lowerExpr fixed env e c with
    | none => none
    | some (c1, r1) =>
      match lowerExprs fixed env rest c1 with
      | none => none
      | some (c2, r2) => some (c2, r1 ++ r2)
def lowerStmts (fixed : Bool) (env : Env) : Stmts → Ctx → Option (Ctx × List Res)
  | .nil, c => some (c, [])
  -- lower_local_define: type, value, then the insert
  | .defn x tag ty val rest, c =>
    match lowerExpr fixed env ty c with
    | none => none
    | some (c1, r1) =>
      match lowerExpr fixed env val c1 with
      | none => none
      | some (c2, r2) =>
        match c2.insert x (.defn tag) with
        | none => none
        | some c3 =>
          match lowerStmts fixed env rest c3 with
          | none => none
          | some (c4, r3) => some (c4, r1 ++ r2 ++ r3)
  | .expr e rest, c =>
    match lowerExpr fixed env e c with
    | none => none
    | some (c1, r1) =>
      match lowerStmts fixed env rest c1 with
      | none => none
      | some (c2, r2) => some (c2, r1 ++ r2)
/-- the arms of `lower_switch`: variant, (scope,) argument, body(, end of scope) -/
def lowerArms (fixed : Bool) (env : Env) (arg : Option Nat) : Arms → Ctx → Option (Ctx × List Res)
  | .nil, c => some (c, [])
  | .cons tag variant body rest, c =>
    match lowerExpr fixed env variant c with
    | none => none
    | some (c1, r1) =>
      match (if fixed then c1.push else c1).insertArg arg tag with
      | none => none
      | some c2 =>
        match lowerExpr fixed env body c2 with
        | none => none
        | some (c3, r2) =>
          match lowerArms fixed env arg rest (if fixed then c3.pop else c3) with
          | none => none
          | some (c4, r3) => some (c4, r1 ++ r2 ++ r3)
/-- the parameter loop of `lower_lambda`: `idx`, `comptime_idx`, `param_keys` so far -/
def lowerParams (fixed : Bool) (env : Env) :
    Params → Nat → Nat → List (Nat × PInfo) → Ctx → Option (Ctx × List (Nat × PInfo) × List Res)
  | .nil, _, _, keys, c => some (c, keys, [])
  | .cons x tag ct ty rest, idx, cidx, keys, c =>
    match lowerExpr fixed env ty c with
    | none => none
    | some (c1, r1) =>
      let info : PInfo := paramInfo tag idx ct cidx
      match lowerParams fixed env rest (idx + 1) (if ct then cidx + 1 else cidx) ((x, info) :: keys)
          { c1 with inline := (x, info) :: c1.inline } with
      | none => none
      | some (c2, keys', r2) => some (c2, keys', r1 ++ r2)
end

/-- one global of the file: type annotation and value (`lit` = absent) -/
structure Global where
  name : Nat
  ty : Expr
  val : Expr
  deriving DecidableEq, Repr

/-- the loop of `hir::lower` over `lower_global` (one `Ctx` for the whole file) -/
def lowerGlobals (fixed : Bool) (env : Env) : List Global → Ctx → Option (Ctx × List Res)
  | [], c => some (c, [])
  | g :: rest, c =>
    match lowerExpr fixed env g.ty c with
    | none => none
    | some (c1, r1) =>
      match lowerExpr fixed env g.val c1 with
      | none => none
      | some (c2, r2) =>
        match lowerGlobals fixed env rest c2 with
        | none => none
        | some (c3, r3) => some (c3, r1 ++ r2 ++ r3)

/-- what every identifier use of the file resolves to, in lowering order (`none` = panic) -/
def resolve (env : Env) (gs : List Global) : Option (List Res) :=
  (lowerGlobals true env gs Ctx.init).map (·.2)

/-- the same before the fix -/
def resolveOld (env : Env) (gs : List Global) : Option (List Res) :=
  (lowerGlobals false env gs Ctx.init).map (·.2)

end CapyV.Scope
