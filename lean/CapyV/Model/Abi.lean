import CapyV.Model.Layout
/-
Model of `crates/codegen/src/convert/abi/x86_64.rs` (`Class`, `merge_eigthbyte`,
`classify_arg` / `classify_eight_byte`, `reg_component`, `split_aggregate`, `fn_ty_to_abi`)
and of the slot / load / store plan of `crates/codegen/src/convert/abi/mod.rs`
(`FnAbi::{get_arg_list, handle_ret, build_fn}` for `PassMode::Cast`), transcribed arm by
arm, in the order of the Rust.

* `none` stands for a Rust panic (index out of bounds, `unwrap` of `None`, `todo!`,
  `unreachable!`), never for a default.
* The classifier is modelled **with the one-token fix of FIX.patch**: `Ty::FunctionPointer`
  sits in the INTEGER arm of `classify_eight_byte` (on the pinned tree it falls through to
  `_ => {}` and is classified NO_CLASS; `classifyEightByteOld` keeps that behaviour for the
  counterexample theorem).
* `clAssign` is a model of what Cranelift's System V lowering does with the produced
  signature (integer-typed parameters take rdi, rsi, rdx, rcx, r8, r9 in order, float-typed
  ones xmm0–7, the rest goes to the stack in order; `StructArgument(n)` takes `n` stack
  bytes; integer results rax, rdx, float results xmm0, xmm1). It is trusted (it is
  Cranelift, not Capy) and is what the gcc differential exercises end to end.
-/
namespace CapyV.Abi
open CapyV CapyV.Layout

/-- `enum Class` -/
inductive Class where
  | int | sse | sseUp | noClass
  deriving DecidableEq, Repr, Inhabited

/-- `Class::merge_eigthbyte(self, other)` — arms in source order. -/
def Class.merge (self other : Class) : Class :=
  if self = other then self
  else match self, other with
    | c, .noClass => c
    | .noClass, c => c
    | .int, _ => .int
    | _, .int => .int
    | _, _ => .sse

/-- `classes[i] = classes[i].merge_eigthbyte(c)`; `none` = index out of bounds panic. -/
def mergeAt (cls : List Class) (i : Nat) (c : Class) : Option (List Class) :=
  if h : i < cls.length then some (cls.set i ((cls[i]'h).merge c)) else none

/-- `for idx in 0..n { f(classes, offset + idx * stride) }` -/
def forRange (f : List Class → Nat → Option (List Class)) (stride off : Nat) :
    Nat → Nat → List Class → Option (List Class)
  | 0, _, cls => some cls
  | k + 1, idx, cls =>
    match f cls (off + idx * stride) with
    | none => none
    | some cls' => forRange f stride off k (idx + 1) cls'

/-- the INTEGER arm: one merge, a second one when the scalar is wider than 8 bytes -/
def intArm (pw : Nat) (t : Ty) (cls : List Class) (off : Nat) : Option (List Class) :=
  match mergeAt cls (off / 8) .int with
  | none => none
  | some c => if size pw t > 8 then mergeAt c (off / 8 + 1) .int else some c

/-- the `Slice | RawSlice | Any` arm -/
def twoIntArm (cls : List Class) (off : Nat) : Option (List Class) :=
  match mergeAt cls (off / 8) .int with
  | none => none
  | some c => mergeAt c (off / 8 + 1) .int

mutual
/-- `classify_eight_byte(ty, classes, offset)`; `fnPtrInt` = whether `Ty::FunctionPointer`
is in the INTEGER arm (true: FIX.patch; false: the pinned tree, where it hits `_ => {}`). -/
def classifyEightByteG (fnPtrInt : Bool) (pw : Nat) : Ty → List Class → Nat → Option (List Class)
  | .type, cls, off => intArm pw .type cls off
  | .string, cls, off => intArm pw .string cls off
  | .char, cls, off => intArm pw .char cls off
  | .iint w, cls, off => intArm pw (.iint w) cls off
  | .uint w, cls, off => intArm pw (.uint w) cls off
  | .bool, cls, off => intArm pw .bool cls off
  | .pointer m s, cls, off => intArm pw (.pointer m s) cls off
  | .rawPtr m, cls, off => intArm pw (.rawPtr m) cls off
  | .concreteFn ps r l, cls, off => intArm pw (.concreteFn ps r l) cls off
  | .fnPointer ps r, cls, off =>
    if fnPtrInt then intArm pw (.fnPointer ps r) cls off else some cls
  | .file f, cls, off => intArm pw (.file f) cls off
  | .float _, cls, off => mergeAt cls (off / 8) .sse
  | .concreteArray n sub, cls, off =>
    if n ≠ 0 then forRange (classifyEightByteG fnPtrInt pw sub) (strideOf pw sub) off n 0 cls else some cls
  | .anonArray n sub, cls, off =>
    if n ≠ 0 then forRange (classifyEightByteG fnPtrInt pw sub) (strideOf pw sub) off n 0 cls else some cls
  | .slice _, cls, off => twoIntArm cls off
  | .rawSlice, cls, off => twoIntArm cls off
  | .any, cls, off => twoIntArm cls off
  | .distinct _ sub, cls, off => classifyEightByteG fnPtrInt pw sub cls off
  | .enumVariant _ _ _ sub _, cls, off => classifyEightByteG fnPtrInt pw sub cls off
  | .concreteStruct _ ms, cls, off => classifyMembersG fnPtrInt pw ms (structOffsets pw ms 0) cls off
  | .anonStruct ms, cls, off => classifyMembersG fnPtrInt pw ms (structOffsets pw ms 0) cls off
  | .enum _ vs, cls, off =>
    match classifyVariantsG fnPtrInt pw vs cls off with
    | none => none
    | some c => mergeAt c ((off + (variantsMax pw vs 0 1).1) / 8) .int
  | .errorUnion e p, cls, off =>
    match classifyEightByteG fnPtrInt pw p cls off with
    | none => none
    | some c =>
      match classifyEightByteG fnPtrInt pw e c off with
      | none => none
      | some c' => mergeAt c' ((off + max (size pw e) (size pw p)) / 8) .int
  | .optional sub, cls, off =>
    if sub.isNonZero then intArm pw (.optional sub) cls off
    else
      match classifyEightByteG fnPtrInt pw sub cls off with
      | none => none
      | some c => mergeAt c ((off + size pw sub) / 8) .int
  | .notYetResolved, cls, _ | .unknown, cls, _ | .naivePolyFn _, cls, _ | .nil, cls, _
  | .void, cls, _ | .alwaysJumps, cls, _ => some cls
/-- `for (field, &field_off) in offsets.iter().enumerate() { classify(members[field].ty, …) }` -/
def classifyMembersG (fnPtrInt : Bool) (pw : Nat) : Members → List Nat → List Class → Nat → Option (List Class)
  | _, [], cls, _ => some cls
  | .nil, _ :: _, _, _ => none
  | .cons _ t rest, o :: os, cls, off =>
    match classifyEightByteG fnPtrInt pw t cls (off + o) with
    | none => none
    | some c => classifyMembersG fnPtrInt pw rest os c off
/-- `for variant_ty in variants { classify(variant_ty, classes, offset) }` -/
def classifyVariantsG (fnPtrInt : Bool) (pw : Nat) : Tys → List Class → Nat → Option (List Class)
  | .nil, cls, _ => some cls
  | .cons t rest, cls, off =>
    match classifyEightByteG fnPtrInt pw t cls off with
    | none => none
    | some c => classifyVariantsG fnPtrInt pw rest c off
end

/-- the classifier with FIX.patch applied -/
abbrev classifyEightByte := classifyEightByteG true
abbrev classifyMembers := classifyMembersG true
/-- the classifier of the pinned tree -/
abbrev classifyEightByteOld := classifyEightByteG false

/-- result of `classify_arg` -/
inductive ArgClass where
  /-- `None`: passed / returned in memory -/
  | memory
  | classes (cls : List Class)
  | panic
  deriving DecidableEq, Repr

/-- the `while i < n` post-merger loop of the `n ≤ 2` branch (fuel = remaining steps; every
iteration either rewrites an SSEUP, which the next iteration then skips, or advances `i`) -/
def fixup (n : Nat) : Nat → Nat → List Class → List Class
  | 0, _, cls => cls
  | fuel + 1, i, cls =>
    if i < n then
      if cls.getD i .noClass = .sseUp then fixup n fuel i (cls.set i .sse)
      else if cls.getD i .noClass = .sse then
        -- i += 1; while i != n && classes[i] == SseUp { i += 1 }   (n ≤ 2: at most one step)
        let i := i + 1
        let i := if i ≠ n ∧ cls.getD i .noClass = .sseUp then i + 1 else i
        fixup n fuel i cls
      else fixup n fuel (i + 1) cls
    else cls

def noClass8 : List Class := List.replicate 8 .noClass

/-- `classify_arg(ty)` -/
def classifyArgG (fnPtrInt : Bool) (pw : Nat) (t : Ty) : ArgClass :=
  let n := (size pw t + 7) / 8
  if n > 8 then .memory
  else
    match classifyEightByteG fnPtrInt pw t noClass8 0 with
    | none => .panic
    | some cls =>
      if n > 2 then
        if cls.getD 0 .noClass ≠ .sse then .memory
        else if ((cls.drop 1).take (n - 1)).any (· ≠ .sseUp) then .memory
        else .classes cls
      else .classes (fixup n 6 0 cls)

abbrev classifyArg := classifyArgG true

/-- Cranelift value types that occur here -/
inductive IrTy where
  | i8 | i16 | i32 | i64 | i128 | f32 | f64
  deriving DecidableEq, Repr, Inhabited

def IrTy.bytes : IrTy → Nat
  | .i8 => 1 | .i16 => 2 | .i32 => 4 | .i64 => 8 | .i128 => 16 | .f32 => 4 | .f64 => 8

def IrTy.isFloat : IrTy → Bool
  | .f32 | .f64 => true
  | _ => false

/-- `Type::int_with_byte_size` -/
def intWithByteSize : Nat → Option IrTy
  | 1 => some .i8 | 2 => some .i16 | 4 => some .i32 | 8 => some .i64 | 16 => some .i128
  | _ => none

/-- `u16::next_power_of_two` (values ≤ 8 only are needed: the caller has `size < 8`) -/
def nextPow2 (n : Nat) : Nat :=
  if n ≤ 1 then 1 else if n ≤ 2 then 2 else if n ≤ 4 then 4 else 8

/-- result of `reg_component` -/
inductive RC where
  | some (ty : IrTy) (i : Nat)
  | none
  | panic
  deriving DecidableEq, Repr

/-- `reg_component(cls, &mut i, size)` -/
def regComponent (cls : List Class) (i size : Nat) : RC :=
  if i ≥ cls.length then .none
  else match cls.getD i .noClass with
    | .noClass => .none
    | .int =>
      match (if size < 8 then intWithByteSize (nextPow2 size) else intWithByteSize 8) with
      | some ty => .some ty (i + 1)
      | none => .none
    | .sse =>
      let vecLen := 1 + ((cls.drop (i + 1)).takeWhile (· = .sseUp)).length
      if vecLen = 1 then .some (if size = 4 then .f32 else .f64) (i + vecLen)
      else .panic -- todo!("vector types")
    | .sseUp => .panic -- unreachable!

/-- `split_aggregate(aggr, cls)`; `none` = panic -/
def splitAggregate (pw : Nat) (t : Ty) (cls : List Class) : Option (List IrTy) :=
  match regComponent cls 0 (size pw t) with
  | .none | .panic => none -- `.unwrap()`
  | .some lo i =>
    let off := i * 8
    if size pw t > off then
      match regComponent cls i (size pw t - off) with
      | .some hi _ => some [lo, hi]
      | .none => some [lo]
      | .panic => none
    else some [lo]

/-- `PassMode` (`Cast` keeps only the component types; `orig` is the argument itself) -/
inductive PassMode where
  | cast (tys : List IrTy)
  | direct (ty : IrTy)
  | indirect (size : Option Nat)
  deriving DecidableEq, Repr

structure FnAbi where
  args : List (PassMode × Nat)
  ret : Option PassMode
  deriving DecidableEq, Repr

def ptrTy (pw : Nat) : Option IrTy :=
  if pw = 16 then some .i16 else if pw = 32 then some .i32 else if pw = 64 then some .i64 else none

/-- `ty.get_final_ty().into_real_type()` (`calc_single` of convert.rs); `none` = `Void` or
`unreachable!()`, which the caller unwraps. -/
def realTy (pw : Nat) : Ty → Option IrTy
  | .iint w | .uint w =>
    if w = 255 then ptrTy pw else if w = 0 then some .i32 else if w = 8 then some .i8
    else if w = 16 then some .i16 else if w = 32 then some .i32 else if w = 64 then some .i64
    else if w = 128 then some .i128 else none
  | .float w => if w = 0 then some .f32 else if w = 32 then some .f32 else if w = 64 then some .f64 else none
  | .bool | .char => some .i8
  | .type => some .i32
  | .distinct _ s => realTy pw s
  | .enumVariant _ _ _ s _ => realTy pw s
  | .notYetResolved | .unknown | .nil | .void | .alwaysJumps | .file _ | .naivePolyFn _ => none
  | t => if t.isZeroSized then none else ptrTy pw

def nextMultipleOf8 (n : Nat) : Nat := (n + 7) / 8 * 8

def countClass (c : Class) (cls : List Class) : Nat := (cls.filter (· = c)).length

/-- `push_direct` -/
def pushDirect (pw : Nat) (t : Ty) (cls : List Class) : Option PassMode :=
  if t.isAggregate then (splitAggregate pw t cls).map .cast
  else (realTy pw t).map .direct

/-- the body of the `for (idx, arg) in args.iter().enumerate()` loop of `fn_ty_to_abi` for one
non-zero-sized argument: the pass mode pushed and the `int_regs` / `sse_regs` left; `none` = panic -/
def argStep (fnPtrInt : Bool) (pw : Nat) (t : Ty) (intRegs sseRegs : Nat) : Option (PassMode × Nat × Nat) :=
  match classifyArgG fnPtrInt pw t with
  | .panic => none
  | .classes cls =>
    let neededInt := countClass .int cls
    let neededSse := countClass .sse cls
    -- `(int_regs.checked_sub(needed_int), sse_regs.checked_sub(needed_sse))` both `Some`
    if neededInt ≤ intRegs ∧ neededSse ≤ sseRegs then
      (pushDirect pw t cls).map fun pm => (pm, intRegs - neededInt, sseRegs - neededSse)
    else if t.isAggregate then
      some (.indirect (some (nextMultipleOf8 (strideOf pw t))), intRegs, sseRegs)
    else (realTy pw t).map fun ty => (.direct ty, intRegs, sseRegs)
  | .memory => some (.indirect (some (nextMultipleOf8 (strideOf pw t))), intRegs, sseRegs)

/-- the loop itself, threading `int_regs`, `sse_regs`; zero-sized arguments are skipped -/
def argLoop (fnPtrInt : Bool) (pw : Nat) : List Ty → Nat → Nat → Nat → Option (List (PassMode × Nat))
  | [], _, _, _ => some []
  | t :: rest, idx, intRegs, sseRegs =>
    if t.isZeroSized then argLoop fnPtrInt pw rest (idx + 1) intRegs sseRegs
    else match argStep fnPtrInt pw t intRegs sseRegs with
      | none => none
      | some (pm, intRegs', sseRegs') =>
        match argLoop fnPtrInt pw rest (idx + 1) intRegs' sseRegs' with
        | none => none
        | some l => some ((pm, idx) :: l)

/-- `fn_ty_to_abi((args, ret))`; `none` = panic -/
def fnTyToAbiG (fnPtrInt : Bool) (pw : Nat) (params : List Ty) (ret : Ty) : Option FnAbi :=
  let retPart : Option (Option PassMode × Nat) :=
    if !ret.isZeroSized then
      match classifyArgG fnPtrInt pw ret with
      | .panic => none
      | .classes cls =>
        if ret.isAggregate then (splitAggregate pw ret cls).map fun tys => (some (.cast tys), 6)
        else (realTy pw ret).map fun ty => (some (.direct ty), 6)
      | .memory => some (some (.indirect (some (size pw ret))), 5)
    else some (none, 6)
  match retPart with
  | none => none
  | some (r, intRegs) =>
    match argLoop fnPtrInt pw params 0 intRegs 8 with
    | none => none
    | some args => some { args := args, ret := r }

abbrev fnTyToAbi := fnTyToAbiG true

/-! ### spill slots, loads and stores of `PassMode::Cast` (mod.rs) -/

/-- `tys.iter().map(|ty| ty.bytes()).sum()` -/
def sumBytes (tys : List IrTy) : Nat := (tys.map IrTy.bytes).foldl (· + ·) 0

/-- the slot created by `build_fn` / `handle_ret` for a `Cast` value (after 664a588):
`orig.size().max(sum of ty.bytes())` -/
def castSlotSize (pw : Nat) (orig : Ty) (tys : List IrTy) : Nat := max (size pw orig) (sumBytes tys)

/-- the slot before 664a588: `orig.size()` -/
def castSlotSizeOld (pw : Nat) (orig : Ty) (_tys : List IrTy) : Nat := size pw orig

/-- `(offset, width)` of the accesses of the `let mut off = 0; for ty in tys { …; off += ty.bytes() }`
loops (stores into the slot in `build_fn`/`handle_ret`, loads from the caller's object in
`get_arg_list`, loads from the slot for a `Cast` return) -/
def castAccesses : List IrTy → Nat → List (Nat × Nat)
  | [], _ => []
  | ty :: rest, off => (off, ty.bytes) :: castAccesses rest (off + ty.bytes)

/-! ### what Cranelift's System V lowering does with the signature (trusted) -/

/-- where a value (or one eightbyte of it) travels -/
inductive Loc where
  /-- n-th integer argument register (rdi, rsi, rdx, rcx, r8, r9) / n-th integer result register (rax, rdx) -/
  | gpr (n : Nat)
  /-- xmm n -/
  | xmm (n : Nat)
  /-- `bytes` bytes of the stack argument area, allocated in argument order -/
  | stack (bytes : Nat)
  deriving DecidableEq, Repr

/-- one Cranelift `AbiParam::new(ty)` -/
def clParam (ty : IrTy) (g x : Nat) : List Loc × Nat × Nat :=
  if ty.isFloat then
    if x < 8 then ([.xmm x], g, x + 1) else ([.stack 8], g, x)
  else if ty = .i128 then
    if g + 2 ≤ 6 then ([.gpr g, .gpr (g + 1)], g + 2, x) else ([.stack 16], g, x)
  else
    if g < 6 then ([.gpr g], g + 1, x) else ([.stack 8], g, x)

def clParams : List IrTy → Nat → Nat → List Loc × Nat × Nat
  | [], g, x => ([], g, x)
  | ty :: rest, g, x =>
    let (l, g', x') := clParam ty g x
    let (ls, g'', x'') := clParams rest g' x'
    (l ++ ls, g'', x'')

def clArg (pm : PassMode) (g x : Nat) : List Loc × Nat × Nat :=
  match pm with
  | .cast tys => clParams tys g x
  | .direct ty => clParam ty g x
  | .indirect (some n) => ([.stack n], g, x)
  | .indirect none => clParam .i64 g x

def clArgs : List (PassMode × Nat) → Nat → Nat → List (Nat × List Loc)
  | [], _, _ => []
  | (pm, idx) :: rest, g, x =>
    let (l, g', x') := clArg pm g x
    (idx, l) :: clArgs rest g' x'

/-- result registers: integer-typed results rax, rdx (`gpr 0`, `gpr 1`), float-typed xmm0, xmm1 -/
def clRets : List IrTy → Nat → Nat → List Loc
  | [], _, _ => []
  | ty :: rest, g, x =>
    if ty.isFloat then .xmm x :: clRets rest g (x + 1) else .gpr g :: clRets rest (g + 1) x

/-- how a function result travels -/
inductive RetLoc where
  | none
  | regs (l : List Loc)
  /-- hidden pointer in the first integer argument register; the callee writes the value there -/
  | sret
  deriving DecidableEq, Repr

structure Assignment where
  ret : RetLoc
  args : List (Nat × List Loc)
  deriving DecidableEq, Repr

/-- `FnAbi::to_cl` followed by Cranelift's register assignment -/
def clAssign (abi : FnAbi) : Assignment :=
  match abi.ret with
  | none => { ret := .none, args := clArgs abi.args 0 0 }
  | some (.indirect _) => { ret := .sret, args := clArgs abi.args 1 0 }
  | some (.cast tys) => { ret := .regs (clRets tys 0 0), args := clArgs abi.args 0 0 }
  | some (.direct ty) => { ret := .regs (clRets [ty] 0 0), args := clArgs abi.args 0 0 }

end CapyV.Abi
