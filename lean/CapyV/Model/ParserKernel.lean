import CapyV.Generated.Tokens
/-
C23 — model of the parser *kernel* (`crates/parser/src/parser.rs`: `skip_trivia`, `bump`,
`at_eof`) and of the sink (`crates/parser/src/sink.rs`: `Sink::finish`, `process_event`,
`skip_trivia`, `add_token`). The 1 500-line grammar is not modelled: it is an arbitrary
client of the kernel, and what it must respect is checked on every real trace by the harness.

Tokens are abstracted to their trivia class; a token is identified by its index.
-/
namespace CapyV.ParserKernel
open CapyV.Tokens

/-- how the parser and the sink classify a token kind -/
inductive Cls where
  | ws        -- `TokenKind::Whitespace`
  | leader    -- `TokenKind::CommentLeader`
  | contents  -- `TokenKind::CommentContents`
  | other
  deriving DecidableEq, Repr

def classify : TokenKind → Cls
  | .Whitespace => .ws
  | .CommentLeader => .leader
  | .CommentContents => .contents
  | _ => .other

def Cls.isTrivia : Cls → Bool
  | .other => false
  | _ => true

/-- parser events (`event.rs`) -/
inductive Ev where
  | start (kind : Nat)
  | finish
  | add
  deriving DecidableEq, Repr

/-- what the sink tells the tree builder -/
inductive Out where
  | start (kind : Nat)
  | finish
  | tok (idx : Nat)
  deriving DecidableEq, Repr

/-- sink state: the tokens not yet added, the index of the first of them, and the builder
calls so far (newest first) -/
structure Sink where
  rest : List Cls
  idx : Nat
  out : List Out
  deriving DecidableEq, Repr

/-- `Sink::skip_trivia`, first loop (`commentKind` = `NodeKind::Comment`) -/
def skipTriviaLoop (commentKind : Nat) : List Cls → Nat → List Out → Sink
  | .ws :: r, i, o => skipTriviaLoop commentKind r (i + 1) (.tok i :: o)
  | .leader :: r, i, o =>
    -- start_node(Comment); add_token(); finish unless the next token is the contents
    match r with
    | .contents :: _ => skipTriviaLoop commentKind r (i + 1) (.tok i :: .start commentKind :: o)
    | _ => skipTriviaLoop commentKind r (i + 1) (.finish :: .tok i :: .start commentKind :: o)
  | .contents :: r, i, o => skipTriviaLoop commentKind r (i + 1) (.finish :: .tok i :: o)
  | rest, i, o => ⟨rest, i, o⟩

/-- `Sink::skip_trivia`, second loop (adds any remaining trivia; never iterates after the first) -/
def skipTriviaRest : List Cls → Nat → List Out → Sink
  | c :: r, i, o => if c.isTrivia then skipTriviaRest r (i + 1) (.tok i :: o) else ⟨c :: r, i, o⟩
  | [], i, o => ⟨[], i, o⟩

def skipTrivia (commentKind : Nat) (s : Sink) : Sink :=
  let s1 := skipTriviaLoop commentKind s.rest s.idx s.out
  skipTriviaRest s1.rest s1.idx s1.out

/-- `Sink::process_event`; `none` = `tokens.kind(idx)` out of bounds in `add_token` (panic) -/
def processEvent (s : Sink) : Ev → Option Sink
  | .start k => some { s with out := .start k :: s.out }
  | .finish => some { s with out := .finish :: s.out }
  | .add =>
    match s.rest with
    | [] => none
    | _ :: r => some ⟨r, s.idx + 1, .tok s.idx :: s.out⟩

/-- the `while current != last` loop of `Sink::finish` followed by the handling of the last
event: every event but the last is processed and followed by `skip_trivia` iff the NEXT event
is `StartNode`/`AddToken`; before the last event `skip_trivia` runs unconditionally. -/
def runEvents (commentKind : Nat) : List Ev → Sink → Option Sink
  | [], s => some s
  | [last], s => processEvent (skipTrivia commentKind s) last
  | e :: next :: more, s =>
    match processEvent s e with
    | none => none
    | some s' =>
      let s'' := match next with
        | .finish => s'
        | _ => skipTrivia commentKind s'
      runEvents commentKind (next :: more) s''

/-- `Sink::finish`: the two `assert!`s, then the loop. Result: builder calls in order and the
number of tokens added. -/
def sinkFinish (commentKind : Nat) (toks : List Cls) (events : List Ev) : Option (List Out × Nat) :=
  match events.head?, events.getLast? with
  | some (.start _), some .finish =>
    (runEvents commentKind events ⟨toks, 0, []⟩).map fun s => (s.out.reverse, s.idx)
  | _, _ => none

/-! ### the parser side of the kernel -/

/-- `Parser::skip_trivia` on the remaining tokens -/
def pSkipTrivia : List Cls → Nat → List Cls × Nat
  | c :: r, i => if c.isTrivia then pSkipTrivia r (i + 1) else (c :: r, i)
  | [], i => ([], i)

/-- operations a grammar function can perform on `(token_idx, events)` -/
inductive KOp where
  /-- `at` / `at_set` / `at_eof` / `kind` / `peek`: all start with `skip_trivia` -/
  | look
  /-- `bump` (as of the `fix:` commit: `skip_trivia` first, then one token) -/
  | bump
  /-- `start` + `complete` / `precede`: only touch `events` -/
  | marker
  deriving DecidableEq, Repr

structure PState where
  rest : List Cls
  idx : Nat
  /-- number of `AddToken` events pushed -/
  adds : Nat
  /-- the token indices that were bumped, newest first (the hook's `bump_log`) -/
  bumps : List Nat
  deriving DecidableEq, Repr

/-- `none` = `bump` with no token left: the parser's `token_idx` runs past the end and the sink
later panics -/
def kstep (s : PState) : KOp → Option PState
  | .look => let (r, i) := pSkipTrivia s.rest s.idx; some { s with rest := r, idx := i }
  | .marker => some s
  | .bump =>
    match pSkipTrivia s.rest s.idx with
    | ([], _) => none
    | (_ :: r, i) => some ⟨r, i + 1, s.adds + 1, i :: s.bumps⟩

def krun : List KOp → PState → Option PState
  | [], s => some s
  | op :: ops, s =>
    match kstep s op with
    | none => none
    | some s' => krun ops s'

/-- `at_eof()` -/
def PState.atEof (s : PState) : Bool := (pSkipTrivia s.rest s.idx).1.isEmpty

def countOther (toks : List Cls) : Nat := (toks.filter fun c => !c.isTrivia).length
def countAdd (events : List Ev) : Nat := (events.filter fun e => e == .add).length

/-! ### the progress guard of the grammar's list loops (`fix:` commit)
`loop { let start = p.token_idx; …body…; if p.token_idx == start { break; } }` -/

/-- runs `body` (a function on `token_idx` that never decreases it and stays ≤ `bound`) until
it makes no progress; returns the number of iterations performed, given enough fuel -/
def guardedLoop (body : Nat → Nat) : Nat → Nat → Nat × Nat
  | 0, idx => (0, idx)
  | fuel + 1, idx =>
    let idx' := body idx
    if idx' = idx then (1, idx') else
      let (n, final) := guardedLoop body fuel idx'
      (n + 1, final)

end CapyV.ParserKernel
