/-
C08 — model of Capy's numeric code generation.

Transcribed from
* `/repo/crates/codegen/src/convert.rs`          `NumberType`, `calc_single` / `finalize_int`
* `/repo/crates/codegen/src/compiler/functions.rs` `compile_num_binary`, `Expr::Unary`
* `/repo/crates/codegen/src/compiler/mod.rs`       `cast_num` (after the `fix:` commit; the pinned
  version is kept as `castNumPinned` so that its defects are theorems too)

Cranelift integer instructions are functions on `BitVec w` (w = 8,16,32,64,128 in practice,
but everything is width-generic).  Floats are *not* computed (Lean's `Float` is opaque):
a float value is abstracted to `FVal` = the mathematical integer it truncates to, or
NaN / ±∞.  `fcvt_to_{s,u}int_sat` is a clamp of that integer, `fcvt_from_{s,u}int` yields
the integer value of the operand *it is given* (so a wrong pre-conversion is visible); the
rounding to the nearest representable float is Cranelift's / the CPU's and is checked
end to end against the host's IEEE conversion.
-/
import CapyV.Model.Ty
namespace CapyV.Num

/-- `codegen::convert::NumberType` (`ty` reduced to its bit width). -/
structure NumTy where
  bits : Nat
  float : Bool
  signed : Bool
  deriving DecidableEq, Repr

/-- The part of `FinalTy` C08 talks about. -/
inductive FinalTy where
  | number (t : NumTy)
  /-- `FinalTy::Pointer(_)` / `FinalTy::Void` (not numeric) -/
  | other
  deriving DecidableEq, Repr

/-- the `finalize_int` closure of `calc_single`; `none` = `unreachable!()` -/
def finalizeInt (ptrBits : Nat) (bitWidth : Nat) (signed : Bool) : Option FinalTy :=
  if bitWidth = 255 then some (.number ⟨ptrBits, false, signed⟩)
  else if bitWidth = 0 then some (.number ⟨32, false, true⟩)
  else if bitWidth = 8 then some (.number ⟨8, false, signed⟩)
  else if bitWidth = 16 then some (.number ⟨16, false, signed⟩)
  else if bitWidth = 32 then some (.number ⟨32, false, signed⟩)
  else if bitWidth = 64 then some (.number ⟨64, false, signed⟩)
  else if bitWidth = 128 then some (.number ⟨128, false, signed⟩)
  else none

/-- `calc_single` restricted to the arms that can produce `FinalTy::Number`
(every other arm is `other`); `none` = `unreachable!()`. The leading
`_ if ty.is_zero_sized() => Void` arm never fires for the numeric arms. -/
def finalTy (ptrBits : Nat) : Ty → Option FinalTy
  | .iint w => finalizeInt ptrBits w true
  | .uint w => if w = 0 then finalizeInt ptrBits 0 true else finalizeInt ptrBits w false
  | .float w =>
    if w = 0 then some (.number ⟨32, true, true⟩)
    else if w = 32 then some (.number ⟨32, true, true⟩)
    else if w = 64 then some (.number ⟨64, true, true⟩)
    else none
  | .bool => some (.number ⟨8, false, false⟩)
  | .char => some (.number ⟨8, false, false⟩)
  | .distinct _ s => finalTy ptrBits s
  | .enumVariant _ _ _ s _ => finalTy ptrBits s
  | .type => some (.number ⟨32, false, false⟩)
  | _ => some .other

/-! ### Cranelift integer instructions -/

/-- result of one compiled numeric operation -/
inductive Res (w : Nat) where
  | val (v : BitVec w)
  /-- an `icmp` result (an `i8` holding 0 or 1) -/
  | flag (b : Bool)
  /-- the machine instruction faults (x86 `div`/`idiv`: divisor 0, or MIN / -1) -/
  | trap
  /-- the Rust code reaches `unreachable!()` -/
  | unreachable
  /-- a float instruction (`fadd`, `fcmp`, …): not computed by this model -/
  | floatOp
  deriving DecidableEq, Repr

def iadd (a b : BitVec w) : BitVec w := a + b
def isub (a b : BitVec w) : BitVec w := a - b
def imul (a b : BitVec w) : BitVec w := a * b
def ineg (a : BitVec w) : BitVec w := -a
def band (a b : BitVec w) : BitVec w := a &&& b
def bor (a b : BitVec w) : BitVec w := a ||| b
def bxor (a b : BitVec w) : BitVec w := a ^^^ b
def bnot (a : BitVec w) : BitVec w := ~~~a

/-- Cranelift shifts take the amount modulo the width of the shifted value. -/
def shamt (b : BitVec w) : Nat := b.toNat % w
def ishl (a b : BitVec w) : BitVec w := a <<< shamt b
def ushr (a b : BitVec w) : BitVec w := a >>> shamt b
def sshr (a b : BitVec w) : BitVec w := a.sshiftRight (shamt b)

def udiv (a b : BitVec w) : Res w :=
  if b = 0#w then .trap else .val (a / b)
def sdiv (a b : BitVec w) : Res w :=
  if b = 0#w then .trap
  else if a = BitVec.intMin w ∧ b = BitVec.allOnes w then .trap
  else .val (a.sdiv b)
def urem (a b : BitVec w) : Res w :=
  if b = 0#w then .trap else .val (a % b)
/-- `srem MIN -1` is 0 in Cranelift (the x64 lowering special-cases it) -/
def srem (a b : BitVec w) : Res w :=
  if b = 0#w then .trap else .val (a.srem b)

inductive IntCC where
  | eq | ne | slt | sgt | sle | sge | ult | ugt | ule | uge
  deriving DecidableEq, Repr

def icmp (cc : IntCC) (a b : BitVec w) : Bool :=
  match cc with
  | .eq => a == b
  | .ne => a != b
  | .slt => a.slt b
  | .sgt => b.slt a
  | .sle => a.sle b
  | .sge => b.sle a
  | .ult => a.ult b
  | .ugt => b.ult a
  | .ule => a.ule b
  | .uge => b.ule a

/-- `hir::BinaryOp` without `LAnd`/`LOr` (those never reach `compile_num_binary`) -/
inductive BinOp where
  | add | sub | mul | div | mod | lt | gt | le | ge | eq | ne | band | bor | xor | shl | shr
  deriving DecidableEq, Repr

/-- `compile_num_binary`, integer half, arm by arm. -/
def numBinary (op : BinOp) (ty : NumTy) (lhs rhs : BitVec w) : Res w :=
  if ty.float then .floatOp
  else
    match op with
    | .add => .val (iadd lhs rhs)
    | .sub => .val (isub lhs rhs)
    | .mul => .val (imul lhs rhs)
    | .div => if ty.signed then sdiv lhs rhs else udiv lhs rhs
    | .mod => if ty.signed then srem lhs rhs else urem lhs rhs
    | .lt => if ty.signed then .flag (icmp .slt lhs rhs) else .flag (icmp .ult lhs rhs)
    | .gt => if ty.signed then .flag (icmp .sgt lhs rhs) else .flag (icmp .ugt lhs rhs)
    | .le => if ty.signed then .flag (icmp .sle lhs rhs) else .flag (icmp .ule lhs rhs)
    | .ge => if ty.signed then .flag (icmp .sge lhs rhs) else .flag (icmp .uge lhs rhs)
    | .eq => .flag (icmp .eq lhs rhs)
    | .ne => .flag (icmp .ne lhs rhs)
    | .band => .val (band lhs rhs)
    | .bor => .val (bor lhs rhs)
    | .xor => .val (bxor lhs rhs)
    | .shl => .val (ishl lhs rhs)
    | .shr => if ty.signed then .val (sshr lhs rhs) else .val (ushr lhs rhs)

inductive UnOp where
  | pos | neg | bnot | lnot
  deriving DecidableEq, Repr

/-- `Expr::Unary` in `compile_expr_with_args`, integer half. -/
def numUnary (op : UnOp) (ty : NumTy) (e : BitVec w) : Res w :=
  if ty.float then
    match op with
    | .pos => .floatOp
    | .neg => .floatOp
    | .bnot => .floatOp
    | .lnot => .unreachable
  else
    match op with
    | .pos => .val e
    | .neg => .val (ineg e)
    | .bnot => .val (bnot e)
    | .lnot => .flag (icmp .eq e 0#w)

/-! ### Casts -/

/-- A float, abstracted to the integer it truncates to (toward zero). -/
inductive FVal where
  | fin (z : Int)
  | nan
  | pinf
  | ninf
  deriving DecidableEq, Repr

inductive Val where
  | i (w : Nat) (v : BitVec w)
  | f (x : FVal)
  deriving DecidableEq, Repr

inductive CastRes where
  | ok (v : Val)
  /-- the value handed in does not have the declared source type (Cranelift's verifier would
  reject the function) -/
  | illTyped
  /-- the Rust code reaches `unreachable!()` -/
  | unreachable
  /-- `fdemote`: rounds; not expressible on `FVal` -/
  | notModelled
  deriving DecidableEq, Repr

def uextend (to : Nat) (v : BitVec w) : BitVec to := v.setWidth to
def sextend (to : Nat) (v : BitVec w) : BitVec to := v.signExtend to
def ireduce (to : Nat) (v : BitVec w) : BitVec to := v.setWidth to

def clamp (lo hi z : Int) : Int := if z < lo then lo else if hi < z then hi else z

def sMin (w : Nat) : Int := -(2 ^ (w - 1))
def sMax (w : Nat) : Int := 2 ^ (w - 1) - 1
def uMax (w : Nat) : Int := 2 ^ w - 1

/-- `fcvt_to_sint_sat`: NaN ↦ 0, otherwise truncate toward zero and saturate. -/
def fcvtToSintSat (w : Nat) : FVal → BitVec w
  | .nan => 0#w
  | .pinf => BitVec.ofInt w (sMax w)
  | .ninf => BitVec.ofInt w (sMin w)
  | .fin z => BitVec.ofInt w (clamp (sMin w) (sMax w) z)

/-- `fcvt_to_uint_sat` -/
def fcvtToUintSat (w : Nat) : FVal → BitVec w
  | .nan => 0#w
  | .pinf => BitVec.ofInt w (uMax w)
  | .ninf => 0#w
  | .fin z => BitVec.ofInt w (clamp 0 (uMax w) z)

/-- `fcvt_from_sint`: the float nearest to the *signed* value of the operand it is given. -/
def fcvtFromSint (v : BitVec w) : FVal := .fin v.toInt
/-- `fcvt_from_uint` -/
def fcvtFromUint (v : BitVec w) : FVal := .fin (v.toNat : Int)

/-- the intermediate integer type of a float conversion: `8 | 16 | 32 => I32, _ => I64` -/
def convWidth (bits : Nat) : Nat := if bits = 8 ∨ bits = 16 ∨ bits = 32 then 32 else 64

/-- `cast_num` (after the fix), arm by arm. -/
def castNum (castFrom castTo : NumTy) (val : Val) : CastRes :=
  if castFrom.bits = castTo.bits ∧ castFrom.float = castTo.float then
    -- "the cast is irrelevant, so just return the value"
    .ok val
  else
    match castFrom.float, castTo.float, val with
    | true, true, .f x =>
      -- float to float
      if castFrom.bits < castTo.bits then .ok (.f x)      -- fpromote is exact
      else if castFrom.bits = castTo.bits then .ok (.f x)
      else .notModelled                                   -- fdemote rounds
    | true, false, .f x =>
      -- float to int: convert at a width chosen by the TARGET, then adjust
      let intTo := convWidth castTo.bits
      let firstCast : BitVec intTo :=
        if castTo.signed then fcvtToSintSat intTo x else fcvtToUintSat intTo x
      if intTo < castTo.bits then
        if castTo.signed then .ok (.i castTo.bits (sextend castTo.bits firstCast))
        else .ok (.i castTo.bits (uextend castTo.bits firstCast))
      else if intTo = castTo.bits then .ok (.i intTo firstCast)
      else .ok (.i castTo.bits (ireduce castTo.bits firstCast))
    | false, true, .i w v =>
      -- int to float: bring the int to a width chosen by the SOURCE, extending by the
      -- source's signedness, then convert
      if w ≠ castFrom.bits then .illTyped else
      let intTo := convWidth castFrom.bits
      let firstCast : BitVec intTo :=
        if castFrom.bits < intTo then
          if castFrom.signed then sextend intTo v else uextend intTo v
        else if castFrom.bits = intTo then v.setWidth intTo   -- `Equal => val`
        else ireduce intTo v
      if castFrom.signed then .ok (.f (fcvtFromSint firstCast))
      else .ok (.f (fcvtFromUint firstCast))
    | false, false, .i w v =>
      -- int to int
      if w ≠ castFrom.bits then .illTyped else
      if castFrom.bits < castTo.bits then
        if castFrom.signed then .ok (.i castTo.bits (sextend castTo.bits v))
        else .ok (.i castTo.bits (uextend castTo.bits v))
      else if castFrom.bits = castTo.bits then .ok (.i w v)
      else .ok (.i castTo.bits (ireduce castTo.bits v))
    | _, _, _ => .illTyped

/-- `cast_num` as pinned (before the fix): extension chosen by `from.signed && to.signed`,
the intermediate width of int→float taken from the *target*, of float→int from the *source*. -/
def castNumPinned (castFrom castTo : NumTy) (val : Val) : CastRes :=
  if castFrom.bits = castTo.bits ∧ castFrom.float = castTo.float then .ok val
  else
    match castFrom.float, castTo.float, val with
    | true, true, .f x =>
      if castFrom.bits ≤ castTo.bits then .ok (.f x) else .notModelled
    | true, false, .f x =>
      if castFrom.bits ≠ 32 ∧ castFrom.bits ≠ 64 then .unreachable else
      let intTo := castFrom.bits
      let firstCast : BitVec intTo :=
        if castTo.signed then fcvtToSintSat intTo x else fcvtToUintSat intTo x
      if castFrom.bits < castTo.bits then
        if castTo.signed then .ok (.i castTo.bits (sextend castTo.bits firstCast))
        else .ok (.i castTo.bits (uextend castTo.bits firstCast))
      else if castFrom.bits = castTo.bits then .ok (.i intTo firstCast)
      else .ok (.i castTo.bits (ireduce castTo.bits firstCast))
    | false, true, .i w v =>
      if w ≠ castFrom.bits then .illTyped else
      if castTo.bits ≠ 32 ∧ castTo.bits ≠ 64 then .unreachable else
      let intTo := castTo.bits
      let firstCast : BitVec intTo :=
        if castFrom.bits < castTo.bits then
          if castFrom.signed && castTo.signed then sextend intTo v else uextend intTo v
        else if castFrom.bits = castTo.bits then v.setWidth intTo
        else ireduce intTo v
      if castFrom.signed then .ok (.f (fcvtFromSint firstCast))
      else .ok (.f (fcvtFromUint firstCast))
    | false, false, .i w v =>
      if w ≠ castFrom.bits then .illTyped else
      if castFrom.bits < castTo.bits then
        if castFrom.signed && castTo.signed then .ok (.i castTo.bits (sextend castTo.bits v))
        else .ok (.i castTo.bits (uextend castTo.bits v))
      else if castFrom.bits = castTo.bits then .ok (.i w v)
      else .ok (.i castTo.bits (ireduce castTo.bits v))
    | _, _, _ => .illTyped

/-! ### Reading values (used by the specification) -/

/-- the integer a bit pattern denotes under a signedness -/
def valOf (signed : Bool) (v : BitVec w) : Int :=
  if signed then v.toInt else (v.toNat : Int)

/-- the representative of `z` modulo `2^bits` in the range of the type -/
def wrap (bits : Nat) (signed : Bool) (z : Int) : Int :=
  if signed then z.bmod (2 ^ bits) else z % (2 ^ bits : Int)

/-- `z` is a value of the integer type -/
def fits (bits : Nat) (signed : Bool) (z : Int) : Prop :=
  if signed then sMin bits ≤ z ∧ z ≤ sMax bits else 0 ≤ z ∧ z ≤ uMax bits

instance : Decidable (fits bits signed z) := by unfold fits; infer_instance

def Val.width : Val → Nat
  | .i w _ => w
  | .f _ => 0

def Val.int (signed : Bool) : Val → Option Int
  | .i _ v => some (valOf signed v)
  | .f _ => none

end CapyV.Num
