import CapyV.Model.Ty
/-!
# The type relations of `hir::common::Ty` (`/repo/crates/hir/src/common/ty.rs`)

`is_functionally_equivalent_to`, `can_fit_into`, `is_weak_replaceable_by`, `can_cast_to`,
`has_semantics_of`, `max`, transcribed ARM BY ARM IN THE SAME ORDER as the Rust `match`
(the first matching arm wins in both languages).

Recursion is well-founded on `a.nodes + b.nodes` (the relations recurse on either side).
Concrete witnesses are evaluated by `simp` with the equation lemmas (`decide` does not
unfold well-founded recursion).

Conventions
* bit widths are `Nat` (the code: `u8`); the only arithmetic is `w * 2` under `w < 64`.
* `FxHashMap` built by `collect()` from a member list = lookup of the LAST member with that
  name (`Members.lookupLast`); iteration order of the map is irrelevant because the loops
  only compute a conjunction of pure tests.
* `max` consults the thread-local `ENUM_MAP`; the model takes it as `tbl : Nat → Option Ty`
  and returns `.panic` where `get_enum_from_uid(..).unwrap()` would panic.
-/
namespace CapyV

namespace Members
/-- `FxHashMap::from_iter(members).get(name)`: the last member with that name wins. -/
def lookupLast (name : Nat) : Members → Option Ty
  | .nil => none
  | .cons n t r =>
    match lookupLast name r with
    | some t' => some t'
    | none => if n = name then some t else none

def hasName (name : Nat) : Members → Bool
  | .nil => false
  | .cons n _ r => n == name || hasName name r

/-- every name of `xs` occurs in `ys` -/
def namesSubset (xs ys : Members) : Bool :=
  match xs with
  | .nil => true
  | .cons n _ r => ys.hasName n && namesSubset r ys

theorem lookupLast_nodes {name : Nat} : ∀ {ms : Members} {t : Ty},
    lookupLast name ms = some t → t.nodes < ms.nodes
  | .nil, _, h => by simp [lookupLast] at h
  | .cons n t' r, t, h => by
    simp only [lookupLast] at h
    simp only [Members.nodes]
    split at h
    · rename_i t'' h'
      cases h
      have := lookupLast_nodes h'
      omega
    · split at h
      · cases h; omega
      · cases h
end Members

namespace Ty

/-- `matches!((found_mutable, expected_mutable), (true, _) | (false, false))` -/
def mutOk (found expected : Bool) : Bool :=
  match found, expected with
  | true, _ => true
  | false, false => true
  | _, _ => false

mutual
/-- `Ty::is_functionally_equivalent_to(self, other, self_can_lose_distinction)` -/
def isFuncEquiv (a b : Ty) (lose : Bool) : Bool :=
  match a, b with
  | .concreteArray n s, .concreteArray m t | .concreteArray n s, .anonArray m t
  | .anonArray n s, .concreteArray m t | .anonArray n s, .anonArray m t =>
    n == m && isFuncEquiv s t lose
  | .pointer ma s, .pointer mb t => ma == mb && isFuncEquiv s t lose
  | .slice s, .slice t => isFuncEquiv s t lose
  | .distinct _ s, .distinct _ t => isFuncEquiv s t lose
  | .distinct _ s, other => lose && isFuncEquiv s other lose
  | other, .distinct _ t => isFuncEquiv other t lose
  | .enumVariant _ _ _ s _, .enumVariant _ _ _ t _ => isFuncEquiv s t lose
  | .enumVariant _ _ _ s _, other => lose && isFuncEquiv s other lose
  | other, .enumVariant _ _ _ t _ => isFuncEquiv other t lose
  | .concreteStruct _ ms, .concreteStruct _ ns | .concreteStruct _ ms, .anonStruct ns
  | .anonStruct ms, .concreteStruct _ ns | .anonStruct ms, .anonStruct ns =>
    ms.length == ns.length && membersFuncEquiv ms ns lose
  | .optional s, .optional t => isFuncEquiv s t lose
  | .errorUnion e p, .errorUnion e' p' => isFuncEquiv e e' lose && isFuncEquiv p p' lose
  | .concreteFn ps r _, .fnPointer qs r' | .fnPointer ps r, .concreteFn qs r' _ =>
    ps == qs && r == r'
  | first, second => first == second
termination_by a.nodes + b.nodes
decreasing_by all_goals (simp only [Ty.nodes]; omega)

/-- `zip_eq(..).all(|(f, s)| f.name == s.name && f.ty.is_functionally_equivalent_to(s.ty))`
(only evaluated when the lengths agree) -/
def membersFuncEquiv (ms ns : Members) (lose : Bool) : Bool :=
  match ms, ns with
  | .cons n t r, .cons n' t' r' => n == n' && isFuncEquiv t t' lose && membersFuncEquiv r r' lose
  | _, _ => true
termination_by ms.nodes + ns.nodes
decreasing_by all_goals (simp only [Members.nodes]; omega)
end

mutual
/-- `Ty::can_fit_into(self, expected)` -/
def canFitInto (a b : Ty) : Bool :=
  if a = b then true else
  match a, b with
  | .unknown, _ | _, .unknown => true
  | .alwaysJumps, _ => true
  | .iint f, .iint e | .uint f, .uint e => e == 0 || f ≤ e
  | .iint _, .uint 0 => true
  | .iint _, .uint _ => false
  | .uint f, .iint e => e == 0 || f < e
  | .iint f, .float e | .uint f, .float e => f == 0 || f < e
  | .float f, .float e => e == 0 || f ≤ e
  | .pointer fm fs, .pointer em es =>
    mutOk fm em && ((fs.mightBeWeak && isWeakReplaceableBy fs es) || isFuncEquiv fs es false)
  | .pointer fm ft, .rawPtr em => mutOk fm em && !ft.mightBeWeak
  | .rawPtr fm, .rawPtr em => mutOk fm em
  | .slice f, .slice e => isFuncEquiv f e false
  | .slice f, .rawSlice => !f.mightBeWeak
  | .anonArray _ f, .slice e => canFitInto f e
  | .concreteArray _ f, .slice e => isFuncEquiv f e false
  | .anonArray n f, .concreteArray m e | .concreteArray n f, .concreteArray m e =>
    n == m && canFitInto f e
  | _, .any => true
  | .concreteStruct u _, .concreteStruct u' _ => u == u'
  | .anonStruct fm, .concreteStruct _ em =>
    if fm.length != em.length then false
    else membersFitInto fm em && em.namesSubset fm
  | .distinct u _, .distinct u' _ => u == u'
  | found, .distinct _ ty => canFitInto found ty
  | .enumVariant _ _ u _ _, .enumVariant _ _ u' _ _ => u == u'
  | .enumVariant eu _ _ _ _, .enum uid _ => eu == uid
  | .nil, .optional _ => true
  | .optional f, .optional e => canFitInto f e
  | found, .optional s => canFitInto found s
  | .errorUnion fe fp, .errorUnion ee ep => canFitInto fe ee && canFitInto fp ep
  | found, .errorUnion e p => canFitInto found e || canFitInto found p
  | .naivePolyFn _, .concreteFn ps _ _ => ps.anyComptime
  | .concreteFn ps r _, .fnPointer qs r' => ps == qs && r == r'
  | found, expected => isFuncEquiv found expected false
termination_by 2 * (a.nodes + b.nodes)
decreasing_by all_goals (simp only [Ty.nodes]; omega)

/-- the first loop of the `(AnonStruct, ConcreteStruct)` arm: every found member is looked up
BY NAME in the map built from the expected members and must fit the type found there -/
def membersFitInto (fs em : Members) : Bool :=
  match fs with
  | .nil => true
  | .cons name fty rest =>
    (match h : em.lookupLast name with
     | none => false
     | some ety => canFitInto fty ety) && membersFitInto rest em
termination_by 2 * (fs.nodes + em.nodes) + 1
decreasing_by
  · have := Members.lookupLast_nodes h
    simp only [Members.nodes]; omega
  · simp only [Members.nodes]; omega

/-- `Ty::is_weak_replaceable_by(self, expected)` -/
def isWeakReplaceableBy (a b : Ty) : Bool :=
  match a, b with
  | .iint 0, .iint bw | .uint 0, .uint bw => bw != 0
  | .uint 0, .iint _ => true
  | .iint 0, .float _ | .uint 0, .float _ => true
  | .float 0, .float bw => bw != 0
  | .anonArray n fs, .concreteArray m es =>
    n == m && (isWeakReplaceableBy fs es || isFuncEquiv fs es false)
  | .anonArray _ fs, .slice es => isWeakReplaceableBy fs es || isFuncEquiv fs es false
  | .slice fs, .slice es => isFuncEquiv fs es false
  | .pointer fm fs, .pointer em es =>
    mutOk fm em && fs.mightBeWeak && isWeakReplaceableBy fs es
  | .concreteStruct u ms, .concreteStruct u' ns =>
    canFitInto (.concreteStruct u ms) (.concreteStruct u' ns)
  | .anonStruct ms, .concreteStruct u' ns => canFitInto (.anonStruct ms) (.concreteStruct u' ns)
  | found, .distinct _ ty => isWeakReplaceableBy found ty
  | .optional fs, .optional es => isWeakReplaceableBy fs es
  | found, .optional es => isWeakReplaceableBy found es
  | .naivePolyFn _, .concreteFn ps _ _ => ps.anyComptime
  | _, _ => false
termination_by 2 * (a.nodes + b.nodes) + 1
decreasing_by all_goals (simp only [Ty.nodes]; omega)
end

/-- `Ty::has_semantics_of(self, expected)`.  An arm either returns (`some r`) or leaves the
`match` (`none`: an `if` without `else`, or the `_ => {}` arm); after the `match` the code
returns `self.can_fit_into(expected)`. -/
def hasSemanticsOf (a b : Ty) : Bool :=
  let early : Option Bool :=
    match a, b with
    | .distinct _ ty, .iint 0 | .distinct _ ty, .uint 0
    | .enumVariant _ _ _ ty _, .iint 0 | .enumVariant _ _ _ ty _, .uint 0 =>
      if hasSemanticsOf ty b then some true else none
    | .distinct _ _, .iint _ | .distinct _ _, .uint _
    | .enumVariant _ _ _ _ _, .iint _ | .enumVariant _ _ _ _ _, .uint _ => some false
    | .distinct u _, .distinct u' _ => if u == u' then some true else none
    | .enumVariant _ _ u _ _, .enumVariant _ _ u' _ _ => if u == u' then some true else none
    | .distinct _ s, expected | .enumVariant _ _ _ s _, expected =>
      if hasSemanticsOf s expected then some true else none
    | _, _ => none
  match early with
  | some r => r
  | none => canFitInto a b
termination_by a.nodes
decreasing_by all_goals (simp only [Ty.nodes]; omega)

/-- `matches!(sub_ty.as_ref(), Ty::Char | Ty::UInt(8))` -/
def isCharOrU8 : Ty → Bool
  | .char => true
  | .uint 8 => true
  | _ => false

/-- the first alternative of the first arm of `can_cast_to` -/
def isCastPrimitive : Ty → Bool
  | .bool | .iint _ | .uint _ | .float _ | .char => true
  | _ => false

mutual
/-- `Ty::can_cast_to(self, cast_into)`.  The only guarded arm, `(other, Ty::Type) if
other.is_zero_sized()`, is written as an `if` whose `else` is what the remaining arms give for
`(other, Type)` (only the final `_` arm can still match). -/
def canCastTo (a b : Ty) : Bool :=
  if canFitInto a b then true else
  match a, b with
  | .bool, .bool | .bool, .iint _ | .bool, .uint _ | .bool, .float _ | .bool, .char
  | .iint _, .bool | .iint _, .iint _ | .iint _, .uint _ | .iint _, .float _ | .iint _, .char
  | .uint _, .bool | .uint _, .iint _ | .uint _, .uint _ | .uint _, .float _ | .uint _, .char
  | .float _, .bool | .float _, .iint _ | .float _, .uint _ | .float _, .float _ | .float _, .char
  | .char, .bool | .char, .iint _ | .char, .uint _ | .char, .float _ | .char, .char => true
  | .distinct _ f, .distinct _ t => canCastTo f t
  | .distinct _ f, t => canCastTo f t
  | f, .distinct _ t => canCastTo f t
  | .enumVariant _ _ _ f _, .enumVariant _ _ _ t _ => canCastTo f t
  | .enumVariant _ _ _ f _, t => canCastTo f t
  | f, .enumVariant _ _ _ t _ => canCastTo f t
  | .pointer fm fs, .pointer em es => mutOk fm em && (fs == es || isWeakReplaceableBy fs es)
  | .pointer fm _, .rawPtr em | .rawPtr fm, .pointer em _ | .rawPtr fm, .rawPtr em => mutOk fm em
  | .string, .pointer false sub | .pointer false sub, .string => isCharOrU8 sub
  | .string, .rawPtr false | .rawPtr false, .string => true
  | .string, .concreteArray _ sub | .string, .anonArray _ sub
  | .concreteArray _ sub, .string | .anonArray _ sub, .string => isCharOrU8 sub
  | .slice f, .slice t => f == t || isWeakReplaceableBy f t
  | .slice _, .rawSlice | .rawSlice, .slice _ | .rawSlice, .rawSlice => true
  | .concreteArray _ f, .slice t | .anonArray _ f, .slice t
  | .slice f, .concreteArray _ t | .slice f, .anonArray _ t => canCastTo f t
  | .concreteArray n f, .concreteArray m e | .concreteArray n f, .anonArray m e
  | .anonArray n f, .concreteArray m e | .anonArray n f, .anonArray m e =>
    n == m && canCastTo f e
  | found, .any => !found.mightBeWeak
  | .concreteStruct _ fm, .concreteStruct _ em | .concreteStruct _ fm, .anonStruct em
  | .anonStruct fm, .concreteStruct _ em | .anonStruct fm, .anonStruct em =>
    if fm.length != em.length then false
    else membersCastTo fm em && em.namesSubset fm
  | other, .type => if other.isZeroSized then true else isFuncEquiv other .type true
  | .nil, .optional _ => true
  | .optional l, .optional r => canCastTo l r
  | other, .optional s => canCastTo other s
  | _, _ => isFuncEquiv a b true
termination_by 2 * (a.nodes + b.nodes)
decreasing_by all_goals (simp only [Ty.nodes]; omega)

def membersCastTo (fs em : Members) : Bool :=
  match fs with
  | .nil => true
  | .cons name fty rest =>
    (match h : em.lookupLast name with
     | none => false
     | some ety => canCastTo fty ety) && membersCastTo rest em
termination_by 2 * (fs.nodes + em.nodes) + 1
decreasing_by
  · have := Members.lookupLast_nodes h
    simp only [Members.nodes]; omega
  · simp only [Members.nodes]; omega
end

/-- outcome of `Ty::max`: it can panic (`get_enum_from_uid(..).unwrap()`) -/
inductive MaxOut where
  | panic
  | ok (r : Option Ty)
  deriving DecidableEq, Repr

/-- arms 22–23 of `max`: `(Unknown | AlwaysJumps, other) | (other, Unknown | AlwaysJumps)`, `_` -/
def maxFrom22 (a b : Ty) : MaxOut :=
  match a, b with
  | .unknown, other | .alwaysJumps, other => .ok (some other)
  | other, .unknown | other, .alwaysJumps => .ok (some other)
  | _, _ => .ok none

/-- arm 21 of `max`: `(other, Ty::Type) | (Ty::Type, other) if other.is_zero_sized()` -/
def maxFrom21 (a b : Ty) : MaxOut :=
  match a, b with
  | other, .type => if other.isZeroSized then .ok (some .type) else maxFrom22 a b
  | .type, other => if other.isZeroSized then .ok (some .type) else maxFrom22 a b
  | _, _ => maxFrom22 a b

/-- arm 20 of `max`: `(ErrorUnion, non_err_union) | (non_err_union, ErrorUnion) if
non_err_union.can_fit_into(error_ty) || non_err_union.can_fit_into(payload_ty)` (reached only
when not both are error unions) -/
def maxFrom20 (a b : Ty) : MaxOut :=
  match a, b with
  | .errorUnion e p, x =>
    if canFitInto x e || canFitInto x p then .ok (some (.errorUnion e p)) else maxFrom21 a b
  | x, .errorUnion e p =>
    if canFitInto x e || canFitInto x p then .ok (some (.errorUnion e p)) else maxFrom21 a b
  | _, _ => maxFrom21 a b

def maxNum (x y : Nat) : Nat := if x ≤ y then y else x

/-- `Ty::max(self, other)` with `ENUM_MAP` as `tbl`.  A guarded arm whose guard fails continues
with the arms below it (`maxFrom14`, `maxFrom18`, `maxFrom20`, …).  The `assert_eq!`s of the
distinct arms compare a value with itself and cannot fail. -/
def maxTy (tbl : Nat → Option Ty) : Ty → Ty → MaxOut
  | a, b =>
  if a = b then .ok (some a) else
  match a, b with
  | .uint 0, .uint 0 => .ok (some (.uint 0))
  | .iint 0, .iint 0 | .iint 0, .uint 0 | .uint 0, .iint 0 => .ok (some (.iint 0))
  | .iint x, .iint y => .ok (some (.iint (maxNum x y)))
  | .uint x, .uint y => .ok (some (.uint (maxNum x y)))
  | .iint sw, .uint uw | .uint uw, .iint sw => if sw > uw then .ok (some (.iint sw)) else .ok none
  | .iint 0, .float fw | .uint 0, .float fw | .float fw, .iint 0 | .float fw, .uint 0 =>
    .ok (some (.float fw))
  | .iint iw, .float fw | .uint iw, .float fw | .float fw, .iint iw | .float fw, .uint iw =>
    if iw < 64 && fw == 0 then .ok (some (.float (maxNum (iw * 2) 32)))
    else if iw < fw then .ok (some (.float fw))
    else .ok none
  | .float x, .float y => .ok (some (.float (maxNum x y)))
  | _, .distinct _ _ => if hasSemanticsOf b a then .ok (some b) else .ok none
  | .distinct _ _, _ => if hasSemanticsOf a b then .ok (some a) else .ok none
  | .enumVariant eu _ _ _ _, .enumVariant eu' _ _ _ _ =>
    if eu == eu' then
      match tbl eu with
      | some e => .ok (some e)
      | none => .panic
    else if a.isZeroSized && b.isZeroSized then .ok (some .type)
    else .ok none
  | .enumVariant eu _ _ _ _, .enum uid _ =>
    if eu == uid then .ok (some b) else maxFrom20 a b
  | .enum uid _, .enumVariant eu _ _ _ _ =>
    if eu == uid then .ok (some a) else maxFrom20 a b
  | .optional l, .optional r =>
    match maxTy tbl l r with
    | .panic => .panic
    | .ok none => .ok none
    | .ok (some m) => .ok (some (.optional m))
  | .optional s, .nil | .nil, .optional s => .ok (some (.optional s))
  | .nil, .nil => .ok (some a)
  | .optional s, x =>
    if canFitInto x s then .ok (some (.optional s))
    else maxFrom20 a b
  | x, .optional s =>
    if canFitInto x s then .ok (some (.optional s))
    else maxFrom20 a b
  | .nil, other | other, .nil => .ok (some (.optional other))
  | .errorUnion le lp, .errorUnion re rp =>
    match maxTy tbl le re with
    | .panic => .panic
    | .ok none => .ok none
    | .ok (some e) =>
      match maxTy tbl lp rp with
      | .panic => .panic
      | .ok none => .ok none
      | .ok (some p) => .ok (some (.errorUnion e p))
  | _, _ => maxFrom20 a b

/-! ### Acceptance, and the guards of the `_partial` theorems (C12) -/

/-- What `expect_match` (hir_ty/src/globals.rs) accepts for a concrete expected type: a
zero-sized value where `type` is expected ("void singletons → types"), otherwise
`can_fit_into`. -/
def accepts (found expected : Ty) : Bool :=
  (expected == .type && found.isZeroSized) || canFitInto found expected

/-- `accepts` at the top level, plain `canFitInto` below a type constructor (where
`expect_match`'s special case for `type` cannot apply) -/
def acceptsIn (top : Bool) (found expected : Ty) : Bool :=
  (top && expected == .type && found.isZeroSized) || canFitInto found expected

def isDistinct : Ty → Bool
  | .distinct _ _ => true
  | _ => false

/-- guard of `weak_imp_fit_partial`: along the recursion of `is_weak_replaceable_by`, every
anonymous-array element that is (only) functionally equivalent to the expected element also
fits it.  It fails exactly where the element types differ in a nominal uid that
`is_functionally_equivalent_to` ignores (named struct, distinct, variant) or in the order of
duplicate member names. -/
def elemEquivFits : Ty → Ty → Bool
  | .anonArray _ fs, .concreteArray _ es =>
    (!isFuncEquiv fs es false || canFitInto fs es) && elemEquivFits fs es
  | .anonArray _ fs, .slice es =>
    (!isFuncEquiv fs es false || canFitInto fs es) && elemEquivFits fs es
  | .optional fs, .optional es => elemEquivFits fs es
  | found, .distinct _ ty => elemEquivFits found ty
  | found, .optional es => elemEquivFits found es
  | _, _ => true

/-- the arms of `max` that answer `type` for two different operands -/
def yieldsTypeArm (a b : Ty) : Bool :=
  match a, b with
  | _, .type | .type, _ => true
  | .enumVariant eu _ _ _ _, .enumVariant eu' _ _ _ _ => eu != eu'
  | _, _ => false

/-- guard of `max_accepts_both_partial`: along the recursion of `max` (optional/optional,
error-union/error-union) no operand is a `distinct` type (the two distinct arms test
`has_semantics_of` in the wrong direction), and below a constructor no arm answers `type`
(there `expect_match`'s zero-sized-value rule cannot apply). -/
def maxPlain (top : Bool) : Ty → Ty → Bool
  | .optional l, .optional r => maxPlain false l r
  | .errorUnion le lp, .errorUnion re rp => maxPlain false le re && maxPlain false lp rp
  | a, b => !isDistinct a && !isDistinct b && (top || !yieldsTypeArm a b)

/-- `ENUM_MAP` only ever maps a uid to an enum with that uid (`set_enum_uid` asserts it) -/
def TableOk (tbl : Nat → Option Ty) : Prop :=
  ∀ u e, tbl u = some e → ∃ vs, e = .enum u vs

/-- the internal marker types (not in the property's quantifier) -/
def isMarker : Ty → Bool
  | .unknown | .alwaysJumps => true
  | _ => false

/-- guard of `max_comm_partial`: along the recursion of `max`, the operands are not two
different marker types (`Unknown` / `AlwaysJumps`: the arm returns "the other one"), and not
two different `distinct` types carrying the same uid (impossible in the checker, where a uid
names one definition). -/
def commOk (a b : Ty) : Bool :=
  a == b ||
  match a, b with
  | .optional l, .optional r => commOk l r
  | .errorUnion le lp, .errorUnion re rp => commOk le re && commOk lp rp
  | .distinct u _, .distinct u' _ => u != u'
  | a, b => !(isMarker a && isMarker b)

/-! ### Vocabulary of the nominality theorems (C13) -/

/-- the nominal value types of the property: distinct, enum variant, named struct -/
def isNominal : Ty → Bool
  | .distinct _ _ | .enumVariant _ _ _ _ _ | .concreteStruct _ _ => true
  | _ => false

/-- kind tag and uid of a nominal type -/
def nominalKey : Ty → Option (Nat × Nat)
  | .distinct u _ => some (0, u)
  | .enumVariant _ _ u _ _ => some (1, u)
  | .concreteStruct u _ => some (2, u)
  | _ => none

/-- the underlying type of a distinct type / the payload type of a variant -/
def underlying : Ty → Option Ty
  | .distinct _ s => some s
  | .enumVariant _ _ _ s _ => some s
  | _ => none

/-- expected types whose head is a primitive (other than `any`), an internal marker other than
`unknown`, an array, a slice, a pointer or a function -/
def plainHead : Ty → Bool
  | .iint _ | .uint _ | .float _ | .bool | .string | .char | .type | .rawPtr _ | .rawSlice
  | .file _ | .nil | .void | .notYetResolved | .alwaysJumps
  | .anonArray _ _ | .concreteArray _ _ | .slice _ | .pointer _ _
  | .naivePolyFn _ | .concreteFn _ _ _ | .fnPointer _ _ => true
  | _ => false

def isConcreteStruct : Ty → Bool
  | .concreteStruct _ _ => true
  | _ => false

def isEnumVariant : Ty → Bool
  | .enumVariant _ _ _ _ _ => true
  | _ => false

end Ty
end CapyV
