/-
C01 — evaluation order. Capy evaluates the operands of an expression in the order they are WRITTEN:
the members of a struct literal (whatever the declaration order of the fields), the items of an
array literal, the arguments of a call, the operands of a binary operator. `E` is an expression
whose leaves have an observable effect (`tick tag`: print `tag`, increment a shared counter, yield
the new counter value); `run` gives the printed tags and the value every leaf yields.
-/
namespace CapyV.EvalOrder

inductive E where
  | tick (tag : Nat)
  /-- children in the order they are written in the source -/
  | node (kids : List E)
  deriving Repr

mutual
/-- (printed tags, values yielded by the leaves in written order, counter afterwards) -/
def run : E → Nat → List Nat × List Nat × Nat
  | .tick t, c => ([t], [c + 1], c + 1)
  | .node ks, c => runs ks c
def runs : List E → Nat → List Nat × List Nat × Nat
  | [], c => ([], [], c)
  | k :: ks, c =>
    let r1 := run k c
    let r2 := runs ks r1.2.2
    (r1.1 ++ r2.1, r1.2.1 ++ r2.2.1, r2.2.2)
end

mutual
def tags : E → List Nat
  | .tick t => [t]
  | .node ks => tagss ks
def tagss : List E → List Nat
  | [] => []
  | k :: ks => tags k ++ tagss ks
end

end CapyV.EvalOrder
