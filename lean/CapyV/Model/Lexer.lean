import CapyV.Model.Regex
import CapyV.Generated.Tokens
/-!
# Model of `lexer::lex` (crates/lexer/src/lib.rs) and of `token::Tokens`

* the logos-generated `LexerTokenKind::lexer(text)` is replaced by a declarative
  maximal-munch step over the generated rule table (`nextTok`): longest match over all
  rules, ties broken by logos' priority, one scalar value of `Error` when nothing matches;
* `lex_char`, `lex_string`, `lex_comment`, the `transmute` + `debug_assert_eq!`, the final
  `starts.push(text.len())` and `Tokens::{new,kind,range,iter}` are transcribed arm by arm.

Texts are `List Char` (Unicode scalar values); byte offsets are sums of `Char.utf8Size`.
Where Rust would panic the model returns `.error`.
-/
namespace CapyV.Lexer
open CapyV CapyV.Tokens

/-- candidate of one rule at the current position -/
structure Cand where
  disc : Nat
  len : Nat
  prio : Nat
  deriving Repr, DecidableEq

/-- Best rule at the head of `s`: longest match first, then higher priority; an earlier rule
wins a complete tie (logos refuses to compile such a table, so this never decides). -/
def pick : List (Nat × Pat) → List Char → Option Cand
  | [], _ => none
  | (d, p) :: rest, s =>
    match Regex.longest p.regex s with
    | none => pick rest s
    | some n =>
      match pick rest s with
      | none => some ⟨d, n, p.prio⟩
      | some b =>
        if n < b.len || (b.len == n && p.prio < b.prio) then some b else some ⟨d, n, p.prio⟩

/-- One `lexer.next()` on non-empty remaining input: `(Ok(discriminant) | Err, chars consumed)`. -/
def nextTok (s : List Char) : Option Nat × Nat :=
  match pick rules s with
  | some c => (some c.disc, c.len)
  | none => (none, 1)      -- `Lexer::error`: bump to the next char boundary

abbrev Tok := TokenKind × Nat

inductive Mode where
  | startContents | inContents | escape
  deriving DecidableEq, Repr

/-- The `match (mode, c) { … }` of `lex_char` / `lex_string` (the two Rust functions are the
same text up to the quote character `q` and the kind `qk` emitted for it), arms in source
order: what is emitted at the current position (if anything) and the next mode. -/
def subStep (q : Char) (qk : TokenKind) (mode : Mode) (c : Char) : Option TokenKind × Mode :=
  if (mode = .inContents ∨ mode = .startContents) ∧ c = q then (some qk, .startContents)
  else if (mode = .inContents ∨ mode = .startContents) ∧ c = '\\' then (some .Escape, .escape)
  else if mode = .startContents then (some .StringContents, .inContents)
  else if mode = .inContents then (none, .inContents)
  else (none, .startContents)

/-- the `for c in s.chars() { … pos += c.len_utf8() }` loop -/
def subLexGo (q : Char) (qk : TokenKind) : List Char → Mode → Nat → List Tok
  | [], _, _ => []
  | c :: cs, mode, pos =>
    match subStep q qk mode c with
    | (some k, mode') => (k, pos) :: subLexGo q qk cs mode' (pos + c.utf8Size)
    | (none, mode') => subLexGo q qk cs mode' (pos + c.utf8Size)

def lexChar (s : List Char) (offset : Nat) : List Tok :=
  subLexGo '\'' .SingleQuote s .inContents offset

def lexString (s : List Char) (offset : Nat) : List Tok :=
  subLexGo '"' .DoubleQuote s .inContents offset

def lexComment (offset len : Nat) : List Tok :=
  (.CommentLeader, offset) :: (if len > 1 then [(.CommentContents, offset + 2)] else [])

inductive Fault where
  | transmuteInvalid (disc : Nat)      -- discriminant outside `TokenKind`: UB in Rust
  | debugAssertNames (disc : Nat)      -- `debug_assert_eq!` of the two Debug names fails
  | emptyMatch                          -- a rule matched "" (the loop would not advance)
  | fuel
  | newAssert                           -- `Tokens::new`: kinds.len() + 1 != starts.len()
  | index                               -- slice index out of bounds
  | zipEq                               -- itertools `zip_eq`: iterators of unequal length
  | rangeOrder                          -- `TextRange::new(start, end)`: assert!(start <= end)
  deriving DecidableEq, Repr

/-- `mem::transmute::<LexerTokenKind, TokenKind>` followed by the `debug_assert_eq!` on the
two `Debug` renderings. -/
def transmute (disc : Nat) : Except Fault TokenKind :=
  match TokenKind.ofNat? disc with
  | none => .error (.transmuteInvalid disc)
  | some k =>
    if lexerKindNames[disc]? = some k.toString then .ok k else .error (.debugAssertNames disc)

/-- the `match kind { … }` of the main loop: what is pushed for one logos token -/
def emit (kind : Option Nat) (slice : List Char) (start : Nat) : Except Fault (List Tok) :=
  match kind with
  | none => .ok [(.Error, start)]
  | some d =>
    if d = discInternalChar then .ok (lexChar slice start)
    else if d = discInternalString then .ok (lexString slice start)
    else if d = discInternalComment then .ok (lexComment start (utf8Len slice))
    else
      match transmute d with
      | .ok k => .ok [(k, start)]
      | .error e => .error e

/-- `while let Some(kind) = lexer.next() { … }` with fuel (`lex` passes `length + 1`). -/
def lexLoop : Nat → List Char → Nat → Except Fault (List Tok)
  | 0, _, _ => .error .fuel
  | _ + 1, [], _ => .ok []
  | fuel + 1, c :: cs, off =>
    let s := c :: cs
    let (kind, n) := nextTok s
    if n = 0 then .error .emptyMatch
    else
      match emit kind (s.take n) off with
      | .error e => .error e
      | .ok toks =>
        match lexLoop fuel (s.drop n) (off + utf8Len (s.take n)) with
        | .error e => .error e
        | .ok rest => .ok (toks ++ rest)

structure Tokens where
  kinds : List TokenKind
  starts : List Nat
  deriving Repr, DecidableEq

/-- `Tokens::new` -/
def Tokens.new (kinds : List TokenKind) (starts : List Nat) : Except Fault Tokens :=
  if kinds.length + 1 = starts.length then .ok ⟨kinds, starts⟩ else .error .newAssert

/-- `lexer::lex` -/
def lex (text : List Char) : Except Fault Tokens :=
  match lexLoop (text.length + 1) text 0 with
  | .error e => .error e
  | .ok toks => Tokens.new (toks.map (·.1)) (toks.map (·.2) ++ [utf8Len text])

namespace Tokens

def len (t : Tokens) : Nat := t.kinds.length

def kind (t : Tokens) (idx : Nat) : Except Fault TokenKind :=
  match t.kinds[idx]? with
  | some k => .ok k
  | none => .error .index

/-- `TextRange::new` -/
def mkRange (a b : Nat) : Except Fault (Nat × Nat) :=
  if a ≤ b then .ok (a, b) else .error .rangeOrder

def range (t : Tokens) (idx : Nat) : Except Fault (Nat × Nat) :=
  match t.starts[idx]?, t.starts[idx + 1]? with
  | some a, some b => mkRange a b
  | _, _ => .error .index

/-- the `.map(|((kind, start), end)| (kind, TextRange::new(start, end)))` of `iter` -/
def mapRanges : List ((TokenKind × Nat) × Nat) → Except Fault (List (TokenKind × Nat × Nat))
  | [] => .ok []
  | ((k, s), e) :: rest =>
    match mkRange s e with
    | .error f => .error f
    | .ok r =>
      match mapRanges rest with
      | .error f => .error f
      | .ok rs => .ok ((k, r) :: rs)

/-- what a traversal is meant to yield: `(kind(i), range(i).start, range(i).end)` in order -/
def items (t : Tokens) : List (TokenKind × Nat × Nat) :=
  ((t.kinds.zip t.starts).zip (t.starts.drop 1)).map fun x => (x.1.1, x.1.2, x.2)

/-- itertools `zip_eq`, fully drained: panics when one side ends before the other -/
def zipEq {α β} : List α → List β → Except Fault (List (α × β))
  | [], [] => .ok []
  | a :: as, b :: bs =>
    match zipEq as bs with
    | .ok r => .ok ((a, b) :: r)
    | .error e => .error e
  | _, _ => .error .zipEq

/-- `Tokens::iter()` drained to the end as it was BEFORE the `fix:` commit (n kinds zipped with
n + 1 starts); kept to state what was wrong. -/
def iterAllOld (t : Tokens) : Except Fault (List (TokenKind × Nat × Nat)) :=
  match zipEq t.kinds t.starts with
  | .error e => .error e
  | .ok ks =>
    match zipEq ks (t.starts.drop 1) with
    | .error e => .error e
    | .ok r => mapRanges r

/-- `zip_eq` pulled `k` times only (`iter().take(k)`): it panics only when one side is
exhausted and the other is not, at the moment that is observed. -/
def zipEqTake {α β} : Nat → List α → List β → Except Fault (List (α × β))
  | 0, _, _ => .ok []
  | _ + 1, [], [] => .ok []
  | k + 1, a :: as, b :: bs =>
    match zipEqTake k as bs with
    | .ok r => .ok ((a, b) :: r)
    | .error e => .error e
  | _ + 1, _, _ => .error .zipEq

def iterTake (t : Tokens) (k : Nat) : Except Fault (List (TokenKind × Nat × Nat)) :=
  match zipEqTake k t.kinds t.starts with
  | .error e => .error e
  | .ok ks =>
    match zipEqTake k ks (t.starts.drop 1) with
    | .error e => .error e
    | .ok r => mapRanges r

/-- `Tokens::iter()` drained to the end (`for … in tokens.iter()`, `Debug for Tokens`): the first
`zip_eq` partner is `starts.take(kinds.len())` -/
def iterAll (t : Tokens) : Except Fault (List (TokenKind × Nat × Nat)) :=
  match zipEq t.kinds (t.starts.take t.kinds.length) with
  | .error e => .error e
  | .ok ks =>
    match zipEq ks (t.starts.drop 1) with
    | .error e => .error e
    | .ok r => mapRanges r

end Tokens
end CapyV.Lexer
