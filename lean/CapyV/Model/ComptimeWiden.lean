import CapyV.Model.Comptime
/-
C04 — a global whose annotation is a wider number type than the value of its initializer
(`M : i64 : comptime { some_i32 }`, `H : i64 : some_u8_global`, `F : f64 : comptime { some_f32 }`).

`compile_global_binding_data` (crates/codegen/src/compiler/functions.rs, as of fix: ad641e3) takes the
bytes of the value (`fromBits / 8` of them), and when the global's type is a wider number converts
them: integers are sign- or zero-extended by the signedness of the *value's* type, `f32` is promoted
to `f64`; the data object then has `toBits / 8` bytes, which is what a load of the global reads.
Before the fix the narrow bytes were stored unchanged and the load read past them into whatever
the linker placed next (`storeOld`).
-/
namespace CapyV.Comptime

/-- two's-complement extension of the raw `fromBits`-bit pattern `v` to `toBits` bits -/
def extend (signed : Bool) (fromBits toBits v : Nat) : Nat :=
  let v := v % 2 ^ fromBits
  if signed && decide (2 ^ (fromBits - 1) ≤ v) then v + (2 ^ toBits - 2 ^ fromBits) else v

/-- the data object of the global, given the bytes of the narrower value (integers) -/
def widenIntBytes (e : Endian) (signed : Bool) (fromBits toBits : Nat) (bs : List Nat) : List Nat :=
  encode e (toBits / 8) (extend signed fromBits toBits (decode e bs))

/-- the same for `f32 → f64` -/
def widenFloatBytes (fc : FloatConv) (e : Endian) (bs : List Nat) : List Nat :=
  encode e 8 (fc.promote (decode e bs))

/-- what a load of `toBits / 8` bytes at the global's address yields -/
def loadBits (e : Endian) (toBits : Nat) (memory : List Nat) : Nat :=
  decode e (memory.take (toBits / 8))

/-- the pre-fix data object: the narrow bytes, followed in memory by `neighbour` -/
def storeOld (bs neighbour : List Nat) : List Nat := bs ++ neighbour

end CapyV.Comptime
