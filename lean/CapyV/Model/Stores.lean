import CapyV.Model.Layout
/-
C02 — model of the *store footprint* of an assignment `dst = value` as the code generator emits
it (`crates/codegen/src/compiler/mod.rs`: `cast_into_memory`, `MemoryLoc::write_val`,
`write_all`, `cast_payload_into_tagged_union`, `create_nil_value`; as of the `fix:` commit
664a588): which bytes, relative to the destination's address, are written.

A footprint is a list of `(offset, width)` stores; what matters is the set of bytes covered.
-/
namespace CapyV.Stores
open CapyV CapyV.Layout

abbrev Store := Nat × Nat

/-- what is being stored into a destination of type `dst` -/
inductive Source where
  /-- a value of the destination's own type (scalar: one store of its width; aggregate: a copy of
  `size` bytes — in chunks or through `memcpy`) -/
  | same
  /-- a variant `v` of the destination enum: payload bytes, then the one-byte tag -/
  | variant (payload : Ty)
  /-- the payload of an optional / the error or ok payload of an error union -/
  | payload (p : Ty)
  /-- `nil` into an optional -/
  | nilValue
  deriving DecidableEq, Repr

/-- bytes `[0, n)` as one store (the copy loop's chunks / `memcpy(dst, src, n)` cover exactly these) -/
def whole (n : Nat) : List Store := if n = 0 then [] else [(0, n)]

/-- the stores of `dst = value`, relative to the address of `dst` -/
def footprint (pw : Nat) (dst : Ty) : Source → List Store
  | .same => whole (size pw dst)
  | .variant p =>
    match discriminantOffsetOf pw dst with
    | some d => whole (size pw p) ++ [(d, 1)]
    | none => whole (size pw dst)
  | .payload p =>
    match discriminantOffsetOf pw dst with
    | some d => whole (size pw p) ++ [(d, 1)]
    | none => whole (size pw p)          -- `?^T`: just the pointer
  | .nilValue =>
    match discriminantOffsetOf pw dst with
    | some d => [(d, 1)]
    | none => whole (size pw dst)        -- `?^T`: a null pointer

/-- the same stores when `dst` is the field at byte offset `o` of an enclosing object -/
def shift (o : Nat) (fp : List Store) : List Store := fp.map fun s => (o + s.1, s.2)

/-- every store lies inside `[lo, hi)` -/
def within (lo hi : Nat) (fp : List Store) : Prop := ∀ s ∈ fp, lo ≤ s.1 ∧ s.1 + s.2 ≤ hi

/-- the pre-fix variant → enum conversion: the tag was stored as a pointer-sized integer -/
def footprintOldVariant (pw : Nat) (dst : Ty) (p : Ty) : List Store :=
  match discriminantOffsetOf pw dst with
  | some d => whole (size pw p) ++ [(d, pw / 8)]
  | none => whole (size pw dst)

/-- the pre-fix aggregate copy: `stride` bytes -/
def footprintOldSame (pw : Nat) (dst : Ty) : List Store := whole (strideOf pw dst)

end CapyV.Stores
