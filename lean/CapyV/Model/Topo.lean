/-!
# Model of `topo::TopoSort<T>` (`/repo/crates/topo/src/lib.rs`)

`top : IndexMap<T, Dependencies { num_children : usize, parents : IndexSet<T> }>` is an
insertion-ordered association list with unique keys; items are `Nat`s. Every public method
is transcribed arm by arm. `num_children -= 1` on `0` (a panic in an overflow-checked
build, a wrap otherwise) is the explicit outcome `none` ("UNDERFLOW"), never a totalised
`0 - 1 = 0`. `num_children += 1` cannot reach `usize::MAX` (one increment per distinct
`(parent, child)` pair, each pair stores an element in an `IndexSet`): trusted.

`IndexMap` primitives used and how they are modelled (keys are unique, proved as part of the
invariant `CapyV.Topo.Inv`):
* `entry(k)` / `get_mut(k)` on a present key: `modify` (position kept);
* `entry(k)` vacant + `insert` / `or_insert_with`: `push` at the end;
* `extend((k, v)…)`: for each pair, `insert(k, v)` = overwrite in place if present, else push;
* `shift_remove(k)`: `drop` (order of the others kept).
No import: this file is linked into the native driver.
-/
namespace CapyV.Topo

structure Deps where
  numChildren : Nat
  parents : List Nat
  deriving DecidableEq, Repr

/-- `Dependencies::new()` -/
def Deps.new : Deps := ⟨0, []⟩

abbrev Topo := List (Nat × Deps)

def keys (s : Topo) : List Nat := s.map (·.1)

/-- `self.top.get(k)` -/
def get? : Topo → Nat → Option Deps
  | [], _ => none
  | (k, d) :: s, x => if k = x then some d else get? s x

/-- in-place update of the entry of a present key -/
def modify (s : Topo) (k : Nat) (f : Deps → Deps) : Topo :=
  s.map fun e => if e.1 = k then (e.1, f e.2) else e

/-- insertion of a new key (at the end of the `IndexMap`) -/
def push (s : Topo) (k : Nat) (d : Deps) : Topo := s ++ [(k, d)]

/-- `shift_remove` -/
def drop (s : Topo) (k : Nat) : Topo := s.filter fun e => e.1 ≠ k

def incr (d : Deps) : Deps := { d with numChildren := d.numChildren + 1 }
def decrD (d : Deps) : Deps := { d with numChildren := d.numChildren - 1 }
def addParent (p : Nat) (d : Deps) : Deps := { d with parents := d.parents ++ [p] }

/-- `self.top.entry(parent).or_insert_with(Dependencies::new).num_children += 1` -/
def bump (s : Topo) (p : Nat) : Topo :=
  match get? s p with
  | some _ => modify s p incr
  | none => push s p (incr Deps.new)

/-- `insert_dep(parent, child)` -/
def insertDep (s : Topo) (p c : Nat) : Topo :=
  match get? s c with
  | none => bump (push s c (addParent p Deps.new)) p          -- Entry::Vacant
  | some d =>                                                  -- Entry::Occupied
    if p ∈ d.parents then s                                    -- already registered: return
    else bump (modify s c (addParent p)) p

/-- `insert_deps(parent, children)` -/
def insertDeps (s : Topo) (p : Nat) : List Nat → Topo
  | [] => s
  | c :: cs => insertDeps (insertDep s p c) p cs

/-- `insert(item)`: returns `true` when the entry was vacant (the doc comment in the source
says the opposite; the code is what is modelled). -/
def insert (s : Topo) (x : Nat) : Topo × Bool :=
  match get? s x with
  | none => (push s x Deps.new, true)
  | some _ => (s, false)

/-- `IndexMap::insert(k, Dependencies::new())` as used by `extend`: overwrite in place. -/
def put (s : Topo) (x : Nat) : Topo :=
  match get? s x with
  | none => push s x Deps.new
  | some _ => modify s x (fun _ => Deps.new)

/-- `extend(items)` -/
def extend (s : Topo) : List Nat → Topo
  | [] => s
  | x :: xs => extend (put s x) xs

/-- the loop of `remove`: `for s in &p.parents { if let Some(y) = top.get_mut(s) { y.num_children -= 1 } }` -/
def decrAll : Topo → List Nat → Option Topo
  | s, [] => some s
  | s, p :: ps =>
    match get? s p with
    | none => decrAll s ps
    | some d => if d.numChildren = 0 then none else decrAll (modify s p decrD) ps

/-- `remove(child)`; `none` = arithmetic underflow. -/
def remove (s : Topo) (x : Nat) : Option (Topo × Bool) :=
  match get? s x with
  | none => some (s, false)
  | some d =>
    match decrAll (drop s x) d.parents with
    | none => none
    | some s' => some (s', true)

/-- keys with `num_children == 0`, in map order -/
def leaves (s : Topo) : List Nat := (s.filter fun e => e.2.numChildren = 0).map (·.1)

inductive Peek where
  | ok (items : List Nat)
  | cycle
  deriving DecidableEq, Repr

/-- `peek_all()` -/
def peekAll (s : Topo) : Peek :=
  let result := leaves s
  if ¬ s.isEmpty ∧ result.isEmpty then .cycle else .ok result

/-- `peek()` : `None` / `Some(Ok k)` / `Some(Err CycleErr)` -/
def peek (s : Topo) : Option (Option Nat) :=
  match leaves s with
  | k :: _ => some (some k)
  | [] => if s.isEmpty then none else some none

/-- `in_cycle()` -/
def inCycle (s : Topo) : Bool := !s.isEmpty && s.all fun e => e.2.numChildren ≠ 0

/-- `peek_all_cyclic()` -/
def peekAllCyclic (s : Topo) : Option (List Nat) := if inCycle s then some (keys s) else none

/-- `peek_cyclic()` -/
def peekCyclic (s : Topo) : Option Nat := if inCycle s then (keys s).head? else none

/-- `for key in keys { self.remove(key) }` -/
def removeAll : Topo → List Nat → Option Topo
  | s, [] => some s
  | s, k :: ks =>
    match remove s k with
    | none => none
    | some (s', _) => removeAll s' ks

/-- `pop_all()` -/
def popAll (s : Topo) : Option (Topo × Peek) :=
  match peekAll s with
  | .cycle => some (s, .cycle)
  | .ok ks => (removeAll s ks).map fun s' => (s', .ok ks)

/-- `pop()` -/
def pop (s : Topo) : Option (Topo × Option (Option Nat)) :=
  match peek s with
  | some (some k) => (remove s k).map fun r => (r.1, some (some k))
  | other => some (s, other)

/-- `pop_cyclic()` (`keys().next().unwrap()` cannot fail: `in_cycle` implies non-empty) -/
def popCyclic (s : Topo) : Option (Topo × Option Nat) :=
  if inCycle s then
    match (keys s).head? with
    | some k => (remove s k).map fun r => (r.1, some k)
    | none => some (s, none)
  else some (s, none)

/-- `pop_all_cyclic()` -/
def popAllCyclic (s : Topo) : Topo × Option (List Nat) :=
  if inCycle s then ([], some (keys s)) else (s, none)

/-! ## Mutating operations as data (histories) -/

inductive Op where
  | insert (x : Nat)
  | dep (p c : Nat)
  | deps (p : Nat) (cs : List Nat)
  | extend (xs : List Nat)
  | remove (x : Nat)
  deriving DecidableEq, Repr

/-- one mutating call; `none` = underflow panic -/
def apply (s : Topo) : Op → Option Topo
  | .insert x => some (insert s x).1
  | .dep p c => some (insertDep s p c)
  | .deps p cs => some (insertDeps s p cs)
  | .extend xs => some (extend s xs)
  | .remove x => (remove s x).map (·.1)

def run (s : Topo) : List Op → Option Topo
  | [] => some s
  | op :: ops =>
    match apply s op with
    | none => none
    | some s' => run s' ops

end CapyV.Topo
