import CapyV.Generated.BindingPowers
/-!
Model of the expression core of `crates/parser/src/grammar/expr.rs`:
`parse_expr` / `parse_expr_bp` (Pratt loop), `parse_lhs` (operands, `^`/`^mut`, prefix
operators, parentheses), `parse_expr_for_prefix`, `parse_post_operators` (index, call,
deref, `.(` cast, `.try`, `.field`), the argument loop of calls.

Binding powers, the prefix set, the quick-assign set and the flag arguments of the call
sites come from `Generated/BindingPowers.lean` (regenerated from the Rust on every run).

Tokens are the non-trivia tokens: the real parser skips whitespace/comments before every
look at the input and before every `bump`, so it behaves on the raw token list as this
model does on the stripped one (section "Trivia" at the end, `parseRaw`). The token alphabet is the one the expression core needs;
any other token kind is outside this model.

Outcome: `some (tree, rest)` — the real parser builds exactly this tree without reporting
a syntax error and stands at `rest`; `none` — the real parser reports a syntax error or
builds a node outside the expression core (error-union `!`, array literal, lambda, …), or
the fuel ran out (`Proofs/ExprCore.lean` shows the fuel of `parse` always suffices for
printed trees).  `ParenExpr` nodes are transparent in `Tree`.
-/
namespace CapyV.ExprCore
open CapyV.Generated.BP

/-- binary operators = `ast::BinaryOp` -/
inductive BinOp where
  | lor | land
  | lt | le | gt | ge | eq | ne
  | add | sub | bor | xor
  | mul | div | mod | band | shl | shr
  deriving DecidableEq, Repr, Inhabited

/-- prefix operators = `ast::UnaryOp` -/
inductive UnOp where
  | neg | pos | not | bnot
  deriving DecidableEq, Repr, Inhabited

/-- tokens of the expression core. `-`, `+`, `~` are one token each (binary or prefix by
position), exactly as in the lexer. -/
inductive Tok where
  | ident (n : Nat)
  | int (n : Nat)
  | bop (b : BinOp)
  | bang | caret | mut | dot | try_
  | lparen | rparen | lbrack | rbrack | comma | equals
  deriving DecidableEq, Repr, Inhabited

def BinOp.kind : BinOp → Kind
  | .lor => .DoublePipe | .land => .DoubleAnd
  | .lt => .Left | .le => .LeftEquals | .gt => .Right | .ge => .RightEquals
  | .eq => .DoubleEquals | .ne => .BangEquals
  | .add => .Plus | .sub => .Hyphen | .bor => .Pipe | .xor => .Tilde
  | .mul => .Asterisk | .div => .Slash | .mod => .Percent | .band => .And
  | .shl => .DoubleLeft | .shr => .DoubleRight

def Tok.kind : Tok → Kind
  | .ident _ => .Ident | .int _ => .Int
  | .bop b => b.kind
  | .bang => .Bang | .caret => .Caret | .mut => .Mut | .dot => .Dot | .try_ => .Try
  | .lparen => .LParen | .rparen => .RParen | .lbrack => .LBrack | .rbrack => .RBrack
  | .comma => .Comma | .equals => .Equals

/-- `ast::UnaryOp` of a token (`Plus → Pos`, `Hyphen → Neg`, `Tilde → BNot`, `Bang → LNot`) -/
def Tok.unOp : Tok → Option UnOp
  | .bop .add => some .pos
  | .bop .sub => some .neg
  | .bop .xor => some .bnot
  | .bang => some .not
  | _ => none

def UnOp.tok : UnOp → Tok
  | .pos => .bop .add | .neg => .bop .sub | .bnot => .bop .xor | .not => .bang

mutual
  inductive Tree where
    | ident (n : Nat)
    | int (n : Nat)
    | bin (op : BinOp) (l r : Tree)
    | un (op : UnOp) (e : Tree)
    | ref (isMut : Bool) (e : Tree)
    | deref (e : Tree)
    | try_ (e : Tree)
    | field (e : Tree) (name : Nat)
    | index (e i : Tree)
    | cast (ty v : Tree)
    | call (f : Tree) (args : Args)
  inductive Args where
    | nil
    | cons (a : Tree) (rest : Args)
end

deriving instance DecidableEq for Tree, Args
deriving instance Repr for Tree, Args

abbrev PR := Option (Tree × List Tok)

mutual
  /-- `parse_lhs` restricted to the arms whose first token is in the alphabet, same order:
  Int, Ident, Caret (`parse_ref`), Mut (`parse_mut`: always an error except `mut rawptr`),
  `PREFIX_TOKENS` (`parse_prefix_expr`), LParen (`parse_lambda`, which for a parenthesis whose
  top level holds no `:`/`,`/`...` and is not empty hands over to `parse_paren`), `.`-forms
  (errors or literals outside the core), else error. -/
  def parseLhs : Nat → List Tok → PR
    | 0, _ => none
    | f + 1, toks =>
      match toks with
      | .int n :: r => some (.int n, r)
      | .ident n :: r => some (.ident n, r)
      | .caret :: r =>
        match r with
        | .mut :: r' =>
          match parseExprForPrefix f refDisallowDot r' with
          | some (e, r'') => some (.ref true e, r'')
          | none => none
        | _ =>
          match parseExprForPrefix f refDisallowDot r with
          | some (e, r'') => some (.ref false e, r'')
          | none => none
      | .mut :: _ => none
      | .lparen :: r =>
        match parseBp f startBp r with
        | some (e, .rparen :: r') => some (e, r')
        | _ => none
      | t :: r =>
        if isPrefix t.kind then
          match t.unOp with
          | none => none
          | some u =>
            match parseExprForPrefix f (prefixDisallowDot t.kind) r with
            | some (e, r') => some (.un u e, r')
            | none => none
        else none
      | [] => none

  /-- `parse_expr_for_prefix`: `parse_lhs` then `parse_post_operators(.., true, noDot)` -/
  def parseExprForPrefix : Nat → Bool → List Tok → PR
    | 0, _, _ => none
    | f + 1, noDot, toks =>
      match parseLhs f toks with
      | some (cm, r) => parsePost f prefixDisallowDerefs noDot cm r
      | none => none

  /-- the `loop { match p.kind() { .. } }` of `parse_post_operators`; one call = one
  iteration. Arms in source order: `[`, `(`, `^` (guarded), `as` (not in the alphabet), `!`
  (error union: outside the core), `.`, `_ => break`. -/
  def parsePost : Nat → Bool → Bool → Tree → List Tok → PR
    | 0, _, _, _, _ => none
    | f + 1, noDeref, noDot, cm, toks =>
      match toks with
      | .lbrack :: r =>
        -- `p.at_ahead(2, Comma)`: array literal with a type, outside the core
        match r with
        | _ :: .comma :: _ => none
        | _ =>
          match parseBp f startBp r with
          | some (i, .rbrack :: r') => parsePost f noDeref noDot (.index cm i) r'
          | _ => none
      | .lparen :: r =>
        match parseArgs f r with
        | some (as, r') => parsePost f noDeref noDot (.call cm as) r'
        | none => none
      | .caret :: r =>
        if noDeref then some (cm, toks) else parsePost f noDeref noDot (.deref cm) r
      | .bang :: _ => none
      | .dot :: r =>
        match r with
        | .lparen :: r' =>
          if noDot then some (cm, toks) else
          match r' with
          | .rparen :: _ => none   -- `t.()`: a cast without a value, outside the core
          | _ =>
            match parseBp f startBp r' with
            | some (v, .rparen :: r'') => parsePost f noDeref noDot (.cast cm v) r''
            | _ => none
        | .lbrack :: _ => if noDot then some (cm, toks) else none
        | .try_ :: r' => parsePost f noDeref noDot (.try_ cm) r'
        | .ident n :: r' => parsePost f noDeref noDot (.field cm n) r'
        | _ => none
      | _ => some (cm, toks)

  /-- the argument loop of the `(` arm, entered after the `(` was bumped:
  `loop { if at ')' break; parse_expr; if !at ')' expect ','; if nothing consumed break }` then
  `expect(')')`. A trailing comma is accepted, as in the code. (The no-progress `break` of fix
  `91f8795` is only reachable after an error was reported, i.e. inside the model's `none`.) -/
  def parseArgs : Nat → List Tok → Option (Args × List Tok)
    | 0, _ => none
    | f + 1, toks =>
      match toks with
      | .rparen :: r => some (.nil, r)
      | _ =>
        match parseBp f startBp toks with
        | some (a, .rparen :: r) => some (.cons a .nil, r)
        | some (a, .comma :: r) =>
          match parseArgs f r with
          | some (as, r') => some (.cons a as, r')
          | none => none
        | _ => none

  /-- `parse_expr_bp`: `parse_lhs` then the loop -/
  def parseBp : Nat → Nat → List Tok → PR
    | 0, _, _ => none
    | f + 1, minBp, toks =>
      match parseLhs f toks with
      | some (lhs, r) => parseLoop f minBp lhs r
      | none => none

  /-- one iteration of the `loop` of `parse_expr_bp`: post operators on `lhs`, the
  quick-assign look-ahead, the binding-power table, `left_bp < minimum_bp`, operator,
  right operand at `right_bp`, again. -/
  def parseLoop : Nat → Nat → Tree → List Tok → PR
    | 0, _, _, _ => none
    | f + 1, minBp, lhs, toks =>
      match parsePost f loopDisallowDerefs loopDisallowDot lhs toks with
      | none => none
      | some (lhs, toks) =>
        match toks with
        | [] => some (lhs, [])
        | t :: r =>
          if quickAssign t.kind && (match r with | .equals :: _ => true | _ => false) then
            some (lhs, toks)
          else
            match binaryBp t.kind with
            | none => some (lhs, toks)
            | some (l, rb) =>
              if l < minBp then some (lhs, toks) else
              match t with
              | .bop b =>
                match parseBp f rb r with
                | some (rhs, r') => parseLoop f minBp (.bin b lhs rhs) r'
                | none => none
              | _ => none   -- the table names an operator token the model has no `BinaryOp` for
end

/-- fuel handed to the top-level entry (shown sufficient in `Proofs/ExprCore.lean`) -/
def fuelFor (toks : List Tok) : Nat := 4 * toks.length + 8

/-- `parse_expr` on a whole token list: the expression must use up all tokens. -/
def parse (toks : List Tok) : Option Tree :=
  match parseBp (fuelFor toks) startBp toks with
  | some (t, []) => some t
  | _ => none

/-! ### Printer (the property's "printed from a syntax tree") -/

/-- where a subtree is printed -/
inductive Ctx where
  /-- operand position parsed by `parse_expr_bp` with this minimum binding power -/
  | expr (minBp : Nat)
  /-- operand of a prefix operator; `noDot` = operand of `^`/`^mut` -/
  | preOp (noDot : Bool)
  /-- operand of a postfix operator -/
  | postOp
  deriving DecidableEq, Repr

def lbp (b : BinOp) : Nat := match binaryBp b.kind with | some (l, _) => l | none => 0
def rbp (b : BinOp) : Nat := match binaryBp b.kind with | some (_, r) => r | none => 0

/-- Spine of postfix operators of an unparenthesised operand: does it contain a deref /
a `.(` cast before reaching a parenthesised or atomic base? (Operands of postfix operators
that are prefix or binary expressions are parenthesised by the printer, which ends the
spine.) -/
def spineHas (wantDeref : Bool) : Tree → Bool
  | .deref e => if wantDeref then true else spineHas wantDeref e
  | .cast e _ => if wantDeref then spineHas wantDeref e else true
  | .try_ e => spineHas wantDeref e
  | .field e _ => spineHas wantDeref e
  | .index e _ => spineHas wantDeref e
  | .call e _ => spineHas wantDeref e
  | _ => false

/-- Does `t`, printed without parentheses in context `c`, get parsed differently?
* under a binary operator: a binary operand of lower binding power (`lbp < minBp`);
* under a prefix operator: binary operands, and postfix chains containing a deref (the
  code applies `^` after a prefix operator to the whole prefixed expression), and under
  `^`/`^mut` also chains containing a `.(` cast;
* under a postfix operator: binary and prefix operands. -/
def needsParen : Ctx → Tree → Bool
  | .expr m, .bin b _ _ => decide (lbp b < m)
  | .expr _, _ => false
  | .preOp _, .bin _ _ _ => true
  | .preOp _, .un _ _ => false
  | .preOp _, .ref _ _ => false
  | .preOp noDot, t => spineHas true t || (noDot && spineHas false t)
  | .postOp, .bin _ _ _ => true
  | .postOp, .un _ _ => true
  | .postOp, .ref _ _ => true
  | .postOp, _ => false

def parens : Nat → List Tok → List Tok
  | 0, s => s
  | n + 1, s => .lparen :: (parens n s ++ [.rparen])

/-- number of parenthesis pairs around `t` in context `c`: the needed one plus `d c t`
redundant ones -/
def layers (d : Ctx → Tree → Nat) (c : Ctx) (t : Tree) : Nat :=
  d c t + (if needsParen c t then 1 else 0)

mutual
  /-- `t` without outer parentheses; `d` adds redundant parentheses around subtrees -/
  def printRaw (d : Ctx → Tree → Nat) : Tree → List Tok
    | .ident n => [.ident n]
    | .int n => [.int n]
    | .bin b l r =>
      parens (layers d (.expr (lbp b)) l) (printRaw d l) ++ [.bop b] ++
      parens (layers d (.expr (rbp b)) r) (printRaw d r)
    | .un u e => u.tok :: parens (layers d (.preOp false) e) (printRaw d e)
    | .ref true e => .caret :: .mut :: parens (layers d (.preOp true) e) (printRaw d e)
    | .ref false e => .caret :: parens (layers d (.preOp true) e) (printRaw d e)
    | .deref e => parens (layers d .postOp e) (printRaw d e) ++ [.caret]
    | .try_ e => parens (layers d .postOp e) (printRaw d e) ++ [.dot, .try_]
    | .field e n => parens (layers d .postOp e) (printRaw d e) ++ [.dot, .ident n]
    | .index e i =>
      parens (layers d .postOp e) (printRaw d e) ++ [.lbrack] ++
      parens (layers d (.expr 0) i) (printRaw d i) ++ [.rbrack]
    | .cast e v =>
      parens (layers d .postOp e) (printRaw d e) ++ [.dot, .lparen] ++
      parens (layers d (.expr 0) v) (printRaw d v) ++ [.rparen]
    | .call g as =>
      parens (layers d .postOp g) (printRaw d g) ++ [.lparen] ++ printArgs d as ++ [.rparen]
  def printArgs (d : Ctx → Tree → Nat) : Args → List Tok
    | .nil => []
    | .cons a .nil => parens (layers d (.expr 0) a) (printRaw d a)
    | .cons a (.cons b rest) =>
      parens (layers d (.expr 0) a) (printRaw d a) ++ [.comma] ++ printArgs d (.cons b rest)
end

def printAt (d : Ctx → Tree → Nat) (c : Ctx) (t : Tree) : List Tok :=
  parens (layers d c t) (printRaw d t)

/-- print with redundant parentheses chosen by `d` (top level = `parse_expr`, minimum 0) -/
def printWith (d : Ctx → Tree → Nat) (t : Tree) : List Tok := printAt d (.expr 0) t

/-- minimal parenthesisation -/
def print (t : Tree) : List Tok := printWith (fun _ _ => 0) t

/-- every non-atomic subtree parenthesised once more than needed -/
def printFull (t : Tree) : List Tok :=
  printWith (fun _ t => match t with | .ident _ => 0 | .int _ => 0 | _ => 1) t

/-! ### Trivia (whitespace / comments)

`Parser::at`, `at_set`, `at_ahead`, `kind` skip trivia before looking and — since the fix
`91f8795` of /repo ("trivia between two bumped tokens") — so does `bump` (anchored by
`tools/gen_bp.py`: `Generated.BP.bumpSkipsTrivia`). The parser therefore never sees a trivia
token: on the raw token list it behaves exactly as the trivia-free model does on the stripped
list. (Before that fix the second `bump` of the two `p.bump(); p.bump();` sites — `.try` in
`parse_post_operators`, `.(` in `parse_cast` — consumed a whitespace token and the sink ran
out of sync: `x0 . try` panicked. Found by this property's correspondence check.) -/

inductive RawTok where
  | tok (t : Tok)
  | ws
  deriving DecidableEq, Repr

def strip : List RawTok → List Tok
  | [] => []
  | .tok t :: r => t :: strip r
  | .ws :: r => strip r

inductive RawOutcome where
  /-- tree built, no syntax error -/
  | ok (t : Tree)
  /-- syntax error or a node outside the core (the model's `none`) -/
  | reject
  deriving DecidableEq, Repr

/-- the parser on a raw token list (trivia included) -/
def parseRaw (raw : List RawTok) : RawOutcome :=
  match bumpSkipsTrivia, parse (strip raw) with
  | true, some t => .ok t
  | _, _ => .reject

end CapyV.ExprCore
