import CapyV.Model.Imports
/-
`compile_file` (`crates/capy/src/main.rs`) up to the end of the import loop, on top of
`Model/Imports.lean`: how the CLI arguments become the entry `FileName` and `mod_dir`, and
the worklist over the import graph induced by the directives of each file.
-/
namespace CapyV.Imports

/-- `env::current_dir().join(config.file.replace(['/','\\'], SEP)).clean()` -/
def entryOf (cwd : Path) (fileArg : List Char) : Path :=
  clean (join cwd (parse (fixSep fileArg)))

/-- `env::current_dir().join(mod_dir).clean()` (`--mod-dir` given) -/
def modDirOf (cwd : Path) (modArg : List Char) : Path :=
  clean (join cwd (parse modArg))

def mkEnv (cwd : Path) (modArg : List Char) (fs : FS) : Env :=
  { cwd := cwd, modDir := modDirOf cwd modArg, fs := fs }

/-- the files `compile_file` parses, in order (`ord` = iteration order of the hash set) -/
def compileFile (env : Env) (src : Path → List Directive) (ord : List Path → List Path)
    (fuel : Nat) (entry : Path) : Option (List Path) :=
  worklist (importsOf env src) ord fuel entry

/-- Outcome of the CLI as far as files are concerned. After the import loop every parsed
`FileName` goes through `FileName::get_components` (symbol mangling, `--verbose-hir`,
diagnostics), which is `unreachable!()` for a file that is neither below `mod_dir` nor below
the working directory. -/
inductive CliOutcome where
  | parsed (files : List Path)
  | outOfFuel
  /-- `unreachable!()` in `get_components` for the listed file -/
  | panicOutside (file : Path) (files : List Path)
  deriving DecidableEq, Repr

def insideCwdOrMod (env : Env) (f : Path) : Bool :=
  isSubDirOf f env.modDir || isSubDirOf f env.cwd

def cli (env : Env) (src : Path → List Directive) (ord : List Path → List Path)
    (fuel : Nat) (entry : Path) : CliOutcome :=
  match compileFile env src ord fuel entry with
  | none => .outOfFuel
  | some files =>
    match files.find? (fun f => !insideCwdOrMod env f) with
    | some f => .panicOutside f files
    | none => .parsed files

end CapyV.Imports
