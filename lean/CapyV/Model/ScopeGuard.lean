import CapyV.Model.Scope
/-
C05 — the decidable guard of `resolve_eq_spec_partial` (kept in a Model file because the
driver reports it to the harness, which cross-checks its own copy).
-/
namespace CapyV.Scope

/-! ### the guard: what may stand inside a lambda header after the first parameter -/

def Params.isNil : Params → Bool
  | .nil => true
  | _ => false

mutual
/-- `h = true`: we are inside a lambda header in which `inline_header_params` is non-empty
(the type of a parameter after the first one, or the return type of a lambda with parameters).
There the code panics on a nested lambda (`assert!(self.inline_header_params.is_empty())`) and
gives header parameters priority over locals / switch arguments bound *inside* the header
expression; both are excluded. -/
def okExpr : Bool → Expr → Bool
  | _, .lit => true
  | _, .use _ => true
  | h, .seq es => okExprs h es
  | h, .block ss tail => okStmts h ss && okExpr h tail
  | h, .switch arg scrut arms => (!h || arg.isNone) && okExpr h scrut && okArms h arms
  | h, .lambda ps ret body tail =>
    !h && okParams false ps && okExpr (!ps.isNil) ret && okStmts false body && okExpr false tail
  | h, .comptime e => okExpr h e
def okExprs : Bool → Exprs → Bool
  | _, .nil => true
  | h, .cons e rest => okExpr h e && okExprs h rest
def okStmts : Bool → Stmts → Bool
  | _, .nil => true
  | h, .defn _ _ ty val rest => !h && okExpr h ty && okExpr h val && okStmts h rest
  | h, .expr e rest => okExpr h e && okStmts h rest
def okArms : Bool → Arms → Bool
  | _, .nil => true
  | h, .cons _ variant body rest => okExpr h variant && okExpr h body && okArms h rest
/-- the flag says whether a parameter precedes -/
def okParams : Bool → Params → Bool
  | _, .nil => true
  | h, .cons _ _ _ ty rest => okExpr h ty && okParams true rest
end

def okGlobals : List Global → Bool
  | [] => true
  | g :: rest => okExpr false g.ty && okExpr false g.val && okGlobals rest

end CapyV.Scope
