/-
C10 — model of the instruction *plan* emitted for `Expr::Index` and for `#unwrap`
(`crates/codegen/src/compiler/functions.rs`), over an abstract byte memory that logs every
access the plan makes to the indexed object / the sum value.

`Expr::Index`: the index (type-checked against `usize`, hence an unsigned integer of width ≤
pointer width or a weak literal) is zero-extended to pointer width (`cast_ty_to_cranelift`);
`len` is a constant for arrays or loaded from the slice header (offset 0; data pointer at
offset `ptr_bytes`); `icmp ult index, len`; on failure `puts(msg); exit(1); trap`; otherwise the
element address is `base + index * stride(elem)` and (unless the caller wants the address) a
load of the element type at that address.
`#unwrap`: load the tag byte at `discriminant_offset`, compare with the wanted variant's
discriminant (or test a nullable pointer against 0), abort the same way, else the payload.
-/
namespace CapyV.Checks

/-- what running a plan did -/
inductive Outcome where
  /-- `puts; exit(1)` reached; the accesses made to the object before that -/
  | abort (accesses : List (Nat × Nat))
  /-- fell through the check; accesses = (address, size) pairs -/
  | ok (accesses : List (Nat × Nat))
  deriving DecidableEq, Repr

structure IndexPlan where
  /-- bit width of the index value as typed (≤ 64) -/
  idxBits : Nat
  /-- address of element 0 -/
  base : Nat
  /-- number of elements (array constant, or the slice header's `len`) -/
  len : Nat
  /-- `stride(elem)` and `size(elem)` -/
  stride : Nat
  elemSize : Nat
  /-- `no_load || is_aggregate`: only the address is produced -/
  addressOnly : Bool
  deriving DecidableEq, Repr

/-- `uextend` of the index's bit pattern to pointer width (64) -/
def widenIndex (idxBits : Nat) (pattern : Nat) : Nat := pattern % 2 ^ idxBits % 2 ^ 64

def runIndex (p : IndexPlan) (indexPattern : Nat) : Outcome :=
  let i := widenIndex p.idxBits indexPattern
  if i < p.len then
    .ok (if p.addressOnly then [] else [(p.base + i * p.stride, p.elemSize)])
  else .abort []

/-- a slice: header at `hdr` = (len : usize, ptr : usize); the plan reads both words -/
structure SlicePlan where
  idxBits : Nat
  hdr : Nat
  ptrBytes : Nat
  /-- contents of the header -/
  len : Nat
  dataPtr : Nat
  stride : Nat
  elemSize : Nat
  addressOnly : Bool
  deriving DecidableEq, Repr

def runSliceIndex (p : SlicePlan) (indexPattern : Nat) : Outcome :=
  let i := widenIndex p.idxBits indexPattern
  let hdrReads := [(p.hdr, p.ptrBytes), (p.hdr + p.ptrBytes, p.ptrBytes)]
  if i < p.len then
    .ok (hdrReads ++ (if p.addressOnly then [] else [(p.dataPtr + i * p.stride, p.elemSize)]))
  else .abort hdrReads

inductive UnwrapKind where
  /-- tagged union: tag byte at `discOff`, wanted discriminant -/
  | tagged (discOff : Nat) (wanted : Nat)
  /-- `?^T` and the payload is wanted: value must be non-null -/
  | nullableSome
  /-- `?^T` and `nil` is wanted: value must be null -/
  | nullableNil
  deriving DecidableEq, Repr

structure UnwrapPlan where
  kind : UnwrapKind
  /-- address of the sum value (tagged) / the pointer value itself (nullable) -/
  value : Nat
  /-- the tag byte currently stored (tagged unions) -/
  tag : Nat
  deriving DecidableEq, Repr

/-- returns the outcome and, on success, the payload address (`unwrap_sum_ty`: offset 0) -/
def runUnwrap (p : UnwrapPlan) : Outcome × Option Nat :=
  match p.kind with
  | .tagged discOff wanted =>
    let tagRead := [(p.value + discOff, 1)]
    if p.tag % 256 = wanted % 256 then (.ok tagRead, some p.value) else (.abort tagRead, none)
  | .nullableSome => if p.value ≠ 0 then (.ok [], some p.value) else (.abort [], none)
  | .nullableNil => if p.value = 0 then (.ok [], some p.value) else (.abort [], none)

/-- the compile-time rule of `hir_ty` for a literal index into a fixed-size array
(`if let Expr::IntLiteral(index) = … { if index >= actual_size { IndexOutOfBounds } }`) -/
def literalIndexRejected (isIntLiteral : Bool) (index size : Nat) : Bool :=
  isIntLiteral && index ≥ size

end CapyV.Checks
