import CapyV.Model.Ty
/-!
# Model of `switch` over sum types (C11)

Transcribed from

* `hir_ty/src/globals.rs`, `infer_expr`, arm `Expr::Switch` (the acceptance check) and arm
  `Expr::SwitchArgument` (the static type of the switch argument),
* `hir_ty/src/globals.rs`, `Expr::EnumDecl` (assignment of discriminants, `DiscriminantUsedAlready`),
* `hir/src/common/ty.rs`: `is_sum_ty`, `is_enum`, `has_sum_variant`, `get_tagged_union_discrim`,
  `is_tagged_union`,
* `codegen/src/compiler/functions.rs`, `compile_expr`, arm `hir::Expr::Switch` (jump table on the
  tag byte / null test for nullable pointers, binding of the switch argument) and
  `codegen/src/compiler/mod.rs::unwrap_sum_ty`.

Where the Rust would panic (`unreachable!()`, `unwrap()` of `None`, `assert!`, Cranelift's
`Switch` assertions) the model returns `none` / `.panic` — never a default value.

`checkSwitch` is the code *after* `FIX.patch` (variant list taken from `absolute_ty()` and used
for arm resolution as well); `checkSwitchPinned` is the code of the pinned tree (variant list
from the scrutinee's syntactic head; arm resolution through `has_sum_variant`).
-/
namespace CapyV.Switch
open CapyV

/-! ## 1. The acceptance check (`hir_ty`) -/

/-- `hir::ArmVariant` after type resolution (`const_ty` of a fully-qualified arm). The default
arm `_` is not an `Arm`: `lower_switch` stores it separately (`default`). -/
inductive Arm where
  | shorthand (name : Nat)
  | qualified (ty : Ty)
  deriving DecidableEq, Repr

/-- The diagnostics this check can push, with the payload the Rust puts into them. -/
inductive Diag where
  /-- `Mismatch { expected: ExpectedTy::SumType }` on the scrutinee -/
  | mismatchSumType
  /-- `Mismatch { expected: ExpectedTy::Enum }`: shorthand arm on a non-enum -/
  | mismatchEnum
  /-- `NotAVariantOfSumType { ty }` -/
  | notAVariant (ty : Ty)
  /-- `NotAShorthandVariantOfSumType { ty: name }` -/
  | notAShorthandVariant (name : Nat)
  /-- `SwitchAlreadyCoversVariant { ty }` -/
  | alreadyCovers (variant : Ty)
  /-- `SwitchDoesNotCoverVariant { ty }` -/
  | doesNotCover (variant : Ty)
  deriving DecidableEq, Repr

inductive Outcome where
  /-- the compiler panics (`unreachable!()`) -/
  | panic
  | diags (ds : List Diag)
  deriving DecidableEq, Repr

/-- `Ty::is_enum` -/
def isEnum (t : Ty) : Bool :=
  match t.absoluteTy with
  | .enum _ _ => true
  | _ => false

/-- The `match` that builds the variant list: `Optional → [sub, nil]`,
`ErrorUnion → [error, payload]`, `Enum → variants`, `_ => unreachable!()`. -/
def variantTys : Ty → Option (List Ty)
  | .optional sub => some [sub, .nil]
  | .errorUnion e p => some [e, p]
  | .enum _ vs => some vs.toList
  | _ => none

/-- `let Ty::EnumVariant { variant_name, .. } = v else { unreachable!() }` -/
def variantName? : Ty → Option Nat
  | .enumVariant _ n _ _ _ => some n
  | _ => none

/-- `variants.iter().any(|v| { let EnumVariant{variant_name,..} = v else unreachable!(); variant_name == name })`
(short-circuiting; `none` = the `unreachable!()` was evaluated). -/
def anyNamed (n : Nat) : List Ty → Option Bool
  | [] => some false
  | v :: vs =>
    match variantName? v with
    | none => none
    | some m => if m = n then some true else anyNamed n vs

/-- First loop ("resolve all arm types beforehand") of the fixed code: the diagnostics it pushes,
or `none` for a panic. `type_resolution_error` is "the result is non-empty". -/
def resolveArms (scrut : Ty) (vts : List Ty) : List Arm → Option (List Diag)
  | [] => some []
  | .qualified ty :: rest =>
    match resolveArms scrut vts rest with
    | none => none
    | some ds => some (if vts.contains ty then ds else .notAVariant ty :: ds)
  | .shorthand n :: rest =>
    if isEnum scrut then
      match anyNamed n vts with
      | none => none
      | some found =>
        match resolveArms scrut vts rest with
        | none => none
        | some ds => some (if found then ds else .notAShorthandVariant n :: ds)
    else
      match resolveArms scrut vts rest with
      | none => none
      | some ds => some (.mismatchEnum :: ds)

/-- `VariantToCheck::matches_arm` (`none` = `unreachable!()`). -/
def matchesArm (v : Ty) : Arm → Option Bool
  | .qualified ty => some (decide (v = ty))
  | .shorthand n =>
    match variantName? v with
    | none => none
    | some m => some (decide (m = n))

/-- `variants.iter_mut().find(|v| v.matches_arm(..))` followed by the `included_in_switch`
bookkeeping. State: the variants with their `included_in_switch` flag. Result: new state and,
if the variant had been covered already, that variant (for `SwitchAlreadyCoversVariant`).
`none` = panic (no variant matches: `else { unreachable!() }`, or inside `matches_arm`). -/
def markArm (a : Arm) : List (Ty × Bool) → Option (List (Ty × Bool) × Option Ty)
  | [] => none
  | (v, inc) :: rest =>
    match matchesArm v a with
    | none => none
    | some true => some ((v, true) :: rest, if inc then some v else none)
    | some false =>
      match markArm a rest with
      | none => none
      | some (rest', d) => some ((v, inc) :: rest', d)

/-- Second loop: every non-default arm in source order. -/
def coverArms : List Arm → List (Ty × Bool) → Option (List (Ty × Bool) × List Diag)
  | [], st => some (st, [])
  | a :: as, st =>
    match markArm a st with
    | none => none
    | some (st', d) =>
      match coverArms as st' with
      | none => none
      | some (st'', ds) =>
        some (st'', match d with
                    | some v => .alreadyCovers v :: ds
                    | none => ds)

/-- Third loop (only without a default arm): one diagnostic per variant not included. -/
def uncovered : List (Ty × Bool) → List Diag
  | [] => []
  | (v, inc) :: rest => if inc then uncovered rest else .doesNotCover v :: uncovered rest

/-- The whole check, fixed code. Arm bodies are not modelled (`SwitchMismatch` is about the
types of the arm *bodies*, not about the property). -/
def checkSwitch (scrut : Ty) (arms : List Arm) (hasDefault : Bool) : Outcome :=
  if !scrut.isSumTy then .diags [.mismatchSumType] else
  match variantTys scrut.absoluteTy with
  | none => .panic
  | some vts =>
    match resolveArms scrut vts arms with
    | none => .panic
    | some (d :: ds) => .diags (d :: ds)
    | some [] =>
      match coverArms arms (vts.map fun v => (v, false)) with
      | none => .panic
      | some (st, ds) => .diags (ds ++ if hasDefault then [] else uncovered st)

/-! ### The pinned code (before `FIX.patch`) -/

/-- `Ty::has_sum_variant` -/
def hasSumVariant (t v : Ty) : Bool :=
  match t.absoluteTy with
  | .optional sub => decide (v = sub) || v.isNil
  | .errorUnion e p => decide (v = e) || decide (v = p)
  | .enum _ vs => vs.toList.contains v
  | _ => false

/-- First loop of the pinned code: `has_sum_variant` for fully-qualified arms,
`let Ty::Enum { variants } = *scrutinee_ty else { unreachable!() }` for shorthand arms. -/
def resolveArmsPinned (scrut : Ty) : List Arm → Option (List Diag)
  | [] => some []
  | .qualified ty :: rest =>
    match resolveArmsPinned scrut rest with
    | none => none
    | some ds => some (if hasSumVariant scrut ty then ds else .notAVariant ty :: ds)
  | .shorthand n :: rest =>
    if isEnum scrut then
      match scrut with
      | .enum _ vs =>
        match anyNamed n vs.toList with
        | none => none
        | some found =>
          match resolveArmsPinned scrut rest with
          | none => none
          | some ds => some (if found then ds else .notAShorthandVariant n :: ds)
      | _ => none
    else
      match resolveArmsPinned scrut rest with
      | none => none
      | some ds => some (.mismatchEnum :: ds)

def checkSwitchPinned (scrut : Ty) (arms : List Arm) (hasDefault : Bool) : Outcome :=
  if !scrut.isSumTy then .diags [.mismatchSumType] else
  match resolveArmsPinned scrut arms with
  | none => .panic
  | some (d :: ds) => .diags (d :: ds)
  | some [] =>
    match variantTys scrut with
    | none => .panic
    | some vts =>
      match coverArms arms (vts.map fun v => (v, false)) with
      | none => .panic
      | some (st, ds) => .diags (ds ++ if hasDefault then [] else uncovered st)

/-! ### The property's acceptance rule, stated independently of the loops -/

/-- The variant an arm names, if any: a fully-qualified arm names the variant type it denotes;
a shorthand arm `.N` names the (first) variant called `N` of an enum. -/
def names (scrutIsEnum : Bool) (vts : List Ty) : Arm → Option Ty
  | .qualified ty => if ty ∈ vts then some ty else none
  | .shorthand n => if scrutIsEnum then vts.find? (fun v => variantName? v == some n) else none

/-- "names only variants of that type, names each at most once, and either names all of them
or has a default arm". -/
def Accepts (scrutIsEnum : Bool) (vts : List Ty) (arms : List Arm) (hasDefault : Bool) : Prop :=
  (∀ a ∈ arms, (names scrutIsEnum vts a).isSome) ∧
  (arms.map (names scrutIsEnum vts)).Nodup ∧
  (hasDefault = true ∨ ∀ v ∈ vts, some v ∈ arms.map (names scrutIsEnum vts))

instance (e : Bool) (vts : List Ty) (arms : List Arm) (d : Bool) : Decidable (Accepts e vts arms d) := by
  unfold Accepts; exact inferInstance

/-! ## 2. Discriminants of an enum declaration (`Expr::EnumDecl`) -/

/-- First pass over the variants: `used_discriminants`, `manual_discriminants` (per variant index)
and the values reported as `DiscriminantUsedAlready`. Input: the constant value of each variant's
`| N`, if it has one. -/
def manualPass : List (Option Nat) → List Nat → List Nat × List (Option Nat) × List Nat
  | [], used => (used, [], [])
  | none :: rest, used =>
    let (u, m, d) := manualPass rest used
    (u, none :: m, d)
  | some n :: rest, used =>
    if n ∈ used then
      let (u, m, d) := manualPass rest used
      (u, none :: m, n :: d)
    else
      let (u, m, d) := manualPass rest (n :: used)
      (u, some n :: m, d)

/-- `while used_discriminants.contains(&discrim) { discrim += 1 }` (fuel bounds the loop; with
fuel `used.sum + 1` it always reaches a free value, see `Proofs/Switch.lean`). -/
def firstFree (used : List Nat) (d : Nat) : Nat → Nat
  | 0 => d
  | fuel + 1 => if d ∈ used then firstFree used (d + 1) fuel else d

/-- Second pass: the discriminant of every variant, threading `latest_discrim`. -/
def assignPass (used : List Nat) : List (Option Nat) → Nat → List Nat
  | [], _ => []
  | m :: rest, latest =>
    let d := match m with
      | some d => d
      | none => firstFree used latest (used.sum + 1)
    d :: assignPass used rest (if d ≥ latest then d + 1 else latest)

/-- (reported duplicate discriminants, discriminant of every variant) -/
def assignDiscriminants (manual : List (Option Nat)) : List Nat × List Nat :=
  let (used, m, dups) := manualPass manual []
  (dups, assignPass used m 0)

/-! ## 3. Code generation: which arm runs, what the argument is bound to -/

/-- `Ty::get_tagged_union_discrim` (on the sum type `t`, already absolute or not).
`.some none` = Rust `None` (nullable-pointer optionals and non-sum types),
`none` = the function panics. -/
def taggedUnionDiscrim (t : Ty) (variant : Ty) : Option (Option Nat) :=
  match t.absoluteTy with
  | .optional sub =>
    if sub.isNonZero then some none
    else if variant = .nil then some (some 0)
    else if sub = variant then some (some 1) else none
  | .errorUnion e p =>
    if variant = e then some (some 0)
    else if variant = p then some (some 1)
    else none
  | .enum uid _ =>
    match variant with
    | .enumVariant euid _ _ _ d => if uid = euid then some (some d) else none
    | _ => none
  | _ => some none

/-- `arm_ty` of `arm_blocks`: the variant type an arm stands for
(`meta_ty(ty).unwrap()` / `variants.iter().find(name).unwrap()`; `none` = panic).
`fixed = false`: the shorthand case destructures `*sum_ty` itself. -/
def armTy (fixed : Bool) (scrut : Ty) : Arm → Option Ty
  | .qualified ty => some ty
  | .shorthand n =>
    match (if fixed then scrut.absoluteTy else scrut) with
    | .enum _ vs => vs.toList.find? (fun v => variantName? v == some n)
    | _ => none

inductive Target where
  | arm (i : Nat)
  | default
  /-- `compile_unreachable("every branch of `switch` was missed")` -/
  | trap
  deriving DecidableEq, Repr

/-- The compiled dispatch. -/
inductive Compiled where
  /-- tagged union: Cranelift `Switch` on the tag byte; `(discriminant, arm index)` -/
  | table (entries : List (Nat × Nat)) (hasDefault : Bool)
  /-- nullable pointer: `brif(ptr != 0, some_block, nil_block)` -/
  | nullable (someArm nilArm : Target)
  deriving DecidableEq, Repr

/-- `Switch::set_entry(discrim, arm_block)` for every arm in source order:
`(discriminant, arm index)`; `none` = `meta_ty(..).unwrap()` / `find(..).unwrap()` /
`get_tagged_union_discrim(..).unwrap()` panicked. -/
def tableEntries (fixed : Bool) (scrut : Ty) : List Arm → Nat → Option (List (Nat × Nat))
  | [], _ => some []
  | a :: rest, i =>
    match armTy fixed scrut a with
    | none => none
    | some vt =>
      match taggedUnionDiscrim scrut vt with
      | some (some d) =>
        match tableEntries fixed scrut rest (i + 1) with
        | none => none
        | some es => some ((d, i) :: es)
      | _ => none

def findArmIdx (p : Ty → Bool) : List Ty → Nat → Option Nat
  | [], _ => none
  | t :: rest, i => if p t then some i else findArmIdx p rest (i + 1)

def armTys (fixed : Bool) (scrut : Ty) : List Arm → Option (List Ty)
  | [] => some []
  | a :: rest =>
    match armTy fixed scrut a, armTys fixed scrut rest with
    | some t, some ts => some (t :: ts)
    | _, _ => none

/-- `compile_expr` on `Expr::Switch`. `fixed` selects the code after `FIX.patch`
(shorthand arms look through distinct wrappers; the nullable-pointer path supports a default arm)
or the pinned code (`assert!(default.is_none())`, `assert_eq!(arm_blocks.len(), 2)`). -/
def compileSwitch (fixed : Bool) (scrut : Ty) (arms : List Arm) (hasDefault : Bool)
    (withArg : Bool := true) : Option Compiled :=
  if scrut.isTaggedUnion then
    match tableEntries fixed scrut arms 0 with
    | none => none
    | some entries =>
      -- Cranelift `Switch::set_entry`: "Tried to set the same entry {} twice"
      if !(decide (entries.map Prod.fst).Nodup) then none
      -- `Switch::emit` on an `i8` index: "The index type i8 does not fit the maximum switch entry"
      else if entries.any (fun e => e.1 > 255) then none
      -- pinned `unwrap_sum_ty`: `assert!(!payload_ty.is_non_zero())` when the switch has an
      -- argument and a variant's payload is a pointer (removed by `FIX.patch`)
      else if !fixed && withArg && (arms.any fun a =>
          match armTy fixed scrut a with
          | some vt => vt.isNonZero
          | none => false) then none
      else some (.table entries hasDefault)
  else
    match scrut.absoluteTy with
    | .optional _ =>
      match armTys fixed scrut arms with
      | none => none
      | some tys =>
        if fixed then
          let dflt : Option Target := if hasDefault then some .default else none
          let nilT := match findArmIdx (fun t => decide (t = .nil)) tys 0 with
            | some i => some (Target.arm i)
            | none => dflt
          let someT := match findArmIdx (fun t => decide (t ≠ .nil)) tys 0 with
            | some i => some (Target.arm i)
            | none => dflt
          match someT, nilT with
          | some s, some n => some (.nullable s n)
          | _, _ => none
        else
          if hasDefault then none
          else if tys.length ≠ 2 then none
          else
            match findArmIdx (fun t => decide (t = .nil)) tys 0 with
            | none => none
            | some nilIdx => some (.nullable (.arm (if nilIdx = 0 then 1 else 0)) (.arm nilIdx))
    | _ => none

/-- Runtime discriminator of a value: the tag byte of a tagged union, or "is the pointer
non-null" for a nullable pointer. -/
inductive Discr where
  | tag (byte : Nat)
  | ptr (nonNull : Bool)
  deriving DecidableEq, Repr

/-- What the generated code does with a value. A tag is looked up in the table (Cranelift
`Switch`: branch to the entry equal to the index, else to the default block, which is the
default arm or a trap). -/
def dispatch : Compiled → Discr → Option Target
  | .table entries hasDefault, .tag b =>
    match entries.find? (fun e => e.1 == b) with
    | some (_, i) => some (.arm i)
    | none => some (if hasDefault then .default else .trap)
  | .nullable s _, .ptr true => some s
  | .nullable _ n, .ptr false => some n
  | _, _ => none

/-- How a value whose current variant is `v` is represented (the stores that create it:
`cast_payload_into_tagged_union` writes `iconst(I8, discrim)` at `discriminant_offset`;
a nullable optional is the pointer itself, `nil` = 0). `none` = no representation
(the discriminant does not exist). -/
def reprDiscr (scrut v : Ty) : Option Discr :=
  if scrut.isTaggedUnion then
    match taggedUnionDiscrim scrut v with
    | some (some d) => some (.tag (d % 256))
    | _ => none
  else
    match scrut.absoluteTy with
    | .optional _ => some (.ptr (decide (v ≠ .nil)))
    | _ => none

/-- What the switch argument is bound to inside an arm. -/
inductive Binding where
  /-- `unwrap_sum_ty`: the payload stored at offset 0 of the sum value, read at type `ty`
  (nothing at all for zero-sized payloads such as `nil`/`void`) -/
  | payload (ty : Ty)
  /-- default arm: `switch_locals.insert(switch_arg, scrutinee_val)`, typed as the scrutinee -/
  | whole (ty : Ty)
  deriving DecidableEq, Repr

/-- Static type given to the switch argument by `Expr::SwitchArgument` together with the value
codegen binds (`none` = not bound / panic / `Ty::Unknown`). -/
def binding (fixed : Bool) (scrut : Ty) (arms : List Arm) : Target → Option Binding
  | .default => some (.whole scrut)
  | .arm i =>
    match arms[i]? with
    | none => none
    | some a => (armTy fixed scrut a).map .payload
  | .trap => none

end CapyV.Switch
