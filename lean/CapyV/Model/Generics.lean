/-
Instance identity of generic functions — model of `Expr::Call` stage 1 / stage 2 in
`crates/hir_ty/src/globals.rs` (`evaluate_comptime_args`, `call_associated_generics`) and of
`ComptimeArgs` / `ConcreteLoc` in `crates/hir/src/common/locations.rs`.

* `generics_arena` is an append-only arena of comptime values. The only allocations are the
  ones of `evaluate_comptime_args`: one `alloc` per *named* comptime parameter, in parameter
  order; the code asserts that they are consecutive (`prev + 1 == next`, else panic), so a call
  allocates one contiguous block (an empty block, `alloc_many([])`, when there is none).
* `call_associated_generics : (ConcreteLoc of the caller, call expression) ↦ ComptimeArgs`.
  Stage 1 (no entry yet): evaluate, allocate, insert, and request inference of
  `fn_loc.make_concrete(Some(comptime_args))`. Stage 2 (entry present): reuse the stored range.
* `ConcreteLoc` = (naive location, `Some(ComptimeArgs{start,end})`); its symbol contains
  `G<raw_start>` (C27's `Entity.generic`).
-/
namespace CapyV.Generics

/-- `ComptimeResult` as far as identity is concerned -/
inductive CVal where
  | int (z : Int)
  | ty (id : Nat)
  | other (tag : Nat)
  deriving DecidableEq, Repr

/-- `ComptimeArgs { start, end }` (half open) -/
structure Range where
  start : Nat
  stop : Nat
  deriving DecidableEq, Repr

/-- key of `call_associated_generics`: the caller's concrete location and the call expression -/
structure Site where
  loc : Nat
  expr : Nat
  deriving DecidableEq, Repr

structure State where
  arena : List CVal
  /-- newest first -/
  assoc : List (Site × Range)
  deriving Repr

def State.empty : State := ⟨[], []⟩

def lookupSite (s : Site) : List (Site × Range) → Option Range
  | [] => none
  | (k, r) :: rest => if s = k then some r else lookupSite s rest

/-- one visit of a generic call expression whose comptime arguments evaluated to `vals` -/
def step (st : State) (site : Site) (vals : List CVal) : State × Range :=
  match lookupSite site st.assoc with
  | some r => (st, r)                                   -- stage 2
  | none =>                                             -- stage 1
    let r : Range := ⟨st.arena.length, st.arena.length + vals.length⟩
    ({ arena := st.arena ++ vals, assoc := (site, r) :: st.assoc }, r)

/-- a history of visits -/
def runAll (st : State) : List (Site × List CVal) → State
  | [] => st
  | (s, v) :: rest => runAll (step st s v).1 rest

/-- what the instantiated body reads through `Expr::ComptimeParam`:
`generics_arena[range.nth(comptime_idx)]` -/
def readArgs (st : State) (r : Range) : List CVal :=
  (st.arena.drop r.start).take (r.stop - r.start)

/-- the instance a call site refers to: `fn_loc.make_concrete(Some(comptime_args))` -/
structure Instance where
  naive : Nat
  range : Range
  deriving DecidableEq, Repr

end CapyV.Generics
