/-!
# Regular expressions over Unicode scalar values, Brzozowski derivatives, longest match

Executable model of what a `logos` rule *denotes* (not of how logos compiles it): the
constructs are exactly those `tokenizer.txt` uses (`tools/gen_tokens.py` refuses anything
else). `plus` / `opt` are kept as constructors because logos' priority formula
distinguishes them (`Mir::Loop`, `Mir::Maybe`).
Imports nothing (linked into the `capyv` driver).
-/
namespace CapyV

inductive Regex where
  | empty                                    -- matches nothing
  | eps                                      -- matches ""
  | cls (neg : Bool) (rs : List (Nat × Nat)) -- one scalar value in / not in the ranges
  | cat (a b : Regex)
  | alt (a b : Regex)
  | star (a : Regex)
  | plus (a : Regex)
  | opt (a : Regex)
  deriving DecidableEq, Repr, Inhabited

namespace Regex

def inRanges (rs : List (Nat × Nat)) (c : Char) : Bool :=
  rs.any fun p => p.1 ≤ c.toNat && c.toNat ≤ p.2

def clsMatch (neg : Bool) (rs : List (Nat × Nat)) (c : Char) : Bool :=
  inRanges rs c != neg

def single (c : Char) : Regex := .cls false [(c.toNat, c.toNat)]

/-- a literal string -/
def ofChars : List Char → Regex
  | [] => .eps
  | c :: cs => .cat (single c) (ofChars cs)

def nullable : Regex → Bool
  | empty => false
  | eps => true
  | cls _ _ => false
  | cat a b => nullable a && nullable b
  | alt a b => nullable a || nullable b
  | star _ => true
  | plus a => nullable a
  | opt _ => true

/-- simplifying constructors: keep derivatives small (`∅·r = ∅`, `ε·r = r`, `∅+r = r`, `r+r = r`) -/
def mkCat (a b : Regex) : Regex :=
  if a = .empty then .empty
  else if b = .empty then .empty
  else if a = .eps then b
  else .cat a b

def mkAlt (a b : Regex) : Regex :=
  if a = .empty then b
  else if b = .empty then a
  else if a = b then a
  else .alt a b

def deriv (c : Char) : Regex → Regex
  | empty => .empty
  | eps => .empty
  | cls neg rs => if clsMatch neg rs c then .eps else .empty
  | cat a b =>
    if nullable a then mkAlt (mkCat (deriv c a) b) (deriv c b) else mkCat (deriv c a) b
  | alt a b => mkAlt (deriv c a) (deriv c b)
  | star a => mkCat (deriv c a) (.star a)
  | plus a => mkCat (deriv c a) (.star a)
  | opt a => deriv c a

def derivs (r : Regex) : List Char → Regex
  | [] => r
  | c :: cs => derivs (deriv c r) cs

/-- whole-string match by derivatives -/
def rmatch (r : Regex) (w : List Char) : Bool := nullable (derivs r w)

/-- logos' default priority of a `#[regex]` (logos-codegen `Mir::priority`): loops and
optionals 0, a class or a literal character 2, concatenation sums, alternation takes the
minimum. -/
def prio : Regex → Nat
  | empty => 0
  | eps => 0
  | cls _ _ => 2
  | cat a b => prio a + prio b
  | alt a b => min (prio a) (prio b)
  | star _ => 0
  | plus a => prio a            -- `x+` is `Concat [x, Loop x]`
  | opt _ => 0

/-- Length (in scalar values) of the longest prefix of `s` that `r` matches, scanning left
to right with the last accepting position remembered (`best`): maximal munch with
backtracking to the last accept. `n` = characters consumed so far. The scan stops as soon
as the derivative is syntactically `∅`. -/
def longestAux : Regex → List Char → Nat → Option Nat → Option Nat
  | r, [], n, best => if nullable r then some n else best
  | r, c :: cs, n, best =>
    let best' := if nullable r then some n else best
    if r = .empty then best' else longestAux (deriv c r) cs (n + 1) best'

def longest (r : Regex) (s : List Char) : Option Nat := longestAux r s 0 none

end Regex

/-- A lexer rule: `#[token("…")]` or `#[regex("…")]`. -/
inductive Pat where
  | lit (cs : List Char)
  | rx (r : Regex)
  deriving DecidableEq, Repr, Inhabited

def utf8Len (s : List Char) : Nat := (s.map Char.utf8Size).sum

namespace Pat

def regex : Pat → Regex
  | lit cs => Regex.ofChars cs
  | rx r => r

/-- logos: `#[token]` priority = 2 × byte length; `#[regex]` priority = `Mir::priority` -/
def prio : Pat → Nat
  | lit cs => 2 * utf8Len cs
  | rx r => r.prio

end Pat
end CapyV
