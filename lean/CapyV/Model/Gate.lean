/-
C07 — model of the build gate of `compile_file` (`crates/capy/src/main.rs`): what is
produced, and with which exit status, as a function of what the stages report.

Stage results are inputs (the stages themselves are the other properties' business):
* `frontErrors`  — some parse / validation / indexing / lowering diagnostic is an error
                   (`source.has_errors()`), or some type diagnostic `is_error()`
* `anyUnsafe`    — `InferenceResult::any_were_unsafe_to_compile` (only tracked when the CLI is
                   run with `--verbose-types`; otherwise constant `false`)
* `mainCount`    — number of files that define the entry point
* `codegenErr`   — `compile_obj` returned `Err` (object writer error)
* `linkFail`     — the linker could not be run or failed
* `noExec`       — `--no-exec` / foreign target
-/
namespace CapyV.Gate

structure Stages where
  frontErrors : Bool
  anyUnsafe : Bool
  mainCount : Nat
  codegenErr : Bool
  linkFail : Bool
  noExec : Bool
  deriving DecidableEq, Repr

inductive Result where
  /-- `println!("not compiling due to previous errors"); exit(1)` -/
  | rejected
  /-- `assert!(!any_were_unsafe_to_compile)` fails: the compiler panics -/
  | assertPanic
  /-- "there is no `main` function" / "there are multiple `main` functions", exit 1 -/
  | entryPointError
  /-- `println!("Cranelift Error: …"); return Ok(())` — exit status 0, nothing written -/
  | codegenErrorExit0
  /-- object written, linking failed, exit 1 -/
  | objectOnlyLinkFailed
  /-- object written (no executable requested), exit 0 -/
  | objectOnly
  /-- object and executable written, exit 0 -/
  | built
  deriving DecidableEq, Repr

/-- the decision sequence of `compile_file` after type inference, in source order -/
def gate (s : Stages) : Result :=
  if s.frontErrors then .rejected
  else if s.anyUnsafe then .assertPanic
  else if s.mainCount ≠ 1 then .entryPointError
  else if s.codegenErr then .codegenErrorExit0
  else if s.noExec then .objectOnly
  else if s.linkFail then .objectOnlyLinkFailed
  else .built

def Result.objectWritten : Result → Bool
  | .objectOnlyLinkFailed | .objectOnly | .built => true
  | _ => false

def Result.exitStatus : Result → Nat
  | .rejected | .entryPointError | .objectOnlyLinkFailed => 1
  | .assertPanic => 101
  | .codegenErrorExit0 | .objectOnly | .built => 0

end CapyV.Gate
