/-
Model of `crates/line_index/src/lib.rs` and of the position header of
`Diagnostic::display` (`crates/diagnostics/src/lib.rs`).

Text is a list of bytes (`Nat` < 256 in practice; only the value 10 matters).
`text.match_indices('\n')` yields byte indices of the byte 0x0A, which in UTF-8 only
ever encodes U+000A, so a byte-level model is exact.
-/
namespace CapyV.LineIndex

/-- byte value of `'\n'` -/
def NL : Nat := 10

/-- `match_indices('\n').map(|(idx,_)| idx + 1)` with the running byte position. -/
def lineStartsFrom (pos : Nat) : List Nat → List Nat
  | [] => []
  | b :: bs =>
    if b = NL then (pos + 1) :: lineStartsFrom (pos + 1) bs
    else lineStartsFrom (pos + 1) bs

/-- `LineIndex::new`: `iter::once(0).chain(...)`. -/
def lineStarts (t : List Nat) : List Nat := 0 :: lineStartsFrom 0 t

/-- `slice::partition_point(|&it| it <= off)`: on a slice partitioned by the predicate
this is the length of the true prefix (std contract, trusted); the partitioning
precondition is proved in `Proofs/LineIndex.lean` (`lineStarts_sorted`). -/
def partitionPoint (xs : List Nat) (off : Nat) : Nat :=
  (xs.takeWhile (fun x => decide (x ≤ off))).length

/-- Outcome of `LineIndex::line_col`. `none` stands for a Rust panic
(`partition_point(..) - 1` underflow, or index out of bounds, or `offset - line_start`
underflow in `TextSize::sub`). -/
def lineCol (t : List Nat) (off : Nat) : Option (Nat × Nat) :=
  let ls := lineStarts t
  let pp := partitionPoint ls off
  if pp = 0 then none else
  let line := pp - 1
  match ls[line]? with
  | none => none
  | some start => if start ≤ off then some (line, off - start) else none

/-- The `--> at file:L:C` header of `Diagnostic::display`/`input_snippet`:
`start_line.0 + 1`, `start_col.0 + 1` of `line_col(range.start())`. -/
def header (t : List Nat) (rangeStart : Nat) : Option (Nat × Nat) :=
  (lineCol t rangeStart).map fun (l, c) => (l + 1, c + 1)

end CapyV.LineIndex
