/-
Shared model of `hir::common::Ty` (`/repo/crates/hir/src/common/ty.rs`).

* bit width `0` = weak ("{int}", "{uint}", "{float}"), `255` (`u8::MAX`) = pointer sized.
* uids, interned names, file names and function locations are plain `Nat`s.
* `Ty` is a *mutual* inductive (not nested) so that `deriving DecidableEq` works and
  structural recursion is available.
-/
namespace CapyV

mutual
inductive Ty where
  | notYetResolved
  | unknown
  | iint (w : Nat)
  | uint (w : Nat)
  | float (w : Nat)
  | bool
  | string
  | char
  | anonArray (size : Nat) (sub : Ty)
  | concreteArray (size : Nat) (sub : Ty)
  | slice (sub : Ty)
  | pointer (mutable : Bool) (sub : Ty)
  | distinct (uid : Nat) (sub : Ty)
  | type
  | any
  | rawPtr (mutable : Bool)
  | rawSlice
  | file (name : Nat)
  | naivePolyFn (loc : Nat)
  | concreteFn (params : Params) (ret : Ty) (loc : Nat)
  | fnPointer (params : Params) (ret : Ty)
  | anonStruct (members : Members)
  | concreteStruct (uid : Nat) (members : Members)
  | enum (uid : Nat) (variants : Tys)
  | enumVariant (enumUid : Nat) (name : Nat) (uid : Nat) (sub : Ty) (disc : Nat)
  | nil
  | optional (sub : Ty)
  | errorUnion (err : Ty) (payload : Ty)
  | void
  | alwaysJumps
inductive Members where
  | nil
  | cons (name : Nat) (ty : Ty) (rest : Members)
inductive Params where
  | nil
  | cons (ty : Ty) (comptime : Option Nat) (varargs : Bool) (itd : Bool) (rest : Params)
inductive Tys where
  | nil
  | cons (ty : Ty) (rest : Tys)
end

deriving instance DecidableEq for Ty, Members, Params, Tys
deriving instance Repr for Ty, Members, Params, Tys
instance : Inhabited Ty := ⟨.void⟩

/-- `u8::MAX`: the bit width that stands for `isize`/`usize`. -/
def PTR_WIDTH_MARK : Nat := 255

namespace Members
def toList : Members → List (Nat × Ty)
  | .nil => []
  | .cons n t r => (n, t) :: toList r
def ofList : List (Nat × Ty) → Members
  | [] => .nil
  | (n, t) :: r => .cons n t (ofList r)
def length : Members → Nat
  | .nil => 0
  | .cons _ _ r => length r + 1
end Members

namespace Tys
def toList : Tys → List Ty
  | .nil => []
  | .cons t r => t :: toList r
def ofList : List Ty → Tys
  | [] => .nil
  | t :: r => .cons t (ofList r)
end Tys

namespace Params
def length : Params → Nat
  | .nil => 0
  | .cons _ _ _ _ r => length r + 1
def tys : Params → List Ty
  | .nil => []
  | .cons t _ _ _ r => t :: tys r
def anyComptime : Params → Bool
  | .nil => false
  | .cons _ c _ _ r => c.isSome || anyComptime r
end Params

namespace Ty

/-- `Ty::absolute_ty`: strip `Distinct` and `EnumVariant` wrappers. -/
def absoluteTy : Ty → Ty
  | .distinct _ s => absoluteTy s
  | .enumVariant _ _ _ s _ => absoluteTy s
  | t => t

/-- `Ty::absolute_ty_keep_variants`: strip `Distinct` wrappers only. -/
def absoluteTyKeepVariants : Ty → Ty
  | .distinct _ s => absoluteTyKeepVariants s
  | t => t

def isPointer (t : Ty) : Bool :=
  match t.absoluteTy with
  | .pointer _ _ | .rawPtr _ => true
  | _ => false

/-- `Ty::is_non_zero` -/
def isNonZero (t : Ty) : Bool := t.isPointer

def isFunction (t : Ty) : Bool :=
  match t.absoluteTy with
  | .concreteFn _ _ _ | .fnPointer _ _ => true
  | _ => false

def isNil (t : Ty) : Bool :=
  match t.absoluteTy with
  | .nil => true
  | _ => false

def isSumTy (t : Ty) : Bool :=
  match t.absoluteTy with
  | .enum _ _ | .errorUnion _ _ | .optional _ => true
  | _ => false

def isTaggedUnion (t : Ty) : Bool :=
  match t.absoluteTy with
  | .enum _ _ | .errorUnion _ _ => true
  | .optional s => !s.isNonZero
  | _ => false

/-- `Ty::is_aggregate` -/
def isAggregate (t : Ty) : Bool :=
  match t.absoluteTy with
  | .concreteStruct _ _ | .anonStruct _ | .enum _ _ | .errorUnion _ _
  | .concreteArray _ _ | .anonArray _ _ | .slice _ | .rawSlice | .any => true
  | .optional s => !s.isNonZero
  | _ => false

mutual
/-- `Ty::is_zero_sized` (note: only `ConcreteArray` / `ConcreteStruct`, as in the code). -/
def isZeroSized : Ty → Bool
  | .notYetResolved | .unknown | .void | .nil | .file _ | .alwaysJumps => true
  | .concreteArray size sub => size == 0 || isZeroSized sub
  | .concreteStruct _ ms => membersAllZeroSized ms
  | .distinct _ s => isZeroSized s
  | .enumVariant _ _ _ s _ => isZeroSized s
  | _ => false
def membersAllZeroSized : Members → Bool
  | .nil => true
  | .cons _ t r => isZeroSized t && membersAllZeroSized r
end

/-- `Ty::might_be_weak` -/
def mightBeWeak : Ty → Bool
  | .iint 0 | .uint 0 | .float 0 => true
  | .concreteArray _ s => mightBeWeak s
  | .slice s => mightBeWeak s
  | .pointer _ s => mightBeWeak s
  | .optional s => mightBeWeak s
  | _ => false

end Ty

-- Structural size, usable as recursion fuel for binary relations on types.
mutual
def Ty.nodes : Ty → Nat
  | .anonArray _ s | .concreteArray _ s | .slice s | .pointer _ s | .distinct _ s
  | .optional s | .enumVariant _ _ _ s _ => s.nodes + 1
  | .errorUnion a b => a.nodes + b.nodes + 1
  | .concreteFn ps r _ | .fnPointer ps r => ps.nodes + r.nodes + 1
  | .anonStruct ms | .concreteStruct _ ms => ms.nodes + 1
  | .enum _ vs => vs.nodes + 1
  | _ => 1
def Members.nodes : Members → Nat
  | .nil => 0
  | .cons _ t r => t.nodes + r.nodes + 1
def Params.nodes : Params → Nat
  | .nil => 0
  | .cons t _ _ _ r => t.nodes + r.nodes + 1
def Tys.nodes : Tys → Nat
  | .nil => 0
  | .cons t r => t.nodes + r.nodes + 1
end

end CapyV
