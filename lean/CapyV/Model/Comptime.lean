import CapyV.Model.Layout
/-
Model of how the value of a `comptime { .. }` block travels from the JIT session that evaluates
it into the built program.

* `accepts`         — the result-type check of `hir_ty/src/globals.rs`, `Expr::Comptime`
                      (`acceptsOld` is the rule of the pinned tree before the C04 `fix:`).
* `containsPointer` — `Ty::contains_pointer` (`hir/src/common/ty.rs`, added by the fix).
* `finalTy`         — `convert.rs::calc_single` (the Cranelift type a Capy type is lowered to).
* `capture`         — the second loop of `eval_comptime_blocks` (`codegen/src/compiler/comptime.rs`):
                      how the result is read back after calling the JIT-compiled block, by type.
* `embedCode`       — `functions.rs`, `hir::Expr::Comptime` with a known result (block used inside
                      a function body): `iconst` / `f32const` / `f64const` / data object.
* `intoBytes`       — `ComptimeBytes::into_bytes` + `IntBytes::into_bytes` (block used as the value
                      of a global: `expr_to_const_data`), and `readGlobal`, the load the program
                      performs on that data object.

The machine that runs the block is abstracted to what the capture code can see of it after the
call (`Machine`): the integer return registers, the float return register, the return buffer an
aggregate is written to, and the bytes found at the returned address (for `str`).
Bytes are `Nat`s below 256; scalars are `Nat`s (bit patterns).
-/
namespace CapyV.Comptime
open CapyV CapyV.Layout

/-! ### the acceptance rule -/

mutual
/-- `Ty::contains_pointer`: a value of this type holds an address somewhere inside it. -/
def containsPointer : Ty → Bool
  | .string | .slice _ | .pointer _ _ | .any | .rawPtr _ | .rawSlice
  | .naivePolyFn _ | .concreteFn _ _ _ | .fnPointer _ _ => true
  | .anonArray _ s | .concreteArray _ s | .distinct _ s | .enumVariant _ _ _ s _
  | .optional s => containsPointer s
  | .anonStruct ms | .concreteStruct _ ms => membersContainPointer ms
  | .enum _ vs => tysContainPointer vs
  | .errorUnion e p => containsPointer e || containsPointer p
  | .notYetResolved | .unknown | .iint _ | .uint _ | .float _ | .bool | .char | .type
  | .file _ | .nil | .void | .alwaysJumps => false
def membersContainPointer : Members → Bool
  | .nil => false
  | .cons _ t r => containsPointer t || membersContainPointer r
def tysContainPointer : Tys → Bool
  | .nil => false
  | .cons t r => containsPointer t || tysContainPointer r
end

/-- `matches!(ty.absolute_ty(), Ty::String)` -/
def isStr (t : Ty) : Bool :=
  match t.absoluteTy with
  | .string => true
  | _ => false

/-- The rule of the pinned tree: `!(ty.is_pointer() || ty.is_function())`. -/
def acceptsOld (t : Ty) : Bool := !(t.isPointer || t.isFunction)

/-- The rule after the fix: `matches!(ty.absolute_ty(), Ty::String) || !ty.contains_pointer()`
(no `ComptimePointer` diagnostic). -/
def accepts (t : Ty) : Bool := isStr t || !containsPointer t

/-- branch label of the check (known findings are keyed by it) -/
def acceptLabel (t : Ty) : String :=
  if isStr t then "accept-str" else if containsPointer t then "reject-contains-pointer" else "accept-pointer-free"

/-! ### final types (`convert.rs`) -/

inductive FinalTy where
  | number (bits : Nat) (float : Bool) (signed : Bool)
  | pointer
  | void
  deriving DecidableEq, Repr

/-- `finalize_int`; `none` = `unreachable!()` -/
def finalizeInt (pw w : Nat) (signed : Bool) : Option FinalTy :=
  if w = PTR_WIDTH_MARK then some (.number pw false signed)
  else if w = 0 then some (.number 32 false true)
  else if w = 8 ∨ w = 16 ∨ w = 32 ∨ w = 64 ∨ w = 128 then some (.number w false signed)
  else none

/-- `calc_single` of `convert.rs`; `none` = `unreachable!()`. The first arm is
`_ if ty.is_zero_sized() => FinalTy::Void`. -/
def finalTy (pw : Nat) : Ty → Option FinalTy
  | .distinct u s => if (Ty.distinct u s).isZeroSized then some .void else finalTy pw s
  | .enumVariant a b c s d => if (Ty.enumVariant a b c s d).isZeroSized then some .void else finalTy pw s
  | t =>
    if t.isZeroSized then some .void else
    match t with
    | .notYetResolved | .unknown => some .void
    | .iint w => finalizeInt pw w true
    | .uint w => if w = 0 then finalizeInt pw 0 true else finalizeInt pw w false
    | .float w => if w = 0 ∨ w = 32 then some (.number 32 true true)
                  else if w = 64 then some (.number 64 true true) else none
    | .bool | .char => some (.number 8 false false)
    | .string | .anonArray _ _ | .concreteArray _ _ | .slice _ | .pointer _ _ => some .pointer
    | .naivePolyFn _ => none
    | .concreteFn _ _ _ | .fnPointer _ _ | .anonStruct _ | .concreteStruct _ _ | .enum _ _
    | .optional _ | .errorUnion _ _ | .any | .rawPtr _ | .rawSlice => some .pointer
    | .nil | .void | .alwaysJumps | .file _ => some .void
    | .type => some (.number 32 false false)
    | .distinct _ _ | .enumVariant _ _ _ _ _ => none  -- handled above

/-! ### bytes -/

inductive Endian where
  | little
  | big
  deriving DecidableEq, Repr

/-- the `n` low bytes of `v`, least significant first (`to_le_bytes`) -/
def leBytes : Nat → Nat → List Nat
  | 0, _ => []
  | n + 1, v => v % 256 :: leBytes n (v / 256)

/-- value of a little-endian byte string -/
def leVal : List Nat → Nat
  | [] => 0
  | b :: bs => b + 256 * leVal bs

def encode (e : Endian) (n v : Nat) : List Nat :=
  match e with
  | .little => leBytes n v
  | .big => (leBytes n v).reverse

def decode (e : Endian) (bs : List Nat) : Nat :=
  match e with
  | .little => leVal bs
  | .big => leVal bs.reverse

/-- a C string read: the bytes before the first NUL -/
def cRead : List Nat → List Nat
  | [] => []
  | b :: bs => if b = 0 then [] else b :: cRead bs

/-! ### the JIT session -/

/-- Host float conversions `f32 as f64` (`Into<f64>`) and `f64 as f32`, on bit patterns. -/
structure FloatConv where
  promote : Nat → Nat
  demote : Nat → Nat

/-- What `eval_comptime_blocks` can see after it called the compiled block. -/
structure Machine where
  /-- integer return registers (RAX, RDX), each below 2^64 -/
  r0 : Nat
  r1 : Nat
  /-- float return register, bit pattern -/
  f0 : Nat
  /-- contents of the buffer passed for an aggregate result, after the call -/
  buf : List Nat
  /-- the bytes at the returned address up to (excluding) the first NUL -/
  cstr : List Nat

/-- `ComptimeResult` -/
inductive CResult where
  | type (t : Ty)
  | integer (num : Nat) (bitWidth : Nat)
  | float (num : Nat) (bitWidth : Nat)
  | data (bytes : List Nat)
  | void
  deriving DecidableEq, Repr

/-- `meta_tys[&ty_id]`: the inverted `type_ids` table of the session; `none` = the index panics -/
def lookupId (table : List (Ty × Nat)) (id : Nat) : Option Ty :=
  match table with
  | [] => none
  | (t, i) :: rest => if i = id then some t else lookupId rest id

/-- The capture loop of `eval_comptime_blocks`, one block of result type `ty`.
`table`: the session's `type_ids`. `none` = the compiler panics. -/
def capture (fc : FloatConv) (pw : Nat) (table : List (Ty × Nat)) (ty : Ty) (m : Machine) : Option CResult :=
  if ty = .type then
    -- `fn() -> u32`, then `meta_tys[&ty_id]`
    (lookupId table (m.r0 % 2 ^ 32)).map .type
  else if isStr ty then
    -- (fix) `CStr::from_ptr(..).to_bytes_with_nul()`
    some (.data (m.cstr ++ [0]))
  else
    match finalTy pw ty with
    | some (.number bits true _) =>
      if bits = 32 then some (.float (fc.promote (m.f0 % 2 ^ 32)) 32)       -- run_comptime_float::<f32>
      else if bits = 64 then some (.float (m.f0 % 2 ^ 64) 64)               -- run_comptime_float::<f64>
      else none
    | some (.number bits false _) =>
      if bits = 8 ∨ bits = 16 ∨ bits = 32 ∨ bits = 64 then
        some (.integer (m.r0 % 2 ^ bits) bits)                               -- run_comptime_int::<uN>
      else if bits = 128 then
        some (.data (leBytes 16 (m.r0 % 2 ^ 64 + 2 ^ 64 * (m.r1 % 2 ^ 64)))) -- `result.to_ne_bytes()`, LE host
      else none
    | some .pointer =>
      -- `alloc(size, align)`, `comptime(raw)`, `Box::from_raw(slice_from_raw_parts(raw, size))`
      some (.data (m.buf.take (size pw ty)))
    | some .void => some .void
    | none => none

/-- branch label of `capture` -/
def captureLabel (pw : Nat) (ty : Ty) : String :=
  if ty = .type then "type-id"
  else if isStr ty then "str-bytes"
  else match finalTy pw ty with
    | some (.number bits true _) => if bits = 32 ∨ bits = 64 then s!"float{bits}" else "panic"
    | some (.number bits false _) =>
      if bits = 8 ∨ bits = 16 ∨ bits = 32 ∨ bits = 64 then s!"int{bits}"
      else if bits = 128 then "int128-data:16" else "panic"
    | some .pointer => s!"data:{size pw ty}"
    | some .void => "void"
    | none => "panic"

/-! ### re-embedding into the built program -/

/-- What the built program has in hand where it uses the block. -/
inductive Observed where
  /-- a scalar of `bits` bits -/
  | scalar (bits : Nat) (v : Nat)
  /-- an aggregate: the bytes at the address the expression evaluates to -/
  | bytes (bs : List Nat)
  /-- a `str`: the characters at the address the expression evaluates to -/
  | cstring (bs : List Nat)
  | unit
  deriving DecidableEq, Repr

/-- `hir::Expr::Comptime` in a function body, result known. `idOf`: `to_type_id` of the compiler that
builds the program, `e`: target byte order. `none` = panic. -/
def embedCode (fc : FloatConv) (pw : Nat) (e : Endian) (idOf : Ty → Nat) (ty : Ty) (r : CResult) : Option Observed :=
  match r with
  | .type t => some (.scalar 32 (idOf t % 2 ^ 32))                       -- iconst(I32, id)
  | .integer num _ =>
    match finalTy pw ty with
    | some (.number bits _ _) => some (.scalar bits (num % 2 ^ bits))    -- iconst(real type, num as i64)
    | some .pointer => some (.scalar pw (num % 2 ^ pw))
    | _ => none                                                          -- into_real_type().unwrap()
  | .float num _ =>
    match finalTy pw ty with
    | some (.number bits _ _) =>
      if bits = 32 then some (.scalar 32 (fc.demote num))                -- f32const(num as f32)
      else if bits = 64 then some (.scalar 64 num)                       -- f64const(num)
      else none
    | _ => none
  | .data bytes =>
    -- a read-only data object with these bytes; `global_ptr` is its address
    match finalTy pw ty with
    | some .pointer => if isStr ty then some (.cstring (cRead bytes)) else some (.bytes bytes)
    | some (.number bits _ _) => some (.scalar bits (decode e (bytes.take (bits / 8))))  -- load, target order
    | _ => none
  | .void => some .unit

/-- `IntBytes::into_bytes` for `u64`; `none` = `unreachable!()` -/
def intBytes (e : Endian) (num bw : Nat) : Option (List Nat) :=
  if bw = 8 ∨ bw = 16 ∨ bw = 32 ∨ bw = 64 then some (encode e (bw / 8) (num % 2 ^ bw))
  else if bw = 128 then some (encode e 16 num)
  else none

/-- `IntBytes::into_bytes` for `f64` -/
def floatBytes (fc : FloatConv) (e : Endian) (num bw : Nat) : Option (List Nat) :=
  if bw = 32 then some (encode e 4 (fc.demote num))
  else if bw = 64 then some (encode e 8 num)
  else none

/-- `ComptimeBytes::into_bytes` (`.unwrap()`ed by `expr_to_const_data`): the bytes of the data object of
a global whose value is the block. The type id is written with `to_ne_bytes` (host order: little). -/
def intoBytes (fc : FloatConv) (idOf : Ty → Nat) (e : Endian) (r : CResult) : Option (List Nat) :=
  match r with
  | .type t => some (leBytes 4 (idOf t % 2 ^ 32))
  | .integer num bw => intBytes e num bw
  | .float num bw => floatBytes fc e num bw
  | .data bs => some bs
  | .void => none

/-- What the program gets when it reads a global of type `ty` whose data object holds `bs`
(target byte order `e`). -/
def readGlobal (pw : Nat) (e : Endian) (ty : Ty) (bs : List Nat) : Option Observed :=
  match finalTy pw ty with
  | some .pointer => if isStr ty then some (.cstring (cRead bs)) else some (.bytes bs)
  | some (.number bits _ _) => some (.scalar bits (decode e (bs.take (bits / 8))))
  | some .void => some .unit
  | none => none

/-! ### what the block computed

The value the block's code produced, read off the machine the way the calling convention of the
block function defines it (`Abi::Simplified`: scalars in the return register, aggregates in the
buffer whose address is passed, `size` bytes). This is what the same code yields when it runs at
run time. -/
def blockValue (pw : Nat) (idOf : Ty → Nat) (table : List (Ty × Nat)) (ty : Ty) (m : Machine) : Option Observed :=
  if ty = .type then
    (lookupId table (m.r0 % 2 ^ 32)).map fun t => .scalar 32 (idOf t % 2 ^ 32)
  else if isStr ty then some (.cstring m.cstr)
  else match finalTy pw ty with
    | some (.number bits true _) => some (.scalar bits (m.f0 % 2 ^ bits))
    | some (.number bits false _) =>
      if bits = 128 then some (.scalar 128 (m.r0 % 2 ^ 64 + 2 ^ 64 * (m.r1 % 2 ^ 64)))
      else some (.scalar bits (m.r0 % 2 ^ bits))
    | some .pointer => some (.bytes (m.buf.take (size pw ty)))
    | some .void => some .unit
    | none => none

end CapyV.Comptime
