/-
C02 — value semantics of aggregate copies ("CopyLang").

Every aggregate value is a flat vector of scalar cells (a struct `{x, y}` is two cells, a struct
holding it is the concatenation, an array of them likewise); a *place* is a variable plus a cell
range. The operations are the ones through which Capy copies aggregates:

* `init x cells`            — `x := T.{ … }` (a literal)
* `def form dst src`        — a local definition whose initializer is the place `src`; `form` is the
                              surface syntax (`:=`, `::`, `: T =`, `:: { src }`, `:: if t { src } …`,
                              identity call, deref of a pointer to `src`, labelled block with `break`,
                              literal then assignment). Every form has the same meaning: **copy**.
* `set x off v`             — a scalar write into one cell (directly, through a pointer, in a callee)
* `assign dst src`          — aggregate assignment between places of the same length
* `lit x srcs`              — assignment of an aggregate LITERAL whose members are constants or
                              cells of variables, `x` itself included: all members are read first
* `obs x off`               — print one cell

The compiler is compared with `run` on generated operation sequences (harness/src/c02_copy.rs);
the theorems (Props/C02Copy.lean) say what `run` guarantees: a write to one variable never changes
what any other variable holds, whatever happened before.
-/
namespace CapyV.Copy

abbrev Store := List (Nat × List Int)

structure Place where
  var : Nat
  off : Nat
  len : Nat
  deriving DecidableEq, Repr

/-- one cell of an aggregate literal: a constant, or the current content of a cell of some variable
(possibly of the variable being assigned: `p = P.{ x = p.y, y = p.x }`) -/
inductive Src where
  | const (z : Int)
  | cell (x : Nat) (off : Nat)
  deriving DecidableEq, Repr

inductive Op where
  | init (x : Nat) (cells : List Int)
  /-- `x = T.{ … }`: every source is read BEFORE anything is written -/
  | lit (x : Nat) (srcs : List Src)
  | defn (form : Nat) (dst : Nat) (src : Place)
  | set (x : Nat) (off : Nat) (v : Int)
  | assign (dst src : Place)
  | obs (x : Nat) (off : Nat)
  deriving DecidableEq, Repr

def lookup (x : Nat) : Store → Option (List Int)
  | [] => none
  | (y, v) :: r => if x = y then some v else lookup x r

def update (x : Nat) (v : List Int) : Store → Store
  | [] => [(x, v)]
  | (y, w) :: r => if x = y then (x, v) :: r else (y, w) :: update x v r

/-- the cells `off .. off+len` of `x` (`none`: no such variable or out of range — the generator
never produces it; the driver answers `stuck`) -/
def readPlace (st : Store) (p : Place) : Option (List Int) :=
  match lookup p.var st with
  | none => none
  | some cells => if p.off + p.len ≤ cells.length then some ((cells.drop p.off).take p.len) else none

/-- overwrite the cells starting at `off` by `vs` -/
def splice (cells : List Int) (off : Nat) (vs : List Int) : List Int :=
  cells.take off ++ vs ++ cells.drop (off + vs.length)

def writePlace (st : Store) (x off : Nat) (vs : List Int) : Option Store :=
  match lookup x st with
  | none => none
  | some cells => if off + vs.length ≤ cells.length then some (update x (splice cells off vs) st) else none

def readSrc (st : Store) : Src → Option Int
  | .const z => some z
  | .cell x off =>
    match readPlace st ⟨x, off, 1⟩ with
    | some [v] => some v
    | _ => none

/-- one operation: new store and what it prints -/
def step (st : Store) : Op → Option (Store × List Int)
  | .init x cells => some (update x cells st, [])
  | .lit x srcs =>
    match lookup x st, srcs.mapM (readSrc st) with
    | some old, some vs => if vs.length = old.length then some (update x vs st, []) else none
    | _, _ => none
  | .defn _ dst src =>
    match readPlace st src with
    | none => none
    | some vs => some (update dst vs st, [])
  | .set x off v => (writePlace st x off [v]).map fun st' => (st', [])
  | .assign dst src =>
    match readPlace st src with
    | none => none
    | some vs => if vs.length = dst.len then (writePlace st dst.var dst.off vs).map fun st' => (st', []) else none
  | .obs x off =>
    match readPlace st ⟨x, off, 1⟩ with
    | some [v] => some (st, [v])
    | _ => none

def runFrom (st : Store) : List Op → Option (Store × List Int)
  | [] => some (st, [])
  | op :: rest =>
    match step st op with
    | none => none
    | some (st', out) =>
      match runFrom st' rest with
      | none => none
      | some (st'', out') => some (st'', out ++ out')

/-- what a program prints -/
def run (ops : List Op) : Option (List Int) := (runFrom [] ops).map (·.2)

end CapyV.Copy
