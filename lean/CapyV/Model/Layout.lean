import CapyV.Model.Ty
/-
Model of `crates/codegen/src/layout.rs` (`calc_single`, `StructLayout::new`,
`padding_needed_for`, `GetLayoutInfo::stride`), for a pointer width `pw` in bits.

Arithmetic is in `Nat`; the code uses `u32` (`fitsU32` states when no `u32` operation of
the code can overflow). `padNeeded _ 0` would be a division by zero in Rust and
`stride _ 0` an underflow: `Props/C17.lean` proves `1 ≤ align` for every well-formed
type, so neither is reachable there.
-/
namespace CapyV.Layout
open CapyV

/-- `padding_needed_for(offset, align)` -/
def padNeeded (offset align : Nat) : Nat :=
  let misalign := offset % align
  if misalign > 0 then align - misalign else 0

/-- `GetLayoutInfo::stride`: `(size + mask) & !mask` with `mask = align - 1` in `u32`. -/
def stride (size align : Nat) : Nat :=
  let mask := align - 1
  (size + mask) &&& (0xFFFFFFFF - mask)

/-- size in bytes of an integer type of bit width `w` (the `IInt`/`UInt` arms) -/
def intSize (pw w : Nat) : Nat :=
  if w = PTR_WIDTH_MARK then pw / 8 else if w = 0 then 32 / 8 else w / 8

def floatSize (w : Nat) : Nat := if w = 0 then 32 / 8 else w / 8

/-- the `Ty::Any` arm: typeid (4 bytes), padding, rawptr -/
def anySize (pw : Nat) : Nat :=
  let rawptrSize := pw / 8
  let rawptrAlign := min rawptrSize 8
  let cur := 32 / 8
  let cur := cur + padNeeded cur rawptrAlign
  cur + rawptrSize

def anyAlign (pw : Nat) : Nat := max (min (32 / 8) 8) (min (pw / 8) 8)

mutual
/-- `(size, align)` as stored in `LAYOUTS.sizes` / `LAYOUTS.alignments` by `calc_single`. -/
def layout (pw : Nat) : Ty → Nat × Nat
  | .notYetResolved | .unknown => (0, 1)
  | .iint w | .uint w => let s := intSize pw w; (s, min s 8)
  | .float w => let s := floatSize w; (s, min s 8)
  | .bool | .char => (1, 1)
  | .string => let s := pw / 8; (s, min s 8)
  | .anonArray n sub | .concreteArray n sub =>
    let (s, a) := layout pw sub
    (stride s a * n, a)
  | .slice _ => let s := pw / 8 * 2; (s, min (s / 2) 8)
  | .pointer _ _ => let s := pw / 8; (s, min s 8)
  | .distinct _ sub => layout pw sub
  | .naivePolyFn _ | .concreteFn _ _ _ | .fnPointer _ _ => let s := pw / 8; (s, min s 8)
  | .anonStruct ms | .concreteStruct _ ms => structLayout pw ms 0 1
  | .enum _ vs =>
    let (ms, ma) := variantsMax pw vs 0 1
    (ms + 1, ma)
  | .enumVariant _ _ _ sub _ => layout pw sub
  | .nil => (0, 1)
  | .optional sub =>
    let (s, a) := layout pw sub
    if sub.isNonZero then (s, a) else (s + 1, a)
  | .errorUnion e p =>
    let (es, ea) := layout pw e
    let (ps, pa) := layout pw p
    (max es ps + 1, max ea pa)
  | .type => (32 / 8, 32 / 8)
  | .any => (anySize pw, anyAlign pw)
  | .rawPtr _ => let s := pw / 8; (s, min s 8)
  | .rawSlice => let s := pw / 8 * 2; (s, min (s / 2) 8)
  | .void | .alwaysJumps | .file _ => (0, 1)
/-- `StructLayout::new`, threading `current_offset` and `max_align`; returns `(size, align)`. -/
def structLayout (pw : Nat) : Members → Nat → Nat → Nat × Nat
  | .nil, cur, ma => (cur, ma)
  | .cons _ t rest, cur, ma =>
    let (s, a) := layout pw t
    let ma' := if a > ma then a else ma
    let off := cur + padNeeded cur a
    structLayout pw rest (off + s) ma'
/-- the `for variant_ty in variants` loop of the `Ty::Enum` arm -/
def variantsMax (pw : Nat) : Tys → Nat → Nat → Nat × Nat
  | .nil, ms, ma => (ms, ma)
  | .cons t rest, ms, ma =>
    let (s, a) := layout pw t
    variantsMax pw rest (if s > ms then s else ms) (if a > ma then a else ma)
end

def size (pw : Nat) (t : Ty) : Nat := (layout pw t).1
def align (pw : Nat) (t : Ty) : Nat := (layout pw t).2
def strideOf (pw : Nat) (t : Ty) : Nat := stride (size pw t) (align pw t)

/-- `StructLayout::offsets` -/
def structOffsets (pw : Nat) : Members → Nat → List Nat
  | .nil, _ => []
  | .cons _ t rest, cur =>
    let off := cur + padNeeded cur (align pw t)
    off :: structOffsets pw rest (off + size pw t)

/-- `GetLayoutInfo::struct_layout`: looked up under `absolute_intern_ty(true)`. -/
def structOffsetsOf (pw : Nat) (t : Ty) : Option (List Nat) :=
  match t.absoluteTy with
  | .anonStruct ms | .concreteStruct _ ms => some (structOffsets pw ms 0)
  | _ => none

/-- `GetLayoutInfo::enum_layout().discriminant_offset`: present for enums, error unions and
optionals of types that are not non-zero. -/
def discriminantOffsetOf (pw : Nat) (t : Ty) : Option Nat :=
  match t.absoluteTy with
  | .enum _ vs => some (variantsMax pw vs 0 1).1
  | .optional sub => if sub.isNonZero then none else some (size pw sub)
  | .errorUnion e p => some (max (size pw e) (size pw p))
  | _ => none

end CapyV.Layout
