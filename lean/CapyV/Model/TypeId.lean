import CapyV.Model.Layout
import CapyV.Generated.TypeIds
/-!
Model of the type-id encoding (`crates/codegen/src/convert.rs`: `simple_id`,
`simple_id_with_align`, `ToTyId::to_type_id`), of the reflection tables emitted by
`crates/codegen/src/compiler/ty_info.rs` and of the decoders of `core/src/meta.capy`
(`size_of`, `align_of`, `stride_of`, the index / flag extraction of `get_type_info`).

* All constants come from `Generated/TypeIds.lean` — the encoder uses the `Rust.*` ones,
  the decoders use the `Capy.*` ones; `C18.constants_agree` relates them.
* Ids are `u32` in the code and `Nat` here. No `u32` operation of the encoder can wrap:
  the asserts bound every field (`simpleIdWithAlign_lt`), `x << 26` only panics for shift
  amounts ≥ 32. An `assert!` that fires / `unreachable!` is the explicit outcome `none`.
* `u32` `&~ m` is modelled as `&&& (0xFFFFFFFF - m)`, `usize` `&~` as `&&& (2^64-1 - m)`.
-/
namespace CapyV.TypeId
open CapyV CapyV.TypeIds

/-! ### encoder (convert.rs) -/

/-- `simple_id_with_align` — `none` when one of the three `assert!`s fires. -/
def simpleIdWithAlign (disc size align : Nat) (signed : Bool) : Option Nat :=
  if disc < Rust.discLimit ∧ size < Rust.sizeLimit ∧ align < Rust.alignLimit then
    some ((disc <<< Rust.discShift) ||| ((if signed then 1 else 0) <<< Rust.signShift)
      ||| (align <<< Rust.alignShift) ||| size)
  else none

/-- `u32::clamp(lo, hi)` (for `lo ≤ hi`) -/
def clamp (x lo hi : Nat) : Nat := if x < lo then lo else if x > hi then hi else x

/-- `simple_id` -/
def simpleId (disc bitWidth : Nat) (signed : Bool) : Option Nat :=
  let size := bitWidth / 8
  simpleIdWithAlign disc size (clamp size Rust.clampLo Rust.clampHi) signed

/-- `match *bit_width { u8::MAX => pointer_ty.bits(), other => other as u32 }` -/
def intBits (pw w : Nat) : Nat := if w = PTR_WIDTH_MARK then pw else w

/-- the arms of `to_type_id` that call `simple_id*` (`none`: an assert fires, or the type is
not one of those arms — see `isSimple`). -/
def simpleIdOf (pw : Nat) : Ty → Option Nat
  | .notYetResolved | .unknown => simpleId Rust.void 0 false
  | .iint w => if w = 0 then simpleId Rust.int 32 true else simpleId Rust.int (intBits pw w) true
  | .uint w => if w = 0 then simpleId Rust.int 32 true else simpleId Rust.int (intBits pw w) false
  | .float w => if w = 0 then simpleId Rust.float 32 false else simpleId Rust.float w false
  | .bool => simpleId Rust.bool 8 false
  | .string => simpleId Rust.string pw false
  | .char => simpleId Rust.char 8 false
  | .type => simpleId Rust.meta_type 32 false
  | .any => simpleIdWithAlign Rust.any (Layout.size pw .any) (Layout.align pw .any) false
  | .rawPtr m => simpleIdWithAlign Rust.raw_ptr (pw / 8) (min (pw / 8) 8) m
  | .rawSlice => simpleIdWithAlign Rust.raw_slice (pw / 8 * 2) (min (pw / 8) 8) false
  | .file _ => simpleId Rust.file 0 false
  | .void => simpleId Rust.void 0 false
  | .alwaysJumps => simpleId Rust.no_return 0 false
  | .nil => simpleId Rust.nil 0 false
  | _ => none

/-- the per-kind id lists (`*_uid_gen` of `MetaTyData`) -/
inductive Kind where
  | array | slice | pointer | distinct | function | struct | enum | variant | optional | errorUnion
  deriving DecidableEq, Repr

/-- `X_DISCRIMINANT` of the compound arm -/
def Kind.disc : Kind → Nat
  | .array => Rust.array | .slice => Rust.slice | .pointer => Rust.pointer
  | .distinct => Rust.distinct | .function => Rust.function | .struct => Rust.struct
  | .enum => Rust.enum | .variant => Rust.variant | .optional => Rust.optional
  | .errorUnion => Rust.error_union

/-- which id list a type belongs to (`none`: simple id, or `NaivePolymorphicFunction`) -/
def kindOf : Ty → Option Kind
  | .anonArray _ _ | .concreteArray _ _ => some .array
  | .slice _ => some .slice
  | .pointer _ _ => some .pointer
  | .distinct _ _ => some .distinct
  | .concreteFn _ _ _ | .fnPointer _ _ => some .function
  | .anonStruct _ | .concreteStruct _ _ => some .struct
  | .enum _ _ => some .enum
  | .enumVariant _ _ _ _ _ => some .variant
  | .optional _ => some .optional
  | .errorUnion _ _ => some .errorUnion
  | _ => none

def isSimple (t : Ty) : Bool :=
  match t with
  | .naivePolyFn _ => false
  | t => (kindOf t).isNone

/-- `MetaTyData`: the `(type, id)` table, `tys_to_compile`, and the ten uid generators. -/
structure St where
  ids : List (Ty × Nat)
  toCompile : List Ty
  ctr : Kind → Nat

def St.empty : St := ⟨[], [], fun _ => 0⟩

/-- `type_ids.iter().find(|(ty, _)| *ty == self).map(|(_, id)| *id)` — interned types are equal
iff structurally equal. -/
def find (t : Ty) : List (Ty × Nat) → Option Nat
  | [] => none
  | (u, id) :: rest => if u = t then some id else find t rest

def bump (c : Kind → Nat) (k : Kind) : Kind → Nat := fun k' => if k' = k then c k + 1 else c k'

/-- the tail of every compound arm: `generate_unique_id`, `id | list_id`, the two pushes -/
def finish (k : Kind) (t : Ty) (st : St) : Nat × St :=
  let id := (k.disc <<< Rust.compoundShift) ||| st.ctr k
  (id, { ids := st.ids ++ [(t, id)], toCompile := st.toCompile ++ [t], ctr := bump st.ctr k })

/-- the tail of every simple arm: the two pushes -/
def pushSimple (t : Ty) (id : Nat) (st : St) : Nat × St :=
  (id, { st with ids := st.ids ++ [(t, id)], toCompile := st.toCompile ++ [t] })

mutual
/-- `ToTyId::to_type_id` -/
def toTypeId (pw : Nat) (t : Ty) (st : St) : Option (Nat × St) :=
  match find t st.ids with
  | some id => if st.toCompile.contains t then some (id, st) else none   -- assert!(contains)
  | none =>
    if st.toCompile.contains t then none else                             -- assert!(!contains)
    match t with
    | .anonArray _ sub | .concreteArray _ sub =>
      match toTypeId pw sub st with
      | some r => some (finish .array t r.2)
      | none => none
    | .slice sub =>
      match toTypeId pw sub st with
      | some r => some (finish .slice t r.2)
      | none => none
    | .pointer _ sub =>
      match toTypeId pw sub st with
      | some r => some (finish .pointer t r.2)
      | none => none
    | .distinct _ sub =>
      match toTypeId pw sub st with
      | some r => some (finish .distinct t r.2)
      | none => none
    | .naivePolyFn _ => none                                               -- unreachable!
    | .concreteFn _ _ _ | .fnPointer _ _ => some (finish .function t st)
    | .anonStruct ms | .concreteStruct _ ms =>
      match membersIds pw ms st with
      | some st1 => some (finish .struct t st1)
      | none => none
    | .enum _ vs =>
      match tysIds pw vs st with
      | some st1 => some (finish .enum t st1)
      | none => none
    | .enumVariant _ _ _ sub _ =>
      match toTypeId pw sub st with
      | some r => some (finish .variant t r.2)
      | none => none
    | .optional sub =>
      match toTypeId pw sub st with
      | some r => some (finish .optional t r.2)
      | none => none
    | .errorUnion e p =>
      match toTypeId pw e st with
      | some r =>
        match toTypeId pw p r.2 with
        | some r2 => some (finish .errorUnion t r2.2)
        | none => none
      | none => none
    | t' =>
      match simpleIdOf pw t' with
      | some id => some (pushSimple t' id st)
      | none => none
/-- `for member in members { member.ty.to_type_id(..); }` -/
def membersIds (pw : Nat) (ms : Members) (st : St) : Option St :=
  match ms with
  | .nil => some st
  | .cons _ t rest =>
    match toTypeId pw t st with
    | some r => membersIds pw rest r.2
    | none => none
/-- `for variant in variants { variant.to_type_id(..); }` -/
def tysIds (pw : Nat) (vs : Tys) (st : St) : Option St :=
  match vs with
  | .nil => some st
  | .cons t rest =>
    match toTypeId pw t st with
    | some r => tysIds pw rest r.2
    | none => none
end

/-- hook `codegen::verif::type_ids`: ids handed out for a list of types, threading the state -/
def typeIdsFrom (pw : Nat) : List Ty → St → Option (List Nat × St)
  | [], st => some ([], st)
  | t :: rest, st =>
    match toTypeId pw t st with
    | none => none
    | some (id, st1) =>
      match typeIdsFrom pw rest st1 with
      | none => none
      | some (ids, st2) => some (id :: ids, st2)

/-! ### decoders (meta.capy) over `u32` -/

def decDisc (raw : Nat) : Nat := raw >>> Capy.discShift
def decSize (raw : Nat) : Nat := raw &&& Capy.sizeMask
def decAlign (raw : Nat) : Nat := (raw >>> Capy.alignShift) &&& Capy.alignMask
/-- `bool.((raw >> 9) & 1)` -/
def decSign (raw : Nat) : Bool := ((raw >>> Capy.signShift) &&& Capy.signMask) != 0
/-- `raw &~ (0b111111 << 26)` -/
def decIndex (raw : Nat) : Nat := raw &&& (0xFFFFFFFF - (Capy.indexMask <<< Capy.indexShift))
/-- `u8.((raw & 0b11111) * 8)` -/
def decBitWidth (raw : Nat) : Nat := ((raw &&& Capy.widthMask) * 8) % 256

/-! ### reflection tables (ty_info.rs) and `size_of` / `align_of` / `stride_of` -/

/-- `compile_memory_layouts`: one `(size, align)` row per type of that kind, in
`tys_to_compile` order. -/
def layoutTable (pw : Nat) (st : St) (k : Kind) : List (Nat × Nat) :=
  (st.toCompile.filter (fun t => kindOf t == some k)).map (Layout.layout pw)

/-- `pointer_layout` -/
def pointerLayout (pw : Nat) : Nat × Nat := (pw / 8, min (pw / 8) 8)

/-- the table chosen by the `if discriminant == …` chain shared by `size_of` and `align_of` -/
def tableKindOfDisc (d : Nat) : Option Kind :=
  if d = Capy.struct then some .struct
  else if d = Capy.distinct then some .distinct
  else if d = Capy.enum then some .enum
  else if d = Capy.variant then some .variant
  else if d = Capy.array then some .array
  else if d = Capy.optional then some .optional
  else if d = Capy.error_union then some .errorUnion
  else none

/-- `meta.size_of` on a raw id (`none`: bounds-check abort or `core.assert` failure) -/
def metaSizeOf (pw : Nat) (st : St) (raw : Nat) : Option Nat :=
  let d := decDisc raw
  if d < Capy.simpleLimit then some (decSize raw)
  else if d = Capy.slice then some ((pointerLayout pw).1 * 2)
  else match tableKindOfDisc d with
    | some k => ((layoutTable pw st k)[decIndex raw]?).map (·.1)
    | none => if d = Capy.pointer ∨ d = Capy.function then some (pointerLayout pw).1 else none

/-- `meta.align_of` on a raw id -/
def metaAlignOf (pw : Nat) (st : St) (raw : Nat) : Option Nat :=
  let d := decDisc raw
  if d < Capy.simpleLimit then some (decAlign raw)
  else match tableKindOfDisc d with
    | some k => ((layoutTable pw st k)[decIndex raw]?).map (·.2)
    | none =>
      if d = Capy.slice ∨ d = Capy.pointer ∨ d = Capy.function then some (pointerLayout pw).2 else none

/-- `meta.stride_of`: `(size + mask) &~ mask` in `usize` (64-bit host) -/
def metaStride (size align : Nat) : Nat :=
  let mask := align - 1
  (size + mask) &&& (0xFFFFFFFFFFFFFFFF - mask)

/-! ### contents of the info rows (`compile_type_info`) — what `get_type_info` returns.
Sub-types appear as their previously assigned ids (`to_previous_type_id`). -/

inductive Info where
  | int (bitWidth : Nat) (signed : Bool)
  | float (bitWidth : Nat)
  | plain (name : String)
  | rawPtr (mutable : Bool)
  | array (len : Nat) (sub : Option Nat)
  | slice (sub : Option Nat)
  | pointer (sub : Option Nat) (mutable : Bool)
  | distinct (sub : Option Nat)
  | struct (members : List (Nat × Option Nat × Nat))      -- name, type id, offset
  | enum (variants : List (Option Nat)) (discOffset : Nat)
  | variant (sub : Option Nat) (disc : Nat)
  | optional (sub : Option Nat) (isNonZero : Bool) (discOffset : Nat)
  | errorUnion (err payload : Option Nat) (discOffset : Nat)
  | unreachable
  deriving Repr

def zipMembers (ids : List (Ty × Nat)) : List (Nat × Ty) → List Nat → List (Nat × Option Nat × Nat)
  | (n, t) :: ms, o :: os => (n, find t ids, o) :: zipMembers ids ms os
  | _, _ => []

/-- the row `get_type_info` returns for a registered type: simple kinds are decoded from the
id itself, compound kinds are the row written by `compile_type_info`. -/
def infoOf (pw : Nat) (st : St) (t : Ty) (raw : Nat) : Info :=
  let d := decDisc raw
  if d = Capy.int then .int (decBitWidth raw) (decSign raw)
  else if d = Capy.float then .float (decBitWidth raw)
  else if d = Capy.bool then .plain "Bool"
  else if d = Capy.string then .plain "String"
  else if d = Capy.char then .plain "Char"
  else if d = Capy.function then .plain "Function"
  else if d = Capy.file then .plain "File"
  else if d = Capy.meta_type then .plain "Meta_Type"
  else if d = Capy.any then .plain "Any"
  else if d = Capy.raw_ptr then .rawPtr (decSign raw)
  else if d = Capy.raw_slice then .plain "Raw_Slice"
  else if d = Capy.void then .plain "Void"
  else if d = Capy.nil then .plain "Nil"
  else match t with
    | .anonArray n sub | .concreteArray n sub => .array n (find sub st.ids)
    | .slice sub => .slice (find sub st.ids)
    | .pointer m sub => .pointer (find sub st.ids) m
    | .distinct _ sub => .distinct (find sub st.ids)
    | .anonStruct ms | .concreteStruct _ ms =>
      .struct (zipMembers st.ids ms.toList (Layout.structOffsets pw ms 0))
    | .enum _ vs =>
      match Layout.discriminantOffsetOf pw t with              -- `enum_layout().unwrap()`
      | some off => .enum (vs.toList.map fun v => find v st.ids) off
      | none => .unreachable
    | .enumVariant _ _ _ sub disc => .variant (find sub st.ids) disc
    | .optional sub =>
      match Layout.discriminantOffsetOf pw t with
      | some off => .optional (find sub st.ids) false off
      | none => .optional (find sub st.ids) true 0
    | .errorUnion e p =>
      match Layout.discriminantOffsetOf pw t with              -- `.expect(..)`
      | some off => .errorUnion (find e st.ids) (find p st.ids) off
      | none => .unreachable
    | _ => .unreachable

end CapyV.TypeId
