/-!
# C14 — model of `GlobalInferenceCtx::get_mutability` (crates/hir_ty/src/globals.rs)

`PathLang`: the expressions an assignment target / the operand of `^mut` can be, with exactly
the information the Rust walk reads:

* the *syntactic form* of the expression (one constructor per arm of the `match`),
* for a local: its `mutable` flag (`:=` vs `::`), its type (`tys[expr]` of an `Expr::Local`,
  i.e. `local_tys[def]`) and its **initialiser expression** (`LocalDef::value`) — the walk looks
  through a dereferenced local at the form of its initialiser,
* for the nodes whose *type* the walk consults (`tys[self.loc][..]`): that type.

Types are abstracted to what `as_pointer` / `is_pointer` / `Ty::File` / `Ty::Optional` can see.

`getMutability fixed e assignment deref`:
* `fixed = false` is the function as pinned in /repo (`get_mutability` = the syntactic walk),
* `fixed = true` is the function after FIX.patch: the old body is `get_mutability_by_form`, and
  `get_mutability` consults the pointer type of `expr` whenever `deref` is set; and `e[i]` /
  `e.field` over two or more pointer levels are decided by the innermost level
  (`innermost_auto_deref`, the second `fix:` commit of C14).
Both are transcribed arm by arm, in the order of the Rust `match`.
-/
namespace CapyV.Mutability

/-- what `hir_ty::Ty` looks like to the walk -/
inductive Ty where
  | int                       -- any scalar
  | ptr (m : Bool) (t : Ty)   -- `Ty::Pointer { mutable, sub_ty }`
  | arr (t : Ty)              -- `AnonArray` / `ConcreteArray`
  | opt (t : Ty)              -- `Ty::Optional`
  | struct (id : Nat)         -- a struct type (fields are looked up in the type table: see `member`)
  | file                      -- `Ty::File` (an imported module)
  | other                     -- void, unknown, functions, ...
  deriving DecidableEq, Repr, Inhabited

/-- `Ty::as_pointer` (raw pointers and `distinct` wrappers are outside the model) -/
def Ty.asPointer : Ty → Option (Bool × Ty)
  | .ptr m t => some (m, t)
  | _ => none

/-- `Ty::is_pointer` -/
def Ty.isPointer : Ty → Bool
  | .ptr _ _ => true
  | _ => false

/-- the pointer levels that `e[i]` / `e.field` follow when `e : ty` (every one of them: the typer's
`while let Some((_, sub_ty)) = ty.as_pointer()`), outermost first -/
def Ty.levels : Ty → List Bool
  | .ptr m t => m :: t.levels
  | _ => []

/-- what is found below all pointer levels -/
def Ty.bottom : Ty → Ty
  | .ptr _ t => t.bottom
  | t => t

/-- `innermost_auto_deref` (fix 3 of C14): with two or more pointer levels, the mutability of the
innermost one; `none` with fewer (the ordinary walk handles those) -/
def Ty.innermostAutoDeref (t : Ty) : Option Bool :=
  if 2 ≤ t.levels.length then t.levels.getLast? else none

/-- `ExprMutability` without the text ranges (they only place the help message) -/
inductive Mut where
  | mutable
  | immutableBinding
  | notMutatingRefThroughDeref
  | immutableRef
  | immutableParam (assignment : Bool)
  | immutableGlobal
  | cannotMutateExpr
  deriving DecidableEq, Repr, Inhabited

/-- `ExprMutability::into_diagnostic().is_some()` : a diagnostic is pushed -/
def Mut.rejected : Mut → Bool
  | .mutable => false
  | _ => true

inductive Expr where
  | missing                                   -- `Expr::Missing`
  | arrayLit (elem : Ty)                      -- `Expr::ArrayLiteral` of type `[n]elem`
  | structLit (ty : Ty)                       -- `Expr::StructLiteral` of type `ty`
  | ref (m : Bool) (e : Expr)                 -- `^e` / `^mut e`
  | deref (e : Expr)                          -- `e^`
  | index (e : Expr)                          -- `e[i]` (the index is never looked at)
  | blockTail (e : Expr)                      -- `{ ..; e }`
  | loc (mutable : Bool) (ty : Ty) (init : Expr)   -- a local with `LocalDef::value = Some(init)`
  | locNoInit (mutable : Bool) (ty : Ty)      -- a local with `value = None` (`x : i32;`)
  | param (ty : Ty)                           -- `Expr::Param`, `param_tys[idx].ty`
  | global (ty : Ty)                          -- `Expr::LocalGlobal`
  | member (prev : Expr) (ty : Ty)            -- `prev.field`; `ty` = `tys[expr]`, the field's type
  | call (ty : Ty)                            -- `Expr::Call` of type `ty` (callee/args never looked at)
  | cast (ty : Ty)                            -- `Expr::Cast` of type `ty`
  | paren (e : Expr)                          -- `(e)`
  | unwrap (e : Expr)                         -- `#unwrap(e, ..)`
  | other (ty : Ty)                           -- every other kind (literals, binary, `if`, a block
                                              -- without tail, `()`, other directives): the `_` arm
  deriving Repr, Inhabited

/-- the type table `tys[self.loc][expr]` for well-typed expressions; `none` = ill-typed
(the front end reports another error and gives the node `Ty::Unknown`). -/
def typeOf : Expr → Option Ty
  | .missing => some .other
  | .arrayLit t => some (.arr t)
  | .structLit t => some t
  | .ref m e => match typeOf e with
    | some t => some (.ptr m t)
    | none => none
  | .deref e => match typeOf e with
    | some (.ptr _ t) => some t
    | _ => none
  | .index e => match typeOf e with
    | some t => match t.bottom with         -- auto-deref of every pointer level
      | .arr u => some u
      | _ => none
    | none => none
  | .blockTail e => typeOf e
  | .loc _ ty _ => some ty
  | .locNoInit _ ty => some ty
  | .param ty => some ty
  | .global ty => some ty
  | .member prev ty => match typeOf prev with
    | some .file => some ty
    | some t => match t.bottom with         -- auto-deref of every pointer level
      | .struct _ => some ty
      | _ => none
    | none => none
  | .call ty => some ty
  | .cast ty => some ty
  | .paren e => typeOf e
  | .unwrap e => match typeOf e with
    | some (.opt t) => some t
    | _ => none
  | .other ty => some ty

/-- `tys[self.loc][expr]` as the walk sees it: an ill-typed node is `Ty::Unknown` -/
def tyOf (e : Expr) : Ty :=
  match typeOf e with
  | some t => t
  | none => .other

/-- the new part of `get_mutability` (FIX.patch): after the syntactic walk, when the data is
reached by dereferencing the value of `expr`, the pointer type of `expr` decides. -/
def byType (fixed : Bool) (ty : Ty) (deref : Bool) (byForm : Mut) : Mut :=
  if !fixed then byForm
  else if !deref then byForm
  else match ty.asPointer with
    | some (true, _) => .mutable
    | some (false, _) =>
      match byForm with
      | .mutable => .immutableRef
      | other => other
    | none => byForm

/-- the `Index` / `Member` arms: `innermost_auto_deref` first, the ordinary walk otherwise -/
def autoArm (inner : Option Bool) (walkDeref walk : Mut) : Mut :=
  match inner with
  | some true => .mutable
  | some false =>
    match walkDeref with
    | .mutable => .immutableRef
    | other => other                  -- "keep the more precise help of the ordinary walk"
  | none => walk

/-- the `Expr::Param` arm -/
def paramArm (ty : Ty) (assignment deref : Bool) : Mut :=
  match ty.asPointer with
  | some (m, _) =>
    if deref then (if m then .mutable else .immutableRef)
    else if assignment then (if m then .notMutatingRefThroughDeref else .immutableRef)
    else .immutableParam assignment
  | none => .immutableParam assignment

/-- the `Expr::Cast { .. } if deref` arm (`ty` = `tys[expr]`) -/
def castArm (ty : Ty) (assignment deref : Bool) : Mut :=
  let ty := match ty with
    | .opt sub => sub
    | t => t
  match ty.asPointer with
  | some (m, _) =>
    if deref then (if m then .mutable else .immutableRef)
    else if assignment then (if m then .notMutatingRefThroughDeref else .immutableRef)
    else .cannotMutateExpr
  | none => .cannotMutateExpr

/-- `get_mutability(expr, assignment, deref)`. Every arm is `byType .. (<the old arm>)`:
with `fixed = false` that is the old arm itself (`byType false _ _ m = m`). -/
def getMutability (fixed : Bool) : Expr → Bool → Bool → Mut
  | .missing, _, d => byType fixed .other d .mutable
  | .arrayLit t, _, d => byType fixed (.arr t) d .mutable
  | .structLit t, _, d => byType fixed t d .mutable
  | .ref m e, _, d =>
    byType fixed (tyOf (.ref m e)) d (if m then .mutable else .immutableRef)
  | .deref p, a, d =>
    byType fixed (tyOf (.deref p)) d (getMutability fixed p a true)
  | .index arr, a, d =>
    byType fixed (tyOf (.index arr)) d
      (autoArm (if fixed then (tyOf arr).innermostAutoDeref else none)
        (getMutability fixed arr a true)
        (getMutability fixed arr a (d || (tyOf arr).isPointer)))
  | .blockTail t, a, d =>
    byType fixed (tyOf (.blockTail t)) d (getMutability fixed t a d)
  | .loc mutable ty init, _, d =>
    byType fixed ty d
      (if d then getMutability fixed init false d
       else if mutable then .mutable else .immutableBinding)
  | .locNoInit mutable ty, _, d =>
    byType fixed ty d
      (if d then .mutable
       else if mutable then .mutable else .immutableBinding)
  | .param ty, a, d => byType fixed ty d (paramArm ty a d)
  | .global ty, _, d => byType fixed ty d .immutableGlobal
  | .member prev ty, a, d =>
    byType fixed (tyOf (.member prev ty)) d
      (match tyOf prev with
       | .file => .immutableGlobal
       | prevTy =>
         if d then
           (match ty.asPointer with
            | some (m, _) => if m then .mutable else .immutableRef
            | none => .mutable)                       -- `.unwrap_or(true)`
         else
           autoArm (if fixed then prevTy.innermostAutoDeref else none)
             (getMutability fixed prev a true)
             (getMutability fixed prev a (d || prevTy.isPointer)))
  | .call ty, _, d =>
    byType fixed ty d (if d then .mutable else .cannotMutateExpr)
  | .cast ty, a, d =>
    byType fixed ty d (if d then castArm ty a d else .cannotMutateExpr)
  | .paren e, a, d => byType fixed (tyOf (.paren e)) d (getMutability fixed e a d)
  | .unwrap e, a, d => byType fixed (tyOf (.unwrap e)) d (getMutability fixed e a d)
  | .other ty, _, d => byType fixed ty d .cannotMutateExpr

/-- `Stmt::Assign`: `CannotMutate` is pushed iff the walk gives a help (plain and compound
assignment take the same path: the check happens before `quick_assign_op` is looked at) -/
def assignRejected (fixed : Bool) (dest : Expr) : Bool :=
  (getMutability fixed dest true false).rejected

/-- `Expr::Ref { mutable: true, expr }`: `MutableRefToImmutableData` is pushed iff … -/
def mutRefRejected (fixed : Bool) (inner : Expr) : Bool :=
  (getMutability fixed inner false false).rejected

end CapyV.Mutability
