/-
Model of import resolution and of the import worklist.

* `Ctx::lower_import` (`crates/hir/src/body.rs`), real-file-system branch
  (`fake_file_system = false`), both for `#import` and for `#mod`;
* `SubDir::is_sub_dir_of` (`crates/hir/src/common/names.rs`);
* `path_clean::clean` (crate path-clean 1.0.1, the lexical `cleanname`);
* `std::path::Path::components` / `PathBuf::join` on Unix, at component level;
* the worklist of `compile_file` (`crates/capy/src/main.rs`): `source_files`,
  `current_imports`.

Strings are `List Char`.  A path is the list of its `std::path::Component`s.  The file
system is a parameter: a function from (component-list) paths to `file | dir | nothing`.
Nothing here is totalised: every rejection is an explicit diagnostic kind.
-/
namespace CapyV.Imports

/-- `std::path::Component` on Unix (`Prefix` does not exist there). -/
inductive Comp where
  | root
  | cur
  | parent
  | normal (s : List Char)
  deriving DecidableEq, Repr, Inhabited

abbrev Path := List Comp

/-! ### `Path::new(s).components()` -/

/-- `s.split('/')` (keeps empty pieces). Structural. -/
def splitSlash : List Char → List (List Char)
  | [] => [[]]
  | c :: cs =>
    if c = '/' then [] :: splitSlash cs
    else match splitSlash cs with
      | [] => [[c]]
      | p :: ps => (c :: p) :: ps

/-- one non-empty piece between separators, not the leading one -/
def compOfPiece (p : List Char) : Option Comp :=
  if p = [] then none
  else if p = ['.'] then none
  else if p = ['.', '.'] then some .parent
  else some (.normal p)

/-- `Components::include_cur_dir`: a relative path that starts with `.` followed by the
end or by a separator yields a leading `CurDir`; every other `.` piece is skipped. -/
def leadCur (s : List Char) : Bool :=
  match s with
  | ['.'] => true
  | '.' :: '/' :: _ => true
  | _ => false

def hasRoot (s : List Char) : Bool :=
  match s with
  | '/' :: _ => true
  | _ => false

/-- `Path::new(s).components().collect()` -/
def parse (s : List Char) : Path :=
  (if hasRoot s then [Comp.root] else if leadCur s then [Comp.cur] else [])
    ++ (splitSlash s).filterMap compOfPiece

/-- `PathBuf::join`: an absolute argument replaces the receiver, otherwise its components
follow the receiver's. -/
def join (a b : Path) : Path :=
  match b with
  | .root :: _ => b
  | _ => a ++ b

/-! ### `path_clean::clean` -/

/-- one iteration of the `for comp in path.components()` loop; `out` is the `Vec` in
reverse (head = `out.last()`). -/
def cleanStep (out : List Comp) (c : Comp) : List Comp :=
  match c with
  | .cur => out
  | .parent =>
    match out with
    | .root :: _ => out
    | .normal _ :: rest => rest
    | _ => .parent :: out        -- None | CurDir | ParentDir (| Prefix)
  | c => c :: out

def cleanStack (p : Path) : List Comp := p.foldl cleanStep []

/-- `clean(path)`: empty result is `"."`. -/
def clean (p : Path) : Path :=
  let out := (cleanStack p).reverse
  if out = [] then [.cur] else out

/-! ### `SubDir::is_sub_dir_of` -/

/-- `base.components().all(|b| sub.next().is_some_and(|s| s == b))` -/
def isSubDirOf : Path → Path → Bool
  | _, [] => true
  | [], _ :: _ => false
  | s :: sub, b :: base => s == b && isSubDirOf sub base

/-! ### the file system and `lower_import` -/

inductive Kind where
  | file | dir
  deriving DecidableEq, Repr

abbrev FS := Path → Option Kind

def isFile (fs : FS) (p : Path) : Bool := fs p == some .file
def isDir (fs : FS) (p : Path) : Bool := fs p == some .dir

structure Env where
  /-- `env::current_dir()` (absolute) -/
  cwd : Path
  /-- `mod_dir` as computed by `compile_file`: `cwd.join(--mod-dir).clean()` -/
  modDir : Path
  fs : FS

/-- `LoweringDiagnosticKind`s of `lower_import` -/
inductive Diag where
  | modMustBeAlphanumeric
  | modDoesNotExist
  | modDoesNotContainModFile
  | importMustEndInDotCapy
  | importDoesNotExist (p : Path)
  | importOutsideCWD (p : Path)
  deriving DecidableEq, Repr

inductive Res where
  | ok (file : Path)
  | err (d : Diag)
  deriving DecidableEq, Repr

/-- `.replace(['/', '\\'], MAIN_SEPARATOR_STR)` on Unix -/
def fixSep (s : List Char) : List Char := s.map fun c => if c = '\\' then '/' else c

def isAsciiAlnum (c : Char) : Bool :=
  ('0' ≤ c && c ≤ '9') || ('a' ≤ c && c ≤ 'z') || ('A' ≤ c && c ≤ 'Z')

/-- `str::ends_with(".capy")` -/
def dotCapy : List Char := ['.', 'c', 'a', 'p', 'y']
def endsCapy (s : List Char) : Bool := dotCapy.reverse.isPrefixOf s.reverse

/-- the path `#import(arg)` in file `importer` denotes:
`cwd.join(file_name).join("..").join(arg).clean()` -/
def importTarget (env : Env) (importer : Path) (arg : List Char) : Path :=
  clean (join (join (join env.cwd importer) [.parent]) (parse (fixSep arg)))

/-- `mod_dir.join(m).join("src")` -/
def modFolder (env : Env) (m : List Char) : Path :=
  join (join env.modDir (parse (fixSep m))) [.normal ['s', 'r', 'c']]

def modCapy : List Char := ['m', 'o', 'd', '.', 'c', 'a', 'p', 'y']

/-- `mod_folder_path.join("mod.capy").clean()` -/
def modTarget (env : Env) (m : List Char) : Path :=
  clean (join (modFolder env m) [.normal modCapy])

/-- `lower_import(.., is_mod = true)` after the argument has been read -/
def lowerMod (env : Env) (m : List Char) : Res :=
  let file := fixSep m
  if !file.all isAsciiAlnum then .err .modMustBeAlphanumeric
  else if !isDir env.fs (modFolder env m) then .err .modDoesNotExist
  else if !isFile env.fs (modTarget env m) then .err .modDoesNotContainModFile
  else .ok (modTarget env m)

/-- `lower_import(.., is_mod = false)` after the argument has been read -/
def lowerImport (env : Env) (importer : Path) (arg : List Char) : Res :=
  let file := fixSep arg
  if !endsCapy file then .err .importMustEndInDotCapy
  else
    let p := importTarget env importer arg
    if !isFile env.fs p then .err (.importDoesNotExist p)
    else if !isSubDirOf p env.modDir && !isSubDirOf p env.cwd then .err (.importOutsideCWD p)
    else .ok p

/-! ### files, directives, the import graph -/

inductive Directive where
  | imp (arg : List Char)
  | mod (arg : List Char)
  deriving DecidableEq, Repr

def lower (env : Env) (importer : Path) : Directive → Res
  | .imp a => lowerImport env importer a
  | .mod m => lowerMod env m

def accepted : Res → Option Path
  | .ok p => some p
  | .err _ => none

/-- `bodies.imports` of one file: the set of accepted targets (a `FxHashSet`; here a
duplicate-free list, the iteration order is abstracted by `Order` below). -/
def importsOf (env : Env) (src : Path → List Directive) (f : Path) : List Path :=
  ((src f).filterMap fun d => accepted (lower env f d)).eraseDups

/-! ### the worklist of `compile_file`

`source_files` is the list `parsed` (keys in insertion order = order of the
`SourceFile::parse` calls = order of the `=== file ===` headers);
`current_imports` is a hash set, whose iteration order is unspecified: the model takes
the order as a parameter `ord` (any function that permutes its argument). -/

section Worklist
variable {α : Type} [DecidableEq α]

/-- `current_imports.extend(imports)` on a set -/
def extendSet (cur : List α) (xs : List α) : List α :=
  xs.foldl (fun acc x => if x ∈ acc then acc else acc ++ [x]) cur

/-- the body of `for file_name in old_imports` folded over the round's files:
state = (`source_files` keys, `current_imports`) -/
def roundStep (imps : α → List α) (st : List α × List α) (f : α) : List α × List α :=
  if f ∈ st.1 then st            -- `if source_files.contains_key(&file_name) { continue; }`
  else (st.1 ++ [f], extendSet st.2 (imps f))

def round (imps : α → List α) (parsed : List α) (old : List α) : List α × List α :=
  old.foldl (roundStep imps) (parsed, [])

/-- `while !current_imports.is_empty() { .. }` with explicit fuel: `none` = the fuel ran
out (never happens with `fuel > number of files`, theorem `worklist_terminates`). -/
def loop (imps : α → List α) (ord : List α → List α) : Nat → List α → List α → Option (List α)
  | 0, _, _ => none
  | fuel + 1, parsed, cur =>
    if cur = [] then some parsed
    else
      let st := round imps parsed (ord cur)
      loop imps ord fuel st.1 st.2

/-- `compile_file` up to the end of the import loop: the entry file is parsed first, its
imports seed `current_imports`. Result: the files parsed, in order. -/
def worklist (imps : α → List α) (ord : List α → List α) (fuel : Nat) (entry : α) : Option (List α) :=
  loop imps ord fuel [entry] (extendSet [] (imps entry))

end Worklist

/-! ### `file.name` : the world index

`world_index.add_file(module, index)` / `world_bodies.add_file(module, bodies)` are called
once per `SourceFile` with the file's own `FileName` as key; `Expr::Import(f)` followed by
`.name` looks the key `f` up. -/

def world {δ : Type} (defs : Path → δ) (parsed : List Path) : List (Path × δ) :=
  parsed.map fun f => (f, defs f)

/-- value an accepted `alias :: #import(..)` / `#mod(..)` in file `g` followed by `.name`
denotes: the definitions stored under the key of the directive's target -/
def aliasLookup {δ : Type} (env : Env) (w : List (Path × δ)) (g : Path) (d : Directive) : Option δ :=
  match lower env g d with
  | .ok target => w.lookup target
  | .err _ => none

/-! ### semantic meaning of a path (used by the proofs, executable for the witnesses)

Where the operating system lands when it walks an absolute path in a tree without symbolic
links: `name` descends, `..` goes up (staying at `/`), `.` stays. -/
def walkStep (at_ : List (List Char)) : Comp → List (List Char)
  | .root => []
  | .cur => at_
  | .parent => at_.dropLast
  | .normal s => at_ ++ [s]

def walk (p : Path) : List (List Char) := p.foldl walkStep []

end CapyV.Imports
