import CapyV.Generated.ParserLoops
/-!
# C23 — termination obligations read off the grammar source

`Generated/ParserLoops.lean` is regenerated from `/repo/crates/parser/src/grammar*` on every
run: one row per `loop`/`while`. These theorems are re-checked against that table, so a
grammar loop that loses its progress guard, or a new unreviewed loop, breaks them.
-/
namespace CapyV.C23
open CapyV.ParserLoops

/-- Every loop of the grammar is a guarded list loop (which `guarded_loop_terminates` bounds),
a `while p.at(K) { … p.bump() … }` loop (consumes a token per iteration), or one of the
hand-reviewed loops listed in `tools/gen_parser_loops.py`. -/
theorem no_unknown_loop : loopSites.all (fun r => r.2.2.2 != LoopKind.unknown) = true := by decide

/-- The separator-driven list loops (call arguments, lambda parameters, struct/enum members,
struct and array literals, switch arms, directive arguments) — the shape that could spin when
the item's recovery set contains the next token — all carry the progress guard. -/
theorem list_loops_guarded :
    ["parse_struct_decl", "parse_struct_literal", "parse_enum_decl", "parse_array_literal",
     "parse_switch", "parse_directive"].all (fun fn =>
        loopSites.any fun r => r.2.1 == fn && r.2.2.2 == LoopKind.guarded) = true := by decide

theorem call_args_and_params_guarded :
    ("grammar/expr.rs", "parse_post_operators", 1, LoopKind.guarded) ∈ loopSites ∧
    ("grammar/expr.rs", "parse_lambda", 1, LoopKind.guarded) ∈ loopSites := by decide

/-- non-vacuity: the table is not empty and has the eight guarded sites -/
example : (loopSites.filter fun r => r.2.2.2 == LoopKind.guarded).length = 8 := by decide

end CapyV.C23
