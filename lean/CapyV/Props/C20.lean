import CapyV.Proofs.OrderIndep
/-!
# C20 — results do not depend on the order of definitions or files

Model: `CapyV.Model.OrderIndep` — the round loop of `InferenceCtx::finish`
(`crates/hir_ty/src/lib.rs`): the globals of all files are registered in index order
(`init seeds`), every round offers the pending items whose registered dependencies have all
completed (`leaves`), and `infer` (`inferAbs`) either completes an item from the results of
the items it refers to or registers the missing ones, which become pending themselves.
The textual order of the definitions, and their distribution over files, only changes the
order of `seeds` (and thereby the order in which items are offered and completed).

What is proved, for every reference graph `sys.deps`, every result function `sys.f`, every
seed list and every number of rounds (no size bound):

* `results_are_the_solution` — every completed result is the value of *the* solution `val` of
  the reference equations `val x = f x (map val (deps x))`; nothing about the order enters.
* `done_only_reachable`, `pending_only_reachable`, `finished_covers_reachable`,
  `done_keys_nodup` — a finished run has completed exactly the items reachable from the seeds,
  each once.
* `final_results_independent_of_seed_order` (headline) — two finished runs from seed lists with
  the same elements have the same result table: `some (val x)` on the reachable `x`, `none`
  elsewhere.
* `acyclic_has_solution`, `acyclic_finishes`, `acyclic_results_independent_of_seed_order` —
  when references have no cycle (a rank decreases along them) the solution exists, and if
  the reachable items are finitely many (`U`) the loop finishes within `2 * U.length` rounds,
  so the hypotheses of the headline are satisfiable and its conclusion holds outright.

What is NOT covered: reference cycles. With a cycle no pending item is ever offered by this
model (`cyclic_never_completes`); the compiler then breaks the round by processing the cyclic
batch in a *sorted* order (`peek_all_cyclic` + `sort_by`, lib.rs:619–649) precisely so that
the outcome does not depend on registration order. Neither that branch nor the shape of the
real `infer` (a function of the item and of the results it reads) is part of this model; both
are what the end-to-end permutation runs of the harness test.
-/
namespace CapyV.C20
open CapyV CapyV.OrderIndep

variable {R : Type}

/-- (1) every completed result is the solution's value — whatever the seed order and however
many rounds have run -/
theorem results_are_the_solution (sys : Sys R) (val : Nat → R) (hval : IsSolution sys val)
    (seeds : List Nat) (n : Nat) (x : Nat) (r : R)
    (h : (x, r) ∈ (rounds sys n (init seeds)).done) : r = val x :=
  rounds_correct hval n (st := init seeds) (by intro p hp; cases hp) (x, r) h

/-- (2a) only items reachable from the seeds are ever completed -/
theorem done_only_reachable (sys : Sys R) (seeds : List Nat) (n : Nat) (x : Nat) (r : R)
    (h : (x, r) ∈ (rounds sys n (init seeds)).done) : Reach sys seeds x :=
  (rounds_inv n (init_inv sys seeds)).reach x
    (.inr (isDone_iff.mpr (List.mem_map.mpr ⟨(x, r), h, rfl⟩)))

/-- (2b) only items reachable from the seeds ever become pending -/
theorem pending_only_reachable (sys : Sys R) (seeds : List Nat) (n : Nat) (x : Nat)
    (h : x ∈ (rounds sys n (init seeds)).pending) : Reach sys seeds x :=
  (rounds_inv n (init_inv sys seeds)).reach x (.inl h)

/-- (3) when nothing is pending any more, everything reachable has been completed -/
theorem finished_covers_reachable (sys : Sys R) (seeds : List Nat) (n : Nat)
    (hfin : (rounds sys n (init seeds)).pending = []) (x : Nat) (hr : Reach sys seeds x) :
    x ∈ (rounds sys n (init seeds)).done.map Prod.fst :=
  isDone_iff.mp (inv_finished_covers (rounds_inv n (init_inv sys seeds)) hfin hr)

/-- (4) an item completes at most once -/
theorem done_keys_nodup (sys : Sys R) (seeds : List Nat) (n : Nat) :
    ((rounds sys n (init seeds)).done.map Prod.fst).Nodup :=
  (rounds_inv n (init_inv sys seeds)).dnodup

/-- (4') a pending item has not completed, and the pending list has no duplicates -/
theorem pending_nodup_not_done (sys : Sys R) (seeds : List Nat) (n : Nat) :
    (rounds sys n (init seeds)).pending.Nodup ∧
    ∀ x ∈ (rounds sys n (init seeds)).pending,
      x ∉ (rounds sys n (init seeds)).done.map Prod.fst :=
  ⟨(rounds_inv n (init_inv sys seeds)).pnodup,
   fun x hx => not_isDone_iff.mp ((rounds_inv n (init_inv sys seeds)).disj x hx)⟩

/-- the result table of a finished run, as a function of the item: the solution's value on the
reachable items, nothing elsewhere -/
theorem finished_table (sys : Sys R) (val : Nat → R) (hval : IsSolution sys val)
    (seeds : List Nat) (n : Nat) (hfin : (rounds sys n (init seeds)).pending = []) (x : Nat) :
    (Reach sys seeds x → lookupR x (rounds sys n (init seeds)).done = some (val x)) ∧
    (¬ Reach sys seeds x → lookupR x (rounds sys n (init seeds)).done = none) :=
  lookup_finished (rounds_inv n (init_inv sys seeds))
    (rounds_correct hval n (st := init seeds) (by intro p hp; cases hp)) hfin x

/-- (5) HEADLINE: two finished runs whose seed lists have the same elements — in any order, with
any repetitions, after any numbers of rounds — have the same result table, and it is
`some (val x)` exactly on the reachable items -/
theorem final_results_independent_of_seed_order (sys : Sys R) (val : Nat → R)
    (hval : IsSolution sys val) (s₁ s₂ : List Nat) (hperm : ∀ x, x ∈ s₁ ↔ x ∈ s₂) (n₁ n₂ : Nat)
    (h₁ : (rounds sys n₁ (init s₁)).pending = []) (h₂ : (rounds sys n₂ (init s₂)).pending = []) :
    ∀ x,
      lookupR x (rounds sys n₁ (init s₁)).done = lookupR x (rounds sys n₂ (init s₂)).done ∧
      (Reach sys s₁ x → lookupR x (rounds sys n₁ (init s₁)).done = some (val x)) ∧
      (¬ Reach sys s₁ x → lookupR x (rounds sys n₁ (init s₁)).done = none) := by
  intro x
  have t₁ := finished_table sys val hval s₁ n₁ h₁ x
  have t₂ := finished_table sys val hval s₂ n₂ h₂ x
  refine ⟨?_, t₁⟩
  by_cases hr : Reach sys s₁ x
  · rw [t₁.1 hr, t₂.1 (Reach.congr (fun y hy => (hperm y).mp hy) hr)]
  · rw [t₁.2 hr, t₂.2 (fun h => hr (Reach.congr (fun y hy => (hperm y).mpr hy) h))]

/-- (6a) without reference cycles the equations have a solution, so (1) and (5) are not vacuous -/
theorem acyclic_has_solution [Inhabited R] (sys : Sys R) (rk : Nat → Nat) (hrk : IsRank sys rk) :
    ∃ val : Nat → R, IsSolution sys val :=
  ⟨_, isSolution_valF hrk⟩

/-- (6b) without reference cycles, and with finitely many reachable items, the loop finishes:
every round offers at least one item, and every item is processed at most twice -/
theorem acyclic_finishes (sys : Sys R) (rk : Nat → Nat) (hrk : IsRank sys rk) (seeds U : List Nat)
    (hU : ∀ x, Reach sys seeds x → x ∈ U) :
    (rounds sys (2 * U.length) (init seeds)).pending = [] :=
  rounds_finish hrk hU _ (init_inv sys seeds) (init_winv sys seeds) (mu_le U _)

/-- (6c) so on an acyclic system the final results depend on the *set* of seeds only -/
theorem acyclic_results_independent_of_seed_order [Inhabited R] (sys : Sys R) (rk : Nat → Nat)
    (hrk : IsRank sys rk) (s₁ s₂ U : List Nat) (hperm : ∀ x, x ∈ s₁ ↔ x ∈ s₂)
    (hU : ∀ x, Reach sys s₁ x → x ∈ U) :
    ∃ val : Nat → R, IsSolution sys val ∧ ∀ x,
      lookupR x (rounds sys (2 * U.length) (init s₁)).done =
        lookupR x (rounds sys (2 * U.length) (init s₂)).done ∧
      (Reach sys s₁ x → lookupR x (rounds sys (2 * U.length) (init s₁)).done = some (val x)) ∧
      (¬ Reach sys s₁ x → lookupR x (rounds sys (2 * U.length) (init s₁)).done = none) := by
  refine ⟨_, isSolution_valF hrk, ?_⟩
  exact final_results_independent_of_seed_order sys _ (isSolution_valF hrk) s₁ s₂ hperm _ _
    (acyclic_finishes sys rk hrk s₁ U hU)
    (acyclic_finishes sys rk hrk s₂ U
      (fun x hx => hU x (Reach.congr (fun y hy => (hperm y).mpr hy) hx)))

/-! ### the cyclic case is outside the model -/

/-- `1` and `2` refer to each other -/
def cyc : Sys Nat where
  deps := fun x => if x = 1 then [2] else if x = 2 then [1] else []
  f := fun x rs => x + rs.sum

/-- (7) on a reference cycle the model never completes anything: after the first round both
items wait for each other and no item is offered again (`leaves = []`), whatever the seed
order. The compiler leaves this state through `peek_all_cyclic` + a sort, which is not
modelled: C20 for cyclic programs rests on that sort and on the end-to-end runs only. -/
theorem cyclic_never_completes (n : Nat) :
    (rounds cyc (n + 1) (init [1, 2])).done = [] ∧
    (rounds cyc (n + 1) (init [1, 2])).pending = [1, 2] ∧
    (rounds cyc (n + 1) (init [2, 1])).done = [] ∧
    (rounds cyc (n + 1) (init [2, 1])).pending = [2, 1] := by
  have fix12 : round cyc (round cyc (init [1, 2])) = round cyc (init [1, 2]) := by rfl
  have fix21 : round cyc (round cyc (init [2, 1])) = round cyc (init [2, 1]) := by rfl
  have stay : ∀ (st : St Nat), round cyc st = st → ∀ n, rounds cyc n st = st := by
    intro st h n
    induction n with
    | zero => rfl
    | succ n ih => simp only [rounds]; rw [h]; exact ih
  simp only [rounds]
  rw [stay _ fix12 n, stay _ fix21 n]
  decide

/-- … and the equations of `cyc` have no solution at all: `v 1 = 1 + v 2`, `v 2 = 2 + v 1` -/
theorem cyclic_has_no_solution : ¬ ∃ val : Nat → Nat, IsSolution cyc val := by
  rintro ⟨val, h⟩
  have h1 := h 1
  have h2 := h 2
  simp [cyc] at h1 h2
  omega

/-! ### non-vacuity: a diamond `4 → 2, 3 → 1` -/

def diamond : Sys Nat where
  deps := fun x => if x = 4 then [2, 3] else if x = 2 then [1] else if x = 3 then [1] else []
  f := fun x rs => x + rs.sum

/-- the rank of the diamond is the item itself -/
example : IsRank diamond id := by
  intro x d hd
  simp only [diamond] at hd
  split at hd
  · simp at hd; simp; omega
  · split at hd
    · simp at hd; simp; omega
    · split at hd
      · simp at hd; simp; omega
      · cases hd

/-- the solution of the diamond on its items -/
def diamondVal : Nat → Nat := fun x =>
  if x = 1 then 1 else if x = 2 then 3 else if x = 3 then 4 else if x = 4 then 11 else x

example : IsSolution diamond diamondVal := by
  intro x
  by_cases h4 : x = 4
  · subst h4; decide
  by_cases h2 : x = 2
  · subst h2; decide
  by_cases h3 : x = 3
  · subst h3; decide
  by_cases h1 : x = 1
  · subst h1; decide
  simp [diamond, diamondVal, h1, h2, h3, h4]

/-- only the entry point is registered: the rest is discovered through `deps` (5 rounds:
register `2, 3`; register `1`; complete `1`; complete `2, 3`; complete `4`) … -/
example : (rounds diamond 5 (init [4])).pending = [] ∧
    (rounds diamond 5 (init [4])).done = [(4, 11), (3, 4), (2, 3), (1, 1)] := by decide

/-- … all four in dependency order: every item finds its references completed earlier in the
same round, one round suffices … -/
example : (rounds diamond 1 (init [1, 2, 3, 4])).pending = [] ∧
    (rounds diamond 1 (init [1, 2, 3, 4])).done = [(4, 11), (3, 4), (2, 3), (1, 1)] := by decide

/-- … and in the opposite order: three rounds and a different completion order (`3` before `2`) … -/
example : (rounds diamond 3 (init [4, 3, 2, 1])).pending = [] ∧
    (rounds diamond 3 (init [4, 3, 2, 1])).done = [(4, 11), (2, 3), (3, 4), (1, 1)] := by decide

/-- … runs that are *not* finished yet (so `pending = []` is a real hypothesis) … -/
example : (rounds diamond 4 (init [4])).pending = [4] ∧
    (rounds diamond 2 (init [4, 3, 2, 1])).pending = [4] := by decide

/-- … and the same table in all three: -/
example : ∀ x ∈ [0, 1, 2, 3, 4, 5],
    lookupR x (rounds diamond 5 (init [4])).done =
      lookupR x (rounds diamond 1 (init [1, 2, 3, 4])).done ∧
    lookupR x (rounds diamond 1 (init [1, 2, 3, 4])).done =
      lookupR x (rounds diamond 3 (init [4, 3, 2, 1])).done := by decide

/-- a seed list with repetitions that does not reach every item: `4` never completes -/
example : (rounds diamond 3 (init [2, 2, 3])).pending = [] ∧
    (rounds diamond 3 (init [2, 2, 3])).done = [(3, 4), (2, 3), (1, 1)] := by decide

end CapyV.C20
