import CapyV.Proofs.Mutability
/-!
# C14 — immutable data can never be modified

`getMutability true` is `get_mutability` after FIX.patch, `getMutability false` the function
pinned in /repo (kept for the counterexamples: the defects are real in the model of the old
code). `assignRejected` ⇔ `CannotMutate` is reported for `dest = v` / `dest op= v`;
`mutRefRejected` ⇔ `MutableRefToImmutableData` is reported for `^mut inner`.
Only property theorems and non-vacuity examples live here.
-/
namespace CapyV.C14
open CapyV.Mutability

/-- **C14, soundness (full statement, fixed code).** For every well-typed target — any
nesting depth, any mixture of the constructors — whatever the walk lets through is not
read-only in the place semantics: not a `::` local / parameter / global or a field or element
of one, and not reached through a pointer hop whose (last) pointer is immutable. Holds for the
assignment call site (`assignment = true`) and the `^mut` call site (`assignment = false`). -/
theorem sound (e : Expr) (a : Bool) (t : Ty) (wt : typeOf e = some t)
    (h : getMutability true e a false = .mutable) : verdict e ≠ .readonly := by
  intro hv
  exact (fixed_exact e a t wt).2 hv h

/-- **C14, completeness (full statement, fixed code).** Every well-typed target that is
writable in the place semantics (`:=` local or a field/element of it; anything reached through a
last hop that is `^mut`, explicit or auto-dereferenced) is accepted. -/
theorem complete (e : Expr) (a : Bool) (t : Ty) (wt : typeOf e = some t)
    (h : verdict e = .writable) : getMutability true e a false = .mutable :=
  (fixed_exact e a t wt).1 h

/-- plain and compound assignment: `CannotMutate` ⇔ not writable, wherever the property speaks -/
theorem assign_rejected_iff (dest : Expr) (t : Ty) (wt : typeOf dest = some t)
    (spec : verdict dest ≠ .unspecified) :
    assignRejected true dest = true ↔ verdict dest = .readonly := by
  have hx := fixed_exact dest true t wt
  unfold assignRejected
  cases hv : verdict dest
  · have := hx.1 hv
    simp [this, Mut.rejected]
  · have := hx.2 hv
    cases hm : getMutability true dest true false <;> simp_all [Mut.rejected]
  · exact absurd hv spec

/-- `^mut inner`: `MutableRefToImmutableData` ⇔ `inner` is not writable -/
theorem mutref_rejected_iff (inner : Expr) (t : Ty) (wt : typeOf inner = some t)
    (spec : verdict inner ≠ .unspecified) :
    mutRefRejected true inner = true ↔ verdict inner = .readonly := by
  have hx := fixed_exact inner false t wt
  unfold mutRefRejected
  cases hv : verdict inner
  · have := hx.1 hv
    simp [this, Mut.rejected]
  · have := hx.2 hv
    cases hm : getMutability true inner false false <;> simp_all [Mut.rejected]
  · exact absurd hv spec

/-- the two call sites agree on every place (they only differ in the help text) -/
theorem assign_and_mutref_agree (e : Expr) (t : Ty) (wt : typeOf e = some t)
    (spec : verdict e ≠ .unspecified) :
    assignRejected true e = mutRefRejected true e := by
  have h1 := assign_rejected_iff e t wt spec
  have h2 := mutref_rejected_iff e t wt spec
  cases ha : assignRejected true e <;> cases hb : mutRefRejected true e <;> simp_all

/-- under `deref` the fixed function looks at nothing but the pointer type: not at the
initialiser of a local, not at the form of the expression -/
theorem deref_decided_by_type (e : Expr) (a m : Bool) (t : Ty) (h : tyOf e = .ptr m t) :
    getMutability true e a true = .mutable ↔ m = true :=
  fixed_deref_iff e a m t h

/-- a target that is writable in the narrowest reading of the property (every pointer on the
way is `^mut`) is accepted — the harness reports a false rejection only for these -/
theorem surely_writable_accepted (e : Expr) (a : Bool) (t : Ty) (wt : typeOf e = some t)
    (h : (place e).surelyWritable = true) : getMutability true e a false = .mutable :=
  complete e a t wt (Place.surelyWritable_writable _ h)

/-- the model with `fixed = false` is the walk alone (the pinned function) -/
theorem old_is_walk (ty : Ty) (d : Bool) (m : Mut) : byType false ty d m = m :=
  byType_old ty d m

/-! ## The pinned code violates the property (`fixed = false`) -/

def i32Lit : Expr := .other .int
/-- `x := 1;` -/
def xMut : Expr := .loc true .int i32Lit

/-- `x := 1; p : ^i32 = ^mut x; p^ = 5;` is accepted: the declared type `^i32` of `p` is
ignored, the form `^mut x` of its initialiser decides (DESIGN.md §6 #13). -/
theorem sound_counterexample_declared_type :
    let p := Expr.loc true (.ptr false .int) (.ref true xMut)
    typeOf (.deref p) = some .int ∧
    getMutability false (.deref p) true false = .mutable ∧ verdict (.deref p) = .readonly := by
  decide

/-- `arr : [2]i32 : ..; p := ^arr; pp := ^mut p; pp[1] = 50;` — indexing follows BOTH pointer levels,
the data is reached through the immutable inner one: read-only. The walk without
`innermost_auto_deref` (the pinned function, and the tree before the second `fix:` commit of C14)
looks at the outermost pointer only and accepts; the fixed function rejects. The same for
`pp.field`. -/
theorem sound_counterexample_double_pointer_index :
    let arr := Expr.loc false (.arr .int) (.arrayLit .int)
    let p := Expr.loc true (.ptr false (.arr .int)) (.ref false arr)
    let pp := Expr.loc true (.ptr true (.ptr false (.arr .int))) (.ref true p)
    typeOf (.index pp) = some .int ∧ verdict (.index pp) = .readonly ∧
    getMutability false (.index pp) true false = .mutable ∧
    getMutability true (.index pp) true false = .immutableRef := by
  decide

theorem sound_counterexample_double_pointer_member :
    let s := Expr.loc false (.struct 1) (.structLit (.struct 1))
    let p := Expr.loc true (.ptr false (.struct 1)) (.ref false s)
    let pp := Expr.loc true (.ptr true (.ptr false (.struct 1))) (.ref true p)
    typeOf (.member pp .int) = some .int ∧ verdict (.member pp .int) = .readonly ∧
    getMutability false (.member pp .int) true false = .mutable ∧
    getMutability true (.member pp .int) true false = .immutableRef := by
  decide

/-- the other way round is accepted: `q : ^ ^mut [2]i32; q[1] = 5` writes through the `^mut` inner
pointer (as the explicit `q^^[1] = 5` does) -/
example :
    let q := Expr.param (.ptr false (.ptr true (.arr .int)))
    verdict (.index q) = .writable ∧ getMutability true (.index q) true false = .mutable := by
  decide

/-- `pp := ^mut p; q := pp^; q^ = 5;` with `p : ^i32`: `q : ^i32`, accepted because the walk
through `q`'s initialiser ends at `^mut p`. -/
theorem sound_counterexample_copied_pointer :
    let p := Expr.loc true (.ptr false .int) (.ref false xMut)
    let pp := Expr.loc true (.ptr true (.ptr false .int)) (.ref true p)
    let q := Expr.loc true (.ptr false .int) (.deref pp)
    typeOf (.deref q) = some .int ∧
    getMutability false (.deref q) true false = .mutable ∧ verdict (.deref q) = .readonly := by
  decide

/-- `f()^ = 5;` is accepted for every `f` returning `^T` (`Expr::Call if deref => Mutable`). -/
theorem sound_counterexample_call (t : Ty) :
    typeOf (.deref (.call (.ptr false t))) = some t ∧
    getMutability false (.deref (.call (.ptr false t))) true false = .mutable ∧
    verdict (.deref (.call (.ptr false t))) = .readonly := by
  simp [typeOf, getMutability, byType, verdict, place, tyOf, temp, Place.hop, Place.verdict]

/-- `f :: (a : ^mut ^i32) { a^^ = 5; }` is accepted: the `deref` flag travels down to the
parameter, whose own (outer) pointer type `^mut` answers for the inner, immutable pointer. -/
theorem sound_counterexample_nested_pointer_param :
    let e := Expr.deref (.deref (.param (.ptr true (.ptr false .int))))
    typeOf e = some .int ∧ getMutability false e true false = .mutable ∧
    verdict e = .readonly ∧ getMutability true e true false = .immutableRef := by
  decide

/-- `ptrs := .[^x, ^x]; ptrs[0]^ = 5;` is accepted: the `deref` flag is carried through the
index down to the local, whose initialiser is an array literal (`=> Mutable`). -/
theorem sound_counterexample_array_of_pointers :
    let ptrs := Expr.loc true (.arr (.ptr false .int)) (.arrayLit (.ptr false .int))
    typeOf (.deref (.index ptrs)) = some .int ∧
    getMutability false (.deref (.index ptrs)) true false = .mutable ∧
    verdict (.deref (.index ptrs)) = .readonly := by
  decide

/-- `s.ps[0]^ = 5;` with field `ps : [2]^i32`: the `Member .. if deref` arm answers
`as_pointer().unwrap_or(true)` for the non-pointer field type. Same for `#unwrap(s.op)^`
with `op : ?^i32`. -/
theorem sound_counterexample_field_of_pointers :
    let s := Expr.loc true (.struct 0) (.structLit (.struct 0))
    let e1 := Expr.deref (.index (.member s (.arr (.ptr false .int))))
    let e2 := Expr.deref (.unwrap (.member s (.opt (.ptr false .int))))
    (typeOf e1 = some .int ∧ getMutability false e1 true false = .mutable ∧ verdict e1 = .readonly) ∧
    (typeOf e2 = some .int ∧ getMutability false e2 true false = .mutable ∧ verdict e2 = .readonly) := by
  decide

/-- `^mut p^` with `p : ^i32 = ^mut x` hands out a `^mut i32` to data behind an immutable
pointer: the `^mut` call site has the same hole. -/
theorem mutref_counterexample_declared_type :
    let p := Expr.loc true (.ptr false .int) (.ref true xMut)
    mutRefRejected false (.deref p) = false ∧ verdict (.deref p) = .readonly := by
  decide

/-- false rejection: `f :: (a : [2]^mut i32) { a[0]^ = 5; }` is refused (`ImmutableParam`)
although the write goes through a `^mut` pointer and nothing else. -/
theorem complete_counterexample_param_array :
    let e := Expr.deref (.index (.param (.arr (.ptr true .int))))
    typeOf e = some .int ∧ (place e).surelyWritable = true ∧
    getMutability false e true false = .immutableParam true := by
  decide

/-- false rejection: `p := if c { ^mut x } else { ^mut y }; p^ = 5;` (`p : ^mut i32`) is
refused with `CannotMutateExpr` because the initialiser has no form the walk knows. -/
theorem complete_counterexample_opaque_initialiser :
    let e := Expr.deref (.loc true (.ptr true .int) (.other (.ptr true .int)))
    typeOf e = some .int ∧ (place e).surelyWritable = true ∧
    getMutability false e true false = .cannotMutateExpr := by
  decide

/-- the same inputs under the fix -/
theorem fixed_on_the_counterexamples :
    let p := Expr.loc true (.ptr false .int) (.ref true xMut)
    let ptrs := Expr.loc true (.arr (.ptr false .int)) (.arrayLit (.ptr false .int))
    getMutability true (.deref p) true false = .immutableRef ∧
    getMutability true (.deref (.call (.ptr false .int))) true false = .immutableRef ∧
    getMutability true (.deref (.index ptrs)) true false = .immutableRef ∧
    getMutability true (.deref (.index (.param (.arr (.ptr true .int))))) true false = .mutable := by
  decide

/-! ## Non-vacuity -/

/-- `x := 1; p := ^mut x; pp :: ^mut p; pp^^ = 5` : well-typed, two hops, writable, accepted -/
example :
    let p := Expr.loc true (.ptr true .int) (.ref true xMut)
    let pp := Expr.loc false (.ptr true (.ptr true .int)) (.ref true p)
    typeOf (.deref (.deref pp)) = some .int ∧ place (.deref (.deref pp)) = ⟨.immLocal, [true, true]⟩ ∧
    verdict (.deref (.deref pp)) = .writable ∧
    getMutability true (.deref (.deref pp)) true false = .mutable := by decide

/-- `s :: S.{..}; s.a = 1` : well-typed, read-only, rejected with `ImmutableBinding` -/
example :
    let s := Expr.loc false (.struct 0) (.structLit (.struct 0))
    typeOf (.member s .int) = some .int ∧ verdict (.member s .int) = .readonly ∧
    getMutability true (.member s .int) true false = .immutableBinding := by decide

/-- auto-deref: `ps : ^mut S` parameter, `ps.a = 1` accepted; `ps : ^S`, rejected -/
example :
    getMutability true (.member (.param (.ptr true (.struct 0))) .int) true false = .mutable ∧
    getMutability true (.member (.param (.ptr false (.struct 0))) .int) true false = .immutableRef := by
  decide

end CapyV.C14
