import CapyV.Proofs.Mangle
/-!
# C27 — distinct compiled entities get distinct symbol names

Only property theorems and non-vacuity examples live here.  Strings are UTF-8 byte lists;
the doc comments spell them out.

Entities are compared after `Entity.resolve`: a lambda directly bound to a global *is*
that global's function (`get_naive_lambda_global`, and the compiler's own `Ord for
NaiveLoc` identifies the two), so it is one compiled entity with one name.
-/
namespace CapyV.C27
open CapyV.Mangle

/-! ## Reserved names (full) -/

/-- Every symbol starts with the upper-case code of its first part (`M F N G L Z I`). -/
theorem mangle_head_is_code (e : Entity) (s : List Nat) (h : mangle e = some s) :
    ∃ k : Kind, s.head? = some k.code := by
  rw [mangle_eq] at h
  cases hc : getComponents e.file with
  | none => simp [hc] at h
  | some c =>
    simp [hc] at h
    subst h
    cases hp : fileParts c ++ finalParts e with
    | nil => simp [finalParts] at hp
    | cons p ps => exact ⟨p.1, encodeParts_head p ps⟩

/-- **C27, reserved names, part 1 (full).** No entity is named `main`. -/
theorem mangle_ne_main (e : Entity) : mangle e ≠ some MAIN := by
  intro h
  obtain ⟨k, hk⟩ := mangle_head_is_code e MAIN h
  cases k <;> simp [MAIN, Kind.code] at hk

/-- **C27, reserved names, part 2 (full).** No entity's name is a compiler-internal
symbol `_CI<len><name>E`, whatever the internal name. -/
theorem mangle_not_internal (e : Entity) (name : List Nat) :
    mangle e ≠ some (mangleInternal name) := by
  intro h
  obtain ⟨k, hk⟩ := mangle_head_is_code e _ h
  cases k <;> simp [mangleInternal, Kind.code] at hk

/-- Internal symbols are not `main` either. -/
theorem mangleInternal_ne_main (name : List Nat) : mangleInternal name ≠ MAIN := by
  simp [mangleInternal, MAIN]

/-! ## Distinctness that holds in full -/

/-- **Entities of different kinds never collide (full, any paths).**  If two entities get
the same symbol they are both globals or both lambdas, both generic instances or both
not, and both code / both comptime blocks / both comptime data.  (The header of kind
codes is uniquely readable: it ends at the first digit.)  In particular a global named
like a lambda index, a generic id, or `…Z3` can never be confused with the real thing. -/
theorem mangle_kind_separated (a b : Entity) (hs : (mangle a).isSome)
    (h : mangle a = mangle b) : a.shape = b.shape := by
  rw [mangle_eq, mangle_eq] at h
  rw [mangle_eq] at hs
  cases hca : getComponents a.file with
  | none => simp [hca] at hs
  | some ca =>
    cases hcb : getComponents b.file with
    | none => simp [hca, hcb] at h
    | some cb =>
      simp only [hca, hcb, Option.map_some, Option.some.injEq] at h
      exact shape_of_kinds a b (split_kinds ca cb a b (encodeParts_unique _ _ h).1)

/-- **Within one file there are no collisions at all (full, any path).**  For every file
— including the ones in the known collision classes — two entities of that file with
identifier-like names (not starting with a digit) and the same symbol are the same
entity: same global / lambda index, same generic id, same comptime index, same data
name. -/
theorem mangle_injective_same_file (a b : Entity) (hf : a.file = b.file)
    (ha : a.namesOK = true) (hb : b.namesOK = true) (hs : (mangle a).isSome)
    (h : mangle a = mangle b) : a.resolve = b.resolve := by
  rw [mangle_eq, mangle_eq] at h
  rw [mangle_eq] at hs
  rw [← hf] at h
  cases hca : getComponents a.file with
  | none => simp [hca] at hs
  | some c =>
    simp only [hca, Option.map_some, Option.some.injEq] at h
    obtain ⟨hk, hp⟩ := encodeParts_unique _ _ h
    simp only [List.map_append] at hk hp
    have hk' := List.append_cancel_left hk
    have hp' := List.append_cancel_left hp
    have := parts_eq_of_good _ _ (finalParts_good a ha) (finalParts_good b hb) hk' hp'
    obtain ⟨h1, h2, h3⟩ := finalParts_inj a b this
    obtain ⟨fa, ba, ga, xa⟩ := a
    obtain ⟨fb, bb, gb, xb⟩ := b
    simp only [Entity.resolve] at *
    simp [hf, h1, h2, h3]

/-! ## The headline statement -/

/-- A well-formed entity has a name (no panic). -/
theorem mangle_isSome_of_WF (e : Entity) (h : WF e = true) : (mangle e).isSome := by
  simp only [WF, Bool.and_eq_true] at h
  obtain ⟨c, hc, _⟩ := fileWF_parts e.file h.1
  simp [mangle_eq, hc]

/-- **C27, distinctness, partial.**  Under the decidable guard `WF` (path components:
directories dot-free, file `stem.capy` with dot-free stem, no component that looks like
its own digit escape `f<digit>…` / `m<digit>…`, the `src` skip fires exactly for module
files; names not starting with a digit), two entities with the same symbol are the same
entity.  No bound on path length, name length or indices. -/
theorem mangle_injective_partial (a b : Entity) (ha : WF a = true) (hb : WF b = true)
    (h : mangle a = mangle b) : a.resolve = b.resolve := by
  simp only [WF, Bool.and_eq_true] at ha hb
  obtain ⟨ca, hca, hga, _⟩ := fileWF_parts a.file ha.1
  obtain ⟨cb, hcb, hgb, _⟩ := fileWF_parts b.file hb.1
  rw [mangle_eq, mangle_eq, hca, hcb] at h
  simp only [Option.map_some, Option.some.injEq] at h
  obtain ⟨hk, hp⟩ := encodeParts_unique _ _ h
  have hgood : ∀ (c : Components) (e : Entity), (∀ p ∈ fileParts c, partGood p = true) →
      e.namesOK = true → ∀ p ∈ fileParts c ++ finalParts e, partGood p = true := by
    intro c e h1 h2 p hp
    rcases List.mem_append.mp hp with hp | hp
    · exact h1 p hp
    · exact finalParts_good e h2 p hp
  have hparts := parts_eq_of_good _ _ (hgood ca a hga ha.2) (hgood cb b hgb hb.2) hk hp
  obtain ⟨hfile, hfinal⟩ := split_parts ca cb a b hparts
  have hf := fileParts_inj a.file b.file ca cb ha.1 hb.1 hca hcb hfile
  obtain ⟨h1, h2, h3⟩ := finalParts_inj a b hfinal
  obtain ⟨fa, ba, ga, xa⟩ := a
  obtain ⟨fb, bb, gb, xb⟩ := b
  simp only [Entity.resolve] at *
  simp [hf, h1, h2, h3]

/-! ## Counterexamples to the unguarded statement (one per collision class) -/

/-- Collision class `digit-escape`: a directory `1` and a directory `f1`: both become the part `2f1`.  Both are `FFN2f11f3valE`. -/
theorem mangle_injective_counterexample_digit_escape :
    let a : Entity := ⟨⟨.cwd, [[49], [102, 46, 99, 97, 112, 121]]⟩, .global [118, 97, 108], none, .code⟩
    let b : Entity := ⟨⟨.cwd, [[102, 49], [102, 46, 99, 97, 112, 121]]⟩, .global [118, 97, 108], none, .code⟩
    mangle a = some [70, 70, 78, 50, 102, 49, 49, 102, 51, 118, 97, 108, 69] ∧ mangle b = some [70, 70, 78, 50, 102, 49, 49, 102, 51, 118, 97, 108, 69] ∧ a.resolve ≠ b.resolve := by
  decide

/-- Collision class `dot-dash`: `p.q/` and `p-q/`: the dot is replaced by a dash.  Both are `FFN3p-q1f3valE`. -/
theorem mangle_injective_counterexample_dot_dash :
    let a : Entity := ⟨⟨.cwd, [[112, 46, 113], [102, 46, 99, 97, 112, 121]]⟩, .global [118, 97, 108], none, .code⟩
    let b : Entity := ⟨⟨.cwd, [[112, 45, 113], [102, 46, 99, 97, 112, 121]]⟩, .global [118, 97, 108], none, .code⟩
    mangle a = some [70, 70, 78, 51, 112, 45, 113, 49, 102, 51, 118, 97, 108, 69] ∧ mangle b = some [70, 70, 78, 51, 112, 45, 113, 49, 102, 51, 118, 97, 108, 69] ∧ a.resolve ≠ b.resolve := by
  decide

/-- Collision class `dot-dash-capy`: `foo.capy.capy` and `foo-capy.capy`.  Both are `FN8foo-capy3valE`. -/
theorem mangle_injective_counterexample_dot_dash_capy :
    let a : Entity := ⟨⟨.cwd, [[102, 111, 111, 46, 99, 97, 112, 121, 46, 99, 97, 112, 121]]⟩, .global [118, 97, 108], none, .code⟩
    let b : Entity := ⟨⟨.cwd, [[102, 111, 111, 45, 99, 97, 112, 121, 46, 99, 97, 112, 121]]⟩, .global [118, 97, 108], none, .code⟩
    mangle a = some [70, 78, 56, 102, 111, 111, 45, 99, 97, 112, 121, 51, 118, 97, 108, 69] ∧ mangle b = some [70, 78, 56, 102, 111, 111, 45, 99, 97, 112, 121, 51, 118, 97, 108, 69] ∧ a.resolve ≠ b.resolve := by
  decide

/-- Collision class `src-skip`: `a/src/x.capy` and `b/src/x.capy`: the `src` skip drops the *first* component of a non-module path.  Both are `FFN3src1x3valE`. -/
theorem mangle_injective_counterexample_src_skip :
    let a : Entity := ⟨⟨.cwd, [[97], [115, 114, 99], [120, 46, 99, 97, 112, 121]]⟩, .global [118, 97, 108], none, .code⟩
    let b : Entity := ⟨⟨.cwd, [[98], [115, 114, 99], [120, 46, 99, 97, 112, 121]]⟩, .global [118, 97, 108], none, .code⟩
    mangle a = some [70, 70, 78, 51, 115, 114, 99, 49, 120, 51, 118, 97, 108, 69] ∧ mangle b = some [70, 70, 78, 51, 115, 114, 99, 49, 120, 51, 118, 97, 108, 69] ∧ a.resolve ≠ b.resolve := by
  decide

/-- Collision class `src-skip-mod`: module files `m/src/x.capy` and `m/x.capy`.  Both are `MFN1m1x3valE`. -/
theorem mangle_injective_counterexample_src_skip_mod :
    let a : Entity := ⟨⟨.mod, [[109], [115, 114, 99], [120, 46, 99, 97, 112, 121]]⟩, .global [118, 97, 108], none, .code⟩
    let b : Entity := ⟨⟨.mod, [[109], [120, 46, 99, 97, 112, 121]]⟩, .global [118, 97, 108], none, .code⟩
    mangle a = some [77, 70, 78, 49, 109, 49, 120, 51, 118, 97, 108, 69] ∧ mangle b = some [77, 70, 78, 49, 109, 49, 120, 51, 118, 97, 108, 69] ∧ a.resolve ≠ b.resolve := by
  decide

/-- Collision class `capy-strip`: a directory `x.capy` and a directory `x`.  Both are `FFN1x1y3valE`. -/
theorem mangle_injective_counterexample_capy_strip :
    let a : Entity := ⟨⟨.cwd, [[120, 46, 99, 97, 112, 121], [121, 46, 99, 97, 112, 121]]⟩, .global [118, 97, 108], none, .code⟩
    let b : Entity := ⟨⟨.cwd, [[120], [121, 46, 99, 97, 112, 121]]⟩, .global [118, 97, 108], none, .code⟩
    mangle a = some [70, 70, 78, 49, 120, 49, 121, 51, 118, 97, 108, 69] ∧ mangle b = some [70, 70, 78, 49, 120, 49, 121, 51, 118, 97, 108, 69] ∧ a.resolve ≠ b.resolve := by
  decide

/-- **C27, distinctness, full strength, is false of the current code.** -/
theorem mangle_injective_counterexample :
    ¬ (∀ a b : Entity, (mangle a).isSome → mangle a = mangle b → a.resolve = b.resolve) := by
  intro h
  have := mangle_injective_counterexample_digit_escape
  simp only at this
  exact this.2.2 (h _ _ (by rw [this.1]; rfl) (by rw [this.1, this.2.1]))

/-! ## Non-vacuity -/

/-- `lib/util.capy`, global `val` -/
def exUtil : Entity :=
  ⟨⟨.cwd, [[108, 105, 98], [117, 116, 105, 108, 46, 99, 97, 112, 121]]⟩, .global [118, 97, 108], none, .code⟩
/-- module file `core/src/mod.capy`, lambda#3 of generic instance 7, comptime block 12, data `init_flag` -/
def exCore : Entity :=
  ⟨⟨.mod, [[99, 111, 114, 101], [115, 114, 99], [109, 111, 100, 46, 99, 97, 112, 121]]⟩, .lambda 3 none, some 7,
    .comptimeData 12 [105, 110, 105, 116, 95, 102, 108, 97, 103]⟩
/-- lambda#5 bound to global `val` in `lib/util.capy` -/
def exBound : Entity := { exUtil with base := .lambda 5 (some [118, 97, 108]) }

example : WF exUtil = true := by decide
example : WF exCore = true := by decide
example : WF exBound = true := by decide
/-- `FFN3lib4util3valE` -/
example : mangle exUtil =
    some [70, 70, 78, 51, 108, 105, 98, 52, 117, 116, 105, 108, 51, 118, 97, 108, 69] := by decide
/-- `MFLGZI4core3mod2l32g73z129init_flagE` -/
example : mangle exCore = some [77, 70, 76, 71, 90, 73, 52, 99, 111, 114, 101, 51, 109, 111, 100, 50, 108,
    51, 50, 103, 55, 51, 122, 49, 50, 57, 105, 110, 105, 116, 95, 102, 108, 97, 103, 69] := by decide
example : mangle exBound = mangle exUtil ∧ exBound ≠ exUtil ∧ exBound.resolve = exUtil.resolve := by
  decide
/-- a file outside `mod_dir` and the current directory: `unreachable!()` -/
example : mangle { exUtil with file := ⟨.outside, exUtil.file.comps⟩ } = none := by decide
/-- the guard is violated by each member pair of the collision classes -/
example : WF ⟨⟨.cwd, [[49], [102, 46, 99, 97, 112, 121]]⟩, .global [118, 97, 108], none, .code⟩ = true ∧
    WF ⟨⟨.cwd, [[102, 49], [102, 46, 99, 97, 112, 121]]⟩, .global [118, 97, 108], none, .code⟩ = false := by
  decide
/-- `_CI12commandline_argsE` starts with `_CI` -/
example : (mangleInternal [99, 111, 109, 109]).take 4 = [95, 67, 73, 52] := by decide

end CapyV.C27
