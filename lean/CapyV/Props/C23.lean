import CapyV.Proofs.ParserKernel
/-!
# C23 — parsing is total, terminating and lossless (parser kernel + sink)

All statements are about `CapyV.ParserKernel`: `sinkFinish` is the model of `Sink::finish`
(`crates/parser/src/sink.rs`), `krun` of the parser's token kernel (`skip_trivia`, `bump`,
`at_eof` in `crates/parser/src/parser.rs`), `guardedLoop` of the progress guard of the grammar's
list loops. Tokens are abstracted to their trivia class (`Cls`), `ck` is `NodeKind::Comment`.

* `outToks out` — the token indices handed to the tree builder, in order;
* `RootShape evs` — first event `StartNode`, last event `FinishNode` (the root marker);
* `countAdd evs` / `countOther toks` — number of `AddToken` events / of non-trivia tokens.
-/
namespace CapyV.C23
open CapyV CapyV.ParserKernel

/-! ### the sink -/

/-- Whatever the events are, when the sink does not panic it has added the tokens
`0, 1, …, n-1` — each once, in input order, none skipped — and `n` never exceeds the input. -/
theorem sink_tokens_in_order (ck : Nat) (toks : List Cls) (evs : List Ev) (out : List Out) (n : Nat)
    (h : sinkFinish ck toks evs = some (out, n)) :
    outToks out = List.range n ∧ n ≤ toks.length := by
  obtain ⟨s, hr, rfl, rfl⟩ := sinkFinish_some h
  obtain ⟨i1, i2⟩ := runEvents_inv ck toks.length evs _ s ⟨by simp, by simp⟩ hr
  exact ⟨by rw [outToks_reverse, i1, List.reverse_reverse], by omega⟩

/-- HEADLINE. If the parser pushed exactly one `AddToken` per non-trivia token, the sink never
indexes past the tokens and adds ALL of them: the tree's text is the input, byte for byte. -/
theorem sink_lossless (ck : Nat) (toks : List Cls) (evs : List Ev) (hshape : RootShape evs)
    (hcount : countAdd evs = countOther toks) :
    ∃ out, sinkFinish ck toks evs = some (out, toks.length) ∧ outToks out = List.range toks.length := by
  have := sinkFinish_spec ck toks evs hshape
  rw [if_pos (by omega)] at this
  obtain ⟨out, n, a, -, c⟩ := this
  obtain rfl := c.2 hcount
  exact ⟨out, a, (sink_tokens_in_order ck toks evs out _ a).1⟩

/-- The sink panics (`tokens.kind(idx)` out of bounds) exactly when there are more `AddToken`
events than non-trivia tokens. -/
theorem sink_panics_iff (ck : Nat) (toks : List Cls) (evs : List Ev) (hshape : RootShape evs) :
    sinkFinish ck toks evs = none ↔ countOther toks < countAdd evs := by
  have := sinkFinish_spec ck toks evs hshape
  split at this
  · obtain ⟨out, n, a, -⟩ := this
    simp [a]; omega
  · simp [this]; omega

/-- With too few `AddToken` events the sink succeeds but tokens are lost. -/
theorem sink_loses_tokens (ck : Nat) (toks : List Cls) (evs : List Ev) (hshape : RootShape evs)
    (hcount : countAdd evs < countOther toks) :
    ∃ out n, sinkFinish ck toks evs = some (out, n) ∧ n < toks.length := by
  have := sinkFinish_spec ck toks evs hshape
  rw [if_pos (by omega)] at this
  obtain ⟨out, n, a, b, c⟩ := this
  refine ⟨out, n, a, ?_⟩
  have : n ≠ toks.length := fun hn => by have := c.1 hn; omega
  omega

/-- Lossless ⇔ the counts agree. -/
theorem sink_lossless_iff (ck : Nat) (toks : List Cls) (evs : List Ev) (hshape : RootShape evs) :
    (∃ out, sinkFinish ck toks evs = some (out, toks.length)) ↔ countAdd evs = countOther toks := by
  constructor
  · rintro ⟨out, h⟩
    have := sinkFinish_spec ck toks evs hshape
    split at this
    · obtain ⟨out', n, a, -, c⟩ := this
      rw [h] at a; simp only [Option.some.injEq, Prod.mk.injEq] at a
      exact c.1 a.2.symm
    · rw [h] at this; simp at this
  · intro h
    obtain ⟨out, a, -⟩ := sink_lossless ck toks evs hshape h
    exact ⟨out, a⟩

/-! ### the parser kernel -/

/-- Along any successful run the parser's `token_idx` stays within the tokens. -/
theorem kernel_idx_le (toks : List Cls) (ops : List KOp) (s : PState)
    (hrun : krun ops ⟨toks, 0, 0, []⟩ = some s) : s.idx ≤ toks.length := by
  obtain ⟨⟨pre, h1, h2, -⟩, -, -, -, -⟩ := krun_inv ops (KInv.init toks) hrun
  rw [h1, List.length_append]; omega

/-- A grammar that only uses the kernel and stops at end of input has pushed exactly one
`AddToken` per non-trivia token. -/
theorem kernel_counts (toks : List Cls) (ops : List KOp) (s : PState)
    (hrun : krun ops ⟨toks, 0, 0, []⟩ = some s) (heof : s.atEof = true) :
    s.adds = countOther toks :=
  (krun_inv ops (KInv.init toks) hrun).atEof_adds heof

/-- What the harness checks on the real `bump_log` is a theorem of the kernel: every bumped
index is in range and points at a non-trivia token, and the log (newest first) is strictly
decreasing, so no token is bumped twice. -/
theorem kernel_bumps_nontrivia (toks : List Cls) (ops : List KOp) (s : PState)
    (hrun : krun ops ⟨toks, 0, 0, []⟩ = some s) :
    (∀ b ∈ s.bumps, b < toks.length ∧ toks[b]? = some Cls.other) ∧
    s.bumps.Pairwise (· > ·) ∧ s.bumps.length = s.adds := by
  have inv := krun_inv ops (KInv.init toks) hrun
  refine ⟨fun b hb => ?_, inv.bumps_sorted, inv.bumps_len⟩
  have h := inv.bumps_other b hb
  exact ⟨(List.getElem?_eq_some_iff.1 h).1, h⟩

/-- Kernel + sink: for ANY event list with the root shape whose number of `AddToken` events is
the one pushed by a successful kernel run that reached end of input, the sink adds all tokens. -/
theorem parse_then_sink_lossless (ck : Nat) (toks : List Cls) (ops : List KOp) (s : PState)
    (evs : List Ev) (hrun : krun ops ⟨toks, 0, 0, []⟩ = some s) (heof : s.atEof = true)
    (hshape : RootShape evs) (hadds : countAdd evs = s.adds) :
    ∃ out, sinkFinish ck toks evs = some (out, toks.length) ∧ outToks out = List.range toks.length :=
  sink_lossless ck toks evs hshape (by rw [hadds, kernel_counts toks ops s hrun heof])

/-! ### the progress guard of the list loops -/

/-- A loop body that never moves `token_idx` backwards nor past `bound` makes the guarded loop
stop by itself: with `fuel ≥ bound - idx + 1` it performs between 1 and `bound - idx + 1`
iterations, ends on an index where the body makes no progress (the `break`), and more fuel
does not change the result. -/
theorem guarded_loop_terminates (body : Nat → Nat) (bound idx fuel : Nat)
    (hmono : ∀ i, i ≤ body i) (hbound : ∀ i, i ≤ bound → body i ≤ bound)
    (hidx : idx ≤ bound) (hfuel : bound - idx + 1 ≤ fuel) :
    1 ≤ (guardedLoop body fuel idx).1 ∧ (guardedLoop body fuel idx).1 ≤ bound - idx + 1 ∧
    body (guardedLoop body fuel idx).2 = (guardedLoop body fuel idx).2 ∧
    idx ≤ (guardedLoop body fuel idx).2 ∧ (guardedLoop body fuel idx).2 ≤ bound ∧
    ∀ fuel', fuel ≤ fuel' → guardedLoop body fuel' idx = guardedLoop body fuel idx := by
  obtain ⟨a, b, c, d, e⟩ := guardedLoop_spec body bound hmono hbound fuel idx hidx hfuel
  exact ⟨a, b, c, d, e, fun fuel' hf =>
    guardedLoop_fuel body bound hmono hbound fuel' fuel idx hidx (by omega) hfuel⟩

/-! ### comment nodes -/

/-- On tokens of lexer shape (every `CommentContents` immediately preceded by a
`CommentLeader`) `Sink::skip_trivia` leaves the builder's nesting depth unchanged: each
`start_node(Comment)` is closed by its `finish_node`, and no `finish_node` comes early. -/
theorem comment_nodes_balanced (ck : Nat) (s : Sink) (d0 d : Nat) (hshape : LexShape s.rest)
    (h : depthAfter d0 s.out.reverse = some d) :
    depthAfter d0 (skipTrivia ck s).out.reverse = some d := by
  rw [skipTrivia_eq_loop]
  apply skipTriviaLoop_depth ck s.rest s.idx s.out false d0 d hshape
  simpa [lexShapeFrom_false_head hshape] using h

/-- in particular, from an empty builder the calls are balanced -/
theorem comment_nodes_balanced_init (ck : Nat) (toks : List Cls) (hshape : LexShape toks) :
    Balanced (skipTrivia ck ⟨toks, 0, []⟩).out.reverse :=
  comment_nodes_balanced ck ⟨toks, 0, []⟩ 0 0 hshape rfl

/-- `Sink::skip_trivia`'s second `while let` loop is dead code. -/
theorem skip_trivia_second_loop_dead (ck : Nat) (s : Sink) :
    skipTrivia ck s = skipTriviaLoop ck s.rest s.idx s.out :=
  skipTrivia_eq_loop ck s

/-! ### Non-vacuity
`a // c\n b` lexes to `[Ident, Whitespace, CommentLeader, CommentContents, Whitespace, Ident]`. -/
def exToks : List Cls := [.other, .ws, .leader, .contents, .ws, .other]
def exEvs : List Ev := [.start 0, .add, .add, .finish]
def exOps : List KOp := [.marker, .look, .bump, .look, .bump, .look, .marker]

example : RootShape exEvs := ⟨⟨0, rfl⟩, rfl⟩
example : countAdd exEvs = countOther exToks := by decide
example : LexShape exToks := by decide
example : sinkFinish 67 exToks exEvs =
    some ([.start 0, .tok 0, .tok 1, .start 67, .tok 2, .tok 3, .finish, .tok 4, .tok 5, .finish], 6) := by
  decide
/-- too many `AddToken`s: the sink panics -/
example : sinkFinish 67 exToks [.start 0, .add, .add, .add, .finish] = none := by decide
/-- too few `AddToken`s: no panic, but the last token never reaches the tree (5 of 6 added) -/
example : sinkFinish 67 exToks [.start 0, .add, .finish] =
    some ([.start 0, .tok 0, .tok 1, .start 67, .tok 2, .tok 3, .finish, .tok 4, .finish], 5) := by
  decide
/-- an event list without the root shape trips the `assert!`s -/
example : sinkFinish 67 exToks [.add, .finish] = none := by decide
/-- a kernel run over the same tokens: two bumps (tokens 0 and 5), at eof, `token_idx = 6` -/
example : krun exOps ⟨exToks, 0, 0, []⟩ = some ⟨[], 6, 2, [5, 0]⟩ := by decide
example : (PState.mk [] 6 2 [5, 0]).atEof = true := by decide
/-- `bump` at end of input is the kernel's failure -/
example : krun [.bump, .bump, .bump] ⟨exToks, 0, 0, []⟩ = none := by decide
/-- comment without contents followed by a token, and a guarded loop that advances by 2 up to 7 -/
example : (skipTrivia 67 ⟨[.leader, .ws, .other], 0, []⟩).out.reverse =
    [.start 67, .tok 0, .finish, .tok 1] := by decide
example : guardedLoop (fun i => if i + 2 ≤ 7 then i + 2 else i) 8 0 = (4, 6) := by decide
/-- lexer shape is needed: a stray `CommentContents` closes a node that was never opened -/
example : depthAfter 0 (skipTrivia 67 ⟨[.contents], 0, []⟩).out.reverse = none := by decide

end CapyV.C23
