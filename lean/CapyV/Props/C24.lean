import CapyV.Proofs.ExprRoundTrip
/-!
# C24 — expressions parse by the documented precedence and associativity

Only property theorems and non-vacuity examples live here. The parser model is
`CapyV.ExprCore` (`Model/ExprCore.lean`), its binding powers / prefix set / call-site flags
are regenerated from `expr.rs` on every run (`Generated/BindingPowers.lean`), so every
theorem below is re-checked against what the code says now.
-/
namespace CapyV.C24
open CapyV.ExprCore CapyV.Generated.BP

/-- the precedence level the property text gives each binary operator:
`||` < `&&` < comparisons < `+ - | ~` < `* / % & << >>` -/
def docLevel : BinOp → Nat
  | .lor => 1
  | .land => 2
  | .lt | .le | .gt | .ge | .eq | .ne => 3
  | .add | .sub | .bor | .xor => 4
  | .mul | .div | .mod | .band | .shl | .shr => 5

/-- **Table shape.** In the regenerated binding-power table every documented operator sits on its
documented level, the five levels are in the documented order, every binary operator — a later
addition too — has `left < right` (left associativity), and the levels do not interleave.
(Open-world since harmless change C/h1: an operator ADDED to the table does not falsify it; a
documented operator that moves, or any operator that is not left-associative, does.) -/
theorem bp_table_shape :
    (∀ b : BinOp, binaryBp b.kind = some (2 * docLevel b - 1, 2 * docLevel b)) ∧
    (∀ b : BinOp, lbp b < rbp b) ∧
    (∀ a b : BinOp, lbp a < lbp b ↔ docLevel a < docLevel b) ∧
    (∀ a b : BinOp, lbp a < lbp b → rbp a ≤ lbp b) ∧
    (∀ (k : Kind) (l r : Nat), binaryBp k = some (l, r) → l < r) ∧
    (∀ b : BinOp, (b.kind, lbp b, rbp b) ∈ binaryTable) := by
  refine ⟨?_, ?_, ?_, ?_, ?_, ?_⟩
  · intro b; cases b <;> rfl
  · intro b; cases b <;> decide
  · intro a b; cases a <;> cases b <;> decide
  · intro a b; cases a <;> cases b <;> decide
  · intro k l r h
    cases k <;> simp [binaryBp] at h <;> omega
  · intro b; cases b <;> decide

/-- The prefix operator set, the postfix starters and the flag arguments of the call
sites are the ones the model's arms are written for. -/
theorem operator_sets_shape :
    prefixTokens = [.Hyphen, .Plus, .Bang, .Tilde] ∧
    (∀ k, isPrefix k = prefixTokens.contains k) ∧
    (∀ k, prefixDisallowDot k = false) ∧
    postfixStarters = [(.LBrack, false), (.LParen, false), (.Caret, true), (.As, true), (.Bang, false), (.Dot, false)] ∧
    dotForms = [(.LParen, true), (.LBrace, true), (.LBrack, true), (.Try, false)] ∧
    (loopDisallowDerefs, loopDisallowDot, prefixDisallowDerefs, refDisallowDot, startBp) = (false, false, true, true, 0) ∧
    (∀ u : UnOp, isPrefix u.tok.kind = true ∧ u.tok.unOp = some u) := by
  refine ⟨rfl, ?_, ?_, rfl, rfl, rfl, ?_⟩
  · intro k; cases k <;> rfl
  · intro k; cases k <;> rfl
  · intro u; cases u <;> exact ⟨rfl, rfl⟩

/-- **C24, headline.** A tree printed with the minimal parenthesisation parses back to
the same tree, for every tree (no depth bound), with the fuel of `parse`. -/
theorem parse_print (t : Tree) : parse (print t) = some t :=
  parse_printWith _ t

/-- The same with any amount of redundant parentheses: `d c t` extra pairs around the
subtree `t` in context `c`, for every `d`. -/
theorem parse_print_redundant (d : Ctx → Tree → Nat) (t : Tree) : parse (printWith d t) = some t :=
  parse_printWith d t

theorem parse_printFull (t : Tree) : parse (printFull t) = some t :=
  parse_printWith _ t

/-- Printing is injective: two different trees never print to the same tokens. -/
theorem print_injective (d : Ctx → Tree → Nat) (t₁ t₂ : Tree) (h : printWith d t₁ = printWith d t₂) : t₁ = t₂ := by
  have h₁ := parse_printWith d t₁
  rw [h, parse_printWith d t₂] at h₁
  exact (Option.some.inj h₁).symm

/-- Under a binary operator only binary operands are ever parenthesised: prefix and
postfix expressions bind tighter than every binary operator. -/
theorem only_binary_operands_parenthesised (k : Nat) (t : Tree) (h : needsParen (.expr k) t = true) :
    ∃ b l r, t = .bin b l r ∧ lbp b < k := by
  cases t <;> simp [needsParen] at h
  exact ⟨_, _, _, rfl, h⟩

/-- Two binary operators in a row: the tree is the one the table dictates — the tighter
operator gets the shared operand, equal levels associate to the left. -/
theorem binary_pair (a b : BinOp) (x y z : Nat) :
    parse [.ident x, .bop a, .ident y, .bop b, .ident z] =
      some (if docLevel a < docLevel b then .bin a (.ident x) (.bin b (.ident y) (.ident z))
            else .bin b (.bin a (.ident x) (.ident y)) (.ident z)) := by
  cases a <;> cases b <;> rfl

/-- Prefix operators bind tighter than every binary operator, on either side. -/
theorem prefix_binds_tighter (u : UnOp) (b : BinOp) (x y : Nat) :
    parse [u.tok, .ident x, .bop b, .ident y] = some (.bin b (.un u (.ident x)) (.ident y)) ∧
    parse [.ident x, .bop b, u.tok, .ident y] = some (.bin b (.ident x) (.un u (.ident y))) ∧
    parse [.caret, .ident x, .bop b, .ident y] = some (.bin b (.ref false (.ident x)) (.ident y)) ∧
    parse [.ident x, .bop b, .caret, .mut, .ident y] = some (.bin b (.ident x) (.ref true (.ident y))) := by
  cases u <;> cases b <;> exact ⟨rfl, rfl, rfl, rfl⟩

/-- Postfix operators bind tighter than every binary operator. -/
theorem postfix_binds_tighter (b : BinOp) (x y z : Nat) :
    parse [.ident x, .bop b, .ident y, .caret] = some (.bin b (.ident x) (.deref (.ident y))) ∧
    parse [.ident x, .bop b, .ident y, .dot, .try_] = some (.bin b (.ident x) (.try_ (.ident y))) ∧
    parse [.ident x, .bop b, .ident y, .dot, .ident z] = some (.bin b (.ident x) (.field (.ident y) z)) ∧
    parse [.ident x, .bop b, .ident y, .lbrack, .ident z, .rbrack] = some (.bin b (.ident x) (.index (.ident y) (.ident z))) ∧
    parse [.ident x, .bop b, .ident y, .dot, .lparen, .ident z, .rparen] = some (.bin b (.ident x) (.cast (.ident y) (.ident z))) ∧
    parse [.ident x, .bop b, .ident y, .lparen, .ident z, .rparen] = some (.bin b (.ident x) (.call (.ident y) (.cons (.ident z) .nil))) ∧
    parse [.ident x, .caret, .bop b, .ident y] = some (.bin b (.deref (.ident x)) (.ident y)) := by
  cases b <;> exact ⟨rfl, rfl, rfl, rfl, rfl, rfl, rfl⟩

/-- Prefix against postfix (the property text does not order them; this is what the code
does): index, call, field, `.try` and cast go to the operand of `- + ! ~`; index, call,
field, `.try` go to the operand of `^`/`^mut`. -/
theorem postfix_before_prefix (u : UnOp) (x z : Nat) :
    parse [u.tok, .ident x, .dot, .ident z] = some (.un u (.field (.ident x) z)) ∧
    parse [u.tok, .ident x, .dot, .try_] = some (.un u (.try_ (.ident x))) ∧
    parse [u.tok, .ident x, .lbrack, .ident z, .rbrack] = some (.un u (.index (.ident x) (.ident z))) ∧
    parse [u.tok, .ident x, .lparen, .rparen] = some (.un u (.call (.ident x) .nil)) ∧
    parse [u.tok, .ident x, .dot, .lparen, .ident z, .rparen] = some (.un u (.cast (.ident x) (.ident z))) ∧
    parse [.caret, .ident x, .dot, .ident z] = some (.ref false (.field (.ident x) z)) ∧
    parse [.caret, .mut, .ident x, .lbrack, .ident z, .rbrack] = some (.ref true (.index (.ident x) (.ident z))) := by
  cases u <;> exact ⟨rfl, rfl, rfl, rfl, rfl, rfl, rfl⟩

/-- The exceptions (comment in `expr.rs`: "`^foo^` is parsed as `(^foo)^`", "`^foo.(bar)` as
`(^foo).(bar)`"): a dereference after any prefix operator applies to the whole prefixed
expression, and a `.(` cast after `^`/`^mut` applies to the reference. -/
theorem deref_after_prefix (u : UnOp) (x z : Nat) :
    parse [u.tok, .ident x, .caret] = some (.deref (.un u (.ident x))) ∧
    parse [.caret, .ident x, .caret] = some (.deref (.ref false (.ident x))) ∧
    parse [u.tok, .ident x, .dot, .ident z, .caret] = some (.deref (.un u (.field (.ident x) z))) ∧
    parse [.caret, .ident x, .dot, .lparen, .ident z, .rparen] = some (.cast (.ref false (.ident x)) (.ident z)) ∧
    parse [.caret, .mut, .ident x, .dot, .lparen, .ident z, .rparen] = some (.cast (.ref true (.ident x)) (.ident z)) := by
  cases u <;> exact ⟨rfl, rfl, rfl, rfl, rfl⟩

/-- … and the printer knows: the minimal print of `-(x^)` keeps its parentheses. -/
theorem print_un_deref (u : UnOp) (x : Nat) :
    print (.un u (.deref (.ident x))) = [u.tok, .lparen, .ident x, .caret, .rparen] ∧
    print (.deref (.un u (.ident x))) = [.lparen, u.tok, .ident x, .rparen, .caret] := by
  cases u <;> exact ⟨rfl, rfl⟩

/-! ### Source level (tokens with whitespace / comments between them) -/

/-- **Source level, full.** Any placement of whitespace or comments between the tokens of any
print (any redundant parentheses) of any tree parses back to the tree. (Was false before the
/repo fix `91f8795`: `x0 . try` made the parser panic; then stated as `_partial` +
`_counterexample`.) -/
theorem parse_print_source (d : Ctx → Tree → Nat) (t : Tree) (raw : List RawTok)
    (hs : strip raw = printWith d t) : parseRaw raw = .ok t := by
  simp [parseRaw, bumpSkipsTrivia, hs, parse_printWith d t]

example : parseRaw [.tok (.ident 0), .ws, .tok .dot, .ws, .tok .try_] = .ok (.try_ (.ident 0)) := rfl
example : parseRaw [.tok .lparen, .ws, .tok (.ident 0), .ws, .tok (.bop .add), .ws, .tok (.ident 1), .ws,
    .tok .rparen, .ws, .tok .dot, .ws, .tok .lparen, .ws, .tok (.ident 2), .ws, .tok .rparen] =
    .ok (.cast (.bin .add (.ident 0) (.ident 1)) (.ident 2)) := rfl
example : parseRaw [.tok (.ident 0), .tok .dot, .ws, .tok (.bop .add)] = .reject := rfl

/-! ### Non-vacuity: concrete evaluations (`x0 + x1 * -x2^[x3](7, x4).x5 || x6`, …) -/

example : print (.bin .add (.ident 0) (.bin .mul (.ident 1) (.ident 2))) =
    [.ident 0, .bop .add, .ident 1, .bop .mul, .ident 2] := rfl
example : print (.bin .mul (.bin .add (.ident 0) (.ident 1)) (.ident 2)) =
    [.lparen, .ident 0, .bop .add, .ident 1, .rparen, .bop .mul, .ident 2] := rfl
example : print (.bin .sub (.ident 0) (.bin .sub (.ident 1) (.ident 2))) =
    [.ident 0, .bop .sub, .lparen, .ident 1, .bop .sub, .ident 2, .rparen] := rfl
example : parse [.ident 0, .bop .sub, .ident 1, .bop .sub, .ident 2] =
    some (.bin .sub (.bin .sub (.ident 0) (.ident 1)) (.ident 2)) := rfl
example : parse [.ident 0, .bop .bor, .ident 1, .bop .band, .ident 2, .bop .eq, .ident 3, .bop .lor, .ident 4] =
    some (.bin .lor (.bin .eq (.bin .bor (.ident 0) (.bin .band (.ident 1) (.ident 2))) (.ident 3)) (.ident 4)) := rfl
example : parse [.ident 0, .lparen, .int 7, .comma, .ident 4, .rparen, .dot, .ident 5] =
    some (.field (.call (.ident 0) (.cons (.int 7) (.cons (.ident 4) .nil))) 5) := rfl
example : parse [.ident 0, .bop .add] = none := rfl
example : parse [.ident 0, .bang, .ident 1] = none := rfl
example : parse (printFull (.bin .mul (.bin .add (.ident 0) (.ident 1)) (.un .neg (.deref (.ident 2))))) =
    some (.bin .mul (.bin .add (.ident 0) (.ident 1)) (.un .neg (.deref (.ident 2)))) := rfl

end CapyV.C24
