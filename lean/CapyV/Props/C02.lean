import CapyV.Model.Stores
import CapyV.Proofs.Layout
/-!
# C02 — writing one value never changes any other value (store footprints)

The code generator's stores for `dst = value` stay inside the destination's own bytes
`[0, size dst)`; hence (by C17: fields and elements do not overlap) inside the field or
element being assigned, and no other live value is touched. The value semantics of the
property (aggregates are copied; a write through one copy is invisible through another) is the
reference interpreter's store model (`CapyV.C01.setVar_frame`, `listSet_frame`) and is decided
per program end to end.
-/
namespace CapyV.C02
open CapyV CapyV.Layout CapyV.Stores

theorem whole_within (n : Nat) : within 0 n (whole n) := by
  unfold whole within
  split
  · simp
  · intro s hs; simp at hs; subst hs; simp

/-- same-type stores (scalars and aggregate copies) write exactly the value's own bytes -/
theorem same_within (pw : Nat) (dst : Ty) : within 0 (size pw dst) (footprint pw dst .same) := by
  simpa [footprint] using whole_within (size pw dst)

/-- variant → enum: payload bytes and the tag byte, all inside the enum (`size = tag offset + 1`),
provided the payload is one of the enum's variants (so its size is at most the tag offset) -/
theorem variant_within (pw uid : Nat) (vs : Tys) (p : Ty) (hp : p ∈ vs.toList) :
    within 0 (size pw (.enum uid vs)) (footprint pw (.enum uid vs) (.variant p)) := by
  have hle := variantsMax_fst_bound pw vs 0 1 p hp
  have hsz : size pw (.enum uid vs) = (variantsMax pw vs 0 1).1 + 1 := by simp [size, layout]
  simp only [footprint, discriminantOffsetOf, Ty.absoluteTy, hsz]
  intro s hs
  rcases List.mem_append.mp hs with h | h
  · have := whole_within (size pw p) s h
    omega
  · simp at h; subst h; simp

/-- payload → optional (not a pointer): payload bytes and the tag byte right after them -/
theorem optional_payload_within (pw : Nat) (sub : Ty) (h : sub.isPointer = false) :
    within 0 (size pw (.optional sub)) (footprint pw (.optional sub) (.payload sub)) := by
  have hsz : size pw (.optional sub) = size pw sub + 1 := by
    simp [size, layout, Ty.isNonZero, h]
  simp only [footprint, discriminantOffsetOf, Ty.absoluteTy, Ty.isNonZero, h, hsz]
  intro s hs
  simp at hs
  rcases hs with hs | hs
  · have := whole_within (size pw sub) s hs; omega
  · subst hs; simp

/-- `nil` → optional writes only the tag byte -/
theorem optional_nil_within (pw : Nat) (sub : Ty) (h : sub.isPointer = false) :
    footprint pw (.optional sub) .nilValue = [(size pw sub, 1)] ∧
    within 0 (size pw (.optional sub)) (footprint pw (.optional sub) .nilValue) := by
  have hsz : size pw (.optional sub) = size pw sub + 1 := by
    simp [size, layout, Ty.isNonZero, h]
  refine ⟨by simp [footprint, discriminantOffsetOf, Ty.absoluteTy, Ty.isNonZero, h], ?_⟩
  simp only [footprint, discriminantOffsetOf, Ty.absoluteTy, Ty.isNonZero, h, hsz]
  intro s hs; simp at hs; subst hs; simp

/-- payload → error union (either side): payload bytes and the tag after the larger side -/
theorem error_union_within (pw : Nat) (e p x : Ty) (hx : x = e ∨ x = p) :
    within 0 (size pw (.errorUnion e p)) (footprint pw (.errorUnion e p) (.payload x)) := by
  have hsz : size pw (.errorUnion e p) = max (size pw e) (size pw p) + 1 := by simp [size, layout]
  simp only [footprint, discriminantOffsetOf, Ty.absoluteTy, hsz]
  intro s hs
  simp at hs
  rcases hs with hs | hs
  · have := whole_within (size pw x) s hs
    rcases hx with rfl | rfl <;> omega
  · subst hs; simp

/-- a store into the field at offset `o` stays inside that field -/
theorem shift_within (o n : Nat) (fp : List Store) (h : within 0 n fp) : within o (o + n) (shift o fp) := by
  intro s hs
  simp only [shift, List.mem_map] at hs
  obtain ⟨t, ht, rfl⟩ := hs
  have := h t ht
  simp; omega

/-- **What was wrong before the `fix:` commit** (kept as documentation): the 8-byte tag store of
`E.B.(3)` into `enum { A: i32, B: u8, C }` (size 5) reached 7 bytes past the enum … -/
theorem old_enum_tag_overwide :
    let e : Ty := .enum 1 (.cons (.enumVariant 1 0 1 (.iint 32) 0) (.cons (.enumVariant 1 1 2 (.uint 8) 1)
      (.cons (.enumVariant 1 2 3 .void 2) .nil)))
    size 64 e = 5 ∧ footprintOldVariant 64 e (.uint 8) = [(0, 1), (4, 8)] ∧
      ¬ within 0 (size 64 e) (footprintOldVariant 64 e (.uint 8)) := by
  refine ⟨by decide, by decide, ?_⟩
  intro h
  have := h (4, 8) (by decide)
  simp at this
  revert this; decide

/-- … and copying `struct { a: u64, b: u8 }` (size 9, stride 16) wrote 7 bytes past the value. -/
theorem old_aggregate_copy_overwide :
    let t : Ty := .anonStruct (.cons 0 (.uint 64) (.cons 1 (.uint 8) .nil))
    size 64 t = 9 ∧ footprintOldSame 64 t = [(0, 16)] ∧ ¬ within 0 (size 64 t) (footprintOldSame 64 t) := by
  refine ⟨by decide, by decide, ?_⟩
  intro h
  have := h (0, 16) (by decide)
  revert this; decide

/-! non-vacuity -/
example : footprint 64 (.optional (.uint 16)) (.payload (.uint 16)) = [(0, 2), (2, 1)] := by decide
example : footprint 64 (.optional (.uint 16)) .nilValue = [(2, 1)] := by decide

end CapyV.C02
