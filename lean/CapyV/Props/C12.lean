import CapyV.Proofs.TyRel
/-!
# C12 — implicit conversion is consistent, order-independent and weaker than casting

Statements about the transcription `CapyV.Ty.{canFitInto, canCastTo, isWeakReplaceableBy, maxTy}`
(`Model/TyRel.lean`) of `hir::common::Ty::{can_fit_into, can_cast_to, is_weak_replaceable_by,
max}`, for ALL types (no depth bound).  `accepts found expected` is what `expect_match` accepts
for a concrete expected type (`can_fit_into`, plus zero-sized values where `type` is expected).

Two laws hold in full (`fit_refl`, `fit_imp_cast`).  Three are FALSE of the current code; each has
a `_counterexample` at a concrete witness and a `_partial` theorem under an explicit decidable
guard (`elemEquivFits`, `maxPlain`, `commOk`, all defined in `Model/TyRel.lean`).
-/
namespace CapyV.C12
open CapyV CapyV.Ty

/-- A value of type `A` is accepted where `A` is expected. -/
theorem fit_refl (a : Ty) : canFitInto a a = true := canFitInto_refl a

/-- Implicitly accepted ⇒ the explicit cast is accepted. -/
theorem fit_imp_cast (a b : Ty) (h : canFitInto a b = true) : canCastTo a b = true :=
  canFitInto_imp_canCastTo a b h

/-! ## weak ⇒ fit (the law the compiler `assert!`s in `replace_weak_tys` / `expect_match`) -/

def S1 : Ty := .concreteStruct 1 (.cons 100 (.iint 32) .nil)
def S2 : Ty := .concreteStruct 2 (.cons 100 (.iint 32) .nil)

/-- FALSE in full: `.[ s1 ]` (an anonymous array of the named struct `S1`) can be specialised to
`[1]S2` for a structurally identical `S2`, but does not fit it.  The compiler panics on
`x : [1]S2 = .[ s1 ];` (corpus/probes/C12_weak_replaceable_not_fit_panic.capy). -/
theorem weak_imp_fit_counterexample :
    ¬ (∀ a b : Ty, isWeakReplaceableBy a b = true → canFitInto a b = true) := by
  intro h
  have hw : isWeakReplaceableBy (.anonArray 1 S1) (.concreteArray 1 S2) = true := by
    simp [isWeakReplaceableBy, isFuncEquiv, membersFuncEquiv, S1, S2, Members.length]
  have hf : canFitInto (.anonArray 1 S1) (.concreteArray 1 S2) = false := by
    simp [canFitInto, S1, S2]
  rw [h _ _ hw] at hf
  cases hf

/-- The law holds whenever every anonymous-array element that `is_weak_replaceable_by` accepts
through `is_functionally_equivalent_to` also fits (`elemEquivFits`). -/
theorem weak_imp_fit_partial (a b : Ty) (hg : elemEquivFits a b = true)
    (h : isWeakReplaceableBy a b = true) : canFitInto a b = true :=
  weak_fit_aux _ a b (Nat.le_refl _) hg h

/-! ## the common type accepts both operands -/

def Df32 : Ty := .distinct 13 (.float 32)

/-- FALSE in full: `max(f64, distinct f32) = distinct f32`, which does not accept an `f64`
(the distinct arms of `max` test `has_semantics_of` from the distinct type to the other
operand, i.e. in the wrong direction).  `if c { f64 } else { d }` type-checks with type `D`. -/
theorem max_accepts_both_counterexample :
    ¬ (∀ (tbl : Nat → Option Ty) (a b m : Ty), TableOk tbl → maxTy tbl a b = .ok (some m) →
        accepts a m = true ∧ accepts b m = true) := by
  intro h
  have hm : maxTy (fun _ => none) (.float 64) Df32 = .ok (some Df32) := by
    simp [maxTy, Df32, hasSemanticsOf, canFitInto]
  have ha : accepts (.float 64) Df32 = false := by
    simp [accepts, Df32, canFitInto, isFuncEquiv]
  have := (h (fun _ => none) _ _ _ (by intro u e he; cases he) hm).1
  rw [ha] at this
  cases this

/-- With no `distinct` operand along the recursion of `max`, and no `type` answer below a
constructor (`maxPlain true`), the common type accepts both operands. -/
theorem max_accepts_both_partial (tbl : Nat → Option Ty) (htbl : TableOk tbl) (a b m : Ty)
    (hg : maxPlain true a b = true) (h : maxTy tbl a b = .ok (some m)) :
    accepts a m = true ∧ accepts b m = true := by
  have := max_accepts_aux tbl htbl _ true a b m (Nat.le_refl _) hg h
  simpa [acceptsIn, accepts] using this

/-- below a type constructor even plain `can_fit_into` holds -/
theorem max_fits_both_nested (tbl : Nat → Option Ty) (htbl : TableOk tbl) (a b m : Ty)
    (hg : maxPlain false a b = true) (h : maxTy tbl a b = .ok (some m)) :
    canFitInto a m = true ∧ canFitInto b m = true := by
  have := max_accepts_aux tbl htbl _ false a b m (Nat.le_refl _) hg h
  simpa [acceptsIn] using this

/-! ## the common type does not depend on the order -/

/-- FALSE in full (outside the property's stated quantifier: two internal marker types):
`max(Unknown, AlwaysJumps) = AlwaysJumps` but `max(AlwaysJumps, Unknown) = Unknown`. -/
theorem max_comm_counterexample :
    ¬ (∀ (tbl : Nat → Option Ty) (a b : Ty), maxTy tbl a b = maxTy tbl b a) := by
  intro h
  have := h (fun _ => none) .unknown .alwaysJumps
  simp [maxTy, maxFrom20, maxFrom21, maxFrom22, Ty.isZeroSized] at this

/-- `max` is symmetric — including its panics — for all operands that are not two different
marker types and not two different `distinct` types sharing a uid, along the recursion
(`commOk`; every pair of types of the property's quantifier with coherent uids satisfies it). -/
theorem max_comm_partial (tbl : Nat → Option Ty) (a b : Ty) (hg : commOk a b = true) :
    maxTy tbl a b = maxTy tbl b a :=
  max_comm_aux tbl _ a b (Nat.le_refl _) hg

/-! ## non-vacuity -/

example : isWeakReplaceableBy (.anonArray 2 (.uint 0)) (.optional (.concreteArray 2 (.iint 32))) = true := by
  simp [isWeakReplaceableBy]
example : elemEquivFits (.anonArray 2 (.uint 0)) (.optional (.concreteArray 2 (.iint 32))) = true := by
  simp [elemEquivFits, isFuncEquiv]
example : maxPlain true (.optional (.uint 8)) (.optional (.iint 32)) = true := by
  simp [maxPlain, isDistinct, yieldsTypeArm]
example : maxTy (fun _ => none) (.optional (.uint 8)) (.optional (.iint 32)) = .ok (some (.optional (.iint 32))) := by
  simp [maxTy]
example : commOk (.optional (.uint 8)) (.errorUnion .string (.iint 32)) = true := by
  simp [commOk, isMarker]
example : TableOk (fun u => if u = 7 then some (.enum 7 .nil) else none) := by
  intro u e h
  by_cases hu : u = 7
  · subst hu; simp at h; exact ⟨.nil, h.symm⟩
  · simp [hu] at h

end CapyV.C12
