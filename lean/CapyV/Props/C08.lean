import CapyV.Proofs.Num
/-!
# C08 — integer operations and casts have exact two's-complement semantics

`numBinary` / `numUnary` / `castNum` (`CapyV.Model.Num`) transcribe `compile_num_binary`,
`Expr::Unary` and `cast_num` of the code generator, over Cranelift integer instructions
modelled as `BitVec w` functions. All statements are generic in the width `w`
(so they cover 8, 16, 32, 64, 128 and the pointer-sized types alike) and in the signedness.

Reading conventions:
* `valOf s v` — the integer the pattern `v` denotes when read as signed (`s = true`,
  two's complement) or unsigned;
* `wrap w s z` — the representative of `z` modulo `2^w` in the range of the type;
* `fits w s z` — `z` lies in the range of the type;
* `FVal` — a float abstracted to the integer it truncates to (or NaN/±∞); `fcvt_from_*`
  is "the float nearest to the integer value of the operand it is GIVEN", `fcvt_to_*_sat` is
  a clamp. Rounding to the nearest float is the CPU's; it is checked end to end.

`ty.float = false` restricts a statement to the integer-like types (`iN`, `uN`, `isize`,
`usize`, `bool`, `char`). Division/remainder exclude a zero divisor and `MIN / -1`; shifts
require an amount below the width — exactly the exclusions of the property.
-/
namespace CapyV.C08
open CapyV CapyV.Num

/-! ## `+ - *` and unary `-` wrap modulo `2^w` -/

/-- `a + b` is the `w`-bit pattern of the exact sum: its value is the sum wrapped into the
type's range. -/
theorem add_wraps (ty : NumTy) (hf : ty.float = false) (a b : BitVec w) :
    ∃ r, numBinary .add ty a b = .val r ∧
      valOf ty.signed r = wrap w ty.signed (valOf ty.signed a + valOf ty.signed b) := by
  refine ⟨iadd a b, by simp [numBinary, hf], ?_⟩
  rw [iadd_eq ty.signed, valOf_ofInt]

theorem sub_wraps (ty : NumTy) (hf : ty.float = false) (a b : BitVec w) :
    ∃ r, numBinary .sub ty a b = .val r ∧
      valOf ty.signed r = wrap w ty.signed (valOf ty.signed a - valOf ty.signed b) := by
  refine ⟨isub a b, by simp [numBinary, hf], ?_⟩
  rw [isub_eq ty.signed, valOf_ofInt]

theorem mul_wraps (ty : NumTy) (hf : ty.float = false) (a b : BitVec w) :
    ∃ r, numBinary .mul ty a b = .val r ∧
      valOf ty.signed r = wrap w ty.signed (valOf ty.signed a * valOf ty.signed b) := by
  refine ⟨imul a b, by simp [numBinary, hf], ?_⟩
  rw [imul_eq ty.signed, valOf_ofInt]

theorem neg_wraps (ty : NumTy) (hf : ty.float = false) (a : BitVec w) :
    ∃ r, numUnary .neg ty a = .val r ∧
      valOf ty.signed r = wrap w ty.signed (-valOf ty.signed a) := by
  refine ⟨ineg a, by simp [numUnary, hf], ?_⟩
  rw [ineg_eq ty.signed, valOf_ofInt]

/-- When the exact result is a value of the type, it is the result (no wrap happens). -/
theorem add_exact_when_fits (ty : NumTy) (hf : ty.float = false) (hw : 0 < w) (a b : BitVec w)
    (h : fits w ty.signed (valOf ty.signed a + valOf ty.signed b)) :
    ∃ r, numBinary .add ty a b = .val r ∧
      valOf ty.signed r = valOf ty.signed a + valOf ty.signed b := by
  obtain ⟨r, h1, h2⟩ := add_wraps ty hf a b
  exact ⟨r, h1, by rw [h2, wrap_of_fits hw _ h]⟩

/-! ## `/` and `%` truncate toward zero -/

/-- For a non-zero divisor and no signed overflow (`MIN / -1`), `a / b` is the quotient of the
operands' values truncated toward zero — signed or unsigned values according to the type. -/
theorem div_trunc (ty : NumTy) (hf : ty.float = false) (a b : BitVec w) (hb : b ≠ 0#w)
    (ho : ¬(ty.signed = true ∧ a = BitVec.intMin w ∧ b = BitVec.allOnes w)) :
    ∃ r, numBinary .div ty a b = .val r ∧
      valOf ty.signed r = (valOf ty.signed a).tdiv (valOf ty.signed b) := by
  cases hs : ty.signed
  · obtain ⟨r, h1, h2⟩ := udiv_trunc a b hb
    exact ⟨r, by simp [numBinary, hf, hs, h1], by simpa [valOf] using h2⟩
  · obtain ⟨r, h1, h2⟩ := sdiv_trunc a b hb (fun h => ho ⟨hs, h⟩)
    exact ⟨r, by simp [numBinary, hf, hs, h1], by simpa [valOf] using h2⟩

/-- `a % b` is the remainder of truncating division (sign of the dividend). -/
theorem rem_trunc (ty : NumTy) (hf : ty.float = false) (a b : BitVec w) (hb : b ≠ 0#w) :
    ∃ r, numBinary .mod ty a b = .val r ∧
      valOf ty.signed r = (valOf ty.signed a).tmod (valOf ty.signed b) := by
  cases hs : ty.signed
  · obtain ⟨r, h1, h2⟩ := urem_trunc a b hb
    exact ⟨r, by simp [numBinary, hf, hs, h1], by simpa [valOf] using h2⟩
  · obtain ⟨r, h1, h2⟩ := srem_trunc a b hb
    exact ⟨r, by simp [numBinary, hf, hs, h1], by simpa [valOf] using h2⟩

/-- What the excluded cases do: the generated `div`/`idiv` faults. -/
theorem div_by_zero_traps (ty : NumTy) (hf : ty.float = false) (a : BitVec w) :
    numBinary .div ty a 0#w = .trap ∧ numBinary .mod ty a 0#w = .trap := by
  cases hs : ty.signed <;> simp [numBinary, hf, hs, sdiv, udiv, srem, urem]

/-! ## `&`, `|`, `~` act bitwise -/

/-- Bit `i` of `a & b`, `a | b`, `a ~ b` (xor) and `~a` is the corresponding Boolean function of
bit `i` of the operands. -/
theorem bitwise_exact (ty : NumTy) (hf : ty.float = false) (a b : BitVec w) :
    (∃ r, numBinary .band ty a b = .val r ∧ ∀ i, r.getLsbD i = (a.getLsbD i && b.getLsbD i)) ∧
    (∃ r, numBinary .bor ty a b = .val r ∧ ∀ i, r.getLsbD i = (a.getLsbD i || b.getLsbD i)) ∧
    (∃ r, numBinary .xor ty a b = .val r ∧ ∀ i, r.getLsbD i = (a.getLsbD i ^^ b.getLsbD i)) ∧
    (∃ r, numUnary .bnot ty a = .val r ∧ ∀ i, i < w → r.getLsbD i = !a.getLsbD i) := by
  refine ⟨⟨band a b, by simp [numBinary, hf], ?_⟩, ⟨bor a b, by simp [numBinary, hf], ?_⟩,
    ⟨bxor a b, by simp [numBinary, hf], ?_⟩, ⟨bnot a, by simp [numUnary, hf], ?_⟩⟩
  · intro i; simp [band]
  · intro i; simp [bor]
  · intro i; simp [bxor]
  · intro i hi; simp [bnot, hi]

/-! ## `>>`, `<<` and the comparisons follow the operand type's signedness -/

/-- For an amount below the width, `a >> b` is the floor of the operand's value divided by
`2^b`: arithmetic shift for signed types (the sign is kept), logical shift for unsigned ones. -/
theorem shr_by_signedness (ty : NumTy) (hf : ty.float = false) (a b : BitVec w)
    (hb : b.toNat < w) :
    ∃ r, numBinary .shr ty a b = .val r ∧
      valOf ty.signed r = valOf ty.signed a / 2 ^ b.toNat := by
  cases hs : ty.signed
  · exact ⟨ushr a b, by simp [numBinary, hf, hs], by simpa [valOf] using ushr_floor a b hb⟩
  · exact ⟨sshr a b, by simp [numBinary, hf, hs], by simpa [valOf] using sshr_floor a b hb⟩

/-- `a << b` multiplies by `2^b` and wraps. -/
theorem shl_wraps (ty : NumTy) (hf : ty.float = false) (a b : BitVec w) (hb : b.toNat < w) :
    ∃ r, numBinary .shl ty a b = .val r ∧
      valOf ty.signed r = wrap w ty.signed (valOf ty.signed a * 2 ^ b.toNat) := by
  refine ⟨ishl a b, by simp [numBinary, hf], ?_⟩
  rw [ishl_eq ty.signed a b hb, valOf_ofInt]

/-- Every comparison is the comparison of the operands' values, read with the type's
signedness. -/
theorem cmp_by_signedness (ty : NumTy) (hf : ty.float = false) (a b : BitVec w) :
    numBinary .lt ty a b = .flag (decide (valOf ty.signed a < valOf ty.signed b)) ∧
    numBinary .le ty a b = .flag (decide (valOf ty.signed a ≤ valOf ty.signed b)) ∧
    numBinary .gt ty a b = .flag (decide (valOf ty.signed a > valOf ty.signed b)) ∧
    numBinary .ge ty a b = .flag (decide (valOf ty.signed a ≥ valOf ty.signed b)) ∧
    numBinary .eq ty a b = .flag (decide (valOf ty.signed a = valOf ty.signed b)) ∧
    numBinary .ne ty a b = .flag (decide (valOf ty.signed a ≠ valOf ty.signed b)) := by
  have he := icmp_eq ty.signed a b
  have hn := icmp_ne ty.signed a b
  cases hs : ty.signed
  · rw [hs] at he hn
    simp only [numBinary, hf, hs, valOf, icmp_ult, icmp_ule, icmp_ugt, icmp_uge, he, hn,
      Bool.false_eq_true, ↓reduceIte, GT.gt, GE.ge, and_self]
  · rw [hs] at he hn
    simp only [numBinary, hf, hs, valOf, icmp_slt, icmp_sle, icmp_sgt, icmp_sge, he, hn,
      Bool.false_eq_true, ↓reduceIte, GT.gt, GE.ge, and_self]

/-- `!b` on an integer-like operand tests for zero. -/
theorem lnot_is_zero_test (ty : NumTy) (hf : ty.float = false) (a : BitVec w) :
    numUnary .lnot ty a = .flag (decide (valOf ty.signed a = 0)) := by
  have := icmp_eq ty.signed a 0#w
  have hz : valOf ty.signed (0#w) = 0 := by unfold valOf; cases ty.signed <;> simp
  rw [hz] at this
  simp [numUnary, hf, this]

/-! ## integer → integer casts -/

/-- HEADLINE (casts). An explicit or implicit cast between integer-like types yields the
target-width pattern of the SOURCE's value (read with the source's signedness): the value
wrapped into the target's range. -/
theorem cast_int_int (cf ct : NumTy) (hf : cf.float = false) (ht : ct.float = false)
    (v : BitVec cf.bits) :
    ∃ r, castNum cf ct (.i cf.bits v) = .ok r ∧ r.width = ct.bits ∧
      r.int ct.signed = some (wrap ct.bits ct.signed (valOf cf.signed v)) := by
  obtain ⟨fb, ff, fs⟩ := cf
  obtain ⟨tb, tf, ts⟩ := ct
  simp only at hf ht v ⊢
  subst hf ht
  by_cases heq : fb = tb
  · subst heq
    refine ⟨.i fb v, by simp [castNum], rfl, ?_⟩
    simp only [Val.int]
    rw [← valOf_ofInt ts (valOf fs v), ofInt_valOf]
  · by_cases hlt : fb < tb
    · cases fs
      · refine ⟨.i tb (uextend tb v), by simp [castNum, heq, hlt], rfl, ?_⟩
        simp only [Val.int, uextend]
        rw [setWidth_eq_ofInt_toNat, valOf_ofInt]; simp [valOf]
      · refine ⟨.i tb (sextend tb v), by simp [castNum, heq, hlt], rfl, ?_⟩
        simp only [Val.int, sextend]
        rw [signExtend_eq_ofInt_toInt (by omega), valOf_ofInt]; simp [valOf]
    · refine ⟨.i tb (ireduce tb v), by simp [castNum, heq, hlt], rfl, ?_⟩
      simp only [Val.int, ireduce]
      rw [setWidth_eq_ofInt_valOf fs (by omega), valOf_ofInt]

/-- … in particular the value is preserved whenever it is a value of the target type. -/
theorem cast_int_int_preserves (cf ct : NumTy) (hf : cf.float = false) (ht : ct.float = false)
    (hb : 0 < ct.bits) (v : BitVec cf.bits) (hfit : fits ct.bits ct.signed (valOf cf.signed v)) :
    ∃ r, castNum cf ct (.i cf.bits v) = .ok r ∧ r.width = ct.bits ∧
      r.int ct.signed = some (valOf cf.signed v) := by
  obtain ⟨r, h1, h2, h3⟩ := cast_int_int cf ct hf ht v
  exact ⟨r, h1, h2, by rw [h3, wrap_of_fits hb _ hfit]⟩

/-- In the property's words: a widening cast sign-extends a signed source and zero-extends an
unsigned one, whatever the target's signedness; a narrowing cast truncates. -/
theorem cast_extends_by_source (cf ct : NumTy) (hf : cf.float = false) (ht : ct.float = false)
    (v : BitVec cf.bits) :
    (cf.bits < ct.bits → castNum cf ct (.i cf.bits v) =
      .ok (.i ct.bits (if cf.signed then v.signExtend ct.bits else v.zeroExtend ct.bits))) ∧
    (ct.bits < cf.bits → castNum cf ct (.i cf.bits v) = .ok (.i ct.bits (v.truncate ct.bits))) := by
  constructor
  · intro h
    have : cf.bits ≠ ct.bits := by omega
    cases hs : cf.signed <;>
      simp [castNum, hf, ht, this, h, hs, sextend, uextend, BitVec.zeroExtend]
  · intro h
    have h1 : cf.bits ≠ ct.bits := by omega
    have h2 : ¬ cf.bits < ct.bits := by omega
    simp [castNum, hf, ht, h1, h2, ireduce, BitVec.truncate]

/-- The pinned code extended by `from.signed && to.signed`: `u32.(i8 -1)` was 255. -/
theorem pinned_cast_int_int_counterexample :
    castNumPinned ⟨8, false, true⟩ ⟨32, false, false⟩ (.i 8 (-1)) = .ok (.i 32 255) ∧
    castNum ⟨8, false, true⟩ ⟨32, false, false⟩ (.i 8 (-1)) = .ok (.i 32 4294967295) := by
  decide

/-! ## integer → float casts -/

/-- For every integer type of at most 64 bits the conversion instruction receives the
source's full value (so the float is the one nearest to it). -/
theorem cast_int_float_value_partial (cf ct : NumTy) (hf : cf.float = false)
    (ht : ct.float = true) (h64 : cf.bits ≤ 64) (v : BitVec cf.bits) :
    castNum cf ct (.i cf.bits v) = .ok (.f (.fin (valOf cf.signed v))) := by
  obtain ⟨fb, ff, fs⟩ := cf
  obtain ⟨tb, tf, ts⟩ := ct
  simp only at hf ht v h64 ⊢
  subst hf ht
  have hcw : fb ≤ convWidth fb := by unfold convWidth; split <;> omega
  by_cases hlt : fb < convWidth fb
  · cases fs
    · simp [castNum, hlt, fcvtFromUint, uextend, valOf,
        BitVec.toNat_setWidth_of_le (Nat.le_of_lt hlt)]
    · simp [castNum, hlt, fcvtFromSint, sextend, valOf,
        BitVec.toInt_signExtend_of_le (Nat.le_of_lt hlt)]
  · have heq : fb = convWidth fb := by omega
    cases fs
    · simp [castNum, ← heq, fcvtFromUint, valOf]
    · simp [castNum, ← heq, fcvtFromSint, valOf]
      exact (BitVec.toInt_eq_toNat_bmod v).symm

/-- `i128`/`u128` are reduced to 64 bits before the conversion (Cranelift has no 128-bit
`fcvt_from_*` on x86-64): `f64.(i128 2^100)` receives 0. -/
theorem cast_int_float_value_counterexample :
    castNum ⟨128, false, true⟩ ⟨64, true, true⟩ (.i 128 (BitVec.ofNat 128 (2 ^ 100)))
      = .ok (.f (.fin 0)) ∧
    valOf true (BitVec.ofNat 128 (2 ^ 100)) = 2 ^ 100 := by
  decide

/-- The pinned code reduced the source to the *target's* width first: `f32.(i64 2^40)`
received 0. -/
theorem pinned_cast_int_float_counterexample :
    castNumPinned ⟨64, false, true⟩ ⟨32, true, true⟩ (.i 64 (BitVec.ofNat 64 (2 ^ 40)))
      = .ok (.f (.fin 0)) ∧
    castNum ⟨64, false, true⟩ ⟨32, true, true⟩ (.i 64 (BitVec.ofNat 64 (2 ^ 40)))
      = .ok (.f (.fin (2 ^ 40))) := by
  decide

/-! ## float → integer casts -/

/-- A finite float whose truncation `z` is a value of the target type converts to `z` — for
every target of at most 64 bits, and for 128-bit targets as long as `z` also fits 64 bits. -/
theorem cast_float_int_partial (cf ct : NumTy) (hf : cf.float = true) (ht : ct.float = false)
    (hb : 0 < ct.bits) (z : Int) (hfit : fits ct.bits ct.signed z)
    (h64 : ct.bits ≤ 64 ∨ fits 64 ct.signed z) :
    ∃ r, castNum cf ct (.f (.fin z)) = .ok r ∧ r.width = ct.bits ∧
      r.int ct.signed = some z := by
  obtain ⟨fb, ff, fs⟩ := cf
  obtain ⟨tb, tf, ts⟩ := ct
  simp only at hf ht hb hfit h64 ⊢
  subst hf ht
  have hcpos : 0 < convWidth tb := by unfold convWidth; split <;> omega
  -- the value fits the intermediate width
  have hfitc : fits (convWidth tb) ts z := by
    by_cases hle : tb ≤ convWidth tb
    · exact fits_mono hb hle ts hfit
    · have h64' : convWidth tb = 64 := by
        unfold convWidth; split
        · unfold convWidth at hle; split at hle <;> omega
        · rfl
      rcases h64 with h | h
      · omega
      · rw [h64']; exact h
  -- so the saturating conversion is exact
  have hfirst : (if ts = true then fcvtToSintSat (convWidth tb) (.fin z)
      else fcvtToUintSat (convWidth tb) (.fin z)) = BitVec.ofInt (convWidth tb) z := by
    unfold fits at hfitc
    cases ts
    · simp only [Bool.false_eq_true, ↓reduceIte, fcvtToUintSat] at hfitc ⊢
      rw [clamp_of_mem hfitc.1 hfitc.2]
    · simp only [↓reduceIte, fcvtToSintSat] at hfitc ⊢
      rw [clamp_of_mem hfitc.1 hfitc.2]
  by_cases hlt : convWidth tb < tb
  · cases ts
    · simp only [Bool.false_eq_true, ↓reduceIte] at hfirst
      refine ⟨.i tb (uextend tb (BitVec.ofInt (convWidth tb) z)), ?_, rfl, ?_⟩
      · simp [castNum, hlt, hfirst]
      · simp only [Val.int, uextend, valOf, Bool.false_eq_true, ↓reduceIte]
        rw [BitVec.toNat_setWidth_of_le (Nat.le_of_lt hlt)]
        have := valOf_ofInt (w := convWidth tb) false z
        simp only [valOf, Bool.false_eq_true, ↓reduceIte] at this
        rw [this, wrap_of_fits hcpos false hfitc]
    · simp only [↓reduceIte] at hfirst
      refine ⟨.i tb (sextend tb (BitVec.ofInt (convWidth tb) z)), ?_, rfl, ?_⟩
      · simp [castNum, hlt, hfirst]
      · simp only [Val.int, sextend, valOf, ↓reduceIte]
        rw [BitVec.toInt_signExtend_of_le (Nat.le_of_lt hlt)]
        have := valOf_ofInt (w := convWidth tb) true z
        simp only [valOf, ↓reduceIte] at this
        rw [this, wrap_of_fits hcpos true hfitc]
  · by_cases heq : convWidth tb = tb
    · refine ⟨.i (convWidth tb) (BitVec.ofInt (convWidth tb) z), ?_, heq, ?_⟩
      · simp only [castNum, Bool.true_eq_false, and_false, ↓reduceIte, heq] at hfirst ⊢
        simp [hfirst]
      · simp only [Val.int]
        rw [valOf_ofInt, wrap_of_fits hcpos ts hfitc]
    · refine ⟨.i tb (ireduce tb (BitVec.ofInt (convWidth tb) z)), ?_, rfl, ?_⟩
      · simp only [castNum, Bool.true_eq_false, and_false, ↓reduceIte, hlt, heq] at hfirst ⊢
        simp [hfirst]
      · simp only [Val.int, ireduce]
        rw [setWidth_ofInt_of_le (by omega), valOf_ofInt, wrap_of_fits hb ts hfit]

/-- 128-bit targets go through a 64-bit saturating conversion (no 128-bit `fcvt_to_*` on
x86-64): `u128.(f64 2^64)` is `2^64 - 1` although `2^64` fits `u128`. -/
theorem cast_float_int_counterexample :
    castNum ⟨64, true, true⟩ ⟨128, false, false⟩ (.f (.fin (2 ^ 64)))
      = .ok (.i 128 (BitVec.ofNat 128 (2 ^ 64 - 1))) ∧
    fits 128 false (2 ^ 64) := by
  decide

/-- The pinned code converted at the *source's* width: `i64.(f32 3e9)` saturated at
`i32::MAX`. -/
theorem pinned_cast_float_int_counterexample :
    castNumPinned ⟨32, true, true⟩ ⟨64, false, true⟩ (.f (.fin 3000000000))
      = .ok (.i 64 2147483647) ∧
    castNum ⟨32, true, true⟩ ⟨64, false, true⟩ (.f (.fin 3000000000))
      = .ok (.i 64 3000000000) := by
  decide

/-- NaN converts to 0 and ±∞ saturate (nothing is claimed by the property here). -/
theorem cast_float_int_nan (cf ct : NumTy) (hf : cf.float = true) (ht : ct.float = false) :
    ∃ r, castNum cf ct (.f .nan) = .ok r ∧ r.width = ct.bits ∧ r.int ct.signed = some 0 := by
  obtain ⟨fb, ff, fs⟩ := cf
  obtain ⟨tb, tf, ts⟩ := ct
  simp only at hf ht ⊢
  subst hf ht
  have hz : ∀ n s, valOf s (0#n) = 0 := by intro n s; unfold valOf; cases s <;> simp
  have hfirst : (if ts = true then fcvtToSintSat (convWidth tb) .nan
      else fcvtToUintSat (convWidth tb) .nan) = 0#(convWidth tb) := by
    cases ts <;> simp [fcvtToSintSat, fcvtToUintSat]
  by_cases hlt : convWidth tb < tb
  · cases ts
    · simp [castNum, hlt, fcvtToUintSat, Val.width, Val.int, uextend, hz]
    · simp [castNum, hlt, fcvtToSintSat, Val.width, Val.int, sextend, valOf,
        BitVec.toInt_signExtend_of_le (Nat.le_of_lt hlt)]
  · by_cases heq : convWidth tb = tb
    · cases ts <;>
        simp [castNum, heq, fcvtToSintSat, fcvtToUintSat, Val.width, Val.int, hz]
    · cases ts <;>
        simp [castNum, hlt, heq, fcvtToSintSat, fcvtToUintSat, Val.width, Val.int, ireduce, hz]

/-! ## float → float -/

/-- `fpromote` is exact (the denoted value is unchanged); `fdemote` rounds and is not modelled. -/
theorem cast_float_float_promote (cf ct : NumTy) (hf : cf.float = true) (ht : ct.float = true)
    (h : cf.bits ≤ ct.bits) (x : FVal) : castNum cf ct (.f x) = .ok (.f x) := by
  by_cases heq : cf.bits = ct.bits
  · simp [castNum, hf, ht, heq]
  · have : cf.bits < ct.bits := by omega
    simp [castNum, hf, ht, heq, this]

/-! ## the types (`calc_single` / `finalize_int`) -/

/-- Signedness and width of every numeric type as the code generator sees them: `iN` signed,
`uN` unsigned, `isize`/`usize` pointer-sized, `{uint}` is a signed `i32`, `bool`/`char` are
unsigned bytes. -/
theorem final_ty_table (p : Nat) :
    finalTy p (.iint 8) = some (.number ⟨8, false, true⟩) ∧
    finalTy p (.iint 16) = some (.number ⟨16, false, true⟩) ∧
    finalTy p (.iint 32) = some (.number ⟨32, false, true⟩) ∧
    finalTy p (.iint 64) = some (.number ⟨64, false, true⟩) ∧
    finalTy p (.iint 128) = some (.number ⟨128, false, true⟩) ∧
    finalTy p (.iint 255) = some (.number ⟨p, false, true⟩) ∧
    finalTy p (.uint 8) = some (.number ⟨8, false, false⟩) ∧
    finalTy p (.uint 16) = some (.number ⟨16, false, false⟩) ∧
    finalTy p (.uint 32) = some (.number ⟨32, false, false⟩) ∧
    finalTy p (.uint 64) = some (.number ⟨64, false, false⟩) ∧
    finalTy p (.uint 128) = some (.number ⟨128, false, false⟩) ∧
    finalTy p (.uint 255) = some (.number ⟨p, false, false⟩) ∧
    finalTy p (.iint 0) = some (.number ⟨32, false, true⟩) ∧
    finalTy p (.uint 0) = some (.number ⟨32, false, true⟩) ∧
    finalTy p .bool = some (.number ⟨8, false, false⟩) ∧
    finalTy p .char = some (.number ⟨8, false, false⟩) ∧
    finalTy p (.float 32) = some (.number ⟨32, true, true⟩) ∧
    finalTy p (.float 64) = some (.number ⟨64, true, true⟩) := by
  simp [finalTy, finalizeInt]

/-! ## non-vacuity: the hypotheses are satisfiable and the statements bite -/

/-- `i8`: 100 + 100 wraps to -56; `u8`: 200 + 100 wraps to 44. -/
example : numBinary .add ⟨8, false, true⟩ (100 : BitVec 8) 100 = .val (BitVec.ofInt 8 (-56)) := by
  decide
example : numBinary .add ⟨8, false, false⟩ (200 : BitVec 8) 100 = .val 44 := by decide
/-- `-7 / 2 = -3`, `-7 % 2 = -1` (truncation toward zero, not floor) -/
example : numBinary .div ⟨8, false, true⟩ (BitVec.ofInt 8 (-7)) 2 = .val (BitVec.ofInt 8 (-3)) := by
  decide
example : numBinary .mod ⟨8, false, true⟩ (BitVec.ofInt 8 (-7)) 2 = .val (BitVec.ofInt 8 (-1)) := by
  decide
/-- the same bits shift and compare differently as `i8` and `u8` -/
example : numBinary .shr ⟨8, false, true⟩ (0x80 : BitVec 8) 1 = .val 0xC0 ∧
    numBinary .shr ⟨8, false, false⟩ (0x80 : BitVec 8) 1 = .val 0x40 := by decide
example : numBinary .lt ⟨8, false, true⟩ (0x80 : BitVec 8) 1 = .flag true ∧
    numBinary .lt ⟨8, false, false⟩ (0x80 : BitVec 8) 1 = .flag false := by decide
/-- the overflow exclusion of `div_trunc` is needed: `MIN / -1` faults -/
example : numBinary .div ⟨8, false, true⟩ (BitVec.intMin 8) (BitVec.allOnes 8) = .trap := by decide
/-- casts: `i8 -1 → u32`, `u8 255 → i32`, `i32 -2 → u8`, `f64 -3.x → i8`, `f32 300.x → u8` -/
example : castNum ⟨8, false, true⟩ ⟨32, false, false⟩ (.i 8 (-1)) = .ok (.i 32 0xFFFFFFFF) := by
  decide
example : castNum ⟨8, false, false⟩ ⟨32, false, true⟩ (.i 8 255) = .ok (.i 32 255) := by decide
example : castNum ⟨32, false, true⟩ ⟨8, false, false⟩ (.i 32 (-2)) = .ok (.i 8 254) := by decide
example : castNum ⟨64, true, true⟩ ⟨8, false, true⟩ (.f (.fin (-3))) = .ok (.i 8 (-3)) := by decide
example : castNum ⟨32, true, true⟩ ⟨8, false, false⟩ (.f (.fin 300)) = .ok (.i 8 44) := by decide
example : fits 8 true (-128) ∧ ¬ fits 8 true 128 ∧ fits 8 false 255 ∧ ¬ fits 8 false (-1) := by
  decide

end CapyV.C08
