import CapyV.Proofs.LineIndex
/-!
# C25 — reported line and column are exactly right

Only property theorems and non-vacuity examples live here.
-/
namespace CapyV.C25
open CapyV.LineIndex

/-- **C25, full statement.** For every text `t` and every byte offset `off` in it,
`line_col` does not panic and returns `(line, col)` where, splitting the text before the
offset as `pre ++ line` at its last newline (`line` newline-free; `pre` empty or ending
with a newline), `line` is the number of newlines before the offset and `col` is the
offset minus the start of that line (`= line.length`). -/
theorem lineCol_exact (t : List Nat) (off : Nat) (h : off ≤ t.length) :
    ∃ pre line, SplitsAtLastLine (t.take off) pre line ∧
      lineCol t off = some ((t.take off).count NL, off - pre.length) ∧
      off - pre.length = line.length := by
  obtain ⟨pre, line, hsp, hidx⟩ := start_from 0 t off h
  refine ⟨pre, line, hsp, ?_, ?_⟩
  · have hpp : partitionPoint (lineStarts t) off = (t.take off).count NL + 1 := by
      unfold partitionPoint lineStarts
      have := pp_from 0 t off
      simp only [Nat.zero_add] at this
      simp [List.takeWhile, this]
    have hlen : (t.take off).length = off := by simp [h]
    have hle : pre.length ≤ off := by
      have := congrArg List.length hsp.1
      simp [hlen] at this; omega
    simp only [Nat.zero_add] at hidx
    have hidx' : (lineStarts t)[(t.take off).count NL]? = some pre.length := hidx
    unfold lineCol
    simp only [hpp, Nat.add_sub_cancel, hidx']
    simp [hle]
  · have hlen : (t.take off).length = off := by simp [h]
    have := congrArg List.length hsp.1
    simp [hlen] at this; omega

/-- The line component alone: number of newlines strictly before the offset. -/
theorem lineCol_line (t : List Nat) (off : Nat) (h : off ≤ t.length) :
    (lineCol t off).map (·.1) = some ((t.take off).count NL) := by
  obtain ⟨_, _, _, hlc, _⟩ := lineCol_exact t off h
  simp [hlc]

/-- `line_col` never panics for an offset inside the text (no `- 1` underflow, no
out-of-bounds table access, no `TextSize` subtraction underflow). -/
theorem lineCol_total (t : List Nat) (off : Nat) (h : off ≤ t.length) :
    (lineCol t off).isSome := by
  obtain ⟨_, _, _, hlc, _⟩ := lineCol_exact t off h
  simp [hlc]

/-- The precondition of `slice::partition_point` holds: the table is strictly
increasing. -/
theorem lineStarts_strictMono (t : List Nat) : (lineStarts t).Pairwise (· < ·) :=
  lineStarts_sorted t

/-- Every rendered diagnostic names the 1-based version of the position where its range
starts. -/
theorem header_one_based (t : List Nat) (start : Nat) (h : start ≤ t.length) :
    ∃ pre line, SplitsAtLastLine (t.take start) pre line ∧
      header t start = some ((t.take start).count NL + 1, line.length + 1) := by
  obtain ⟨pre, line, hsp, hlc, hcol⟩ := lineCol_exact t start h
  exact ⟨pre, line, hsp, by simp [header, hlc, hcol]⟩

/-- The split used in the statements is unique, so "start of the line" is well defined. -/
theorem split_unique (l pre₁ line₁ pre₂ line₂ : List Nat)
    (h₁ : SplitsAtLastLine l pre₁ line₁) (h₂ : SplitsAtLastLine l pre₂ line₂) :
    pre₁.length = pre₂.length := by
  -- the line is the longest newline-free suffix; compare lengths
  obtain ⟨e₁, n₁, p₁⟩ := h₁
  obtain ⟨e₂, n₂, p₂⟩ := h₂
  have key : ∀ (pa la pb lb : List Nat), l = pa ++ la → l = pb ++ lb → NL ∉ la →
      (pb = [] ∨ pb.getLast? = some NL) → pa.length ≤ pb.length → pa.length = pb.length := by
    intro pa la pb lb ea eb na pb' hle
    rcases Nat.lt_or_ge pa.length pb.length with hlt | hge
    · exfalso
      -- pb's last element is a newline lying inside la
      rcases pb' with h | h
      · subst h; simp at hlt
      · have hne : pb ≠ [] := by intro h'; subst h'; simp at h
        have hl : pb.getLast hne = NL := by
          have := List.getLast?_eq_some_getLast hne
          rw [this] at h; exact Option.some.inj h
        -- index of that element in l
        have hidx : l[pb.length - 1]? = some NL := by
          rw [eb, List.getElem?_append_left (by have := List.length_pos_iff.mpr hne; omega)]
          rw [← hl, List.getLast_eq_getElem]; simp
        rw [ea, List.getElem?_append_right (by omega)] at hidx
        exact na (List.mem_of_getElem? hidx)
    · omega
  rcases Nat.le_total pre₁.length pre₂.length with h | h
  · exact key _ _ _ _ e₁ e₂ n₁ p₂ h
  · exact (key _ _ _ _ e₂ e₁ n₂ p₁ h).symm

/-! ### Non-vacuity: concrete evaluation on `"a\né\r\n"` (bytes 97 10 195 169 13 10). -/
example : lineCol [97, 10, 195, 169, 13, 10] 0 = some (0, 0) := by decide
example : lineCol [97, 10, 195, 169, 13, 10] 1 = some (0, 1) := by decide
example : lineCol [97, 10, 195, 169, 13, 10] 2 = some (1, 0) := by decide
example : lineCol [97, 10, 195, 169, 13, 10] 5 = some (1, 3) := by decide
example : lineCol [97, 10, 195, 169, 13, 10] 6 = some (2, 0) := by decide
example : header [97, 10, 195, 169, 13, 10] 4 = some (2, 3) := by decide
example : SplitsAtLastLine ([97, 10, 195, 169, 13, 10].take 5) [97, 10] [195, 169, 13] := by
  refine ⟨by decide, by decide, Or.inr (by decide)⟩

end CapyV.C25
