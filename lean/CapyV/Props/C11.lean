import CapyV.Proofs.Switch
import CapyV.Proofs.SwitchDispatch
/-!
# C11 — switches are exhaustive, non-redundant, and dispatch on the runtime variant

Model: `CapyV/Model/Switch.lean` (`checkSwitch` = `infer_expr Expr::Switch` after `FIX.patch`,
`checkSwitchPinned` = the pinned code, `assignDiscriminants` = `Expr::EnumDecl`,
`compileSwitch`/`dispatch`/`binding` = codegen's `Expr::Switch`).

Well-formedness hypotheses used below (all hold for types the front end constructs):
* `variantTys scrut.absoluteTy = some vts` — the scrutinee is an enum, optional or error union,
  possibly behind `distinct` wrappers;
* `vts.Nodup` — the variant types are pairwise different (enum variants have unique uids, `T!T`
  is rejected at the declaration, `?nil` is excluded);
* for enums every variant is a `Ty::EnumVariant`.
-/
namespace CapyV.C11
open CapyV CapyV.Switch

theorem isSumTy_of_variantTys {scrut : Ty} {vts : List Ty}
    (h : variantTys scrut.absoluteTy = some vts) : scrut.isSumTy = true := by
  unfold Ty.isSumTy
  cases hq : scrut.absoluteTy <;> simp_all [variantTys]

/-- **Acceptance.** The check reports nothing (and does not panic) exactly when the arms name
only variants of the scrutinee's type, name each at most once, and either name all of them or
there is a default arm. -/
theorem accepted_iff (scrut : Ty) (vts : List Ty) (arms : List Arm) (dflt : Bool)
    (hsum : variantTys scrut.absoluteTy = some vts) (hnd : vts.Nodup)
    (hvar : isEnum scrut = true → ∀ v ∈ vts, (variantName? v).isSome) :
    checkSwitch scrut arms dflt = .diags [] ↔ Accepts (isEnum scrut) vts arms dflt := by
  have hs := isSumTy_of_variantTys hsum
  obtain ⟨ds, hres, hiff⟩ := resolveArms_spec scrut vts hvar arms
  unfold checkSwitch
  simp only [hs, Bool.not_true, Bool.false_eq_true, if_false, hsum, hres]
  cases ds with
  | cons d ds' =>
    have hnot : ¬ ∀ a ∈ arms, (names (isEnum scrut) vts a).isSome := fun h => by
      have := hiff.2 h; cases this
    constructor
    · intro h; cases h
    · intro h; exact absurd h.1 hnot
  | nil =>
    have hall : ∀ a ∈ arms, (names (isEnum scrut) vts a).isSome := hiff.1 rfl
    -- shorthand arms resolve only on enums
    have hshort : ∀ a ∈ arms, ∀ n, a = .shorthand n → isEnum scrut = true := by
      intro a ha n hn
      have := hall a ha
      subst hn
      by_cases he : isEnum scrut = true
      · exact he
      · simp [names, he] at this
    have hnames : ∀ a ∈ arms, names (isEnum scrut) vts a = firstMatching a vts :=
      fun a ha => names_eq_firstMatching _ vts a (hshort a ha)
    have hmap : arms.map (names (isEnum scrut) vts) = arms.map (firstMatching · vts) :=
      List.map_congr_left hnames
    have hm : ∀ a ∈ arms, ∀ v ∈ vts, (matchesArm v a).isSome := by
      intro a ha v hv
      cases a with
      | qualified ty => simp [matchesArm]
      | shorthand n =>
        have he := hshort _ ha n rfl
        have := hvar he v hv
        simp only [matchesArm]
        cases hvn : variantName? v with
        | none => simp [hvn] at this
        | some m => simp
    have hres' : ∀ a ∈ arms, (firstMatching a vts).isSome := fun a ha => by
      rw [← hnames a ha]; exact hall a ha
    have hkeys : keys (vts.map fun v => (v, false)) = vts := by
      simp [keys, List.map_map, Function.comp_def]
    obtain ⟨st', ds', hc, hk', hflags, hds⟩ :=
      coverArms_spec vts hnd arms hm hres' _ hkeys
    simp only [hc]
    have hinit : ∀ v, (v, true) ∉ vts.map fun v => (v, false) := by
      intro v h
      simp only [List.mem_map, Prod.mk.injEq] at h
      obtain ⟨_, _, _, h2⟩ := h
      cases h2
    have hcov : uncovered st' = [] ↔ ∀ v ∈ vts, some v ∈ arms.map (firstMatching · vts) := by
      rw [uncovered_nil_iff]
      constructor
      · intro h v hv
        rw [← hk'] at hv
        simp only [keys, List.mem_map] at hv
        obtain ⟨p, hp, hpv⟩ := hv
        have hp2 := h p hp
        have : (v, true) ∈ st' := by
          obtain ⟨k, b⟩ := p
          simp only at hpv hp2
          subst hpv; subst hp2
          exact hp
        rcases (hflags v).1 this with h' | h'
        · exact absurd h' (hinit v)
        · exact h'
      · intro h p hp
        obtain ⟨k, b⟩ := p
        have hk : k ∈ vts := by
          rw [← hk']; exact List.mem_map_of_mem (f := Prod.fst) hp
        have hkt : (k, true) ∈ st' := (hflags k).2 (Or.inr (h k hk))
        -- keys of st' are pairwise different, so the flag of k is the one we found
        have hnd' : (keys st').Nodup := by rw [hk']; exact hnd
        cases b with
        | true => rfl
        | false =>
          exfalso
          -- two entries with the same key
          have : ∀ (l : List (Ty × Bool)), (keys l).Nodup → (k, true) ∈ l → (k, false) ∈ l → False := by
            intro l
            induction l with
            | nil => intro _ h; cases h
            | cons q rest ih =>
              intro hn h1 h2
              simp only [keys, List.map_cons, List.nodup_cons] at hn
              simp only [List.mem_cons] at h1 h2
              rcases h1 with h1 | h1 <;> rcases h2 with h2 | h2
              · rw [← h1] at h2; cases h2
              · have e : q.1 = k := by rw [← h1]
                exact hn.1 (by rw [e]; exact List.mem_map_of_mem (f := Prod.fst) h2)
              · have e : q.1 = k := by rw [← h2]
                exact hn.1 (by rw [e]; exact List.mem_map_of_mem (f := Prod.fst) h1)
              · exact ih hn.2 h1 h2
          exact this st' hnd' hkt hp
    unfold Accepts
    rw [hmap]
    constructor
    · intro h
      have happ : ds' ++ (if dflt = true then [] else uncovered st') = [] := by
        injection h
      rw [List.append_eq_nil_iff] at happ
      refine ⟨fun a ha => by rw [hnames a ha]; exact hres' a ha, (hds.1 happ.1).1, ?_⟩
      cases dflt with
      | true => left; rfl
      | false =>
        right
        simp only [Bool.false_eq_true, if_false] at happ
        exact hcov.1 happ.2
    · rintro ⟨_, hn, hd⟩
      have h1 : ds' = [] := hds.2 ⟨hn, fun v hv => absurd hv (hinit v)⟩
      have h2 : (if dflt = true then [] else uncovered st') = [] := by
        cases dflt with
        | true => rfl
        | false =>
          simp only [Bool.false_eq_true, if_false]
          rcases hd with hd | hd
          · cases hd
          · exact hcov.2 hd
      rw [h1, h2]; rfl

/-- The check never panics on a well-formed scrutinee (the pinned code does, see below). -/
theorem check_total (scrut : Ty) (vts : List Ty) (arms : List Arm) (dflt : Bool)
    (hsum : variantTys scrut.absoluteTy = some vts) (hnd : vts.Nodup)
    (hvar : isEnum scrut = true → ∀ v ∈ vts, (variantName? v).isSome) :
    checkSwitch scrut arms dflt ≠ .panic := by
  have hs := isSumTy_of_variantTys hsum
  obtain ⟨ds, hres, hiff⟩ := resolveArms_spec scrut vts hvar arms
  unfold checkSwitch
  simp only [hs, Bool.not_true, Bool.false_eq_true, if_false, hsum, hres]
  cases ds with
  | cons d ds' => intro h; cases h
  | nil =>
    have hacc := accepted_iff scrut vts arms dflt hsum hnd hvar
    unfold checkSwitch at hacc
    simp only [hs, Bool.not_true, Bool.false_eq_true, if_false, hsum, hres] at hacc
    have hall : ∀ a ∈ arms, (names (isEnum scrut) vts a).isSome := hiff.1 rfl
    have hshort : ∀ a ∈ arms, ∀ n, a = .shorthand n → isEnum scrut = true := by
      intro a ha n hn
      have := hall a ha
      subst hn
      by_cases he : isEnum scrut = true
      · exact he
      · simp [names, he] at this
    have hnames : ∀ a ∈ arms, names (isEnum scrut) vts a = firstMatching a vts :=
      fun a ha => names_eq_firstMatching _ vts a (hshort a ha)
    have hm : ∀ a ∈ arms, ∀ v ∈ vts, (matchesArm v a).isSome := by
      intro a ha v hv
      cases a with
      | qualified ty => simp [matchesArm]
      | shorthand n =>
        have he := hshort _ ha n rfl
        have := hvar he v hv
        simp only [matchesArm]
        cases hvn : variantName? v with
        | none => simp [hvn] at this
        | some m => simp
    have hres' : ∀ a ∈ arms, (firstMatching a vts).isSome := fun a ha => by
      rw [← hnames a ha]; exact hall a ha
    have hkeys : keys (vts.map fun v => (v, false)) = vts := by
      simp [keys, List.map_map, Function.comp_def]
    obtain ⟨st', ds', hc, _⟩ := coverArms_spec vts hnd arms hm hres' _ hkeys
    simp only [hc]
    intro h; cases h

/-! ### The pinned code -/

/-- `D :: distinct ?i32; switch d { i32 => …, nil => … }`: the property says "accepted"
(`Accepts`), the pinned check reaches `unreachable!()` — the confirmed crash of DESIGN.md §6 #12
(`corpus/probes/C11_distinct_optional_switch_unreachable.capy`). The patched check accepts. -/
theorem pinned_distinct_counterexample :
    let scrut := Ty.distinct 3 (.optional (.iint 32))
    let arms := [Arm.qualified (.iint 32), Arm.qualified .nil]
    Accepts (isEnum scrut) [.iint 32, .nil] arms false ∧
      checkSwitchPinned scrut arms false = .panic ∧
      checkSwitch scrut arms false = .diags [] := by
  refine ⟨by decide, by decide, by decide⟩

/-- `N :: distinct nil; switch o { i32 => …, N => … }` on `o : ?i32`: `N` is not a variant
(the rule rejects), the pinned check panics, the patched check reports `NotAVariantOfSumType`. -/
theorem pinned_nil_like_arm_counterexample :
    let scrut := Ty.optional (.iint 32)
    let arms := [Arm.qualified (.iint 32), Arm.qualified (.distinct 4 .nil)]
    ¬ Accepts (isEnum scrut) [.iint 32, .nil] arms false ∧
      checkSwitchPinned scrut arms false = .panic ∧
      checkSwitch scrut arms false = .diags [.notAVariant (.distinct 4 .nil)] := by
  refine ⟨by decide, by decide, by decide⟩

/-- Shorthand arms on a distinct enum: pinned `let Ty::Enum{..} = *scrutinee_ty else { unreachable!() }`. -/
theorem pinned_distinct_enum_shorthand_counterexample :
    let e := Ty.enum 1 (.cons (.enumVariant 1 10 2 (.iint 32) 0) (.cons (.enumVariant 1 11 3 .void 1) .nil))
    let arms := [Arm.shorthand 10, Arm.shorthand 11]
    checkSwitchPinned (.distinct 7 e) arms false = .panic ∧
      checkSwitch (.distinct 7 e) arms false = .diags [] ∧
      checkSwitchPinned e arms false = .diags [] := by
  refine ⟨by decide, by decide, by decide⟩

/-- Where the scrutinee is an enum / optional / error union *itself* (no wrapper) and no
fully-qualified arm is a nil-like type other than `nil`, the pinned check and the patched check
are the same function: `FIX.patch` changes nothing else. -/
theorem pinned_eq_fixed (scrut : Ty) (vts : List Ty) (arms : List Arm) (dflt : Bool)
    (hhead : variantTys scrut = some vts)
    (hnil : ∀ ty, Arm.qualified ty ∈ arms → ty.isNil = true → ty = .nil) :
    checkSwitchPinned scrut arms dflt = checkSwitch scrut arms dflt := by
  have habs : scrut.absoluteTy = scrut := by
    cases scrut <;> simp_all [variantTys, Ty.absoluteTy]
  have hres : resolveArmsPinned scrut arms = resolveArms scrut vts arms := by
    induction arms with
    | nil => rfl
    | cons a rest ih =>
      have ih' := ih (fun ty h => hnil ty (by simp [h]))
      cases a with
      | qualified ty =>
        have hq : hasSumVariant scrut ty = vts.contains ty := by
          have hn := hnil ty (by simp)
          unfold hasSumVariant
          rw [habs]
          cases scrut with
          | optional sub =>
            simp only [variantTys, Option.some.injEq] at hhead
            subst hhead
            by_cases h1 : ty = sub
            · subst h1; simp
            · by_cases h2 : ty.isNil = true
              · have := hn h2; subst this; simp [Ty.isNil, Ty.absoluteTy]
              · have h3 : ty ≠ .nil := fun e => by subst e; simp [Ty.isNil, Ty.absoluteTy] at h2
                have h2' : ty.isNil = false := by simpa using h2
                simp [h1, h2', h3]
          | errorUnion e p =>
            simp only [variantTys, Option.some.injEq] at hhead
            subst hhead
            by_cases h1 : ty = e <;> by_cases h2 : ty = p <;> simp [h1, h2]
          | enum uid vs =>
            simp only [variantTys, Option.some.injEq] at hhead
            subst hhead; rfl
          | _ => simp [variantTys] at hhead
        simp only [resolveArmsPinned, resolveArms, ih', hq]
      | shorthand n =>
        by_cases he : isEnum scrut = true
        · have hsc : ∃ uid vs, scrut = .enum uid vs ∧ vs.toList = vts := by
            unfold isEnum at he
            rw [habs] at he
            cases scrut with
            | enum uid vs =>
              simp only [variantTys, Option.some.injEq] at hhead
              exact ⟨uid, vs, rfl, hhead⟩
            | _ => simp_all [variantTys]
          obtain ⟨uid, vs, hsc, hvs⟩ := hsc
          subst hsc; subst hvs
          simp only [resolveArmsPinned, resolveArms, he, if_true, ih']
        · have he' : isEnum scrut = false := by simpa using he
          simp [resolveArmsPinned, resolveArms, he', ih']
  unfold checkSwitchPinned checkSwitch
  rw [habs, hres, hhead]

/-! ### Discriminants -/

/-- **`discriminants_injective`.** If the declaration reports no `DiscriminantUsedAlready`, the
variants get pairwise different discriminants, one per variant. -/
theorem discriminants_injective (manual : List (Option Nat))
    (h : (assignDiscriminants manual).1 = []) :
    (assignDiscriminants manual).2.Nodup ∧ (assignDiscriminants manual).2.length = manual.length := by
  unfold assignDiscriminants at h ⊢
  generalize hr : manualPass manual [] = r at h ⊢
  obtain ⟨used, m, dups⟩ := r
  simp only at h ⊢
  subst h
  obtain ⟨e1, e2, _, e4⟩ := manualPass_spec manual [] used m hr
  subst e1
  have hsub : ∀ d, some d ∈ m → d ∈ used := fun d hd => (e4 d).2 (Or.inr hd)
  have := assignPass_spec used m hsub e2 0
  exact ⟨this.1, this.2.2⟩

/-- Manual discriminants are honoured as written. -/
theorem manual_discriminants_kept (manual : List (Option Nat))
    (h : (assignDiscriminants manual).1 = []) (i d : Nat) (hi : manual[i]? = some (some d)) :
    (assignDiscriminants manual).2[i]? = some d := by
  unfold assignDiscriminants at h ⊢
  generalize hr : manualPass manual [] = r at h ⊢
  obtain ⟨used, m, dups⟩ := r
  simp only at h ⊢
  subst h
  obtain ⟨e1, _⟩ := manualPass_spec manual [] used m hr
  subst e1
  have : ∀ (ms : List (Option Nat)) (latest i : Nat), ms[i]? = some (some d) →
      (assignPass used ms latest)[i]? = some d := by
    intro ms
    induction ms with
    | nil => intro _ i h; simp at h
    | cons x rest ih =>
      intro latest i h
      cases i with
      | zero =>
        simp only [List.getElem?_cons_zero, Option.some.injEq] at h
        subst h
        simp [assignPass]
      | succ j =>
        simp only [List.getElem?_cons_succ] at h
        simp only [assignPass, List.getElem?_cons_succ]
        exact ih _ j h
  exact this m 0 i hi

/-- Non-vacuity + the shape of the result: `enum { A | 7, B, C | 0, D }` ↦ 7, 8, 0, 9;
a repeated manual value is reported and then treated as automatic. -/
example : assignDiscriminants [some 7, none, some 0, none] = ([], [7, 8, 0, 9]) := by decide
example : assignDiscriminants [some 3, some 3, none] = ([3], [3, 4, 5]) := by decide
example : assignDiscriminants [none, some 1, none, some 0] = ([], [2, 1, 3, 0]) := by decide

/-- The declaration check does **not** keep automatic discriminants inside the tag byte:
`enum { A | 255, B }` is accepted with `B = 256` (confirmed: Cranelift then panics,
known finding `auto-discriminant-exceeds-u8`). -/
theorem auto_discriminant_exceeds_u8_counterexample :
    assignDiscriminants [some 255, none] = ([], [255, 256]) := by decide

/-! ### Dispatch -/

/-- **`dispatch_selects_current_variant`.** An accepted switch over a tagged union whose variants
have pairwise different discriminants below 256 (enums: `discriminants_injective`; optionals and
error unions: 0/1) compiles, and a value whose current variant is `v` (tag byte = discriminant of
`v`) runs exactly the arm naming `v`; if no arm names `v` it runs the default arm — never the
trap, never another arm. -/
theorem dispatch_selects_current_variant (scrut : Ty) (vts : List Ty) (arms : List Arm) (dflt : Bool)
    (hsum : variantTys scrut.absoluteTy = some vts) (hnd : vts.Nodup)
    (hvar : isEnum scrut = true → ∀ v ∈ vts, (variantName? v).isSome)
    (htag : scrut.isTaggedUnion = true)
    (hacc : checkSwitch scrut arms dflt = .diags [])
    (dOf : Ty → Nat)
    (hd : ∀ v ∈ vts, taggedUnionDiscrim scrut v = some (some (dOf v)))
    (hinj : ∀ v ∈ vts, ∀ w ∈ vts, dOf v = dOf w → v = w)
    (hlt : ∀ v ∈ vts, dOf v < 256)
    (v : Ty) (hv : v ∈ vts) :
    ∃ c t, compileSwitch true scrut arms dflt = some c ∧
      reprDiscr scrut v = some (.tag (dOf v)) ∧ dispatch c (.tag (dOf v)) = some t ∧
      ((∃ i a, arms[i]? = some a ∧ names (isEnum scrut) vts a = some v ∧ t = .arm i) ∨
       ((∀ a ∈ arms, names (isEnum scrut) vts a ≠ some v) ∧ dflt = true ∧ t = .default)) := by
  obtain ⟨hall, hnames_nd, hcover⟩ := (accepted_iff scrut vts arms dflt hsum hnd hvar).1 hacc
  have hall' : ∀ a ∈ arms, ∃ w, w ∈ vts ∧ names (isEnum scrut) vts a = some w := by
    intro a ha
    have := hall a ha
    cases hn : names (isEnum scrut) vts a with
    | none => simp [hn] at this
    | some w =>
      refine ⟨w, ?_, rfl⟩
      cases a with
      | qualified ty =>
        simp only [names] at hn
        by_cases hm : ty ∈ vts
        · simp only [hm, if_true, Option.some.injEq] at hn; subst hn; exact hm
        · simp [hm] at hn
      | shorthand n =>
        simp only [names] at hn
        by_cases he : isEnum scrut = true
        · simp only [he, if_true] at hn
          exact List.mem_of_find?_eq_some hn
        · simp [he] at hn
  obtain ⟨es, hes, hfst, hlook⟩ := tableEntries_spec scrut vts dOf hsum hd arms hall' 0
  -- no duplicate keys, all keys fit the tag byte
  have hkeys_nd : (es.map Prod.fst).Nodup := by
    rw [hfst]
    refine nodup_map_of_inj arms (names (isEnum scrut) vts) _ hnames_nd ?_
    intro x hx y hy hxy
    obtain ⟨wx, hwx, hnx⟩ := hall' x hx
    obtain ⟨wy, hwy, hny⟩ := hall' y hy
    simp only [armDiscr, hnx, hny] at hxy
    rw [hnx, hny, hinj wx hwx wy hwy hxy]
  have hsmall : es.any (fun e => decide (e.1 > 255)) = false := by
    rw [Bool.eq_false_iff]
    intro h
    rw [List.any_eq_true] at h
    obtain ⟨e, he, hgt⟩ := h
    have hmem : e.1 ∈ es.map Prod.fst := List.mem_map_of_mem he
    rw [hfst, List.mem_map] at hmem
    obtain ⟨a, ha, hae⟩ := hmem
    obtain ⟨w, hw, hn⟩ := hall' a ha
    simp only [armDiscr, hn] at hae
    have := hlt w hw
    simp only [decide_eq_true_eq] at hgt
    omega
  have hcomp : compileSwitch true scrut arms dflt = some (.table es dflt) := by
    simp only [compileSwitch, htag, if_true, hes, hkeys_nd, decide_true, Bool.not_true,
      Bool.false_eq_true, if_false, hsmall, Bool.false_and]
  have hrepr : reprDiscr scrut v = some (.tag (dOf v)) := by
    simp only [reprDiscr, htag, if_true, hd v hv]
    rw [Nat.mod_eq_of_lt (hlt v hv)]
  refine ⟨.table es dflt, ?_⟩
  cases hf : es.find? (fun e => e.1 == dOf v) with
  | some p =>
    obtain ⟨d, j⟩ := p
    obtain ⟨_, a, w, ha, hn, hdw⟩ := (hlook (dOf v)).1 d j hf
    have hwv : w = v := by
      obtain ⟨w', hw', hn'⟩ := hall' a (List.mem_of_getElem? ha)
      rw [hn] at hn'; cases hn'
      exact hinj w hw' v hv hdw
    subst hwv
    refine ⟨.arm j, hcomp, hrepr, ?_, Or.inl ⟨j, a, by simpa using ha, hn, rfl⟩⟩
    simp [dispatch, hf]
  | none =>
    have hnone := (hlook (dOf v)).2 hf
    have hno : ∀ a ∈ arms, names (isEnum scrut) vts a ≠ some v := by
      intro a ha h
      exact hnone a ha v h rfl
    have hdflt : dflt = true := by
      rcases hcover with h | h
      · exact h
      · exfalso
        have := h v hv
        rw [List.mem_map] at this
        obtain ⟨a, ha, hav⟩ := this
        exact hno a ha hav
    refine ⟨.default, hcomp, hrepr, ?_, Or.inr ⟨hno, hdflt, rfl⟩⟩
    simp [dispatch, hf, hdflt]

/-- The arm that runs is unique: an accepted switch has at most one arm per variant. -/
theorem arm_for_variant_unique (scrut : Ty) (vts : List Ty) (arms : List Arm) (dflt : Bool)
    (hsum : variantTys scrut.absoluteTy = some vts) (hnd : vts.Nodup)
    (hvar : isEnum scrut = true → ∀ v ∈ vts, (variantName? v).isSome)
    (hacc : checkSwitch scrut arms dflt = .diags [])
    (v : Ty) (i j : Nat) (a b : Arm) (hi : arms[i]? = some a) (hj : arms[j]? = some b)
    (ha : names (isEnum scrut) vts a = some v) (hb : names (isEnum scrut) vts b = some v) : i = j := by
  obtain ⟨_, hnames_nd, _⟩ := (accepted_iff scrut vts arms dflt hsum hnd hvar).1 hacc
  have h1 : (arms.map (names (isEnum scrut) vts))[i]? = some (some v) := by
    rw [List.getElem?_map, hi]; simp [ha]
  have h2 : (arms.map (names (isEnum scrut) vts))[j]? = some (some v) := by
    rw [List.getElem?_map, hj]; simp [hb]
  obtain ⟨hlen, _⟩ := List.getElem?_eq_some_iff.1 h1
  exact (List.getElem?_inj hlen hnames_nd).1 (h1.trans h2.symm)

/-- **`payload_binding_exact`.** Inside the arm naming variant `v` the switch argument is the
payload stored in the sum value, typed as `v` (for an enum: the variant type, whose layout is
its payload's, C17 `variant_same_layout`); inside the default arm it is the whole scrutinee
value with the scrutinee's type (distinct wrappers included). -/
theorem payload_binding_exact (scrut : Ty) (vts : List Ty) (arms : List Arm)
    (hsum : variantTys scrut.absoluteTy = some vts) :
    (∀ i a v, arms[i]? = some a → names (isEnum scrut) vts a = some v →
      binding true scrut arms (.arm i) = some (.payload v)) ∧
    binding true scrut arms .default = some (.whole scrut) := by
  refine ⟨?_, rfl⟩
  intro i a v hi hn
  simp only [binding, hi, armTy_eq_names scrut vts a v hsum hn, Option.map_some]

/-- Optionals (tagged) and error unions satisfy the discriminant hypotheses of
`dispatch_selects_current_variant` with `nil ↦ 0, payload ↦ 1` / `error ↦ 0, payload ↦ 1`. -/
theorem optional_discriminants (sub : Ty) (hz : sub.isNonZero = false) (hn : sub ≠ .nil) :
    taggedUnionDiscrim (.optional sub) .nil = some (some 0) ∧
    taggedUnionDiscrim (.optional sub) sub = some (some 1) := by
  simp [taggedUnionDiscrim, Ty.absoluteTy, hz, hn]

theorem error_union_discriminants (e p : Ty) (hne : e ≠ p) :
    taggedUnionDiscrim (.errorUnion e p) e = some (some 0) ∧
    taggedUnionDiscrim (.errorUnion e p) p = some (some 1) := by
  simp [taggedUnionDiscrim, Ty.absoluteTy, Ne.symm hne]

theorem enum_discriminants (uid n u d : Nat) (vs : Tys) (sub : Ty) :
    taggedUnionDiscrim (.enum uid vs) (.enumVariant uid n u sub d) = some (some d) := by
  simp [taggedUnionDiscrim, Ty.absoluteTy]

/-- The `< 256` hypothesis is necessary and not guaranteed by the declaration check:
`E :: enum { A | 255, B }` (discriminants 255, 256) is accepted by the switch check, and the
compiled switch does not exist (Cranelift: "The index type i8 does not fit the maximum switch
entry of 256") — known finding `auto-discriminant-exceeds-u8`. -/
theorem dispatch_needs_u8_discriminants_counterexample :
    let e := Ty.enum 1 (.cons (.enumVariant 1 10 2 .void 255) (.cons (.enumVariant 1 11 3 (.iint 32) 256) .nil))
    let arms := [Arm.shorthand 10, Arm.shorthand 11]
    checkSwitch e arms false = .diags [] ∧ compileSwitch true e arms false = none := by
  refine ⟨by decide, by decide⟩

/-- Non-vacuity of `dispatch_selects_current_variant`, on a distinct enum with a manual
discriminant, one shorthand arm, one fully-qualified arm and a default arm:
variant `A` (tag 7) runs arm 1, `B` (tag 8) runs arm 0, `C` (tag 0) runs the default arm. -/
example :
    let a := Ty.enumVariant 1 10 2 (.iint 32) 7
    let b := Ty.enumVariant 1 11 3 .void 8
    let c := Ty.enumVariant 1 12 4 .string 0
    let e := Ty.distinct 9 (.enum 1 (.cons a (.cons b (.cons c .nil))))
    let arms := [Arm.shorthand 11, Arm.qualified a]
    checkSwitch e arms true = .diags [] ∧
    (compileSwitch true e arms true).bind (dispatch · (.tag 7)) = some (.arm 1) ∧
    (compileSwitch true e arms true).bind (dispatch · (.tag 8)) = some (.arm 0) ∧
    (compileSwitch true e arms true).bind (dispatch · (.tag 0)) = some .default ∧
    binding true e arms (.arm 1) = some (.payload a) ∧
    binding true e arms .default = some (.whole e) := by
  refine ⟨by decide, by decide, by decide, by decide, by decide, by decide⟩

/-- Nullable-pointer optionals (`?^T`, no tag): the patched code generator sends a non-null
pointer to the arm naming `^T`, a null pointer to the arm naming `nil`, and either to the default
arm when it has no arm of its own; the pinned code panics as soon as there is a default arm
(known finding `nullable-pointer-switch-default-arm`). Checked here on the arm lists the
end-to-end corpus runs; the general statement for `?^T` is covered by the correspondence only
(exhaustive over all arm lists of length ≤ 3). -/
example :
    let p := Ty.pointer false (.iint 32)
    let o := Ty.optional p
    (compileSwitch true o [.qualified .nil, .qualified p] false).bind (dispatch · (.ptr true)) = some (.arm 1) ∧
    (compileSwitch true o [.qualified .nil, .qualified p] false).bind (dispatch · (.ptr false)) = some (.arm 0) ∧
    (compileSwitch true o [.qualified .nil] true).bind (dispatch · (.ptr true)) = some .default ∧
    (compileSwitch true o [.qualified .nil] true).bind (dispatch · (.ptr false)) = some (.arm 0) ∧
    (compileSwitch true o [] true).bind (dispatch · (.ptr false)) = some .default ∧
    compileSwitch false o [.qualified .nil] true = none ∧
    reprDiscr o p = some (.ptr true) ∧ reprDiscr o .nil = some (.ptr false) := by
  refine ⟨by decide, by decide, by decide, by decide, by decide, by decide, by decide, by decide⟩

end CapyV.C11
