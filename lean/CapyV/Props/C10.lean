import CapyV.Model.Checks
/-!
# C10 — out-of-range indexing and wrong `#unwrap` abort before touching memory
-/
namespace CapyV.C10
open CapyV.Checks

/-- the index value the program computed, as a number: the typed bit pattern read unsigned
(indices are type-checked against `usize`, so they are unsigned) -/
def indexValue (idxBits pattern : Nat) : Nat := pattern % 2 ^ idxBits

theorem widen_exact (idxBits pattern : Nat) (h : idxBits ≤ 64) :
    widenIndex idxBits pattern = indexValue idxBits pattern := by
  unfold widenIndex indexValue
  apply Nat.mod_eq_of_lt
  exact Nat.lt_of_lt_of_le (Nat.mod_lt _ (Nat.two_pow_pos _)) (Nat.pow_le_pow_right (by decide) h)

/-- **Out of range ⇒ abort before any access to the array.** -/
theorem index_oob_aborts_before_access (p : IndexPlan) (pattern : Nat) (hb : p.idxBits ≤ 64)
    (h : p.len ≤ indexValue p.idxBits pattern) : runIndex p pattern = .abort [] := by
  unfold runIndex
  simp only [widen_exact _ _ hb]
  simp [Nat.not_lt.mpr h]

/-- **In range ⇒ exactly that element**, inside the array, given `size ≤ stride` (C17). -/
theorem index_in_range_exact (p : IndexPlan) (pattern : Nat) (hb : p.idxBits ≤ 64)
    (h : indexValue p.idxBits pattern < p.len) (hs : p.elemSize ≤ p.stride) :
    ∃ acc, runIndex p pattern = .ok acc ∧
      (p.addressOnly = false → acc = [(p.base + indexValue p.idxBits pattern * p.stride, p.elemSize)]) ∧
      ∀ a ∈ acc, p.base ≤ a.1 ∧ a.1 + a.2 ≤ p.base + p.len * p.stride := by
  unfold runIndex
  simp only [widen_exact _ _ hb, h, if_true]
  refine ⟨_, rfl, ?_, ?_⟩
  · intro ha; simp [ha]
  · intro a ha
    cases hao : p.addressOnly <;> simp [hao] at ha
    subst ha
    constructor
    · simp
    · simp only
      have h1 : (indexValue p.idxBits pattern + 1) * p.stride ≤ p.len * p.stride :=
        Nat.mul_le_mul_right _ h
      rw [Nat.add_mul, Nat.one_mul] at h1
      omega

/-- slices: the only accesses before the abort are the two reads of the slice header -/
theorem slice_oob_aborts_before_access (p : SlicePlan) (pattern : Nat) (hb : p.idxBits ≤ 64)
    (h : p.len ≤ indexValue p.idxBits pattern) :
    runSliceIndex p pattern = .abort [(p.hdr, p.ptrBytes), (p.hdr + p.ptrBytes, p.ptrBytes)] := by
  unfold runSliceIndex
  simp only [widen_exact _ _ hb]
  simp [Nat.not_lt.mpr h]

theorem slice_in_range_exact (p : SlicePlan) (pattern : Nat) (hb : p.idxBits ≤ 64)
    (h : indexValue p.idxBits pattern < p.len) (hs : p.elemSize ≤ p.stride) (hl : p.addressOnly = false) :
    runSliceIndex p pattern = .ok [(p.hdr, p.ptrBytes), (p.hdr + p.ptrBytes, p.ptrBytes),
      (p.dataPtr + indexValue p.idxBits pattern * p.stride, p.elemSize)] ∧
    p.dataPtr + indexValue p.idxBits pattern * p.stride + p.elemSize ≤ p.dataPtr + p.len * p.stride := by
  unfold runSliceIndex
  simp only [widen_exact _ _ hb, h, if_true, hl]
  refine ⟨by simp, ?_⟩
  have h1 : (indexValue p.idxBits pattern + 1) * p.stride ≤ p.len * p.stride := Nat.mul_le_mul_right _ h
  rw [Nat.add_mul, Nat.one_mul] at h1
  omega

/-- **`#unwrap` of a value whose variant differs aborts**, having read only the tag byte. -/
theorem unwrap_wrong_variant_aborts (value tag discOff wanted : Nat) (htag : tag < 256) (hw : wanted < 256)
    (h : tag ≠ wanted) :
    runUnwrap ⟨.tagged discOff wanted, value, tag⟩ = (.abort [(value + discOff, 1)], none) := by
  simp [runUnwrap, Nat.mod_eq_of_lt htag, Nat.mod_eq_of_lt hw, h]

theorem unwrap_right_variant_yields_payload (value tag discOff : Nat) :
    runUnwrap ⟨.tagged discOff tag, value, tag⟩ = (.ok [(value + discOff, 1)], some value) := by
  simp [runUnwrap]

/-- nullable pointers: `#unwrap(p, ^T)` of null aborts without touching memory; non-null passes -/
theorem unwrap_nullable (value : Nat) :
    (value = 0 → runUnwrap ⟨.nullableSome, value, 0⟩ = (.abort [], none)) ∧
    (value ≠ 0 → runUnwrap ⟨.nullableSome, value, 0⟩ = (.ok [], some value)) ∧
    (value ≠ 0 → runUnwrap ⟨.nullableNil, value, 0⟩ = (.abort [], none)) := by
  refine ⟨?_, ?_, ?_⟩ <;> intro h <;> simp [runUnwrap, h]

/-- a literal index that is out of range for a fixed-size array is rejected at compile time;
the rule fires only for a bare integer literal (so `arr[(5)]` is left to the run-time check) -/
theorem literal_oob_rejected (index size : Nat) :
    (literalIndexRejected true index size = true ↔ size ≤ index) ∧
    literalIndexRejected false index size = false := by
  simp [literalIndexRejected]

/-! non-vacuity -/
example : runIndex ⟨8, 1000, 3, 8, 5, false⟩ 2 = .ok [(1016, 5)] := by decide
example : runIndex ⟨8, 1000, 3, 8, 5, false⟩ 3 = .abort [] := by decide
example : runIndex ⟨8, 1000, 3, 8, 5, false⟩ 255 = .abort [] := by decide
example : runUnwrap ⟨.tagged 4 1, 2000, 0⟩ = (.abort [(2004, 1)], none) := by decide

end CapyV.C10
