import CapyV.Proofs.Comptime
import CapyV.Props.C17
/-!
# C04 — a comptime block yields what the same code yields at run time

`CapyV.Comptime` models the three places a block's value passes through: the result-type check of
the type checker (`accepts`), the read-back after the JIT call (`capture`, by final type) and the two
ways the built program gets the value back (`embedCode` inside a function body; `intoBytes` +
`readGlobal` for a global). `blockValue` is what the block's code left behind according to the calling
convention of the block function — what the same code yields when it runs at run time.

Assumptions, stated where used: the compiler runs on a little-endian host (`to_ne_bytes`) and builds
for a little-endian target (`.little`); `f32 as f64 as f32` is exact on non-NaN values
(`FloatExact`); type ids identify types consistently across compilers (C18).
-/
namespace CapyV.C04
open CapyV CapyV.Layout CapyV.Comptime

/-! ## the acceptance rule -/

/-- Every accepted result type is `str` (whose characters are copied) or holds no address at all:
no pointer, function, slice, `str`, `any`, raw pointer or raw slice at any depth. -/
theorem accepted_imp_pointer_free (t : Ty) (h : accepts t = true) : isStr t = true ∨ PointerFree t := by
  simp only [accepts, Bool.or_eq_true, Bool.not_eq_true'] at h
  rcases h with h | h
  · exact Or.inl h
  · exact Or.inr (pointerFree_of_not_contains t h)

/-- … and nothing else is rejected: the diagnostic is issued exactly for types that hold an address. -/
theorem pointer_free_imp_accepted (t : Ty) (h : PointerFree t) : accepts t = true := by
  simp [accepts, not_contains_of_pointerFree h]

/-- The rule of the pinned tree (only a top-level pointer or function is rejected) did not have this
property: a slice, a struct with a `str` field, an optional pointer were accepted. -/
theorem accepted_old_imp_pointer_free_counterexample :
    ¬ (∀ t, acceptsOld t = true → isStr t = true ∨ PointerFree t) := by
  intro h
  have := h (.slice (.uint 8)) (by decide)
  rcases this with h | h
  · simp [isStr, Ty.absoluteTy] at h
  · cases h

theorem accepted_old_struct_with_str :
    acceptsOld (.anonStruct (.cons 0 (.iint 32) (.cons 1 .string .nil))) = true ∧
    accepts (.anonStruct (.cons 0 (.iint 32) (.cons 1 .string .nil))) = false := by decide

/-- Once addresses are rejected, the `FinalTy::Pointer` capture arm (result written to a buffer of
`size` bytes) is only reached by aggregates, which is what the block function's calling convention
assumes. (Before the fix `str` and `?^T`, scalars returned in a register, reached it.) -/
theorem accepted_pointer_final_is_aggregate (pw : Nat) (t : Ty) (h : accepts t = true)
    (hs : isStr t = false) (hf : finalTy pw t = some .pointer) : t.isAggregate = true := by
  simp only [accepts, hs, Bool.false_or, Bool.not_eq_true'] at h
  exact aggregate_of_pointer_final pw t h hf

/-! ## capture → embed, by kind of result -/

section
variable (fc : FloatConv) (pw : Nat) (idOf : Ty → Nat) (table : List (Ty × Nat)) (m : Machine)

/-- Integers, `bool`, `char` of 8–64 bits: the program sees the low `bits` bits of what the block
returned, both inside a function body (`iconst`) and through a global's data object, for either
byte order of the target. -/
theorem embed_capture_int (ty : Ty) (bits : Nat) (s : Bool) (e : Endian)
    (hty : ty ≠ .type) (hstr : isStr ty = false)
    (hf : finalTy pw ty = some (.number bits false s))
    (hb : bits = 8 ∨ bits = 16 ∨ bits = 32 ∨ bits = 64) :
    (capture fc pw table ty m).bind (embedCode fc pw e idOf ty) = some (.scalar bits (m.r0 % 2 ^ bits)) ∧
    ((capture fc pw table ty m).bind (intoBytes fc idOf e)).bind (readGlobal pw e ty)
      = some (.scalar bits (m.r0 % 2 ^ bits)) := by
  have h256 : 256 ^ (bits / 8) = 2 ^ bits := pow256_of_bits (by omega)
  have hb' : bits ≠ 128 := by omega
  constructor
  · simp [capture, hty, hstr, hf, hb, embedCode]
  · simp [capture, hty, hstr, hf, hb, intoBytes, intBytes, readGlobal, take_encode, decode_encode,
      h256]

/-- `i128` / `u128`: captured as the 16 bytes of the register pair (host order), loaded back by the
program (little-endian target). -/
theorem embed_capture_int128 (ty : Ty) (s : Bool)
    (hty : ty ≠ .type) (hstr : isStr ty = false)
    (hf : finalTy pw ty = some (.number 128 false s))
    (h0 : m.r0 < 2 ^ 64) (h1 : m.r1 < 2 ^ 64) :
    (capture fc pw table ty m).bind (embedCode fc pw .little idOf ty) = some (.scalar 128 (m.r0 + 2 ^ 64 * m.r1)) ∧
    ((capture fc pw table ty m).bind (intoBytes fc idOf .little)).bind (readGlobal pw .little ty)
      = some (.scalar 128 (m.r0 + 2 ^ 64 * m.r1)) := by
  have hlen : (leBytes 16 (m.r0 + 2 ^ 64 * m.r1)).take 16 = leBytes 16 (m.r0 + 2 ^ 64 * m.r1) :=
    take_encode .little 16 _
  have hval : leVal (leBytes 16 (m.r0 + 2 ^ 64 * m.r1)) = m.r0 + 2 ^ 64 * m.r1 := by
    rw [leVal_leBytes]; apply Nat.mod_eq_of_lt
    have : (256 : Nat) ^ 16 = 2 ^ 64 * 2 ^ 64 := by decide
    rw [this]
    calc m.r0 + 2 ^ 64 * m.r1 < 2 ^ 64 + 2 ^ 64 * m.r1 := by omega
      _ = 2 ^ 64 * (m.r1 + 1) := by rw [Nat.mul_add]; omega
      _ ≤ 2 ^ 64 * 2 ^ 64 := Nat.mul_le_mul_left _ h1
  simp [capture, hty, hstr, hf, embedCode, intoBytes, readGlobal, decode, hlen, hval,
    Nat.mod_eq_of_lt h0, Nat.mod_eq_of_lt h1]

/-- Floats: `f64` goes through unchanged, `f32` through `f32 → f64 → f32`, which is exact on every
non-NaN value. -/
theorem embed_capture_float (ty : Ty) (bits : Nat) (s : Bool) (e : Endian) (hfc : FloatExact fc)
    (hty : ty ≠ .type) (hstr : isStr ty = false)
    (hf : finalTy pw ty = some (.number bits true s)) (hb : bits = 32 ∨ bits = 64)
    (hnan : bits = 32 → isNaN32 (m.f0 % 2 ^ 32) = false) :
    (capture fc pw table ty m).bind (embedCode fc pw e idOf ty) = some (.scalar bits (m.f0 % 2 ^ bits)) ∧
    ((capture fc pw table ty m).bind (intoBytes fc idOf e)).bind (readGlobal pw e ty)
      = some (.scalar bits (m.f0 % 2 ^ bits)) := by
  rcases hb with hb | hb <;> subst hb
  · have hlt : m.f0 % 2 ^ 32 < 2 ^ 32 := Nat.mod_lt _ (by decide)
    have hx := hfc _ hlt (hnan rfl)
    have h256 : (256 : Nat) ^ 4 = 2 ^ 32 := by decide
    constructor
    · simp [capture, hty, hstr, hf, embedCode, hx]
    · simp [capture, hty, hstr, hf, intoBytes, floatBytes, readGlobal, take_encode, decode_encode, hx, h256]
  · have h256 : (256 : Nat) ^ 8 = 2 ^ 64 := by decide
    constructor
    · simp [capture, hty, hstr, hf, embedCode]
    · simp [capture, hty, hstr, hf, intoBytes, floatBytes, readGlobal, take_encode, decode_encode, h256]

/-- Aggregates (arrays, structs, enums, optionals, error unions): the bytes the program finds at the
address of the data object are the bytes the block wrote, `size` of them — all of the value: C17
(`struct_fields_ok`, `array_size`, the tag theorems) places every field, element and tag inside
`size`. For an accepted type these bytes hold no address (`accepted_imp_pointer_free`), so they mean
the same in the built program. -/
theorem embed_capture_bytes (ty : Ty) (hty : ty ≠ .type) (hstr : isStr ty = false)
    (hf : finalTy pw ty = some .pointer) (hbuf : size pw ty ≤ m.buf.length) (e : Endian) :
    (capture fc pw table ty m).bind (embedCode fc pw e idOf ty) = some (.bytes (m.buf.take (size pw ty))) ∧
    ((capture fc pw table ty m).bind (intoBytes fc idOf e)).bind (readGlobal pw e ty)
      = some (.bytes (m.buf.take (size pw ty))) ∧
    (m.buf.take (size pw ty)).length = size pw ty := by
  refine ⟨?_, ?_, ?_⟩
  · simp [capture, hty, hstr, hf, embedCode]
  · simp [capture, hty, hstr, hf, intoBytes, readGlobal]
  · simp [List.length_take, Nat.min_eq_left hbuf]

/-- `str`: the program reads, at the address of the data object, the characters the block's string
had (the characters themselves are copied, not the address). -/
theorem embed_capture_str (ty : Ty) (hty : ty ≠ .type) (hstr : isStr ty = true)
    (hf : finalTy pw ty = some .pointer) (hc : ∀ b ∈ m.cstr, b ≠ 0) (e : Endian) :
    (capture fc pw table ty m).bind (embedCode fc pw e idOf ty) = some (.cstring m.cstr) ∧
    ((capture fc pw table ty m).bind (intoBytes fc idOf e)).bind (readGlobal pw e ty)
      = some (.cstring m.cstr) := by
  have := cRead_append_nul m.cstr [] hc
  constructor
  · simp [capture, hty, hstr, hf, embedCode, this]
  · simp [capture, hty, hstr, hf, intoBytes, readGlobal, this]

/-- Zero-sized results (`void`, empty structs, …): nothing to carry. -/
theorem embed_capture_void (ty : Ty) (hty : ty ≠ .type) (hstr : isStr ty = false)
    (hf : finalTy pw ty = some .void) (e : Endian) :
    (capture fc pw table ty m).bind (embedCode fc pw e idOf ty) = some .unit := by
  simp [capture, hty, hstr, hf, embedCode]

end

/-! ## `type` results -/

/-- A block that computes the type `T` hands back `T`'s id in the session; the session's table turns
it into a type `T'` with the same session id, and the program is given `T'`'s id in the compiler that
builds it — which is `T`'s id there, provided ids identify types the same way in every compiler
(C18; true also for the documented `usize`/`u64` collision, which is a function of the type alone). -/
theorem type_roundtrip (table : List (Ty × Nat)) (idS idF : Ty → Nat) (T : Ty)
    (hreg : (T, idS T) ∈ table)
    (htab : ∀ p ∈ table, p.2 = idS p.1)
    (hcons : ∀ a b, idS a = idS b → idF a = idF b) :
    ∃ T', lookupId table (idS T) = some T' ∧ idF T' = idF T := by
  induction table with
  | nil => cases hreg
  | cons p rest ih =>
    obtain ⟨t, i⟩ := p
    by_cases hi : i = idS T
    · refine ⟨t, by simp [lookupId, hi], hcons _ _ ?_⟩
      have := htab (t, i) (by simp)
      simp at this; omega
    · have hmem : (T, idS T) ∈ rest := by
        rcases List.mem_cons.mp hreg with h | h
        · exact absurd (by injection h with _ h2; exact h2.symm) hi
        · exact h
      obtain ⟨T', h1, h2⟩ := ih hmem (fun p hp => htab p (List.mem_cons_of_mem _ hp))
      exact ⟨T', by simp [lookupId, hi, h1], h2⟩

/-- … and the two embeddings of a `type` result agree with that id (low 32 bits, little-endian host). -/
theorem embed_capture_type (fc : FloatConv) (pw : Nat) (idF : Ty → Nat) (table : List (Ty × Nat))
    (m : Machine) (T' : Ty) (h : lookupId table (m.r0 % 2 ^ 32) = some T') :
    (capture fc pw table .type m).bind (embedCode fc pw .little idF .type) = some (.scalar 32 (idF T' % 2 ^ 32)) ∧
    ((capture fc pw table .type m).bind (intoBytes fc idF .little)).bind (readGlobal pw .little .type)
      = some (.scalar 32 (idF T' % 2 ^ 32)) := by
  have h256 : (256 : Nat) ^ 4 = 2 ^ 32 := by decide
  have ht : (leBytes 4 (idF T' % 2 ^ 32)).take 4 = leBytes 4 (idF T' % 2 ^ 32) := take_encode .little 4 _
  constructor
  · simp [capture, h, embedCode]
  · simp [capture, h, intoBytes, readGlobal, finalTy, Ty.isZeroSized, decode, ht, leVal_leBytes, h256]

/-! ## the headline statement -/

/-- **A comptime block yields what the same code yields at run time.** For every accepted result type
with a final type, whatever state the block's code leaves the machine in: the value the built program
observes — where the block is used inside a function body, and where it is the value of a global — is
the value the block computed (`blockValue`). Hypotheses: little-endian host and target; `f32`
results are not NaN (their payload may change in `f32 → f64 → f32`); the return buffer has the
`size` bytes that were allocated for it; the registers hold 64-bit values; a `str` result has no
interior NUL (by definition of the C string at the returned address). `void` results have no bytes
and are covered for uses inside function bodies. -/
theorem comptime_yields_runtime_value (fc : FloatConv) (hfc : FloatExact fc) (pw : Nat) (hpw : okPw pw = true)
    (idOf : Ty → Nat) (table : List (Ty × Nat)) (ty : Ty) (m : Machine)
    (_hacc : accepts ty = true)
    (hbuf : size pw ty ≤ m.buf.length) (h0 : m.r0 < 2 ^ 64) (h1 : m.r1 < 2 ^ 64)
    (hc : ∀ b ∈ m.cstr, b ≠ 0)
    (hnan : ∀ s, finalTy pw ty = some (.number 32 true s) → isNaN32 (m.f0 % 2 ^ 32) = false)
    (v : Observed) (hv : blockValue pw idOf table ty m = some v) :
    (capture fc pw table ty m).bind (embedCode fc pw .little idOf ty) = some v ∧
    (v ≠ .unit →
      ((capture fc pw table ty m).bind (intoBytes fc idOf .little)).bind (readGlobal pw .little ty) = some v) := by
  by_cases hty : ty = .type
  · subst hty
    simp only [blockValue, if_true] at hv
    cases hl : lookupId table (m.r0 % 2 ^ 32) with
    | none => simp [hl] at hv
    | some T' =>
      simp [hl] at hv; subst hv
      have := embed_capture_type fc pw idOf table m T' hl
      exact ⟨this.1, fun _ => this.2⟩
  · cases hstr : isStr ty with
    | true =>
      simp only [blockValue, hty, if_false, hstr, if_true] at hv
      injection hv with hv; subst hv
      have hf : finalTy pw ty = some .pointer := isStr_final pw ty hstr
      have := embed_capture_str fc pw idOf table m ty hty hstr hf hc .little
      exact ⟨this.1, fun _ => this.2⟩
    | false =>
      simp only [blockValue, hty, if_false, hstr] at hv
      cases hf : finalTy pw ty with
      | none => simp [hf] at hv
      | some f =>
        cases f with
        | void =>
          simp [hf] at hv; subst hv
          exact ⟨embed_capture_void fc pw idOf table m ty hty hstr hf .little, fun h => absurd rfl h⟩
        | pointer =>
          simp [hf] at hv; subst hv
          have := embed_capture_bytes fc pw idOf table m ty hty hstr hf hbuf .little
          exact ⟨this.1, fun _ => this.2.1⟩
        | number bits fl s =>
          have hbits := number_bits pw hpw ty hf
          cases fl with
          | true =>
            simp [hf] at hv; subst hv
            have hb : bits = 32 ∨ bits = 64 := by
              rcases hbits with h | h
              · exact absurd h.1 (by simp)
              · exact h.2
            have := embed_capture_float fc pw idOf table m ty bits s .little hfc hty hstr hf hb
              (fun h => hnan s (by rw [hf, h]))
            exact ⟨this.1, fun _ => this.2⟩
          | false =>
            have hb : bits = 8 ∨ bits = 16 ∨ bits = 32 ∨ bits = 64 ∨ bits = 128 := by
              rcases hbits with h | h
              · exact h.2
              · exact absurd h.1 (by simp)
            by_cases h128 : bits = 128
            · subst h128
              simp [hf, Nat.mod_eq_of_lt h0, Nat.mod_eq_of_lt h1] at hv; subst hv
              have := embed_capture_int128 fc pw idOf table m ty s hty hstr hf h0 h1
              exact ⟨this.1, fun _ => this.2⟩
            · simp [hf, h128] at hv; subst hv
              have := embed_capture_int fc pw idOf table m ty bits s .little hty hstr hf (by omega)
              exact ⟨this.1, fun _ => this.2⟩
where
  isStr_final (pw : Nat) : ∀ t : Ty, isStr t = true → finalTy pw t = some .pointer
    | .distinct u s, h => by
      have hs : isStr s = true := by simpa [isStr, Ty.absoluteTy] using h
      have hz : (Ty.distinct u s).isZeroSized = false := by
        simpa [Ty.isZeroSized] using isStr_notZero s hs
      simp [finalTy, hz, isStr_final pw s hs]
    | .enumVariant a b c s d, h => by
      have hs : isStr s = true := by simpa [isStr, Ty.absoluteTy] using h
      have hz : (Ty.enumVariant a b c s d).isZeroSized = false := by
        simpa [Ty.isZeroSized] using isStr_notZero s hs
      simp [finalTy, hz, isStr_final pw s hs]
    | .string, _ => by simp [finalTy, Ty.isZeroSized]
    | .notYetResolved, h | .unknown, h | .iint _, h | .uint _, h | .float _, h | .bool, h
    | .char, h | .anonArray _ _, h | .concreteArray _ _, h | .slice _, h | .pointer _ _, h | .type, h
    | .any, h | .rawPtr _, h | .rawSlice, h | .file _, h | .naivePolyFn _, h | .concreteFn _ _ _, h
    | .fnPointer _ _, h | .anonStruct _, h | .concreteStruct _ _, h | .enum _ _, h | .nil, h
    | .optional _, h | .errorUnion _ _, h | .void, h | .alwaysJumps, h => by
      simp [isStr, Ty.absoluteTy] at h
  isStr_notZero : ∀ t : Ty, isStr t = true → t.isZeroSized = false
    | .distinct _ s, h => by
      simpa [Ty.isZeroSized] using isStr_notZero s (by simpa [isStr, Ty.absoluteTy] using h)
    | .enumVariant _ _ _ s _, h => by
      simpa [Ty.isZeroSized] using isStr_notZero s (by simpa [isStr, Ty.absoluteTy] using h)
    | .string, _ => by simp [Ty.isZeroSized]
    | .notYetResolved, h | .unknown, h | .iint _, h | .uint _, h | .float _, h | .bool, h
    | .char, h | .anonArray _ _, h | .concreteArray _ _, h | .slice _, h | .pointer _ _, h | .type, h
    | .any, h | .rawPtr _, h | .rawSlice, h | .file _, h | .naivePolyFn _, h | .concreteFn _ _ _, h
    | .fnPointer _ _, h | .anonStruct _, h | .concreteStruct _ _, h | .enum _ _, h | .nil, h
    | .optional _, h | .errorUnion _ _, h | .void, h | .alwaysJumps, h => by
      simp [isStr, Ty.absoluteTy] at h

/-! ## non-vacuity -/

/-- `struct { a: u8, b: [2]i16, c: ?u32, d: enum { X: u16, Y } }` is accepted, pointer free, captured
as 17 data bytes on a 64-bit target. -/
def exTy : Ty :=
  .concreteStruct 1 (.cons 0 (.uint 8) (.cons 1 (.concreteArray 2 (.iint 16)) (.cons 2 (.optional (.uint 32))
    (.cons 3 (.enum 7 (.cons (.enumVariant 7 200 113 (.uint 16) 0) (.cons (.enumVariant 7 201 114 .void 1) .nil)))
      .nil))))

example : accepts exTy = true := by decide
example : finalTy 64 exTy = some .pointer := by decide
example : size 64 exTy = 17 := by decide
example : captureLabel 64 exTy = "data:17" := by decide
example : accepts (.optional (.pointer false (.uint 8))) = false := by decide
example : accepts (.distinct 3 .string) = true ∧ accepts (.optional .string) = false := by decide
example : finalTy 64 (.iint 128) = some (.number 128 false true) := by decide

end CapyV.C04
