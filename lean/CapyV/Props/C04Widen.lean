import CapyV.Model.ComptimeWiden
import CapyV.Proofs.Comptime
/-!
C04, globals annotated with a wider number type than their constant value: the program reads the
sign/zero-extension of what the block computed, whatever lies next to the global in memory
(`global_wider_int`); before fix ad641e3 the value read depended on the neighbouring data
(`old_global_wider_reads_neighbour`).
-/
namespace CapyV.C04Widen
open CapyV.Comptime

theorem extend_lt (signed : Bool) (f t v : Nat) (hft : f ≤ t) (hf : 0 < f) : extend signed f t v < 2 ^ t := by
  unfold extend
  have hv : v % 2 ^ f < 2 ^ f := Nat.mod_lt _ (Nat.two_pow_pos f)
  have hle : 2 ^ f ≤ 2 ^ t := Nat.pow_le_pow_right (by decide) hft
  simp only []
  split <;> omega

/-- **Headline.** For every byte order, every pair of widths `f ≤ t` out of 8/16/32/64, either
signedness of the value and every raw value `v` the block produced: the bytes stored for the global
decode, by a `t`-bit load, to the two's-complement extension of `v` — independently of what follows
the global in memory. -/
theorem global_wider_int (e : Endian) (signed : Bool) (f t v : Nat) (neighbour : List Nat)
    (hf : f = 8 ∨ f = 16 ∨ f = 32 ∨ f = 64) (ht : t = 8 ∨ t = 16 ∨ t = 32 ∨ t = 64) (hft : f ≤ t) :
    loadBits e t (widenIntBytes e signed f t (encode e (f / 8) (v % 2 ^ f)) ++ neighbour)
      = extend signed f t v := by
  have h256f : 256 ^ (f / 8) = 2 ^ f := pow256_of_bits (by omega)
  have h256t : 256 ^ (t / 8) = 2 ^ t := pow256_of_bits (by omega)
  have hlen : (widenIntBytes e signed f t (encode e (f / 8) (v % 2 ^ f))).length = t / 8 := by
    unfold widenIntBytes encode
    cases e <;> simp [leBytes_length]
  unfold loadBits
  rw [List.take_append_of_le_length (by omega), List.take_of_length_le (by omega)]
  unfold widenIntBytes
  rw [decode_encode, decode_encode, h256f, h256t, Nat.mod_mod]
  have hx : extend signed f t (v % 2 ^ f) = extend signed f t v := by
    unfold extend; simp [Nat.mod_mod]
  rw [hx]
  exact Nat.mod_eq_of_lt (extend_lt signed f t v hft (by omega))

/-- the extension is the mathematical value: an unsigned value is unchanged … -/
theorem extend_unsigned (f t v : Nat) : extend false f t v = v % 2 ^ f := by
  simp [extend]

/-- … and a negative signed value `v - 2^f` (raw pattern `v ≥ 2^(f-1)`) becomes `v - 2^f + 2^t` -/
theorem extend_signed_negative (f t v : Nat) (hv : v < 2 ^ f) (hneg : 2 ^ (f - 1) ≤ v) :
    extend true f t v = v + (2 ^ t - 2 ^ f) := by
  simp [extend, Nat.mod_eq_of_lt hv, hneg]

/-- **Pre-fix counterexample** (`M : i64 : comptime { N }` with `N : i32 = -5`): the same global reads
as two different values depending on the four bytes that follow it. -/
theorem old_global_wider_reads_neighbour :
    loadBits .little 64 (storeOld (encode .little 4 (2 ^ 32 - 5)) [0, 0, 0, 0])
      ≠ loadBits .little 64 (storeOld (encode .little 4 (2 ^ 32 - 5)) [0x6e, 0x69, 0x61, 0x6d]) ∧
    loadBits .little 64 (storeOld (encode .little 4 (2 ^ 32 - 5)) [0, 0, 0, 0]) ≠ extend true 32 64 (2 ^ 32 - 5) := by
  decide

example : loadBits .little 64 (widenIntBytes .little true 32 64 (encode .little 4 (2 ^ 32 - 5)) ++ [1, 2, 3])
    = 2 ^ 64 - 5 := by decide
example : extend false 8 64 200 = 200 := by decide

end CapyV.C04Widen
