import CapyV.Proofs.Literal
/-!
# C09 — literals denote exactly their written values or are rejected

Only property theorems and non-vacuity examples live here. The model (`CapyV.Literal`) is the
code **after** FIX.patch (i128 limit, isize check, `{uint}` widening threshold); the tables
`getMaxIntSizeI/U`, `weak*`, `escapeString/Char` are regenerated from the Rust source on every
run, so `accepts_iff_fits`, `default_keeps_value` and `escape_table_exact` are re-checked
against what the code says now.

Float literals are *not* covered here (Lean's `Float` is opaque): they are checked only by the
correspondence run (bit pattern vs Rust's own `str::parse`).
-/
namespace CapyV.C09
open CapyV.Literal CapyV.Generated

/-! ## integer spellings -/

/-- **Denotation.** Whatever number the lowering produces for a well-formed spelling is exactly
the number it spells (positional notation, separators ignored, mantissa × 10^exponent), and
it fits a u64. -/
theorem lowerInt_value (s : Spelling) (hwf : s.wf = true) (n : Nat)
    (h : lowerInt s.kind s.text = .ok n) : n = value s ∧ n < 2 ^ 64 := by
  rw [lowerInt_spec s hwf] at h
  by_cases hv : value s < U64
  · simp only [hv, if_true] at h
    have h' : value s = n := by simpa using h
    exact ⟨h'.symm, by rw [← h']; exact hv⟩
  · simp [hv] at h

/-- The lowering of a lexed literal never hits an `unwrap()` on `None`. -/
theorem lowerInt_no_panic (s : Spelling) (hwf : s.wf = true) :
    lowerInt s.kind s.text ≠ .panic := by
  rw [lowerInt_spec s hwf]
  by_cases hv : value s < U64 <;> simp [hv]

/-- **Rejection is exactly overflow**, for every well-formed spelling (full since the `0eN` fix). -/
theorem lowerInt_overflow_iff (s : Spelling) (hwf : s.wf = true) :
    lowerInt s.kind s.text = .outOfRange ↔ 2 ^ 64 ≤ value s := by
  rw [lowerInt_spec s hwf]
  have h64 : (2:Nat) ^ 64 = U64 := by decide
  rw [h64]
  by_cases hv : value s < U64
  · simp [hv]
  · simp [hv]; omega

/-- At the pin the statement was false: `0e20` spells 0 but `lowerIntOld` refuses it
(`10_u64.checked_pow(20)` overflows before the multiplication by 0); the repaired lowering accepts it. -/
theorem lowerIntOld_overflow_counterexample :
    ∃ s : Spelling, s.wf = true ∧ s.zeroTimesHugePower = true ∧ value s = 0 ∧
      lowerIntOld s.kind s.text = .outOfRange ∧ lowerInt s.kind s.text = .ok 0 :=
  ⟨.dec ['0'] (some (false, ['2', '0'])), by decide, by decide, by decide, by decide, by decide⟩

/-- A spelling is accepted by the lowering iff its value is below 2^64. -/
theorem lowerInt_accepts_iff (s : Spelling) (hwf : s.wf = true) :
    lowerInt s.kind s.text = .ok (value s) ↔ value s < 2 ^ 64 := by
  rw [lowerInt_spec s hwf]
  have h64 : (2:Nat) ^ 64 = U64 := by decide
  rw [h64]
  by_cases hv : value s < U64 <;> simp [hv]

/-! ## escapes, strings, chars -/

/-- Both escape tables of the code (regenerated from `lower_string_literal` and
`lower_char_literal`) are exactly the specified table: the twelve escapes with their
conventional values, nothing else. -/
theorem escape_table_exact (c : Nat) :
    escapeString c = specEscape c ∧ escapeChar c = specEscape c := by
  unfold specEscape
  split <;> simp_all [escapeString, escapeChar]

/-- A string literal all of whose escapes are escapes denotes exactly the characters it
spells, and produces no diagnostic. -/
theorem lowerString_value (comps : List Component) (t : List Nat)
    (h : specString comps = some t) : lowerString comps = (t, []) :=
  lowerString_of_spec comps t h (fun c => (escape_table_exact c).1)

/-- A string or char literal containing a backslash sequence that is not an escape is
rejected (`InvalidEscape`). -/
theorem invalid_escape_rejected (comps : List Component) (h : specString comps = none) :
    Diag.invalidEscape ∈ (lowerString comps).2 ∧ Diag.invalidEscape ∈ (lowerChar comps).2 := by
  refine ⟨lowerString_invalid comps h (fun c => (escape_table_exact c).1), ?_⟩
  have hm := charLoop_invalid comps h (fun c => (escape_table_exact c).2)
  by_cases h1 : (charLoop comps).2.1 < 1
  · simp [lowerChar, h1, hm]
  · by_cases h2 : (charLoop comps).2.1 = 1
    · have key : ∀ (p : Prop) [Decidable p] (a b : Nat × List Diag), Diag.invalidEscape ∈ a.2 →
          Diag.invalidEscape ∈ b.2 → Diag.invalidEscape ∈ (if p then a else b).2 := by
        intro p _ a b ha hb; split <;> assumption
      simp [lowerChar, h2]
      apply key
      · exact hm
      · simp [hm]
    · simp [lowerChar, h1, h2, hm]

/-- Diagnostics of a string literal are empty iff every escape in it is an escape. -/
theorem lowerString_accepted_iff (comps : List Component) :
    (lowerString comps).2 = [] ↔ specString comps ≠ none := by
  cases h : specString comps with
  | none =>
    have := (invalid_escape_rejected comps h).1
    constructor
    · intro h'; rw [h'] at this; simp at this
    · intro h'; exact absurd rfl h'
  | some t => simp [lowerString_value comps t h]

/-- A char literal spelling exactly one character with code point below 256 denotes that code
point and produces no diagnostic. -/
theorem lowerChar_value (comps : List Component) (c : Nat)
    (h : specString comps = some [c]) (hc : c < 256) : lowerChar comps = (c, []) := by
  have := charLoop_of_spec comps [c] h (fun c => (escape_table_exact c).2)
  simp [lowerChar, this, hc]

/-- A char literal that spells no character, several characters, or a character ≥ 256 is
rejected (some diagnostic). -/
theorem lowerChar_rejects (comps : List Component) (t : List Nat)
    (h : specString comps = some t) (hbad : ∀ c, t = [c] → 256 ≤ c) :
    (lowerChar comps).2 ≠ [] := by
  have := charLoop_of_spec comps t h (fun c => (escape_table_exact c).2)
  match t, hbad with
  | [], _ => simp [lowerChar, this]
  | [c], hbad =>
    have hc : ¬ c < 256 := by have := hbad c rfl; omega
    simp [lowerChar, this, hc]
  | _ :: _ :: r, _ => simp [lowerChar, this]

/-! ## acceptance at an integer type -/

/-- **Accepted iff it fits**: for each of the twelve integer types and every literal value
(literals are lowered into a u64), the range check of `expect_match` / `replace_weak_tys`
passes iff the value is in the type's two's-complement range (isize/usize: 64 bit). -/
theorem accepts_iff_fits (t : ITy) (ht : t ∈ allITys) (n : Nat) (hn : n < 2 ^ 64) :
    acceptsAt t n = true ↔ fits t n := by
  simp only [allITys, List.mem_cons, List.mem_nil_iff, or_false] at ht
  rcases ht with rfl | rfl | rfl | rfl | rfl | rfl | rfl | rfl | rfl | rfl | rfl | rfl <;>
    simp [acceptsAt, getMaxIntSize, getMaxIntSizeI, getMaxIntSizeU, fits] <;> omega

/-- An accepted literal keeps its written value at run time: the constant the code generator
emits at the annotated type, read back at that type, is the literal. -/
theorem accepted_keeps_value (t : ITy) (ht : t ∈ allITys) (n : Nat) (hn : n < 2 ^ 64)
    (h : acceptsAt t n = true) : finalValue t n = (n : Int) := by
  simp only [allITys, List.mem_cons, List.mem_nil_iff, or_false] at ht
  rcases ht with rfl | rfl | rfl | rfl | rfl | rfl | rfl | rfl | rfl | rfl | rfl | rfl <;>
    simp [acceptsAt, getMaxIntSize, getMaxIntSizeI, getMaxIntSizeU] at h <;>
    simp [finalValue, finalBits, finalSigned] <;> omega

/-! ## literals without annotation -/

/-- **Defaulting keeps the value**: whatever type the defaulting rules give an unannotated
literal (local `x := n` or global `g :: n`), the value observed at run time is `n`. -/
theorem default_keeps_value (global : Bool) (n : Nat) (hn : n < 2 ^ 64) (t : ITy)
    (h : defaultTy global n = some t) : finalValue t n = (n : Int) := by
  unfold defaultTy reinferLit at h
  simp only [weakUIntWidenAbove, weakIIntWidenAbove, weakUIntWidenTo, weakIIntWidenTo] at h
  by_cases hbig : n > 2147483647
  · simp [hbig, ITy.weak] at h
    subst h
    simp [finalValue, finalBits, finalSigned]
    omega
  · have hsmall : n ≤ 2147483647 := by omega
    cases global
    · simp [hbig, ITy.weak] at h
      subst h
      simp [finalValue, finalBits, finalSigned, weakFinalBits, weakFinalSigned]
      omega
    · simp [hbig, ITy.weak, acceptsAt, getMaxIntSize, getMaxIntSizeI] at h
      subst h
      simp [finalValue, finalBits, finalSigned]
      omega

/-- … and the defaulting rules never reject a literal that lowered (every u64 has a default
type that holds it). -/
theorem default_accepts (global : Bool) (n : Nat) : (defaultTy global n).isSome = true := by
  unfold defaultTy reinferLit
  simp only [weakUIntWidenAbove, weakIIntWidenAbove, weakUIntWidenTo, weakIIntWidenTo]
  by_cases hbig : n > 2147483647
  · simp [hbig, ITy.weak]
  · cases global <;> simp [hbig, ITy.weak, acceptsAt, getMaxIntSize, getMaxIntSizeI] <;> omega

/-- The operand of a unary minus (`x := -n`, the literal becomes `{int}`) keeps its value too. -/
theorem default_neg_keeps_value (n : Nat) (hn : n < 2 ^ 63) :
    finalValue (defaultTyNeg n) n = (n : Int) := by
  unfold defaultTyNeg reinferLit
  simp only [weakUIntWidenAbove, weakIIntWidenAbove, weakUIntWidenTo, weakIIntWidenTo]
  by_cases hbig : n > 2147483647
  · simp [hbig, finalValue, finalBits, finalSigned]; omega
  · simp [hbig, finalValue, finalBits, finalSigned, weakFinalBits, weakFinalSigned]; omega

/-! ## non-vacuity -/

example : (Spelling.dec "4_294_967_295".toList none).wf = true ∧
    value (.dec "4_294_967_295".toList none) = 4294967295 := by decide
example : lowerInt .dec "1_8e1_8".toList = .ok 18000000000000000000 := by decide
example : lowerInt .dec "18446744073709551616".toList = .outOfRange := by decide
example : lowerInt .hex "0xFFFFffffFFFFffff".toList = .ok 18446744073709551615 := by decide
example : lowerInt .bin "0b102".toList = .outOfRange := by decide
example : lowerInt .hex "1x".toList = .panic := by decide
example : acceptsAt ⟨true, 128⟩ 9223372036854775808 = true ∧ acceptsAt ⟨true, 255⟩ 9223372036854775808 = false := by
  decide
example : defaultTy false 3000000000 = some ⟨false, 64⟩ ∧ defaultTy true 2147483647 = some ⟨true, 32⟩ := by
  decide
example : specString [.contents [97], .escape 110, .escape 113] = none ∧
    specString [.contents [97], .escape 110] = some [97, 10] := by decide
example : lowerChar [.escape 113] = (0, [.invalidEscape]) ∧ lowerChar [.contents [233]] = (233, []) ∧
    lowerChar [.contents [8364]] = (0, [.nonU8]) := by decide

end CapyV.C09
