import CapyV.Model.EvalOrder
/-!
C01 — left-to-right evaluation: the effects of an expression happen in the order its leaves are
written, and every leaf sees the effects of all leaves written before it (the k-th leaf yields
`c + k`). This is the statement the evaluation-order stream of C01 compares the compiler with
(seeded change C01_2 evaluated struct literal members in declaration order).
-/
namespace CapyV.C01Order
open CapyV.EvalOrder

mutual
theorem run_spec : (e : E) → (c : Nat) →
    (run e c).1 = tags e ∧ (run e c).2.1 = List.range' (c + 1) (tags e).length ∧
      (run e c).2.2 = c + (tags e).length
  | .tick t, c => by simp [run, tags, List.range']
  | .node ks, c => by simpa [run, tags] using runs_spec ks c
theorem runs_spec : (ks : List E) → (c : Nat) →
    (runs ks c).1 = tagss ks ∧ (runs ks c).2.1 = List.range' (c + 1) (tagss ks).length ∧
      (runs ks c).2.2 = c + (tagss ks).length
  | [], c => by simp [runs, tagss, List.range']
  | k :: ks, c => by
    obtain ⟨h1, h2, h3⟩ := run_spec k c
    obtain ⟨g1, g2, g3⟩ := runs_spec ks (run k c).2.2
    rw [h3] at g1 g2 g3
    refine ⟨?_, ?_, ?_⟩
    · simp [runs, tagss, h1, h3, g1]
    · have : (runs (k :: ks) c).2.1 = (run k c).2.1 ++ (runs ks (run k c).2.2).2.1 := by simp [runs]
      rw [this, h2, h3, g2]
      simp only [tagss, List.length_append]
      have hr := List.range'_append (s := c + 1) (m := (tags k).length) (n := (tagss ks).length) (step := 1)
      have e1 : c + 1 + 1 * (tags k).length = c + (tags k).length + 1 := by omega
      rw [e1] at hr
      exact hr
    · have : (runs (k :: ks) c).2.2 = (runs ks (run k c).2.2).2.2 := by simp [runs]
      rw [this, h3, g3]
      simp only [tagss, List.length_append]; omega
end

/-- **Effects happen in written order**, whatever structure the expression has. -/
theorem effects_in_written_order (e : E) (c : Nat) : (run e c).1 = tags e := (run_spec e c).1

/-- **Every leaf sees all earlier leaves**: the leaves yield `c+1, c+2, …` in written order. -/
theorem leaves_see_earlier_effects (e : E) (c : Nat) :
    (run e c).2.1 = List.range' (c + 1) (tags e).length := (run_spec e c).2.1

/-- `Pair.{ second = next(), first = next() }`: tags as written, `second` gets 1 and `first` gets 2 -/
example : run (.node [.tick 20, .tick 10]) 0 = ([20, 10], [1, 2], 2) := by decide

end CapyV.C01Order
