import CapyV.Proofs.Abi
/-!
# C19 — calls across the C boundary pass values intact (x86-64 System V)

`CapyV.Abi` is the transcription of `codegen/src/convert/abi/x86_64.rs` (with FIX.patch: function
pointers are INTEGER) plus a model of Cranelift's register assignment for the signature it
builds; `CapyV.SysV` is the psABI written from its text. `Good t`: `t` is in the fragment
(`frag`: integers of every width up to 64 and pointer-sized, bool, char, f32, f64, `^T`, `rawptr`,
`str`, function pointers, optional pointers, non-empty arrays and structs of those, nested,
distinct wrappers), well-formed (C17's `wf`), smaller than 2^31 bytes, and laid out like the C type
(`cLayoutAgrees`: no nested struct member with tail padding).
-/
namespace CapyV.C19
open CapyV CapyV.Layout CapyV.Abi CapyV.SysV

/-- `classify_arg` returns exactly the psABI classification: MEMORY for more than two eightbytes,
otherwise the psABI class of each eightbyte (merge of the classes of the scalar fields lying in
it), NO_CLASS for the unused entries of its eight-entry array; it never panics. -/
theorem classify_eq_psabi (t : Ty) (h : Good t) :
    classifyArg 64 t = ofPsabi (SysV.classify t) :=
  classifyArg_eq t h.1 h.eightbytes

/-- The registers the loop of `fn_ty_to_abi` charges an argument with are the psABI's demand. -/
theorem needed_registers_eq_psabi (t : Ty) (h : Good t) (cs : List PClass)
    (hc : SysV.classify t = some cs) :
    ∃ cls, classifyArg 64 t = .classes cls ∧
      countClass .int cls = SysV.count .integer cs ∧ countClass .sse cls = SysV.count .sse cs := by
  refine ⟨pad8 cs, ?_, countClass_pad8_int cs, countClass_pad8_sse cs⟩
  rw [classify_eq_psabi t h, hc]; rfl

/-- For every signature over the fragment — any number of parameters, any result — `fn_ty_to_abi`
does not panic, and the registers / stack slots Cranelift's System V lowering gives to the
signature it builds are exactly the psABI's: INTEGER eightbytes in rdi, rsi, rdx, rcx, r8, r9,
SSE eightbytes in xmm0–7, an argument whose eightbytes do not all get registers entirely on the
stack without consuming any, MEMORY arguments on the stack in order, small results in
rax/rdx/xmm0/xmm1, large results through a hidden pointer that takes rdi. -/
theorem register_assignment_eq_psabi (params : List Ty) (ret : Ty)
    (hp : ∀ t ∈ params, Good t) (hr : ret = .void ∨ Good ret) :
    ∃ abi, fnTyToAbi 64 params ret = some abi ∧
      convAssign (clAssign abi) = SysV.assign params (if ret = .void then none else some ret) :=
  assignment_eq params ret hp hr

/-- On the pinned tree (`Ty::FunctionPointer` falls through to `_ => {}` in `classify_eight_byte`)
the statement is false: a function pointer is classified NO_CLASS … -/
theorem classify_eq_psabi_pinned_counterexample :
    classifyArgG false 64 (.fnPointer .nil (.iint 64)) ≠ ofPsabi (SysV.classify (.fnPointer .nil (.iint 64))) := by
  decide

/-- … so it is not charged a register, and `(fp, i64, i64, i64, i64, struct {i64, i64})` hands the
struct's second half to the stack while gcc expects the whole struct there … -/
theorem register_assignment_pinned_counterexample :
    let s := Ty.concreteStruct 1 (.cons 100 (.iint 64) (.cons 101 (.iint 64) .nil))
    let ps := [Ty.fnPointer .nil (.iint 64), .iint 64, .iint 64, .iint 64, .iint 64, s]
    ∃ abi, fnTyToAbiG false 64 ps .void = some abi ∧
      convAssign (clAssign abi) ≠ SysV.assign ps none ∧
      (clAssign abi).args.getLast? = some (5, [.gpr 5, .stack 8]) ∧
      (SysV.assign ps none).args.getLast? = some (5, [.stack 16]) := by
  refine ⟨_, rfl, ?_, ?_, ?_⟩ <;> decide

/-- … and a struct whose first eightbyte holds only a function pointer makes `split_aggregate`
unwrap `None` (compiler panic). -/
theorem split_aggregate_pinned_panics :
    fnTyToAbiG false 64 [.concreteStruct 1 (.cons 100 (.fnPointer .nil (.iint 64)) .nil)] .void = none := by
  decide

/-! ### spill slots, stores and loads of `PassMode::Cast` -/

/-- After 664a588 every register-wide store of a `Cast` argument (`build_fn`) or result
(`handle_ret`), and every load of a `Cast` result from its slot, lands inside the spill slot —
for every type and every component list. -/
theorem cast_footprint_within_slot (orig : Ty) (tys : List IrTy) :
    ∀ a ∈ castAccesses tys 0, a.1 + a.2 ≤ castSlotSize 64 orig tys := by
  intro a ha
  have := castAccesses_end tys 0 a ha
  unfold castSlotSize
  omega

/-- Before 664a588 (slot = `orig.size()`) it did not: a 3-byte struct is stored with a 4-byte access. -/
theorem cast_footprint_old_slot_counterexample :
    let t := Ty.concreteStruct 1 (.cons 100 (.uint 8) (.cons 101 (.uint 8) (.cons 102 (.uint 8) .nil)))
    ∃ cls tys, classifyArg 64 t = .classes cls ∧ splitAggregate 64 t cls = some tys ∧
      ∃ a ∈ castAccesses tys 0, a.1 + a.2 > castSlotSizeOld 64 t tys :=
  ⟨[.int, .noClass, .noClass, .noClass, .noClass, .noClass, .noClass, .noClass], [.i32],
    by decide, by decide, (0, 4), by decide, by decide⟩

/-- `get_arg_list` loads `ty.bytes()` per component from the *caller's object*: inside the object
whenever the component widths add up to no more than its size … -/
theorem cast_load_within_object_partial (orig : Ty) (tys : List IrTy)
    (h : sumBytes tys ≤ size 64 orig) :
    ∀ a ∈ castAccesses tys 0, a.1 + a.2 ≤ size 64 orig := by
  intro a ha
  have := castAccesses_end tys 0 a ha
  omega

/-- … but not in general: the 3-byte struct is *read* with a 4-byte load (a read past the object,
not a write; it cannot change a value that crosses the boundary). -/
theorem cast_load_within_object_counterexample :
    let t := Ty.concreteStruct 1 (.cons 100 (.uint 8) (.cons 101 (.uint 8) (.cons 102 (.uint 8) .nil)))
    ∃ cls tys, classifyArg 64 t = .classes cls ∧ splitAggregate 64 t cls = some tys ∧
      ∃ a ∈ castAccesses tys 0, a.1 + a.2 > size 64 t :=
  ⟨[.int, .noClass, .noClass, .noClass, .noClass, .noClass, .noClass, .noClass], [.i32],
    by decide, by decide, (0, 4), by decide, by decide⟩

/-- Outside `cLayoutAgrees` Capy and C disagree about the layout itself (not about the calling
convention): in `struct { struct { i64, i8 }, i8 }` Capy puts the last field at offset 9, inside
what C (`sizeof (struct { i64, i8 }) = 16`) treats as tail padding of the inner struct. -/
theorem c_layout_nested_tail_padding_counterexample :
    let inner := Ty.concreteStruct 1 (.cons 100 (.iint 64) (.cons 101 (.iint 8) .nil))
    let ms := Members.cons 100 inner (.cons 101 (.iint 8) .nil)
    structOffsets 64 ms 0 = [0, 9] ∧ SysV.sizeofC inner = 16 ∧ cLayoutAgrees (.concreteStruct 2 ms) = false := by
  decide

/-! ### non-vacuity -/

/-- `struct { a: f32, b: [3]i8, c: f64 }`, `struct { p: ?^i32, f: () -> i64 }`, `struct { x: [5]f64 }` -/
def exMixed : Ty := .concreteStruct 1 (.cons 100 (.float 32) (.cons 101 (.concreteArray 3 (.iint 8)) (.cons 102 (.float 64) .nil)))
def exPtrs : Ty := .concreteStruct 2 (.cons 100 (.optional (.pointer false (.iint 32))) (.cons 101 (.fnPointer .nil (.iint 64)) .nil))
def exBig : Ty := .concreteStruct 3 (.cons 100 (.concreteArray 5 (.float 64)) .nil)

example : Good exMixed := ⟨by decide, by decide, by decide, by decide⟩
example : Good exPtrs := ⟨by decide, by decide, by decide, by decide⟩
example : Good exBig := ⟨by decide, by decide, by decide, by decide⟩
example : SysV.classify exMixed = some [.integer, .sse] := by decide
example : SysV.classify exBig = none := by decide
example : classifyArg 64 exMixed = .classes [.int, .sse, .noClass, .noClass, .noClass, .noClass, .noClass, .noClass] := by decide
/-- registers run out: the two-INTEGER struct goes to the stack whole, the later `i32` still gets r9 -/
example : SysV.assign [.iint 64, .iint 64, .iint 64, .iint 64, .iint 64, exPtrs, .iint 32, exMixed] (some exBig) =
    { ret := .sret,
      args := [(0, [.gpr 1]), (1, [.gpr 2]), (2, [.gpr 3]), (3, [.gpr 4]), (4, [.gpr 5]),
               (5, [.stack 16]), (6, [.stack 8]), (7, [.stack 16])] } := by decide

end CapyV.C19
