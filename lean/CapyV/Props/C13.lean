import CapyV.Proofs.TyRel
/-!
# C13 — distinct types, enum variants and named structs are nominal

Statements about `CapyV.Ty.{canFitInto, canCastTo}` (`Model/TyRel.lean`, the transcription of
`Ty::can_fit_into` / `Ty::can_cast_to`), for ALL types.  `isNominal a` = `a` is a distinct type, an
enum variant type or a named struct.  The exceptions of the property text appear as explicit
cases: `any` / `Unknown` accept everything (`nominal_into_any_unknown`), a variant fits its own
enum (`variant_fit_enum_iff`), optional / error union reduce to their components, and the reverse
direction underlying → distinct (which the property does not forbid) is the second disjunct of
`nominal_into_nominal_partial`.  Weak (untyped-literal) types are never nominal, so they only occur
on the provided side of that reverse direction.

One clause is FALSE of the current code: a named struct is accepted where a VARIANT whose payload
is a *different but structurally identical* named struct is expected
(`nominal_into_nominal_counterexample`).
-/
namespace CapyV.C13
open CapyV CapyV.Ty

/-- distinct → distinct: exactly when the uids agree -/
theorem distinct_fit_iff_uid (u u' : Nat) (s t : Ty) :
    canFitInto (.distinct u s) (.distinct u' t) = true ↔ u = u' := by
  rw [canFitInto.eq_def]
  split
  · rename_i h; cases h; simp
  · simp

/-- variant → variant: exactly when the variant uids agree -/
theorem variant_fit_iff_uid (eu n u d eu' n' u' d' : Nat) (s t : Ty) :
    canFitInto (.enumVariant eu n u s d) (.enumVariant eu' n' u' t d') = true ↔ u = u' := by
  rw [canFitInto.eq_def]
  split
  · rename_i h; cases h; simp
  · simp

/-- variant → enum: exactly into its own enum -/
theorem variant_fit_enum_iff (eu n u d uid : Nat) (s : Ty) (vs : Tys) :
    canFitInto (.enumVariant eu n u s d) (.enum uid vs) = true ↔ eu = uid := by
  rw [canFitInto.eq_def]; simp

/-- named struct → named struct: exactly when the uids agree (members are irrelevant) -/
theorem struct_fit_iff_uid (u u' : Nat) (ms ns : Members) :
    canFitInto (.concreteStruct u ms) (.concreteStruct u' ns) = true ↔ u = u' := by
  rw [canFitInto.eq_def]
  split
  · rename_i h; cases h; simp
  · simp

/-- A value of a nominal type is never accepted where a primitive, array, slice, pointer or
function type is expected — in particular not where its own underlying type is expected, when
that is such a type. -/
theorem nominal_not_into_plain (a b : Ty) (ha : isNominal a = true) (hb : plainHead b = true) :
    canFitInto a b = false := by
  cases a <;> simp [isNominal] at ha <;>
  cases b <;> simp [plainHead] at hb <;>
  (rw [canFitInto.eq_def]; simp) <;> (rw [isFuncEquiv.eq_def]; simp)

/-- a distinct type never fits its own underlying type when that is a primitive, array, slice,
pointer, function, named struct or variant type (for a distinct of a distinct see
`distinct_fit_iff_uid`; `any` / `Unknown` / optional / error union are covered by the
exception and reduction theorems below) -/
theorem distinct_not_into_underlying (u : Nat) (s : Ty)
    (hs : plainHead s = true ∨ isConcreteStruct s = true ∨ isEnumVariant s = true) :
    canFitInto (.distinct u s) s = false := by
  rcases hs with hs | hs | hs
  · exact nominal_not_into_plain _ _ rfl hs
  · cases s <;> simp [isConcreteStruct] at hs
    rw [canFitInto.eq_def]; simp
    rw [isFuncEquiv.eq_def]; simp
  · cases s <;> simp [isEnumVariant] at hs
    rw [canFitInto.eq_def]; simp
    rw [isFuncEquiv.eq_def]; simp

/-- distinct / variant values are not accepted as anonymous structs or (foreign) enums; a named
struct is accepted as an ANONYMOUS struct type exactly when the members are functionally
equivalent in order (anonymous struct types only arise from `.{ … }` literals) -/
theorem nominal_into_anon_struct (a : Ty) (ns : Members) (ha : isNominal a = true) :
    canFitInto a (.anonStruct ns) =
      match a with
      | .concreteStruct _ ms => ms.length == ns.length && membersFuncEquiv ms ns false
      | _ => false := by
  cases a <;> simp [isNominal] at ha <;> (rw [canFitInto.eq_def]; simp) <;>
    (try rw [isFuncEquiv.eq_def]) <;> (try simp)

theorem distinct_struct_not_into_enum (a : Ty) (uid : Nat) (vs : Tys) (ha : isNominal a = true)
    (hv : isEnumVariant a = false) : canFitInto a (.enum uid vs) = false := by
  cases a <;> simp [isNominal] at ha <;> simp [isEnumVariant] at hv <;>
    (rw [canFitInto.eq_def]; simp) <;> (rw [isFuncEquiv.eq_def]; simp)

/-- the blanket exceptions: `any` and `Unknown` accept everything -/
theorem nominal_into_any_unknown (a : Ty) :
    canFitInto a .any = true ∧ canFitInto a .unknown = true := by
  constructor
  · rw [canFitInto.eq_def]; split
    · rfl
    · split <;> first | rfl | contradiction | (simp_all; done)
  · rw [canFitInto.eq_def]; split
    · rfl
    · split <;> first | rfl | contradiction | (simp_all; done)

/-- accepted into `?T` only via `T` -/
theorem fit_optional_reduces (a s : Ty) (ha : isNominal a = true) :
    canFitInto a (.optional s) = canFitInto a s := by
  cases a <;> simp [isNominal] at ha <;> (rw [canFitInto.eq_def]; simp)

/-- accepted into `E!T` only via `E` or `T` -/
theorem fit_errunion_reduces (a e p : Ty) (ha : isNominal a = true) :
    canFitInto a (.errorUnion e p) = (canFitInto a e || canFitInto a p) := by
  cases a <;> simp [isNominal] at ha <;> (rw [canFitInto.eq_def]; simp)

def S1 : Ty := .concreteStruct 1 (.cons 100 (.iint 32) .nil)
def S2 : Ty := .concreteStruct 2 (.cons 100 (.iint 32) .nil)
def VS2 : Ty := .enumVariant 23 200 369 S2 0

/-- FALSE in full: a nominal value accepted where another nominal type is expected has the same
kind and uid, or fits that type's underlying type (underlying → distinct / variant, the direction
the property does not forbid).  Witness: the named struct `S1` is accepted where the variant
`E.V` with payload `S2` (structurally identical, different struct) is expected although `S1` does
not fit `S2`: `can_fit_into` has no `(_, EnumVariant)` arm and falls through to
`is_functionally_equivalent_to`, which ignores struct uids.  `x : E.V = s1;` compiles. -/
theorem nominal_into_nominal_counterexample :
    ¬ (∀ a b : Ty, isNominal a = true → isNominal b = true → canFitInto a b = true →
        nominalKey a = nominalKey b ∨ ∃ t, underlying b = some t ∧ canFitInto a t = true) := by
  intro h
  have hfit : canFitInto S1 VS2 = true := by
    simp [canFitInto, isFuncEquiv, membersFuncEquiv, S1, S2, VS2, Members.length]
  have hno : canFitInto S1 S2 = false := by simp [canFitInto, S1, S2]
  rcases h S1 VS2 rfl rfl hfit with hk | ⟨t, ht, hft⟩
  · simp [nominalKey, S1, VS2] at hk
  · simp [underlying, VS2] at ht
    subst ht
    rw [hno] at hft
    cases hft

/-- … and it holds for every other combination (provided type not a named struct, or expected
type not a variant). -/
theorem nominal_into_nominal_partial (a b : Ty) (ha : isNominal a = true) (hb : isNominal b = true)
    (hg : (isConcreteStruct a && isEnumVariant b) = false) (h : canFitInto a b = true) :
    nominalKey a = nominalKey b ∨ ∃ t, underlying b = some t ∧ canFitInto a t = true :=
  nominal_into_nominal_aux a b ha hb hg h

/-- Explicit casts between a distinct type and its underlying type are accepted, both ways.
(That they preserve the value is `castNum`'s identity branch / `cast_into_memory`'s
functionally-equivalent branch in code generation: C08, not part of this model.) -/
theorem cast_distinct_underlying (u : Nat) (s : Ty) :
    canCastTo (.distinct u s) s = true ∧ canCastTo s (.distinct u s) = true :=
  cast_distinct_aux _ s (Nat.le_refl _) u

/-! ## non-vacuity -/
example : isNominal S1 = true ∧ isNominal VS2 = true := ⟨rfl, rfl⟩
example : plainHead (.iint 32) = true := rfl
example : canFitInto (.uint 0) (.distinct 11 (.iint 32)) = true := by simp [canFitInto]
example : canFitInto (.distinct 11 (.iint 32)) (.iint 32) = false :=
  nominal_not_into_plain _ _ rfl rfl
example : canFitInto (.iint 32) (.distinct 11 (.iint 32)) = true := by simp [canFitInto]

end CapyV.C13
