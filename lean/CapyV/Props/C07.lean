import CapyV.Model.Gate
/-!
# C07 — a program is built if and only if no error was reported

The gate logic of `compile_file`, stated outright. The stages' own behaviour (that the front
end flags exactly the erroneous programs, that code generation of accepted programs succeeds)
is not provable here: it is what the correspondence run checks on near-valid programs.
-/
namespace CapyV.C07
open CapyV.Gate

/-- With exactly one entry point, consistent unsafe-tracking (`anyUnsafe → frontErrors`, the
second sentence of the property) and a code generator that does not fail, an object file is
produced exactly when the front end reported no error. -/
theorem object_iff_no_error (s : Stages) (hmain : s.mainCount = 1) (hgen : s.codegenErr = false)
    (hunsafe : s.anyUnsafe = true → s.frontErrors = true) :
    (gate s).objectWritten = true ↔ s.frontErrors = false := by
  unfold gate
  cases hf : s.frontErrors <;> cases hu : s.anyUnsafe <;> simp_all [Result.objectWritten]
  all_goals (cases s.noExec <;> cases s.linkFail <;> simp)

/-- Errors always stop the build, whatever the later stages would do. -/
theorem errors_build_nothing (s : Stages) (h : s.frontErrors = true) :
    gate s = .rejected ∧ (gate s).objectWritten = false ∧ (gate s).exitStatus = 1 := by
  simp [gate, h, Result.objectWritten, Result.exitStatus]

/-- No errors, one `main`, nothing flagged, working back end and linker: the executable is built
and the compiler exits with status 0. -/
theorem clean_program_is_built (s : Stages) (h1 : s.frontErrors = false) (h2 : s.anyUnsafe = false)
    (h3 : s.mainCount = 1) (h4 : s.codegenErr = false) (h5 : s.linkFail = false) (h6 : s.noExec = false) :
    gate s = .built := by
  simp [gate, h1, h2, h3, h4, h5, h6]

/-- The hypothesis `codegenErr = false` of `object_iff_no_error` is needed: an internal
code-generation error yields NO object and exit status 0 although no error was reported. -/
theorem cranelift_error_exit0_counterexample :
    ∃ s : Stages, s.frontErrors = false ∧ s.mainCount = 1 ∧ s.anyUnsafe = false ∧
      (gate s).objectWritten = false ∧ (gate s).exitStatus = 0 :=
  ⟨⟨false, false, 1, true, false, false⟩, by decide⟩

/-- The hypothesis on unsafe-tracking is needed too: something flagged unsafe without an error
makes the compiler panic on its own assertion instead of building. -/
theorem unsafe_without_error_panics (s : Stages) (h1 : s.frontErrors = false) (h2 : s.anyUnsafe = true) :
    gate s = .assertPanic := by
  simp [gate, h1, h2]

/-! non-vacuity -/
example : gate ⟨false, false, 1, false, false, false⟩ = .built := by decide
example : gate ⟨true, true, 1, false, false, false⟩ = .rejected := by decide

end CapyV.C07
