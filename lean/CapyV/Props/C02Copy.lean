import CapyV.Model.CopyLang
/-!
C02, second half of the statement: *"Aggregates are copied on assignment and on argument passing,
so mutating one copy is never visible through another copy."*

Theorems about `CapyV.Copy.run`, the model every generated copy program is compared with:
`runFrom_frame` (an operation sequence changes only the variables it writes), `copy_independent`
(a copy keeps the value its source had when it was made, whatever is done to any other variable
afterwards, for every syntactic form of the definition), `source_unaffected_by_copy_writes`,
`set_cells` (a scalar write changes exactly the cell it names).
-/
namespace CapyV.C02Copy
open CapyV.Copy

/-- the variable an operation writes -/
def writes : Op → Option Nat
  | .init x _ => some x
  | .lit x _ => some x
  | .defn _ dst _ => some dst
  | .set x _ _ => some x
  | .assign dst _ => some dst.var
  | .obs _ _ => none

theorem lookup_update_same (x : Nat) (v : List Int) (st : Store) : lookup x (update x v st) = some v := by
  induction st with
  | nil => simp [update, lookup]
  | cons hd tl ih =>
    obtain ⟨y, w⟩ := hd
    by_cases h : x = y
    · simp [update, lookup, h]
    · simp [update, lookup, h, ih]

theorem lookup_update_ne (x y : Nat) (v : List Int) (st : Store) (h : y ≠ x) :
    lookup y (update x v st) = lookup y st := by
  induction st with
  | nil => simp [update, lookup, h]
  | cons hd tl ih =>
    obtain ⟨z, w⟩ := hd
    by_cases hxz : x = z
    · subst hxz; simp [update, lookup, h]
    · by_cases hyz : y = z
      · simp [update, lookup, hxz, hyz]
      · simp [update, lookup, hxz, hyz, ih]

theorem writePlace_frame {st st' : Store} {x off : Nat} {vs : List Int} (h : writePlace st x off vs = some st')
    (y : Nat) (hy : y ≠ x) : lookup y st' = lookup y st := by
  unfold writePlace at h
  split at h
  · simp at h
  · split at h
    · simp at h; subst h; exact lookup_update_ne x y _ st hy
    · simp at h

/-- one step changes only the variable it writes -/
theorem step_frame {st st' : Store} {op : Op} {out : List Int} (h : step st op = some (st', out))
    (y : Nat) (hy : writes op ≠ some y) : lookup y st' = lookup y st := by
  cases op with
  | init x cells =>
    simp [step] at h; obtain ⟨h1, _⟩ := h; subst h1
    exact lookup_update_ne x y _ st (by intro e; apply hy; simp [writes, e])
  | lit x srcs =>
    simp only [step] at h
    split at h
    · split at h
      · simp at h; obtain ⟨h1, _⟩ := h; subst h1
        exact lookup_update_ne x y _ st (by intro e; apply hy; simp [writes, e])
      · simp at h
    · simp at h
  | defn f dst src =>
    simp only [step] at h
    split at h
    · simp at h
    · simp at h; obtain ⟨h1, _⟩ := h; subst h1
      exact lookup_update_ne dst y _ st (by intro e; apply hy; simp [writes, e])
  | set x off v =>
    simp only [step, Option.map_eq_some_iff] at h
    obtain ⟨s1, hw, he⟩ := h
    simp at he; obtain ⟨h1, _⟩ := he; subst h1
    exact writePlace_frame hw y (by intro e; apply hy; simp [writes, e])
  | assign dst src =>
    simp only [step] at h
    split at h
    · simp at h
    · split at h
      · simp only [Option.map_eq_some_iff] at h
        obtain ⟨s1, hw, he⟩ := h
        simp at he; obtain ⟨h1, _⟩ := he; subst h1
        exact writePlace_frame hw y (by intro e; apply hy; simp [writes, e])
      · simp at h
  | obs x off =>
    simp only [step] at h
    split at h
    · simp at h; obtain ⟨h1, _⟩ := h; subst h1; rfl
    · simp at h

/-- **Frame**: a whole operation sequence changes only the variables it writes. -/
theorem runFrom_frame (ops : List Op) : ∀ {st st' : Store} {out : List Int},
    runFrom st ops = some (st', out) → ∀ y, (∀ op ∈ ops, writes op ≠ some y) → lookup y st' = lookup y st := by
  induction ops with
  | nil => intro st st' out h y _; simp [runFrom] at h; obtain ⟨h1, _⟩ := h; subst h1; rfl
  | cons op rest ih =>
    intro st st' out h y hy
    simp only [runFrom] at h
    split at h
    · simp at h
    · rename_i s1 o1 hs
      split at h
      · simp at h
      · rename_i s2 o2 hr
        simp at h; obtain ⟨h1, _⟩ := h; subst h1
        rw [ih hr y (fun op hop => hy op (List.mem_cons_of_mem _ hop))]
        exact step_frame hs y (hy op (List.mem_cons_self))

/-- **Copy independence** (headline). A definition `dst <form> src`, in any of its syntactic forms,
gives `dst` the cells `src` holds at that moment; afterwards, whatever sequence of operations runs
— writes to the source variable, to any other variable, through pointers, aggregate assignments —
as long as none of them writes `dst` itself, `dst` still holds exactly those cells. -/
theorem copy_independent (form dst : Nat) (src : Place) (st st1 st2 : Store) (o1 out : List Int)
    (vs : List Int) (ops : List Op)
    (hsrc : readPlace st src = some vs)
    (hdef : step st (.defn form dst src) = some (st1, o1))
    (hrun : runFrom st1 ops = some (st2, out))
    (hnow : ∀ op ∈ ops, writes op ≠ some dst) :
    lookup dst st2 = some vs := by
  rw [runFrom_frame ops hrun dst hnow]
  simp only [step, hsrc] at hdef
  simp at hdef; obtain ⟨h1, _⟩ := hdef; subst h1
  exact lookup_update_same dst vs st

/-- the other direction: writing the copy (or anything else) never changes the source variable -/
theorem source_unaffected_by_copy_writes (form dst : Nat) (src : Place) (st st1 st2 : Store)
    (o1 out : List Int) (ops : List Op) (hne : dst ≠ src.var)
    (hdef : step st (.defn form dst src) = some (st1, o1))
    (hrun : runFrom st1 ops = some (st2, out))
    (hnow : ∀ op ∈ ops, writes op ≠ some src.var) :
    lookup src.var st2 = lookup src.var st := by
  rw [runFrom_frame ops hrun src.var hnow]
  exact step_frame hdef src.var (by simp [writes]; exact hne)

/-- the surface form of a definition does not matter -/
theorem form_irrelevant (f g dst : Nat) (src : Place) (st : Store) :
    step st (.defn f dst src) = step st (.defn g dst src) := rfl

theorem splice_getElem? (cells : List Int) (off : Nat) (v : Int) (h : off < cells.length) (i : Nat) :
    (splice cells off [v])[i]? = if i = off then some v else cells[i]? := by
  unfold splice
  simp only [List.length_singleton, List.append_assoc]
  by_cases hi : i < off
  · have : i ≠ off := by omega
    rw [List.getElem?_append_left (by simp [List.length_take]; omega)]
    simp [this, hi]
  · rw [List.getElem?_append_right (by simp [List.length_take]; omega)]
    have hl : (List.take off cells).length = off := by simp [List.length_take]; omega
    rw [hl]
    by_cases he : i = off
    · subst he; simp
    · have : i - off = (i - off - 1) + 1 := by omega
      rw [this]
      simp [he]
      congr 1; omega

/-- a scalar write changes exactly the cell it names -/
theorem set_cells {st st' : Store} {x off : Nat} {v : Int} {out : List Int}
    (h : step st (.set x off v) = some (st', out)) :
    ∃ cells, lookup x st = some cells ∧ off < cells.length ∧
      ∃ cells', lookup x st' = some cells' ∧ ∀ i, cells'[i]? = if i = off then some v else cells[i]? := by
  simp only [step, Option.map_eq_some_iff] at h
  obtain ⟨s1, hw, he⟩ := h
  simp at he; obtain ⟨h1, _⟩ := he; subst h1
  unfold writePlace at hw
  split at hw
  · simp at hw
  · rename_i cells hl
    split at hw
    · rename_i hlen
      simp at hw; subst hw
      simp at hlen
      exact ⟨cells, hl, by omega, _, lookup_update_same x _ st, splice_getElem? cells off v (by omega)⟩
    · simp at hw

/-- **A literal reads before it writes**: after `x = T.{ srcs }` the variable holds the values the
sources had BEFORE the assignment — also when they are cells of `x` itself (the swap
`p = P.{ x = p.y, y = p.x }`). -/
theorem lit_reads_before_writing (x : Nat) (srcs : List Src) (st st' : Store) (out : List Int)
    (h : step st (.lit x srcs) = some (st', out)) :
    ∃ vs, srcs.mapM (readSrc st) = some vs ∧ lookup x st' = some vs := by
  simp only [step] at h
  split at h
  · rename_i old vs hl hm
    split at h
    · simp at h; obtain ⟨h1, _⟩ := h; subst h1
      exact ⟨vs, hm, lookup_update_same x vs st⟩
    · simp at h
  · simp at h

/-- the swap: `p := P.{1, 2}; p = P.{ x = p.y, y = p.x }; print p.x, p.y` prints 2 1 (the pinned
compiler built the literal in place and printed 2 2) -/
example : run [.init 0 [1, 2], .lit 0 [.cell 0 1, .cell 0 0], .obs 0 0, .obs 0 1] = some [2, 1] := by decide

/-! ### non-vacuity: a concrete program (the shape of seeded change C02_1) -/

/-- `a := Pt.{1, 2}; snap :: a; a.x = 100; print snap.x; print a.x` -/
def snapshot : List Op :=
  [.init 0 [1, 2], .defn 1 1 ⟨0, 0, 2⟩, .set 0 0 100, .obs 1 0, .obs 0 0]

example : run snapshot = some [1, 100] := by decide

/-- a compiler that made `::` definitions alias their source would print `[100, 100]` here -/
example : run snapshot ≠ some [100, 100] := by decide

/-- nested: `w := W.{7, (1,2), 9}; c := w.p; w.p.y = 50; c.x = 60; print c.y, w.p.x, w.g, w.h` -/
example : run [.init 0 [7, 1, 2, 9], .defn 0 1 ⟨0, 1, 2⟩, .set 0 2 50, .set 1 0 60,
    .obs 1 1, .obs 0 1, .obs 0 0, .obs 0 3] = some [2, 1, 7, 9] := by decide

end CapyV.C02Copy
