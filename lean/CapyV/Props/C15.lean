import CapyV.Proofs.Const
/-!
# C15 — only const values are used as types, sizes, discriminants and comptime args

Model: `CapyV/Model/Const.lean` (`get_const`, `const_data`, the use sites — the code after the
`fix:`), rule: `CapyV/Spec/Const.lean` (`IsConst`, `Denotes`).

The full-strength statement `getConst … = Const ↔ IsConst` is **false** of the code in both
directions; each direction is proved under an explicit decidable guard on the program
(`Prog.soundOk`, `Prog.completeOk`) and each guard has its counterexample. Only the *accepting*
direction (`soundOk`) matters for the property; the divergences it excludes are findings.
-/
namespace CapyV.C15
open CapyV.Const

/-! ## accepted ⇒ const by the documented rule -/

/-- **Soundness of the walk** (every fuel, cyclic programs included): if `get_const` answers
`Const`, the expression is const by the README rule — provided no node takes the
`Ty::Type | Ty::File` fallback for something that is not a type literal, and there is no
`Expr::Missing`. -/
theorem getConst_const_imp_IsConst_partial (p : Prog) (hp : p.soundOk = true) (fuel e : Nat)
    (h : getConst p fuel e = .done .const) : IsConst p e :=
  MConst_IsConst hp (getConst_const_MConst h)

/-- the guard is needed: a call whose result type is `type` (`f :: () -> type {..}`; `g(f())`) is
answered `Const` although it is not const by the rule (the compiler then panics in
`evaluate_comptime_args`: `const_data` has no value for it) -/
theorem getConst_typeFallback_counterexample :
    ∃ (p : Prog) (e : Nat), (∀ fuel, getConst p (fuel + 1) e = .done .const) ∧ ¬ IsConst p e := by
  refine ⟨⟨[.other .call .type none], []⟩, 0, ?_, ?_⟩
  · intro fuel; simp [getConst, loop, Prog.node?, arm]
  · intro h; cases h <;> simp_all [Prog.node?]

/-- the same for `Expr::Missing` (first arm of `get_const`) -/
theorem getConst_missing_counterexample :
    ∃ (p : Prog) (e : Nat), (∀ fuel, getConst p (fuel + 1) e = .done .const) ∧ ¬ IsConst p e := by
  refine ⟨⟨[.atom (.noData .missing)], []⟩, 0, ?_, ?_⟩
  · intro fuel; simp [getConst, loop, Prog.node?, arm]
  · intro h
    cases h with
    | dataLit hn hk =>
      simp [Prog.node?] at hn
      subst hn
      simp [NoData.isLiteral] at hk
    | _ => simp_all [Prog.node?]

/-! ## const by the rule ⇒ accepted (on acyclic programs, under the completeness guard) -/

theorem IsConst_imp_getConst_const_partial (p : Prog) (rank : Nat → Nat) (hr : Ranked p rank)
    (hc : p.completeOk = true) (fuel e : Nat) (hI : IsConst p e) :
    getConst p fuel e = .done .const ∨ getConst p fuel e = .outOfFuel :=
  loop_of_MConst hr fuel _ (by
    intro ent hm
    have : ent = ⟨e, []⟩ := by simpa using hm
    subst this
    exact ⟨IsConst_MConst hc hI, by simp⟩)

/-- the guard is needed: a `char` literal is a literal, but falls into the `_` arm -/
theorem getConst_charLit_counterexample :
    ∃ (p : Prog) (e : Nat), IsConst p e ∧ ∀ fuel, getConst p (fuel + 1) e = .done .runtime := by
  refine ⟨⟨[.other .charLit .value none], []⟩, 0, .charLit (cls := .value) (m := none) rfl, ?_⟩
  intro fuel; simp [getConst, loop, Prog.node?, arm]

/-! ## termination: the fuel bound on acyclic reference graphs -/

/-- on a program whose references are acyclic (`rank` decreases along every edge the walk
follows) `get_const` stops within `cost p (rank e) e` iterations (the size of the unfolding of
`e`: there is no visited set, shared nodes are expanded once per path) -/
theorem getConst_terminates_of_acyclic (p : Prog) (rank : Nat → Nat) (hr : Ranked p rank)
    (e fuel : Nat) (hf : cost p (rank e) e ≤ fuel) : getConst p fuel e ≠ .outOfFuel :=
  loop_terminates hr fuel _ (by simpa [qcost] using hf)

/-- **Headline**: on acyclic programs, under both guards and with the fuel bound, the walk
decides exactly the documented rule. -/
theorem getConst_const_iff_IsConst_partial (p : Prog) (rank : Nat → Nat) (hr : Ranked p rank)
    (hs : p.soundOk = true) (hc : p.completeOk = true) (e fuel : Nat)
    (hf : cost p (rank e) e ≤ fuel) :
    getConst p fuel e = .done .const ↔ IsConst p e := by
  constructor
  · exact getConst_const_imp_IsConst_partial p hs fuel e
  · intro hI
    rcases IsConst_imp_getConst_const_partial p rank hr hc fuel e hI with h | h
    · exact h
    · exact absurd h (getConst_terminates_of_acyclic p rank hr e fuel hf)

/-! ## cyclic globals -/

/-- `a : usize : a;` — a finished global that refers to itself. After the `fix:` the walk
answers `Runtime` (so every use site reports) … -/
theorem cyclic_global_is_runtime :
    ∀ fuel, getConst ⟨[.localGlobal false true 0], []⟩ (fuel + 1) 0 = .done .runtime := by
  intro fuel; simp [getConst, loop, Prog.node?, arm]

/-- … whereas the loop as it was (no ancestor check) never ends on it: for every fuel the
answer is "still running" (`get_const-cyclic-hang`, confirmed on the unfixed tree) -/
theorem unfixed_loop_diverges_counterexample :
    ∀ fuel, loopUnfixed ⟨[.localGlobal false true 0], []⟩ fuel [0] = .outOfFuel := by
  intro fuel
  induction fuel with
  | zero => simp [loopUnfixed]
  | succ f ih => simpa [loopUnfixed, Prog.node?, arm] using ih

/-! ## not const ⇒ reported, never evaluated -/

/-- a `Runtime` answer makes each use site push its diagnostic and skip `const_data` -/
theorem runtime_reported_not_evaluated (d : Diag) (intOnly : Bool) (p : Prog) (fuel e : Nat)
    (h : getConst p fuel e = .done .runtime) :
    useSite d intOnly p fuel e = ⟨some d, false, .rejected⟩ := by
  simp [useSite, h]

/-- **an expression that is not const by the rule is never evaluated** at an array-size,
discriminant or comptime-argument site (under the soundness guard) -/
theorem notconst_reported_not_evaluated (d : Diag) (intOnly : Bool) (p : Prog)
    (hp : p.soundOk = true) (fuel e : Nat) (hn : ¬ IsConst p e) :
    (useSite d intOnly p fuel e).evaluated = false ∧
      ∀ v, (useSite d intOnly p fuel e).result ≠ .accepted v := by
  have hne : getConst p fuel e ≠ .done .const :=
    fun h => hn (getConst_const_imp_IsConst_partial p hp fuel e h)
  unfold useSite
  cases hg : getConst p fuel e with
  | done r =>
    cases r with
    | const => exact absurd hg hne
    | runtime => simp
    | unknown => simp
  | outOfFuel => simp
  | dangling => simp

/-- `finish_body` only reports (`GlobalNotConst`), it never evaluates -/
theorem globalSite_never_evaluates (b : Bool) (p : Prog) (fuel e : Nat) :
    (globalSite b p fuel e).evaluated = false := by
  unfold globalSite
  cases getConst p fuel e with
  | done r => cases r <;> simp <;> split <;> simp
  | outOfFuel => simp
  | dangling => simp

/-! ## an accepted value is the value the expression denotes -/

theorem useSite_accepted_denotes (d : Diag) (intOnly : Bool) (p : Prog) (fuel e : Nat)
    (dg : Option Diag) (ev : Bool) (v : Val)
    (h : useSite d intOnly p fuel e = ⟨dg, ev, .accepted v⟩) : Denotes p e v := by
  unfold useSite at h
  cases hg : getConst p fuel e with
  | done r =>
    cases r with
    | const =>
      have hM := getConst_const_MConst hg
      simp only [hg] at h
      cases hd : constData p fuel e with
      | val w =>
        have hw := constData_Denotes p fuel e w hM hd
        simp only [hd] at h
        cases w with
        | int n => simp at h; obtain ⟨_, _, rfl⟩ := h; exact hw
        | float b => cases intOnly <;> simp at h; obtain ⟨_, _, rfl⟩ := h; exact hw
        | ty t => cases intOnly <;> simp at h; obtain ⟨_, _, rfl⟩ := h; exact hw
        | data t => cases intOnly <;> simp at h; obtain ⟨_, _, rfl⟩ := h; exact hw
      | none => simp [hd] at h
      | panic => simp [hd] at h
      | outOfFuel => simp [hd] at h
      | dangling => simp [hd] at h
    | runtime => simp [hg] at h
    | unknown => simp [hg] at h
  | outOfFuel => simp [hg] at h
  | dangling => simp [hg] at h

/-- **the accepted const array length is exactly the value the expression denotes** (no guard:
whatever the walk accepts, `const_data` follows the same references) -/
theorem array_len_exact (p : Prog) (fuel e : Nat) (dg : Option Diag) (ev : Bool) (v : Val)
    (h : arrayLenSite p fuel e = ⟨dg, ev, .accepted v⟩) :
    ∃ n, v = .int n ∧ Denotes p e (.int n) := by
  have hd := useSite_accepted_denotes _ _ p fuel e dg ev v h
  unfold arrayLenSite useSite at h
  cases hg : getConst p fuel e with
  | done r =>
    cases r with
    | const =>
      simp only [hg] at h
      cases hc : constData p fuel e with
      | val w =>
        simp only [hc] at h
        cases w with
        | int n => simp at h; obtain ⟨_, _, rfl⟩ := h; exact ⟨n, rfl, hd⟩
        | float b => simp at h
        | ty t => simp at h
        | data t => simp at h
      | none => simp [hc] at h
      | panic => simp [hc] at h
      | outOfFuel => simp [hc] at h
      | dangling => simp [hc] at h
    | runtime => simp [hg] at h
    | unknown => simp [hg] at h
  | outOfFuel => simp [hg] at h
  | dangling => simp [hg] at h

theorem discriminant_exact (p : Prog) (fuel e : Nat) (dg : Option Diag) (ev : Bool) (v : Val)
    (h : discriminantSite p fuel e = ⟨dg, ev, .accepted v⟩) : Denotes p e v :=
  useSite_accepted_denotes _ _ p fuel e dg ev v h

theorem comptime_arg_exact (p : Prog) (fuel e : Nat) (dg : Option Diag) (ev : Bool) (v : Val)
    (h : comptimeArgSite p fuel e = ⟨dg, ev, .accepted v⟩) : Denotes p e v :=
  useSite_accepted_denotes _ _ p fuel e dg ev v h

/-! ## non-vacuity -/

/-- `n :: G; G :: other.K; (other) K : usize : 3;` used as `[n]T` — node 0 is the size -/
def demo : Prog :=
  ⟨[.local false (some 1), .localGlobal false true 2, .member true 3 true false true 5,
    .localGlobal false true 4, .atom (.noData .import), .atom (.intLit 3)], []⟩

def demoRank (e : Nat) : Nat := 10 - e

example : demo.soundOk = true ∧ demo.completeOk = true := by decide

example : Ranked demo demoRank := by
  intro e n plain gb hn ha
  match e with
  | 0 => simp [demo, Prog.node?] at hn; subst hn; simp [arm] at ha; obtain ⟨rfl, rfl⟩ := ha; simp [demoRank]
  | 1 => simp [demo, Prog.node?] at hn; subst hn; simp [arm] at ha; obtain ⟨rfl, rfl⟩ := ha; simp [demoRank]
  | 2 => simp [demo, Prog.node?] at hn; subst hn; simp [arm] at ha; obtain ⟨rfl, rfl⟩ := ha; simp [demoRank]
  | 3 => simp [demo, Prog.node?] at hn; subst hn; simp [arm] at ha; obtain ⟨rfl, rfl⟩ := ha; simp [demoRank]
  | 4 => simp [demo, Prog.node?] at hn; subst hn; simp [arm] at ha; obtain ⟨rfl, rfl⟩ := ha; simp [demoRank]
  | 5 => simp [demo, Prog.node?] at hn; subst hn; simp [arm] at ha; obtain ⟨rfl, rfl⟩ := ha; simp [demoRank]
  | e + 6 => simp [demo, Prog.node?] at hn

example : arrayLenSite demo 20 0 = ⟨none, true, .accepted (.int 3)⟩ := by decide

/-- a mutable local in the chain: reported, not evaluated -/
example : arrayLenSite ⟨[.local false (some 1), .local true (some 2), .atom (.intLit 3)], []⟩ 20 0
    = ⟨some .arraySizeNotConst, false, .rejected⟩ := by decide

/-- a bool literal as comptime argument: const by the rule, accepted by the walk, and
`const_data` has nothing for it (`Ok(None)` → `panic!("… didn't work")`, confirmed) -/
example : comptimeArgSite ⟨[.atom (.noData .boolLit)], []⟩ 5 0 = ⟨none, true, .panic⟩ := by decide

/-- a DIAMOND is not a cycle: `N :: 3; SQUARE :: usize.[N, N];` — the walk over the value of `SQUARE`
(node 0) reaches the body of `N` twice, through two different parents; the ancestor test of the
fixed `get_const` answers const (a test "was this body seen before?" — seeded change C15_3 — would
answer runtime). `globalSite` is the "globals must be constant values" check. -/
def diamond : Prog :=
  ⟨[.arrayLit true [1, 2], .localGlobal false true 3, .localGlobal false true 3, .atom (.intLit 3)], []⟩

example : getConst diamond 20 0 = getConst ⟨[.arrayLit true [1], .localGlobal false true 2, .atom (.intLit 3)], []⟩ 20 0 := by
  decide

example : (globalSite false diamond 20 0).diag = none := by decide

end CapyV.C15
