import CapyV.Proofs.TypeId
import CapyV.Props.C17
/-!
# C18 — reflection and type values describe the code actually generated

Statements are about `CapyV.TypeId` (the model of `simple_id*` / `to_type_id`, of the tables
written by `ty_info.rs` and of the decoders of `meta.capy`), with every constant taken from
`Generated/TypeIds.lean` (regenerated from both source files on every run). Layout numbers are
those of `CapyV.Layout` (C17: `C17.align_pow2_le8`, `C17.struct_fields_ok`, `C17.array_size`,
`C17.stride_rounds_up`, `C17.*_tag_after_*` are the theorems about them — not repeated here).
-/
namespace CapyV.C18
open CapyV CapyV.TypeIds CapyV.TypeId

/-- The discriminant table of `meta.capy` is the table of `convert.rs` without its 13th row `NO_RETURN` (which
no source-level type value can denote), every shift and mask of the Capy decoders is the one the
Rust encoder uses, the asserted field ranges fit the masks, and the simple/compound split of
`meta.capy` (`discriminant < 16`) separates exactly the `simple_id*` discriminants from the
per-kind list discriminants. -/
theorem constants_agree :
    Capy.table = Rust.table.eraseIdx 12 ∧ Rust.table[12]? = some ("no_return", Rust.no_return) ∧
    Capy.discShift = Rust.discShift ∧ Capy.indexShift = Rust.compoundShift ∧
    Capy.alignShift = Rust.alignShift ∧ Capy.signShift = Rust.signShift ∧
    Capy.sizeMask = 2 ^ Rust.alignShift - 1 ∧ Capy.widthMask = Capy.sizeMask ∧
    Capy.alignMask = 2 ^ (Rust.signShift - Rust.alignShift) - 1 ∧ Capy.signMask = 1 ∧
    Capy.indexMask = 2 ^ (32 - Rust.compoundShift) - 1 ∧
    Rust.sizeLimit ≤ Capy.sizeMask ∧ Rust.alignLimit ≤ Capy.alignMask ∧
    Rust.discLimit ≤ Capy.indexMask ∧
    (Rust.table.filter (fun e => e.2 < Capy.simpleLimit)).map (·.1) =
      ["void", "int", "float", "bool", "string", "char", "meta_type", "any", "file", "raw_ptr",
       "raw_slice", "nil", "no_return"] ∧
    (∀ k : Kind, Capy.simpleLimit ≤ k.disc ∧ k.disc < Rust.discLimit) := by
  refine ⟨rfl, rfl, rfl, rfl, rfl, rfl, by decide, rfl, by decide, rfl, by decide, by decide,
    by decide, by decide, rfl, ?_⟩
  intro k; cases k <;> decide

/-- Every simple id built inside the asserted ranges is a `u32` and decodes (with the `meta.capy`
decoders) to the discriminant, size, alignment and sign it was built from. -/
theorem decode_encode (d s a : Nat) (sg : Bool) (hd : d < Rust.discLimit) (hs : s < Rust.sizeLimit)
    (ha : a < Rust.alignLimit) :
    ∃ id, simpleIdWithAlign d s a sg = some id ∧ id < 2 ^ 32 ∧
      decDisc id = d ∧ decSize id = s ∧ decAlign id = a ∧ decSign id = sg ∧
      decBitWidth id = s * 8 := by
  have hd' : d < 63 := hd
  have hs' : s < 31 := hs
  have ha' : a < 15 := ha
  refine ⟨_, simpleIdWithAlign_val d s a sg hd' hs' ha', ?_, ?_, ?_, ?_, ?_, ?_⟩
  · cases sg <;> simp <;> omega
  · rw [decDisc_eq]; cases sg <;> simp <;> omega
  · rw [decSize_eq]; cases sg <;> simp <;> omega
  · rw [decAlign_eq]; cases sg <;> simp <;> omega
  · rw [decSign_eq]; cases sg <;> simp <;> omega
  · rw [decBitWidth_eq]; cases sg <;> simp <;> omega

/-- Outside the asserted ranges the encoder panics (no id is produced). -/
theorem encode_out_of_range (d s a : Nat) (sg : Bool)
    (h : ¬ (d < Rust.discLimit ∧ s < Rust.sizeLimit ∧ a < Rust.alignLimit)) :
    simpleIdWithAlign d s a sg = none :=
  simpleIdWithAlign_none d s a sg h

/-- A compound id `X_DISCRIMINANT << 26 | list_id` decodes to its discriminant and list index as
long as fewer than 2^26 types of the kind exist. -/
theorem compound_id_roundtrip (k : Kind) (idx : Nat) (hidx : idx < 2 ^ 26) :
    let id := (k.disc <<< Rust.compoundShift) ||| idx
    id < 2 ^ 32 ∧ decDisc id = k.disc ∧ decIndex id = idx ∧ ¬ decDisc id < Capy.simpleLimit := by
  have hk := kind_disc_ge k
  have hidx' : idx < 67108864 := hidx
  simp only [compound_val _ _ hidx', decDisc_eq, decIndex_eq, Capy.simpleLimit]
  omega

/-- At 2^26 types of one kind the index spills into the discriminant bits. -/
theorem compound_id_roundtrip_bound_needed :
    decDisc ((Kind.struct.disc <<< Rust.compoundShift) ||| 2 ^ 26) = Kind.distinct.disc := by decide

/-- `to_type_id` keeps the invariant of `MetaTyData` (table keys unique, `tys_to_compile` in
lock-step, counters = number of registered types per kind, every compound id =
`discriminant << 26 | position among the types of its kind`, every simple id = its encoding),
only appends to the table, and the id it returns is the one the table holds for the type.
By mutual structural induction over types / member lists / variant lists. -/
theorem to_type_id_preserves_inv (pw : Nat) (t : Ty) (st st' : St) (id : Nat) (hinv : Inv pw st)
    (h : toTypeId pw t st = some (id, st')) :
    Inv pw st' ∧ (∃ added, st'.ids = st.ids ++ added) ∧ find t st'.ids = some id := by
  obtain ⟨h1, ⟨added, h2, _⟩, h3⟩ := toTypeId_ok pw t st id st' hinv h
  exact ⟨h1, ⟨added, h2⟩, h3⟩

/-- … hence every state reachable from the empty `MetaTyData` satisfies it. -/
theorem reachable_inv (pw : Nat) (ts : List Ty) (ids : List Nat) (st : St)
    (h : typeIdsFrom pw ts St.empty = some (ids, st)) : Inv pw st :=
  typeIdsFrom_ok pw ts St.empty ids st (Inv.empty pw) h

/-- **Headline.** In a reachable table with fewer than 2^26 types per kind, two registered
(well-formed) types have the same id iff they are the same type or one of the explicit
coincidences listed by `canon`: pointer-sized vs same-width integer (`usize`/`u64`,
`isize`/`i64` on a 64-bit target), weak vs default types (`{int}`,`{uint}` ↦ `i32`,
`{float}` ↦ `f32`), `Unknown`/`NotYetResolved`/`void`, and all `file` types. -/
theorem ids_injective_mod_runtime_equiv (pw : Nat) (hpw : Layout.okPw pw = true) (st : St)
    (hinv : Inv pw st) (hsmall : ∀ k, st.ctr k ≤ 2 ^ 26) (t1 t2 : Ty) (id1 id2 : Nat)
    (h1 : (t1, id1) ∈ st.ids) (h2 : (t2, id2) ∈ st.ids)
    (w1 : Layout.wf t1 = true) (w2 : Layout.wf t2 = true) :
    id1 = id2 ↔ canon pw t1 = canon pw t2 := by
  have hsmall' : ∀ k, st.ctr k ≤ 67108864 := hsmall
  cases hk1 : kindOf t1 with
  | some k1 =>
    obtain ⟨n1, hn1, e1, g1⟩ := compound_entry hinv hsmall' hk1 h1
    have hd1 := kind_disc_ge k1
    cases hk2 : kindOf t2 with
    | some k2 =>
      obtain ⟨n2, hn2, e2, g2⟩ := compound_entry hinv hsmall' hk2 h2
      rw [canon_compound pw t1 hk1, canon_compound pw t2 hk2]
      constructor
      · intro e
        have hd : k1.disc = k2.disc := by omega
        have hn : n1 = n2 := by omega
        have hk := kind_disc_inj hd
        subst hk; subst hn
        rw [g1] at g2
        exact (Prod.mk.inj (Option.some.inj g2)).1
      · intro e
        subst e
        have a := find_of_mem hinv.nodup h1
        have b := find_of_mem hinv.nodup h2
        rw [a] at b; exact Option.some.inj b
    | none =>
      obtain ⟨s2, i2⟩ := simple_entry hinv hk2 h2
      obtain ⟨_, d2, _⟩ := simple_facts hpw w2 i2 s2
      constructor
      · intro e
        rw [← e, e1, decDisc_eq] at d2
        omega
      · intro e
        have := congrArg kindOf e
        rw [canon_kind, canon_kind, hk1, hk2] at this
        cases this
  | none =>
    obtain ⟨s1, i1⟩ := simple_entry hinv hk1 h1
    obtain ⟨c1, d1, _⟩ := simple_facts hpw w1 i1 s1
    cases hk2 : kindOf t2 with
    | some k2 =>
      obtain ⟨n2, hn2, e2, g2⟩ := compound_entry hinv hsmall' hk2 h2
      have hd2 := kind_disc_ge k2
      constructor
      · intro e
        rw [e, e2, decDisc_eq] at d1
        omega
      · intro e
        have := congrArg kindOf e
        rw [canon_kind, canon_kind, hk1, hk2] at this
        cases this
    | none =>
      obtain ⟨s2, i2⟩ := simple_entry hinv hk2 h2
      obtain ⟨c2, _, _⟩ := simple_facts hpw w2 i2 s2
      constructor
      · intro e
        rw [← c1, ← c2, e]
      · intro e
        have a := simpleIdOf_canon pw hpw t1
        have b := simpleIdOf_canon pw hpw t2
        rw [e, b, s1, s2] at a
        exact (Option.some.inj a).symm

/-- The full-strength statement ("same id iff same type") holds under the decidable guard that both
types are their own representative (no pointer-sized / weak / unknown / non-zero-file type). -/
theorem ids_injective_partial (pw : Nat) (hpw : Layout.okPw pw = true) (st : St)
    (hinv : Inv pw st) (hsmall : ∀ k, st.ctr k ≤ 2 ^ 26) (t1 t2 : Ty) (id1 id2 : Nat)
    (h1 : (t1, id1) ∈ st.ids) (h2 : (t2, id2) ∈ st.ids)
    (w1 : Layout.wf t1 = true) (w2 : Layout.wf t2 = true)
    (g1 : canon pw t1 = t1) (g2 : canon pw t2 = t2) :
    id1 = id2 ↔ t1 = t2 := by
  have := ids_injective_mod_runtime_equiv pw hpw st hinv hsmall t1 t2 id1 id2 h1 h2 w1 w2
  rw [g1, g2] at this; exact this

/-- The state after a program mentions `usize` and `u64` (64-bit target). -/
def stUsizeU64 : Option (List Nat × St) := typeIdsFrom 64 [.uint 255, .uint 64] St.empty

/-- **The full-strength statement is false of the code** (DESIGN.md §6 #17): `usize` and `u64`
receive the same id, so `usize == u64` is `true`. -/
theorem usize_u64_counterexample :
    stUsizeU64.map (fun r => (r.1, r.2.ids)) =
      some ([134217992, 134217992], [(.uint 255, 134217992), (.uint 64, 134217992)]) ∧
    Ty.uint 255 ≠ Ty.uint 64 := by
  constructor
  · decide
  · decide

theorem isize_i64_counterexample :
    (typeIdsFrom 64 [.iint 255, .iint 64] St.empty).map (fun r => (r.1, r.2.ids)) =
      some ([134218504, 134218504], [(.iint 255, 134218504), (.iint 64, 134218504)]) ∧
    Ty.iint 255 ≠ Ty.iint 64 := by
  constructor
  · decide
  · decide

/-- Negation of "same id ⇒ same type" at that witness, in the shape of the headline theorem. -/
theorem ids_injective_counterexample :
    ¬ (∀ (st : St), Inv 64 st → (∀ k, st.ctr k ≤ 2 ^ 26) → ∀ t1 t2 id1 id2,
        (t1, id1) ∈ st.ids → (t2, id2) ∈ st.ids → Layout.wf t1 = true → Layout.wf t2 = true →
        (id1 = id2 ↔ t1 = t2)) := by
  intro hall
  have hw := usize_u64_counterexample.1
  cases hs : stUsizeU64 with
  | none => rw [hs] at hw; simp at hw
  | some r =>
    obtain ⟨ids, st⟩ := r
    rw [hs] at hw
    simp only [Option.map_some, Option.some.injEq, Prod.mk.injEq] at hw
    have hinv : Inv 64 st := reachable_inv 64 _ ids st hs
    have hctr : ∀ k, st.ctr k ≤ 2 ^ 26 := by
      intro k; rw [hinv.ctr k, hw.2]; cases k <;> decide
    have := (hall st hinv hctr (.uint 255) (.uint 64) 134217992 134217992
      (by rw [hw.2]; simp) (by rw [hw.2]; simp) (by decide) (by decide)).mp rfl
    exact absurd this (by decide)

/-- The other coincidences at model level (never `type` values of a running program: weak types are
defaulted and `Unknown` is an error before codegen). -/
theorem weak_default_coincidence :
    (typeIdsFrom 64 [.uint 0, .iint 0, .iint 32, .float 0, .float 32, .unknown, .void] St.empty).map (·.1) =
      some [134218372, 134218372, 134218372, 201326724, 201326724, 67108896, 67108896] := by decide

/-- **Reflection of sizes.** For a registered well-formed type, `meta.size_of` / `meta.align_of`
applied to its id return exactly the size and alignment of the layout model of C17 (what
`calc_layouts` stores and the code generator uses): through the id bits for simple types, through
the per-kind table row selected by the list index for compound ones, through `pointer_layout` for
pointers, functions and slices. -/
theorem reflected_layout (pw : Nat) (hpw : Layout.okPw pw = true) (st : St) (hinv : Inv pw st)
    (hsmall : ∀ k, st.ctr k ≤ 2 ^ 26) (t : Ty) (id : Nat) (h : (t, id) ∈ st.ids)
    (hwf : Layout.wf t = true) :
    metaSizeOf pw st id = some (Layout.size pw t) ∧ metaAlignOf pw st id = some (Layout.align pw t) := by
  have hsmall' : ∀ k, st.ctr k ≤ 67108864 := hsmall
  cases hk : kindOf t with
  | none =>
    obtain ⟨s1, i1⟩ := simple_entry hinv hk h
    obtain ⟨_, d, _, hs, ha, _⟩ := simple_facts hpw hwf i1 s1
    have d' : decDisc id < Capy.simpleLimit := d
    simp [metaSizeOf, metaAlignOf, d', hs, ha]
  | some k =>
    obtain ⟨n, hn, e, g⟩ := compound_entry hinv hsmall' hk h
    have hdisc : decDisc id = k.disc := by
      have := kind_disc_ge k; rw [e, decDisc_eq]; omega
    have hidx : decIndex id = n := by rw [e, decIndex_eq]; omega
    have hrow : (layoutTable pw st k)[n]? = some (Layout.layout pw t) := by
      unfold layoutTable
      rw [hinv.lock]
      have : (keys st.ids).filter (fun t => kindOf t == some k)
          = (st.ids.filter fun e => kindOf e.1 == some k).map Prod.fst := by
        simp [keys, List.filter_map, Function.comp_def]
      rw [this, List.getElem?_map, List.getElem?_map, g]; rfl
    have hmul : pw / 8 * 2 / 2 = pw / 8 := Nat.mul_div_cancel _ (by decide)
    cases t <;> simp [kindOf] at hk <;> subst hk <;>
      simp [metaSizeOf, metaAlignOf, hdisc, hidx, hrow, Kind.disc, tableKindOfDisc, pointerLayout,
        Layout.size, Layout.align, Layout.layout, hmul,
        Rust.struct, Rust.distinct, Rust.array, Rust.slice, Rust.pointer, Rust.function, Rust.enum,
        Rust.variant, Rust.optional, Rust.error_union,
        Capy.struct, Capy.distinct, Capy.array, Capy.slice, Capy.pointer, Capy.function, Capy.enum,
        Capy.variant, Capy.optional, Capy.error_union, Capy.simpleLimit]

/-- Integer width, signedness and raw-pointer mutability are read back from the id bits exactly. -/
theorem reflected_flags (pw : Nat) (hpw : Layout.okPw pw = true) (st : St) (hinv : Inv pw st)
    (t : Ty) (id : Nat) (h : (t, id) ∈ st.ids) (hwf : Layout.wf t = true) (hk : kindOf t = none) :
    decSign id = expectSign t ∧ decBitWidth id = Layout.size pw t * 8 % 256 := by
  obtain ⟨s1, i1⟩ := simple_entry hinv hk h
  obtain ⟨_, _, _, hs, _, hsg⟩ := simple_facts hpw hwf i1 s1
  refine ⟨hsg, ?_⟩
  rw [decBitWidth_eq, ← hs, decSize_eq]

/-! ### Non-vacuity -/

/-- `struct { a: usize, b: [3]u8 }`, `[2][3]u8`, `?^u8` registered from the empty table -/
def exTys : List Ty :=
  [.concreteStruct 7 (.cons 100 (.uint 255) (.cons 101 (.concreteArray 3 (.uint 8)) .nil)),
   .concreteArray 2 (.concreteArray 3 (.uint 8)), .optional (.pointer false (.uint 8))]

example : (typeIdsFrom 64 exTys St.empty).map (·.1) = some [1073741824, 1207959553, 1610612736] := by decide
example : (typeIdsFrom 64 exTys St.empty).map (fun r => r.2.ids.map (·.2)) =
    some [134217992, 134217761, 1207959552, 1073741824, 1207959553, 1342177280, 1610612736] := by decide
example : (typeIdsFrom 64 exTys St.empty).bind (fun r => metaSizeOf 64 r.2 1073741824) = some 11 := by decide
example : (typeIdsFrom 64 exTys St.empty).bind (fun r => metaAlignOf 64 r.2 1207959553) = some 1 := by decide
example : simpleIdWithAlign 2 8 8 true = some 134218504 := by decide
example : simpleIdWithAlign 2 31 8 true = none := by decide
example : Layout.okPw 64 = true ∧ Layout.wf (.uint 255) = true := by decide

end CapyV.C18
