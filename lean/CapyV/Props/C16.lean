import CapyV.Spec.CapyCoreGeneric
import CapyV.Proofs.Generics
import CapyV.Props.C27
/-!
# C16 — generic calls behave like calls to hand-substituted copies

Two layers (DESIGN §4 C16).

1. On the reference semantics `CapyCore` (`Spec/CapyCoreGeneric.lean`): a generic function is a
   function some of whose parameters are comptime; the meaning of a generic call is the ordinary
   call with the comptime arguments bound like parameters; the hand-substituted copy is
   `GFn.inst` (`substSs`: every occurrence of a comptime parameter replaced by the literal
   argument, the parameter dropped). `subst_lemma` says the two calls are the same computation
   (value, printed output, faults, caller state). Integer comptime parameters; a *type* parameter
   only selects among monomorphic copies on an untyped semantics (`type_param_selects_copy`).
2. On the model of instance identity (`Model/Generics.lean`): distinct call sites get distinct
   instances (fresh, pairwise disjoint `generics_arena` ranges), distinct instances get distinct
   symbols (C27), an instance keeps reading exactly the arguments of its own call whatever is
   instantiated later (non-interference), and instances with equal arguments read equal values —
   the only difference is the range id, which the body cannot observe (`ComptimeParam` reads
   *through* the range).

That the real compiler's instances behave like the copies is checked per program by
`harness/src/c16.rs` (translation validation, `level` of this property).
-/
namespace CapyV.C16
open CapyV.Core CapyV.Core.Generic CapyV.Generics CapyV.Mangle

/-! ## 1. substitution on the reference semantics -/

/-- **Headline.** A call of the generic function `g` (index `f`) with comptime arguments `cs`
and run-time arguments `xs` evaluates — result value, printed lines, fault, resulting state —
exactly like the call of the hand-substituted copy `g.inst cs` (index `f'`) with `xs`, for every
program, caller state and fuel for which the generic call does not run out of fuel. -/
theorem subst_lemma (p : Program) (g : GFn) (cs : List Int) (xs : List Expr) (f f' : Nat)
    (hf : p.fns[f]? = some g.asFn) (hf' : p.fns[f']? = some (g.inst cs))
    (hcs : cs.length = g.cparams.length)
    (hok : okSs (mkSubst g cs) g.body = true)
    (hdisj : ∀ x ∈ g.rparams, x ∉ g.cparams.map (·.1))
    (fuel : Nat) (st : St)
    (hfuel : ∀ st', evalE p fuel (.call f (xs ++ litArgs g cs)) st ≠ .error (.outOfFuel, st')) :
    evalE p fuel (.call f' xs) st = evalE p fuel (.call f (xs ++ litArgs g cs)) st :=
  Generic.subst_lemma p g cs xs f f' hf hf' hcs hok hdisj fuel st hfuel

/-- The body-level statement is an equation at the same fuel (both directions): running the
substituted body without the comptime bindings is the image of running the original body with
them, for any block of statements that never assigns a comptime parameter. -/
theorem subst_body (p : Program) (σ : Subst) (fuel : Nat) (body : List Stmt) (st : St)
    (hA : Agree σ st.env) (hok : okSs σ body = true) :
    execBlock p fuel (substSs σ body) (eraseSt σ st) = mapR σ (execBlock p fuel body st) :=
  Generic.subst_body p σ fuel body st hA hok

/-- Calls with equal comptime arguments behave identically: two copies made for the same
arguments are interchangeable (the index of a copy — its identity — is not observable). -/
theorem equal_args_equal_copy (p : Program) (g : GFn) (cs : List Int) (f1 f2 : Nat)
    (h1 : p.fns[f1]? = some (g.inst cs)) (h2 : p.fns[f2]? = some (g.inst cs))
    (xs : List Expr) (fuel : Nat) (st : St) :
    evalE p fuel (.call f1 xs) st = evalE p fuel (.call f2 xs) st :=
  Generic.equal_args_equal_copy p g cs f1 f2 h1 h2 xs fuel st

/-- A type parameter, on a semantics without typing, selects one of the monomorphic copies: the
instance of the family `F` at `t` *is* `F t`. -/
theorem type_param_selects_copy (p : Program) (F : Ty → GFn) (t : Ty) (f : Nat)
    (h : p.fns[f]? = some (instTy F t).asFn) : p.fns[f]? = some (F t).asFn := h

/-! ## 2. instance identity -/

/-- Every state reachable from the empty arena satisfies the separation invariant. -/
theorem reachable_inv (hist : List (Site × List CVal)) : Inv (runAll State.empty hist) :=
  runAll_inv hist _ inv_empty

/-- **Distinct calls, distinct instances.** After any history of generic-call visits, two
different call sites (different caller instance or different call expression) whose functions
have at least one named comptime parameter own disjoint arena ranges; in particular their
`raw_start`s differ and so do their `ConcreteLoc`s, whatever the callee. -/
theorem distinct_calls_distinct_instances (hist : List (Site × List CVal))
    (s1 s2 : Site) (r1 r2 : Range) (hne : s1 ≠ s2)
    (h1 : lookupSite s1 (runAll State.empty hist).assoc = some r1)
    (h2 : lookupSite s2 (runAll State.empty hist).assoc = some r2)
    (k1 : r1.start < r1.stop) (k2 : r2.start < r2.stop) (n1 n2 : Nat) :
    r1.start ≠ r2.start ∧ (r2.stop ≤ r1.start ∨ r1.stop ≤ r2.start) ∧
      Instance.mk n1 r1 ≠ Instance.mk n2 r2 := by
  have hinv := reachable_inv hist
  have hd : r2.stop ≤ r1.start ∨ r1.stop ≤ r2.start :=
    sep_disjoint hinv.2 (a := (s1, r1)) (b := (s2, r2)) (lookupSite_mem h1) (lookupSite_mem h2) hne
  refine ⟨by omega, hd, ?_⟩
  intro h
  injection h with _ hr
  subst hr
  omega

/-- **Distinct instances, distinct symbols** (cites C27 `mangle_injective_same_file`): two
instances of the same function (same file, same global / lambda) with different `raw_start`
never share a symbol, for every file path — including the paths in C27's collision classes. -/
theorem distinct_instances_distinct_symbols (file : FileD) (base : Base) (g1 g2 : Nat)
    (hne : g1 ≠ g2) (hn : (Entity.mk file base (some g1) .code).namesOK = true)
    (hs : (mangle (Entity.mk file base (some g1) .code)).isSome) :
    mangle (Entity.mk file base (some g1) .code) ≠ mangle (Entity.mk file base (some g2) .code) := by
  intro h
  have hn2 : (Entity.mk file base (some g2) .code).namesOK = true := by
    simpa [Entity.namesOK] using hn
  have := C27.mangle_injective_same_file (Entity.mk file base (some g1) .code)
    (Entity.mk file base (some g2) .code) rfl hn hn2 hs h
  simp only [Entity.resolve, Entity.mk.injEq] at this
  exact hne (by simpa using this.2.2.1)

/-- A generic instance is never confused with the non-generic entity of the same name nor with a
comptime block (cites C27 `mangle_kind_separated`). -/
theorem instance_symbol_kind_separated (a b : Entity) (hs : (mangle a).isSome)
    (h : mangle a = mangle b) : a.shape = b.shape :=
  C27.mangle_kind_separated a b hs h

/-- **Non-interference.** Once a call site has been given its instance, that instance keeps
denoting exactly the comptime arguments of its own call, whatever generic calls (of the same or of
other functions, with equal or different arguments) are visited afterwards. -/
theorem instance_reads_own_args (st : State) (hinv : Inv st) (s : Site) (vals : List CVal)
    (hnew : lookupSite s st.assoc = none) (later : List (Site × List CVal)) :
    readArgs (runAll (step st s vals).1 later) (step st s vals).2 = vals ∧
      lookupSite s (runAll (step st s vals).1 later).assoc = some (step st s vals).2 := by
  have h := runAll_stable later _ (step_inv st s vals hinv) s _ (step_assoc_self st s vals)
  exact ⟨by rw [h.1, step_readArgs_fresh st s vals hnew], h.2⟩

/-- **Equal arguments, equal behaviour.** The body of an instance observes its comptime
parameters only through `readArgs` (`Expr::ComptimeParam` indexes the range); so for any
behaviour function `beh` of (function, argument values), two instances of the same function whose
calls passed equal arguments behave equally in every later state — their ranges differ, which
`beh` cannot see. -/
theorem equal_args_equal_behaviour {β : Type} (beh : Nat → List CVal → β) (naive : Nat)
    (st : State) (r1 r2 : Range) (h : readArgs st r1 = readArgs st r2) :
    beh naive (readArgs st r1) = beh naive (readArgs st r2) := by rw [h]

/-- … and the hypothesis holds for two sites first visited with the same values. -/
theorem equal_args_equal_reads (st : State) (hinv : Inv st) (s1 s2 : Site) (vals : List CVal)
    (hne : s1 ≠ s2) (h1 : lookupSite s1 st.assoc = none) (h2 : lookupSite s2 st.assoc = none)
    (later : List (Site × List CVal)) :
    let st1 := (step st s1 vals)
    let st2 := (step st1.1 s2 vals)
    readArgs (runAll st2.1 later) st1.2 = readArgs (runAll st2.1 later) st2.2 := by
  intro st1 st2
  have hinv1 := step_inv st s1 vals hinv
  have h2' : lookupSite s2 st1.1.assoc = none := by
    show lookupSite s2 (step st s1 vals).1.assoc = none
    unfold step
    simp only [h1]
    simp [lookupSite, h2, Ne.symm hne]
  have a := instance_reads_own_args st hinv s1 vals h1 ((s2, vals) :: later)
  have b := instance_reads_own_args st1.1 hinv1 s2 vals h2' later
  simp only [runAll] at a
  rw [a.1, b.1]

/-! ## non-vacuity -/

/-- two call sites, same function, same arguments: different ranges, equal reads -/
example :
    let st := runAll State.empty [(⟨0, 5⟩, [.ty 3, .int 7]), (⟨0, 9⟩, [.ty 3, .int 7]), (⟨0, 5⟩, [.ty 3, .int 7])]
    lookupSite ⟨0, 5⟩ st.assoc = some ⟨0, 2⟩ ∧ lookupSite ⟨0, 9⟩ st.assoc = some ⟨2, 4⟩ ∧
      readArgs st ⟨0, 2⟩ = readArgs st ⟨2, 4⟩ ∧ st.arena.length = 4 := by decide

/-- why the hypothesis "at least one named comptime parameter" is there: empty blocks
(`alloc_many([])`) of consecutive calls share their start -/
example :
    let st := runAll State.empty [(⟨0, 1⟩, []), (⟨0, 2⟩, [])]
    lookupSite ⟨0, 1⟩ st.assoc = some ⟨0, 0⟩ ∧ lookupSite ⟨0, 2⟩ st.assoc = some ⟨0, 0⟩ := by decide

/-- the hypotheses of `subst_lemma` are satisfiable (see `Generic.Ex`): the copy of
`g(x1, comptime x2) = x1 * x2` for `x2 = 7` contains the literal -/
example : (Generic.Ex.g.inst [7]).params = [1] ∧ okSs (mkSubst Generic.Ex.g [7]) Generic.Ex.g.body = true := by
  decide

end CapyV.C16
