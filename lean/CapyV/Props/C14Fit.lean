import CapyV.Model.TyRel
/-!
# C14, the conversion side — an implicit pointer conversion never hands out write access

`get_mutability` (Props/C14.lean) decides what may be written THROUGH a place of a given type; the
type of a pointer is decided when it is created and every time it is converted. These theorems are
about the transcription `CapyV.Ty.canFitInto` (Model/TyRel.lean, tied to `Ty::can_fit_into` by the
C12 correspondence and, for the towers below, by the stream of harness/src/c14_fit.rs) on towers of
pointers `^m₀ ^m₁ … ^mₖ base`:

* `fit_no_gain` — no level becomes writable: where the expected type says `^mut`, the found type
  said `^mut` at the same level.
* `fit_invariant_below_top` — below the outermost pointer the two towers are IDENTICAL. This is what
  closes the `T** → const T**` hole: if `^mut ^mut T` were accepted as `^mut ^T`, a `^T` to immutable
  data could be stored through it into a variable of type `^mut T`.

Both are stated for a base type that is not weak (`mightBeWeak = false`): a weak pointee (`{uint}`)
is re-typed by the conversion itself rather than viewed through it.
-/
namespace CapyV.C14Fit
open CapyV CapyV.Ty

/-- `^m₀ ^m₁ … base`, outermost first -/
def tower (ms : List Bool) (base : Ty) : Ty := ms.foldr Ty.pointer base

@[simp] theorem tower_nil (b : Ty) : tower [] b = b := rfl
@[simp] theorem tower_cons (m : Bool) (ms : List Bool) (b : Ty) : tower (m :: ms) b = .pointer m (tower ms b) := rfl

theorem tower_mightBeWeak (ms : List Bool) (b : Ty) : (tower ms b).mightBeWeak = b.mightBeWeak := by
  induction ms with
  | nil => rfl
  | cons m ms ih => simp [Ty.mightBeWeak, ih]

/-- functional equivalence of two towers of the same height over the same base: the same tower -/
theorem funcEquiv_tower (s d : List Bool) (b : Ty) (hl : s.length = d.length)
    (h : isFuncEquiv (tower s b) (tower d b) false = true) : s = d := by
  induction s generalizing d with
  | nil => cases d with
    | nil => rfl
    | cons _ _ => simp at hl
  | cons m s ih => cases d with
    | nil => simp at hl
    | cons m' d =>
      simp only [tower_cons] at h
      rw [isFuncEquiv] at h
      simp only [Bool.and_eq_true, beq_iff_eq] at h
      simp only [List.length_cons, Nat.add_right_cancel_iff] at hl
      rw [h.1, ih d hl h.2]

/-- what `can_fit_into` says about two pointers with a non-weak pointee -/
theorem fit_pointer (fm em : Bool) (fs es : Ty) (hw : fs.mightBeWeak = false)
    (h : canFitInto (.pointer fm fs) (.pointer em es) = true) :
    mutOk fm em = true ∧ (fs = es ∨ isFuncEquiv fs es false = true) := by
  rw [canFitInto] at h
  split at h
  · rename_i heq
    injection heq with h1 h2
    subst h1 h2
    exact ⟨by cases fm <;> rfl, .inl rfl⟩
  · simp only [hw, Bool.false_and, Bool.false_or, Bool.and_eq_true] at h
    exact ⟨h.1, .inr h.2⟩

/-- below the outermost pointer nothing changes -/
theorem fit_invariant_below_top (m m' : Bool) (s d : List Bool) (b : Ty) (hb : b.mightBeWeak = false)
    (hl : s.length = d.length)
    (h : canFitInto (tower (m :: s) b) (tower (m' :: d) b) = true) : s = d := by
  simp only [tower_cons] at h
  have := fit_pointer m m' _ _ (by rw [tower_mightBeWeak]; exact hb) h
  rcases this.2 with he | he
  · -- equal towers of equal height
    clear h this
    induction s generalizing d with
    | nil => cases d with
      | nil => rfl
      | cons _ _ => simp at hl
    | cons x s ih => cases d with
      | nil => simp at hl
      | cons y d =>
        simp only [tower_cons] at he
        injection he with h1 h2
        simp only [List.length_cons, Nat.add_right_cancel_iff] at hl
        rw [h1, ih d hl h2]
  · exact funcEquiv_tower s d b hl he

/-- no level gains write access -/
theorem fit_no_gain (s d : List Bool) (b : Ty) (hb : b.mightBeWeak = false) (hl : s.length = d.length)
    (h : canFitInto (tower s b) (tower d b) = true) (i : Nat) (hd : d[i]? = some true) :
    s[i]? = some true := by
  cases s with
  | nil => cases d with
    | nil => simp at hd
    | cons _ _ => simp at hl
  | cons m s => cases d with
    | nil => simp at hl
    | cons m' d =>
      simp only [List.length_cons, Nat.add_right_cancel_iff] at hl
      have htail := fit_invariant_below_top m m' s d b hb hl h
      subst htail
      cases i with
      | zero =>
        simp only [tower_cons] at h
        have := (fit_pointer m m' _ _ (by rw [tower_mightBeWeak]; exact hb) h).1
        simp only [List.getElem?_cons_zero, Option.some.injEq] at hd ⊢
        subst hd
        cases m <;> simp [mutOk] at this ⊢
      | succ i => simpa using hd

/-- the classic hole, stated outright: a mutable pointer to a MUTABLE pointer is not accepted where a
mutable pointer to an IMMUTABLE pointer is expected -/
theorem no_const_cast_hole (b : Ty) (hb : b.mightBeWeak = false) :
    canFitInto (.pointer true (.pointer true b)) (.pointer true (.pointer false b)) = false := by
  cases h : canFitInto (.pointer true (.pointer true b)) (.pointer true (.pointer false b)) with
  | false => rfl
  | true =>
    have := fit_invariant_below_top true true [true] [false] b hb rfl (by simpa using h)
    simp at this

/-- non-vacuity: the conversions that only DROP write access at the top are accepted -/
example : canFitInto (tower [true, false, true] (.iint 32)) (tower [false, false, true] (.iint 32)) = true := by
  simp [tower, canFitInto, mutOk, isFuncEquiv, Ty.mightBeWeak]

end CapyV.C14Fit

/-! ## towers with slice levels

A slice is a writable view of its elements (`s[i] = v` needs no `^mut`), so below a slice level
nothing may change either. -/
namespace CapyV.C14Fit
open CapyV CapyV.Ty

/-- one level of a tower: a pointer with its mutability, or a slice -/
inductive Level where
  | ptr (m : Bool)
  | slice
  deriving DecidableEq, Repr

def Level.wrap : Level → Ty → Ty
  | .ptr m, t => .pointer m t
  | .slice, t => .slice t

/-- same constructor (pointer / slice), whatever the mutability -/
def Level.sameKind : Level → Level → Bool
  | .ptr _, .ptr _ => true
  | .slice, .slice => true
  | _, _ => false

def mtower (ls : List Level) (base : Ty) : Ty := ls.foldr Level.wrap base

@[simp] theorem mtower_nil (b : Ty) : mtower [] b = b := rfl
@[simp] theorem mtower_cons (l : Level) (ls : List Level) (b : Ty) :
    mtower (l :: ls) b = l.wrap (mtower ls b) := rfl

theorem mtower_mightBeWeak (ls : List Level) (b : Ty) : (mtower ls b).mightBeWeak = b.mightBeWeak := by
  induction ls with
  | nil => rfl
  | cons l ls ih => cases l <;> simp [Level.wrap, Ty.mightBeWeak, ih]

/-- two towers of the same shape -/
def sameShape : List Level → List Level → Bool
  | [], [] => true
  | a :: as, b :: bs => a.sameKind b && sameShape as bs
  | _, _ => false

theorem funcEquiv_mtower (s d : List Level) (b : Ty) (hs : sameShape s d = true)
    (h : isFuncEquiv (mtower s b) (mtower d b) false = true) : s = d := by
  induction s generalizing d with
  | nil => cases d with
    | nil => rfl
    | cons _ _ => simp [sameShape] at hs
  | cons x s ih => cases d with
    | nil => simp [sameShape] at hs
    | cons y d =>
      simp only [sameShape, Bool.and_eq_true] at hs
      cases x <;> cases y <;> simp only [Level.sameKind] at hs
      · simp only [mtower_cons, Level.wrap] at h
        rw [isFuncEquiv] at h
        simp only [Bool.and_eq_true, beq_iff_eq] at h
        rw [h.1, ih d hs.2 h.2]
      · cases hs.1
      · cases hs.1
      · simp only [mtower_cons, Level.wrap] at h
        rw [isFuncEquiv] at h
        rw [ih d hs.2 h]

theorem eq_mtower (s d : List Level) (b : Ty) (hs : sameShape s d = true)
    (h : mtower s b = mtower d b) : s = d := by
  induction s generalizing d with
  | nil => cases d with
    | nil => rfl
    | cons _ _ => simp [sameShape] at hs
  | cons x s ih => cases d with
    | nil => simp [sameShape] at hs
    | cons y d =>
      simp only [sameShape, Bool.and_eq_true] at hs
      cases x <;> cases y <;> simp only [Level.sameKind] at hs
      · simp only [mtower_cons, Level.wrap] at h
        injection h with h1 h2
        rw [h1, ih d hs.2 h2]
      · cases hs.1
      · cases hs.1
      · simp only [mtower_cons, Level.wrap] at h
        injection h with h2
        rw [ih d hs.2 h2]

/-- **below the outermost level nothing changes**, whether that level is a pointer or a slice -/
theorem mfit_invariant_below_top (x y : Level) (s d : List Level) (b : Ty) (hb : b.mightBeWeak = false)
    (hs : sameShape (x :: s) (y :: d) = true)
    (h : canFitInto (mtower (x :: s) b) (mtower (y :: d) b) = true) : s = d := by
  simp only [sameShape, Bool.and_eq_true] at hs
  cases x <;> cases y <;> simp only [Level.sameKind] at hs
  · rename_i m m'
    simp only [mtower_cons, Level.wrap] at h
    have := fit_pointer m m' _ _ (by rw [mtower_mightBeWeak]; exact hb) h
    rcases this.2 with he | he
    · exact eq_mtower s d b hs.2 he
    · exact funcEquiv_mtower s d b hs.2 he
  · cases hs.1
  · cases hs.1
  · simp only [mtower_cons, Level.wrap] at h
    rw [canFitInto] at h
    split at h
    · rename_i heq
      injection heq with h2
      exact eq_mtower s d b hs.2 h2
    · exact funcEquiv_mtower s d b hs.2 h

/-- a slice of mutable pointers is not accepted where a slice of immutable pointers is expected
(through the slice, an immutable pointer could be stored into an array of `^mut T`) -/
theorem no_const_cast_hole_slice (b : Ty) (hb : b.mightBeWeak = false) :
    canFitInto (.slice (.pointer true b)) (.slice (.pointer false b)) = false := by
  cases h : canFitInto (.slice (.pointer true b)) (.slice (.pointer false b)) with
  | false => rfl
  | true =>
    have := mfit_invariant_below_top .slice .slice [.ptr true] [.ptr false] b hb rfl (by simpa [Level.wrap] using h)
    simp at this

end CapyV.C14Fit
