import CapyV.Spec.CapyCoreMem
/-!
# C01 — meta-theorems about the reference semantics `CapyCore` / `CapyCoreMem`

C01 itself is decided per program (translation validation: the built executable's output and
exit status against `CapyV.Core.run`). There is no Lean model of Cranelift code generation as
a whole; the mechanisms that are modelled and proved are the other properties (C03 defers,
C08 numerics, C10 checks, C17 layout, C23 parsing …). What is proved here is that the
reference semantics itself has the shape the property describes: integer ranges, the exit status
rule, and — for the addressable store of `CapyCoreMem` — the store frame lemmas (a write through a
pointer changes exactly the cell pointed to: the reference-semantics side of property C02),
read-after-write through a pointer, by-value copies, the slice bounds check, and that a pointer
into a dead frame is `stuck`, never given a meaning.
-/
namespace CapyV.C01
open CapyV.Core (BinOp CmpOp wrap listSet)
open CapyV.CoreMem

/-- values of an integer type stay in the type's two's-complement range -/
theorem wrap_range (signed : Bool) (bits : Nat) (z : Int) :
    (signed = false → 0 ≤ wrap signed bits z ∧ wrap signed bits z < 2 ^ bits) ∧
    (signed = true → 0 < bits → -(2 ^ (bits - 1)) ≤ wrap signed bits z ∧ wrap signed bits z < 2 ^ (bits - 1)) := by
  have hpos : (0 : Int) < 2 ^ bits := Int.pow_pos (by decide)
  have h0 := Int.emod_nonneg z (Int.ne_of_gt hpos)
  have h1 := Int.emod_lt_of_pos z hpos
  constructor
  · intro hs; subst hs; simp [wrap]; exact ⟨h0, h1⟩
  · intro hs hb; subst hs
    have hhalf : (2 : Int) ^ bits = 2 * 2 ^ (bits - 1) := by
      obtain ⟨k, rfl⟩ : ∃ k, bits = k + 1 := ⟨bits - 1, by omega⟩
      simp [Int.pow_succ, Int.mul_comm]
    have hdiv : (2 : Int) ^ bits / 2 = 2 ^ (bits - 1) := by
      rw [hhalf]; simp
    have hw : wrap true bits z = if z % 2 ^ bits ≥ 2 ^ (bits - 1) then z % 2 ^ bits - 2 ^ bits else z % 2 ^ bits := by
      simp [wrap, hdiv]
    rw [hw]
    split <;> omega

/-- wrapping is the identity on values already in range (unsigned) -/
theorem wrap_unsigned_id (bits : Nat) (z : Int) (h0 : 0 ≤ z) (h1 : z < 2 ^ bits) :
    wrap false bits z = z := by
  simp [wrap, Int.emod_eq_of_lt h0 h1]

/-- wrap-around arithmetic: `+` is addition modulo `2^bits` -/
theorem add_is_modular (signed : Bool) (bits : Nat) (a b : Int) :
    ∃ k : Int, binInt .add (.int signed bits) a b = some (a + b + k * 2 ^ bits) := by
  simp only [CoreMem.binInt, intTy, Core.binInt, Core.wrapTy, wrap]
  have hd := Int.emod_add_mul_ediv (a + b) (2 ^ bits)
  split
  · refine ⟨-((a + b) / 2 ^ bits) - 1, ?_⟩
    congr 1
    have : (-((a + b) / 2 ^ bits) - 1) * 2 ^ bits = -(2 ^ bits * ((a + b) / 2 ^ bits)) - 2 ^ bits := by
      rw [Int.sub_mul, Int.neg_mul, Int.one_mul, Int.mul_comm]
    omega
  · refine ⟨-((a + b) / 2 ^ bits), ?_⟩
    congr 1
    have : (-((a + b) / 2 ^ bits)) * 2 ^ bits = -(2 ^ bits * ((a + b) / 2 ^ bits)) := by
      rw [Int.neg_mul, Int.mul_comm]
    omega

/-- **exit status rule**: the status is main's integer result reduced to the low 8 bits of its
64-bit two's-complement pattern; 0 for anything that is not an integer (a `void` main). -/
theorem exit_status_rule (z : Int) :
    exitStatus (.int z) = (z % 2 ^ 64).toNat % 256 ∧ exitStatus .void = 0 := by
  simp [exitStatus, wrap]

theorem exit_status_lt (v : Val) : exitStatus v < 256 := by
  unfold exitStatus
  split
  · exact Nat.mod_lt _ (by decide)
  · decide

/-- **store frame (variables)**: assigning one variable changes no other variable. -/
theorem setVar_frame (x y : Nat) (v : Val) (env : List (Nat × Val)) (h : y ≠ x) :
    lookup y (setVar x v env) = lookup y env := by
  induction env with
  | nil => simp [setVar, lookup, h]
  | cons p r ih =>
    obtain ⟨k, w⟩ := p
    simp only [setVar]
    by_cases hk : x = k
    · subst hk; simp [lookup, h]
    · simp only [hk, if_false, lookup]
      by_cases hy : y = k
      · simp [hy]
      · simp [hy, ih]

theorem setVar_get (x : Nat) (v : Val) (env : List (Nat × Val)) :
    lookup x (setVar x v env) = some v := by
  induction env with
  | nil => simp [setVar, lookup]
  | cons p r ih =>
    obtain ⟨k, w⟩ := p
    simp only [setVar]
    by_cases hk : x = k
    · subst hk; simp [lookup]
    · simp [hk, lookup, ih]

/-- **store frame (elements / fields)**: writing one element leaves every other element as it was
and does not change the length. -/
theorem listSet_frame {α} (l : List α) (i j : Nat) (v : α) (h : j ≠ i) :
    (listSet l i v)[j]? = l[j]? := by
  induction l generalizing i j with
  | nil => simp [listSet]
  | cons a r ih =>
    cases i with
    | zero =>
      cases j with
      | zero => exact absurd rfl h
      | succ j => simp [listSet]
    | succ i =>
      cases j with
      | zero => simp [listSet]
      | succ j => simp [listSet]; exact ih i j (by omega)

theorem listSet_length {α} (l : List α) (i : Nat) (v : α) : (listSet l i v).length = l.length := by
  induction l generalizing i with
  | nil => simp [listSet]
  | cons a r ih => cases i <;> simp [listSet, ih]

/-! ## the addressable store -/

theorem listSet_same {α} (l : List α) (i : Nat) (v e : α) (h : l[i]? = some e) :
    (listSet l i v)[i]? = some v := by
  induction l generalizing i with
  | nil => simp at h
  | cons a r ih =>
    cases i with
    | zero => simp [listSet]
    | succ i => simp [listSet]; exact ih i (by simpa using h)

/-- reading back the sub-value just written -/
theorem getPath_setPath_same : ∀ (path : List Nat) (old v new : Val),
    setPath old path v = some new → getPath new path = some v
  | [], old, v, new, h => by
    cases old <;> simp [setPath] at h <;> subst h <;> cases v <;> simp [getPath]
  | i :: r, old, v, new, h => by
    cases old <;> simp only [setPath] at h <;> try (exact absurd h (by simp))
    all_goals
      split at h
      · rename_i e he
        split at h
        · rename_i e' he'
          cases h
          simp only [getPath, listSet_same _ i e' e he]
          exact getPath_setPath_same r e v e' he'
        · cases h
      · cases h

/-- a write below index `i` leaves everything below another index `j` as it was -/
theorem getPath_setPath_diverge (old v new : Val) (i j : Nat) (r r' : List Nat) (hij : j ≠ i)
    (h : setPath old (i :: r) v = some new) : getPath new (j :: r') = getPath old (j :: r') := by
  cases old <;> simp only [setPath] at h <;> try (exact absurd h (by simp))
  all_goals
    split at h
    · split at h
      · cases h
        simp only [getPath, listSet_frame _ i j _ hij]
      · cases h
    · cases h

/-- … at any depth: two access paths that diverge somewhere denote independent sub-values -/
theorem getPath_setPath_disjoint : ∀ (pre : List Nat) (old v new : Val) (i j : Nat) (r r' : List Nat),
    j ≠ i → setPath old (pre ++ i :: r) v = some new →
    getPath new (pre ++ j :: r') = getPath old (pre ++ j :: r')
  | [], old, v, new, i, j, r, r', hij, h => getPath_setPath_diverge old v new i j r r' hij h
  | k :: pre, old, v, new, i, j, r, r', hij, h => by
    cases old <;> simp only [List.cons_append, setPath] at h <;> try (exact absurd h (by simp))
    all_goals
      split at h
      · rename_i e he
        split at h
        · rename_i e' he'
          cases h
          simp only [List.cons_append, getPath, listSet_same _ k e' e he, he]
          exact getPath_setPath_disjoint pre e v e' i j r r' hij he'
        · cases h
      · cases h

theorem lookupFrame_setFrame_same (f : Nat) (e : Env) (stk : List (Nat × Env)) (old : Env)
    (h : lookupFrame f stk = some old) : lookupFrame f (setFrame f e stk) = some e := by
  induction stk with
  | nil => simp [lookupFrame] at h
  | cons a r ih =>
    obtain ⟨g, e'⟩ := a
    by_cases hg : f = g
    · simp [setFrame, lookupFrame, hg]
    · simp only [lookupFrame, hg, if_false] at h
      simp [setFrame, lookupFrame, hg, ih h]

theorem lookupFrame_setFrame_other (f g : Nat) (e : Env) (stk : List (Nat × Env)) (h : g ≠ f) :
    lookupFrame g (setFrame f e stk) = lookupFrame g stk := by
  induction stk with
  | nil => simp [setFrame]
  | cons a r ih =>
    obtain ⟨k, e'⟩ := a
    by_cases hk : f = k
    · subst hk; simp [setFrame, lookupFrame, h]
    · by_cases hgk : g = k <;> simp [setFrame, lookupFrame, hk, hgk, ih]

theorem setFrame_ids (f : Nat) (e : Env) (stk : List (Nat × Env)) :
    (setFrame f e stk).map (·.1) = stk.map (·.1) := by
  induction stk with
  | nil => simp [setFrame]
  | cons a r ih =>
    obtain ⟨k, e'⟩ := a
    by_cases hk : f = k <;> simp [setFrame, hk, ih]

/-- the variables of frame `f` after its environment was replaced -/
theorem frameEnv_with_same (st : St) (f : Nat) (e old : Env) (h : frameEnv st f = some old) :
    frameEnv (withFrameEnv st f e) f = some e := by
  unfold frameEnv withFrameEnv at *
  by_cases hf : f = st.fid
  · simp [hf]
  · simp only [hf, if_false] at h ⊢
    exact lookupFrame_setFrame_same f e st.stack old h

theorem frameEnv_with_other (st : St) (f g : Nat) (e : Env) (h : g ≠ f) :
    frameEnv (withFrameEnv st f e) g = frameEnv st g := by
  unfold frameEnv withFrameEnv
  by_cases hf : f = st.fid
  · subst hf; simp [h]
  · by_cases hg : g = st.fid
    · simp [hf, hg]
    · simp [hf, hg, lookupFrame_setFrame_other f g e st.stack h]

/-- **(b) read-after-write.** Reading a cell immediately after a store to it yields the stored value. -/
theorem load_after_store (st st' : St) (c : Cell) (v : Val) (h : storeCell st c v = some st') :
    loadCell st' c = some v := by
  unfold storeCell at h
  split at h
  · cases h
  · rename_i env henv
    split at h
    · cases h
    · rename_i old hold
      split at h
      · cases h
      · rename_i new hnew
        cases h
        simp only [loadCell, frameEnv_with_same st c.frame _ env henv, setVar_get]
        exact getPath_setPath_same c.path old v new hnew

/-- **(a) store frame lemma, other variables.** A store to cell `c` leaves every cell of every
other variable — of the same frame or of any other frame — exactly as it was. -/
theorem store_frame_other_var (st st' : St) (c c' : Cell) (v : Val)
    (h : storeCell st c v = some st') (hne : c'.frame ≠ c.frame ∨ c'.var ≠ c.var) :
    loadCell st' c' = loadCell st c' := by
  unfold storeCell at h
  split at h
  · cases h
  · rename_i env henv
    split at h
    · cases h
    · split at h
      · cases h
      · rename_i new _
        cases h
        by_cases hf : c'.frame = c.frame
        · have hv : c'.var ≠ c.var := by
            cases hne with
            | inl h => exact absurd hf h
            | inr h => exact h
          simp only [loadCell, hf, frameEnv_with_same st c.frame _ env henv, henv, setVar_frame _ _ _ _ hv]
        · simp only [loadCell, frameEnv_with_other st c.frame c'.frame _ hf]

/-- **(a) store frame lemma, same variable.** A store at access path `pre ++ i :: r` of a variable
leaves the sub-values at every diverging path `pre ++ j :: r'` (`j ≠ i`) of that variable as
they were: a write to one element / field does not touch its siblings, at any depth. -/
theorem store_frame_disjoint_path (st st' : St) (f x : Nat) (pre r r' : List Nat) (i j : Nat) (v : Val)
    (hij : j ≠ i) (h : storeCell st ⟨f, x, pre ++ i :: r⟩ v = some st') :
    loadCell st' ⟨f, x, pre ++ j :: r'⟩ = loadCell st ⟨f, x, pre ++ j :: r'⟩ := by
  unfold storeCell at h
  split at h
  · cases h
  · rename_i env henv
    split at h
    · cases h
    · rename_i old hold
      split at h
      · cases h
      · rename_i new hnew
        cases h
        simp only at henv hold hnew
        simp only [loadCell, frameEnv_with_same st f _ env henv, henv, setVar_get, hold]
        exact getPath_setPath_disjoint pre old v new i j r r' hij hnew

/-- a store changes nothing but variables: output, the running frame, the set of live frames and
the frame-id counter stay as they were -/
theorem store_preserves_shape (st st' : St) (c : Cell) (v : Val) (h : storeCell st c v = some st') :
    st'.out = st.out ∧ st'.fid = st.fid ∧ st'.next = st.next ∧
      st'.stack.map (·.1) = st.stack.map (·.1) := by
  unfold storeCell at h
  split at h
  · cases h
  · split at h
    · cases h
    · split at h
      · cases h
      · cases h
        unfold withFrameEnv
        split <;> simp [setFrame_ids]

/-- **by-value copies.** After `b := a`, a store into (any part of) `a` — directly or through a
pointer — does not change `b`. (`storeCell` is the only way the interpreter changes a variable.) -/
theorem copy_is_by_value (st st' : St) (a b : Nat) (path : List Nat) (v : Val) (hab : b ≠ a)
    (h : storeCell st ⟨st.fid, a, path⟩ v = some st') :
    loadCell st' ⟨st.fid, b, []⟩ = loadCell st ⟨st.fid, b, []⟩ :=
  store_frame_other_var st st' ⟨st.fid, a, path⟩ ⟨st.fid, b, []⟩ v h (Or.inr hab)

/-- **the statement `p^ = e`**: with `p` holding a pointer to cell `c`, the assignment evaluates
`e` and then stores its value at `c` — by the frame lemmas above nothing else changes. -/
theorem assign_through_pointer (p : Program) (n x : Nat) (e : Expr) (regs : List Stmt)
    (st st2 st3 : St) (c : Cell) (v : Val)
    (hx : lookup x st.env = some (.ptr c))
    (he : evalE p (n + 2) e st = .ok (v, st2))
    (hs : storeCell st2 c v = some st3) :
    execSCore p (n + 3) (.assign (.deref (.var x)) e) regs st = .ok (.normal, regs, st3) := by
  have hv : evalE p (n + 1) (.var x) st = .ok (.ptr c, st) := by simp [evalE, hx]
  simp only [execSCore, resolve, hv, he, hs]

/-- **(b) at the level of expressions**: `p^` evaluates to whatever is stored at the cell `p`
points to, and changes nothing -/
theorem deref_reads_cell (p : Program) (n x : Nat) (st : St) (c : Cell) (v : Val)
    (hx : lookup x st.env = some (.ptr c)) (hl : loadCell st c = some v) :
    evalE p (n + 2) (.deref (.var x)) st = .ok (v, st) := by
  simp [evalE, hx, hl]

/-- `p^ = e; … p^` — the read that follows the write sees the written value, provided `p` still
holds the same pointer (it does unless `c` is `p`'s own cell) -/
theorem read_back_through_pointer (p : Program) (n m x : Nat) (e : Expr) (regs : List Stmt)
    (st st2 st3 : St) (c : Cell) (v : Val)
    (hx : lookup x st.env = some (.ptr c))
    (he : evalE p (n + 2) e st = .ok (v, st2))
    (hs : storeCell st2 c v = some st3)
    (hx3 : lookup x st3.env = some (.ptr c)) :
    execSCore p (n + 3) (.assign (.deref (.var x)) e) regs st = .ok (.normal, regs, st3) ∧
      evalE p (m + 2) (.deref (.var x)) st3 = .ok (v, st3) :=
  ⟨assign_through_pointer p n x e regs st st2 st3 c v hx he hs,
   deref_reads_cell p m x st3 c v hx3 (load_after_store st2 st3 c v hs)⟩

/-- **(c) slice bounds check, reads**: an index `k ≥ len` into a slice faults with
`indexOutOfBounds`; the state is the one after evaluating the operands — nothing was accessed. -/
theorem slice_index_out_of_bounds (p : Program) (n : Nat) (a i : Expr) (st st1 st2 : St)
    (c : Cell) (len : Nat) (k : Int)
    (ha : evalE p n a st = .ok (.slice c len, st1))
    (hi : evalE p n i st1 = .ok (.int k, st2))
    (hk : (len : Int) ≤ k) :
    evalE p (n + 1) (.index a i) st = .error (.indexOutOfBounds, st2) := by
  have h0 : ¬ k < 0 := by omega
  have h1 : ¬ k.toNat < len := by omega
  simp [evalE, ha, hi, h0, h1]

/-- **(c) slice bounds check, writes**: `s[i] = e` with `i ≥ s.len` faults with
`indexOutOfBounds` before `e` is evaluated and before anything is stored: the resulting state is
the one after evaluating the place's operands. -/
theorem slice_store_out_of_bounds (p : Program) (n : Nat) (q : Place) (i e : Expr) (regs : List Stmt)
    (st st1 st2 : St) (cs c : Cell) (len : Nat) (k : Int)
    (hq : resolve p n q st = .ok (cs, st1))
    (hi : evalE p n i st1 = .ok (.int k, st2))
    (hl : loadCell st2 cs = some (.slice c len))
    (hk : (len : Int) ≤ k) :
    execSCore p (n + 2) (.assign (.index q i) e) regs st = .error (.indexOutOfBounds, st2) := by
  have h0 : ¬ k < 0 := by omega
  have h1 : ¬ k.toNat < len := by omega
  simp [execSCore, resolve, hq, hi, hl, indexCell, h0, h1]

/-- an in-range index into a slice reads the element cell of the underlying array -/
theorem slice_index_in_bounds (p : Program) (n : Nat) (a i : Expr) (st st1 st2 : St)
    (c : Cell) (len : Nat) (k : Int) (v : Val)
    (ha : evalE p n a st = .ok (.slice c len, st1))
    (hi : evalE p n i st1 = .ok (.int k, st2))
    (h0 : 0 ≤ k) (hk : k < len)
    (hl : loadCell st2 (c.push k.toNat) = some v) :
    evalE p (n + 1) (.index a i) st = .ok (v, st2) := by
  have h0' : ¬ k < 0 := by omega
  have h1 : k.toNat < len := by omega
  simp [evalE, ha, hi, h0', h1, hl]

/-- **dead frames.** A cell of a frame that is neither running nor suspended cannot be read or
written: `loadCell`/`storeCell` answer `none`, which the interpreter reports as `stuck`. -/
theorem dead_frame_no_access (st : St) (c : Cell) (v : Val)
    (h1 : c.frame ≠ st.fid) (h2 : lookupFrame c.frame st.stack = none) :
    loadCell st c = none ∧ storeCell st c v = none := by
  simp [loadCell, storeCell, frameEnv, h1, h2]

theorem deref_dead_frame_stuck (p : Program) (n x : Nat) (st : St) (c : Cell)
    (hx : lookup x st.env = some (.ptr c))
    (h1 : c.frame ≠ st.fid) (h2 : lookupFrame c.frame st.stack = none) :
    evalE p (n + 2) (.deref (.var x)) st
      = .error (.stuck "dereference of a pointer into a dead frame", st) := by
  simp [evalE, hx, (dead_frame_no_access st c .void h1 h2).1]

/-- a function's frame id is fresh, and it is dead once the function has returned: after
`pushFrame` … `popFrame` the callee's id is neither the running frame nor on the stack, provided
ids below `next` were the only ones in use -/
theorem callee_frame_dies (st : St) (env : Env)
    (hfid : st.fid < st.next) (hstk : ∀ g ∈ st.stack.map (·.1), g < st.next) :
    let callee := pushFrame st env
    let back := popFrame callee
    callee.fid ≠ back.fid ∧ lookupFrame callee.fid back.stack = none := by
  simp only [pushFrame, popFrame]
  refine ⟨by omega, ?_⟩
  generalize st.stack = stk at hstk
  induction stk with
  | nil => rfl
  | cons a r ih =>
    obtain ⟨g, e⟩ := a
    have hg : g < st.next := hstk g (by simp)
    have : st.next ≠ g := by omega
    simp only [lookupFrame, this, if_false]
    exact ih (fun g' hg' => hstk g' (by simp at hg' ⊢; exact Or.inr hg'))

/-- frame ids in use are below the counter: the invariant that makes every new frame id fresh -/
def FramesWF (st : St) : Prop := st.fid < st.next ∧ ∀ g ∈ st.stack.map (·.1), g < st.next

theorem framesWF_init : FramesWF St.init := by
  refine ⟨by decide, ?_⟩
  intro g hg
  simp [St.init] at hg

/-- entering a function keeps the invariant, and the callee's frame id is none of the live ones:
an activation never shares cells with another one — in particular not with an outer activation
of the *same* function (recursion) -/
theorem framesWF_push (st : St) (env : Env) (h : FramesWF st) :
    FramesWF (pushFrame st env) ∧ (pushFrame st env).fid ≠ st.fid ∧
      (pushFrame st env).fid ∉ st.stack.map (·.1) := by
  obtain ⟨h1, h2⟩ := h
  refine ⟨⟨by simp [pushFrame], ?_⟩, by simp only [pushFrame]; omega, ?_⟩
  · intro g hg
    simp only [pushFrame, List.map_cons, List.mem_cons] at hg ⊢
    cases hg with
    | inl h => omega
    | inr h => have := h2 g h; omega
  · intro hmem
    have := h2 _ hmem
    simp only [pushFrame] at this
    omega

/-- leaving a function keeps the invariant -/
theorem framesWF_pop (st : St) (h : FramesWF st) : FramesWF (popFrame st) := by
  obtain ⟨h1, h2⟩ := h
  unfold popFrame
  split
  · rename_i f e r hs
    rw [hs] at h2
    refine ⟨h2 f (by simp), ?_⟩
    intro g hg
    exact h2 g (by simp only [List.map_cons, List.mem_cons]; exact Or.inr hg)
  · exact ⟨h1, h2⟩

/-- a store keeps the invariant (it changes no frame id) -/
theorem framesWF_store (st st' : St) (c : Cell) (v : Val) (h : FramesWF st)
    (hs : storeCell st c v = some st') : FramesWF st' := by
  obtain ⟨_, hfid, hnext, hids⟩ := store_preserves_shape st st' c v hs
  obtain ⟨h1, h2⟩ := h
  exact ⟨by omega, by rw [hids, hnext]; exact h2⟩

/-! non-vacuity: a complete program, evaluated by the kernel -/
def exProg : Program :=
  { fns := [{ params := [], retTy := .int true 32,
              body := [.letS 1 (.lit (.int false 8) 200),
                       .print (.bin .add (.int false 8) (.var 1) (.lit (.int false 8) 100)),
                       .deferS (.print (.lit (.int true 32) 7)),
                       .ret (some (.lit (.int true 32) 300))] }] }

example : wrap false 8 300 = 44 := by decide
example : wrap true 8 (-129) = 127 := by decide

/-- `main`: `x := 5; a := [1,2,3]; p :: ^mut x; f1(p, ^mut a[1]); b := a; a[1] = 9; print x, a[1], b[1];
s : []i32 = a; print s.len; print s[5]` with `f1(p, q) { p^ = p^ + 1; q^ = 40; }` -/
def exMem : Program :=
  let i32 : Ty := .int true 32
  { fns := [
      { params := [], retTy := .void,
        body := [.letS 1 (.lit i32 5),
                 .letS 2 (.arrLit [.lit i32 1, .lit i32 2, .lit i32 3]),
                 .letS 3 (.addrOf (.var 1)),
                 .exprS (.call 1 [.var 3, .addrOf (.index (.var 2) (.lit i32 1))]),
                 .letS 4 (.var 2),
                 .assign (.index (.var 2) (.lit i32 1)) (.lit i32 9),
                 .print (.var 1),
                 .print (.index (.var 2) (.lit i32 1)),
                 .print (.index (.var 4) (.lit i32 1)),
                 .letS 5 (.sliceOf (.var 2)),
                 .print (.len (.var 5)),
                 .print (.index (.var 5) (.lit i32 5))] },
      { params := [10, 11], retTy := .void,
        body := [.assign (.deref (.var 10)) (.bin .add i32 (.deref (.var 10)) (.lit i32 1)),
                 .assign (.deref (.var 11)) (.lit i32 40)] } ] }

/-- the callee wrote the caller's `x` and `a[1]`; the copy `b` kept the value it was made from;
the slice has the array's length and its bounds check aborts the run -/
example : run exMem 40 = ⟨["6", "9", "40", "3"], "fault=index"⟩ := by decide +kernel

/-- a pointer that outlives its frame: `f1` returns `^local`; dereferencing it in `main` is stuck -/
def exDangling : Program :=
  let i32 : Ty := .int true 32
  { fns := [
      { params := [], retTy := .void, body := [.letS 1 (.call 1 []), .print (.deref (.var 1))] },
      { params := [], retTy := .ptr false i32, body := [.letS 2 (.lit i32 7), .ret (some (.addrOf (.var 2)))] } ] }

/-- recursion: `f1(n, p)` adds `n` to `p^`, keeps a local `x = n`, and calls itself with `n - 1`
and a pointer to *its own* `x`; after the inner call it prints `x` (changed by the inner
activation through the pointer) — each activation has its own `x` although the variable id is the same -/
def exRec : Program :=
  let u8 : Ty := .int false 8
  { fns := [
      { params := [], retTy := .void,
        body := [.letS 1 (.lit u8 100),
                 .exprS (.call 1 [.lit u8 2, .addrOf (.var 1)]),
                 .print (.var 1)] },
      { params := [10, 11], retTy := .void,
        body := [.opAssign .add u8 (.deref (.var 11)) (.var 10),
                 .letS 12 (.var 10),
                 .ifS (.cmp .gt u8 (.var 10) (.lit u8 0))
                   [.exprS (.call 1 [.bin .sub u8 (.var 10) (.lit u8 1), .addrOf (.var 12)])] [],
                 .print (.var 12)] } ] }

/-- innermost first: `x₀ = 0`; `x₁ = 1 + 0`; `x₂ = 2 + 1`; main's cell got `+ 2` only -/
example : run exRec 60 = ⟨["0", "1", "3", "102"], "exit=0"⟩ := by decide +kernel

example : run exDangling 40 = ⟨[], "stuck=dereference of a pointer into a dead frame"⟩ := by
  decide +kernel

end CapyV.C01
