import CapyV.Spec.CapyCore
/-!
# C01 — meta-theorems about the reference semantics `CapyCore`

C01 itself is decided per program (translation validation: the built executable's output and
exit status against `CapyV.Core.run`). There is no Lean model of Cranelift code generation as
a whole; the mechanisms that are modelled and proved are the other properties (C03 defers,
C08 numerics, C10 checks, C17 layout, C23 parsing …). What is proved here is that the
reference semantics itself has the shape the property describes.
-/
namespace CapyV.C01
open CapyV.Core

/-- values of an integer type stay in the type's two's-complement range -/
theorem wrap_range (signed : Bool) (bits : Nat) (z : Int) :
    (signed = false → 0 ≤ wrap signed bits z ∧ wrap signed bits z < 2 ^ bits) ∧
    (signed = true → 0 < bits → -(2 ^ (bits - 1)) ≤ wrap signed bits z ∧ wrap signed bits z < 2 ^ (bits - 1)) := by
  have hpos : (0 : Int) < 2 ^ bits := Int.pow_pos (by decide)
  have h0 := Int.emod_nonneg z (Int.ne_of_gt hpos)
  have h1 := Int.emod_lt_of_pos z hpos
  constructor
  · intro hs; subst hs; simp [wrap]; exact ⟨h0, h1⟩
  · intro hs hb; subst hs
    have hhalf : (2 : Int) ^ bits = 2 * 2 ^ (bits - 1) := by
      obtain ⟨k, rfl⟩ : ∃ k, bits = k + 1 := ⟨bits - 1, by omega⟩
      simp [Int.pow_succ, Int.mul_comm]
    have hdiv : (2 : Int) ^ bits / 2 = 2 ^ (bits - 1) := by
      rw [hhalf]; simp
    have hw : wrap true bits z = if z % 2 ^ bits ≥ 2 ^ (bits - 1) then z % 2 ^ bits - 2 ^ bits else z % 2 ^ bits := by
      simp [wrap, hdiv]
    rw [hw]
    split <;> omega

/-- wrapping is the identity on values already in range (unsigned) -/
theorem wrap_unsigned_id (bits : Nat) (z : Int) (h0 : 0 ≤ z) (h1 : z < 2 ^ bits) :
    wrap false bits z = z := by
  simp [wrap, Int.emod_eq_of_lt h0 h1]

/-- wrap-around arithmetic: `+` is addition modulo `2^bits` -/
theorem add_is_modular (signed : Bool) (bits : Nat) (a b : Int) :
    ∃ k : Int, binInt .add (.int signed bits) a b = some (a + b + k * 2 ^ bits) := by
  simp only [binInt, wrapTy, wrap]
  have hd := Int.emod_add_mul_ediv (a + b) (2 ^ bits)
  split
  · refine ⟨-((a + b) / 2 ^ bits) - 1, ?_⟩
    congr 1
    have : (-((a + b) / 2 ^ bits) - 1) * 2 ^ bits = -(2 ^ bits * ((a + b) / 2 ^ bits)) - 2 ^ bits := by
      rw [Int.sub_mul, Int.neg_mul, Int.one_mul, Int.mul_comm]
    omega
  · refine ⟨-((a + b) / 2 ^ bits), ?_⟩
    congr 1
    have : (-((a + b) / 2 ^ bits)) * 2 ^ bits = -(2 ^ bits * ((a + b) / 2 ^ bits)) := by
      rw [Int.neg_mul, Int.mul_comm]
    omega

/-- **exit status rule**: the status is main's integer result reduced to the low 8 bits of its
64-bit two's-complement pattern; 0 for anything that is not an integer (a `void` main). -/
theorem exit_status_rule (z : Int) :
    exitStatus (.int z) = (z % 2 ^ 64).toNat % 256 ∧ exitStatus .void = 0 := by
  simp [exitStatus, wrap]

theorem exit_status_lt (v : Val) : exitStatus v < 256 := by
  unfold exitStatus
  split
  · exact Nat.mod_lt _ (by decide)
  · decide

/-- **store frame (variables)**: assigning one variable changes no other variable. -/
theorem setVar_frame (x y : Nat) (v : Val) (env : List (Nat × Val)) (h : y ≠ x) :
    lookup y (setVar x v env) = lookup y env := by
  induction env with
  | nil => simp [setVar, lookup, h]
  | cons p r ih =>
    obtain ⟨k, w⟩ := p
    simp only [setVar]
    by_cases hk : x = k
    · subst hk; simp [lookup, h]
    · simp only [hk, if_false, lookup]
      by_cases hy : y = k
      · simp [hy]
      · simp [hy, ih]

theorem setVar_get (x : Nat) (v : Val) (env : List (Nat × Val)) :
    lookup x (setVar x v env) = some v := by
  induction env with
  | nil => simp [setVar, lookup]
  | cons p r ih =>
    obtain ⟨k, w⟩ := p
    simp only [setVar]
    by_cases hk : x = k
    · subst hk; simp [lookup]
    · simp [hk, lookup, ih]

/-- **store frame (elements / fields)**: writing one element leaves every other element as it was
and does not change the length. -/
theorem listSet_frame {α} (l : List α) (i j : Nat) (v : α) (h : j ≠ i) :
    (listSet l i v)[j]? = l[j]? := by
  induction l generalizing i j with
  | nil => simp [listSet]
  | cons a r ih =>
    cases i with
    | zero =>
      cases j with
      | zero => exact absurd rfl h
      | succ j => simp [listSet]
    | succ i =>
      cases j with
      | zero => simp [listSet]
      | succ j => simp [listSet]; exact ih i j (by omega)

theorem listSet_length {α} (l : List α) (i : Nat) (v : α) : (listSet l i v).length = l.length := by
  induction l generalizing i with
  | nil => simp [listSet]
  | cons a r ih => cases i <;> simp [listSet, ih]

/-! non-vacuity: a complete program, evaluated by the kernel -/
def exProg : Program :=
  { fns := [{ params := [], retTy := .int true 32,
              body := [.letS 1 (.lit (.int false 8) 200),
                       .print (.bin .add (.int false 8) (.var 1) (.lit (.int false 8) 100)),
                       .deferS (.print (.lit (.int true 32) 7)),
                       .ret (some (.lit (.int true 32) 300))] }] }

example : wrap false 8 300 = 44 := by decide
example : wrap true 8 (-129) = 127 := by decide

end CapyV.C01
