import CapyV.Model.AggEq
/-!
C01 — aggregate comparison is structural equality: `veq a b = true ↔ a = b` (so `==` is reflexive,
symmetric, and two arrays that agree on item 0 but differ at a later item are different — the shape
of seeded change C01_1, which read items ≥ 1 at `i * size` instead of `i * stride`).
-/
namespace CapyV.C01AggEq
open CapyV.AggEq

mutual
theorem veq_refl : (a : V) → veq a a = true
  | .int z => by simp [veq]
  | .nil => by simp [veq]
  | .tag k v => by simp [veq, veq_refl v]
  | .agg vs => by simp [veq, veqs_refl vs]
theorem veqs_refl : (as : List V) → veqs as as = true
  | [] => by simp [veqs]
  | v :: vs => by simp [veqs, veq_refl v, veqs_refl vs]
end

mutual
theorem eq_of_veq : (a b : V) → veq a b = true → a = b
  | .int x, .int y, h => by simp [veq] at h; simp [h]
  | .nil, .nil, _ => rfl
  | .tag k v, .tag l w, h => by
    simp [veq] at h
    obtain ⟨h1, h2⟩ := h
    rw [h1, eq_of_veq v w h2]
  | .agg vs, .agg ws, h => by
    simp [veq] at h
    rw [eqs_of_veqs vs ws h]
  | .int _, .nil, h | .int _, .tag _ _, h | .int _, .agg _, h
  | .nil, .int _, h | .nil, .tag _ _, h | .nil, .agg _, h
  | .tag _ _, .int _, h | .tag _ _, .nil, h | .tag _ _, .agg _, h
  | .agg _, .int _, h | .agg _, .nil, h | .agg _, .tag _ _, h => by simp [veq] at h
theorem eqs_of_veqs : (as bs : List V) → veqs as bs = true → as = bs
  | [], [], _ => rfl
  | v :: vs, w :: ws, h => by
    simp [veqs] at h
    obtain ⟨h1, h2⟩ := h
    rw [eq_of_veq v w h1, eqs_of_veqs vs ws h2]
  | [], _ :: _, h | _ :: _, [], h => by simp [veqs] at h
end

/-- **`==` on aggregates is equality of values.** -/
theorem veq_iff (a b : V) : veq a b = true ↔ a = b :=
  ⟨eq_of_veq a b, fun h => h ▸ veq_refl a⟩

theorem veq_symm (a b : V) : veq a b = veq b a := by
  cases h : veq a b <;> cases h' : veq b a <;> simp_all
  · have := (veq_iff b a).mp h'; subst this; simp [veq_refl] at h
  · have := (veq_iff a b).mp h; subst this; simp [veq_refl] at h'

/-- two arrays that differ at some index are not equal, wherever the index is -/
theorem arrays_differing_somewhere (vs ws : List V) (i : Nat) (hi : i < vs.length) (hj : i < ws.length)
    (hd : veq (vs[i]) (ws[i]) = false) : veq (.agg vs) (.agg ws) = false := by
  cases h : veq (.agg vs) (.agg ws)
  · rfl
  · have := (veq_iff _ _).mp h
    injection this with this
    subst this
    simp [veq_refl] at hd

example : veq (.agg [.tag 1 (.int 1), .tag 1 (.int 2), .tag 1 (.int 3)])
              (.agg [.tag 1 (.int 1), .tag 1 (.int 2), .tag 1 (.int 4)]) = false := by decide

end CapyV.C01AggEq
