import CapyV.Proofs.Lexer
/-!
# C22 — lexing is total and lossless

Only property theorems and non-vacuity examples live here. Model: `CapyV/Model/Lexer.lean`
(+ the table `CapyV/Generated/Tokens.lean`, regenerated from `/repo/tokenizer.txt` on every
run); what the property demands: `CapyV/Spec/Lexer.lean` (`Matches`, `KindAgrees`, `Tiles`).
-/
namespace CapyV.C22
open CapyV CapyV.Regex CapyV.Tokens CapyV.Lexer

/-- **`deriv_correct`.** The Brzozowski-derivative matcher used by the model and by the
checker decides the textbook denotation of the regular expression. -/
theorem deriv_correct (r : Regex) (w : List Char) : rmatch r w = true ↔ Matches r w :=
  rmatch_iff

/-- The longest-match scan is sound and maximal: it returns the length of the longest prefix
in the language (maximal munch with backtracking to the last accepting position). -/
theorem longest_is_longest (r : Regex) (s : List Char) :
    (∀ m, longest r s = some m → m ≤ s.length ∧ Matches r (s.take m) ∧
        ∀ k, k ≤ s.length → Matches r (s.take k) → k ≤ m) ∧
    (longest r s = none → ∀ k, k ≤ s.length → ¬ Matches r (s.take k)) := by
  refine ⟨fun m h => ?_, fun h k hk hm => ?_⟩
  · obtain ⟨h1, h2⟩ := longest_sound h
    refine ⟨h1, h2, fun k hk hm => ?_⟩
    obtain ⟨m', hm', hle⟩ := longest_max hk hm
    rw [h] at hm'; cases hm'; exact hle
  · obtain ⟨m', hm', _⟩ := longest_max hk hm
    rw [h] at hm'; cases hm'

/-- **`no_rule_nullable`.** No rule of `tokenizer.txt` matches the empty text, so every
`lexer.next()` consumes at least one scalar value (termination of the main loop). -/
theorem no_rule_nullable (d : Nat) (p : Pat) (h : (d, p) ∈ rules) : ¬ PatMatches p [] := by
  intro hm
  have := rule_not_nullable h
  rw [nullable_iff.mpr hm] at this
  cases this

/-- **`transmute_tables_agree`.** Every rule other than the three `__Internal*` ones has a
discriminant that is a valid `syntax::TokenKind` discriminant whose variant has the same
`Debug` name (so the `transmute` is defined and the `debug_assert_eq!` holds), and that
kind is never one of the kinds reserved for the sub-lexers or `Error`. -/
theorem transmute_tables_agree (d : Nat) (p : Pat) (h : (d, p) ∈ rules)
    (h1 : d ≠ discInternalChar) (h2 : d ≠ discInternalString) (h3 : d ≠ discInternalComment) :
    ∃ k, transmute d = .ok k ∧ TokenKind.ofNat? d = some k ∧
      lexerKindNames[d]? = some k.toString ∧ k ∉ specials := by
  obtain ⟨k, hk, hs⟩ := rule_transmute h h1 h2 h3
  refine ⟨k, hk, transmute_ofNat hk, ?_, hs⟩
  unfold transmute at hk
  rw [transmute_ofNat (by unfold transmute; exact hk)] at hk
  simp only at hk
  split at hk
  · assumption
  · cases hk

/-- The two enums the macro derives from `tokenizer.txt` have the same variants in the same
order once the `__Internal*` tail is dropped (names equal up to one leading `_`), and the
generated `TokenKind` lists exactly those names. -/
theorem enum_tables_agree :
    tokenKindNames.length + 3 = lexerKindNames.length ∧
    TokenKind.all.map TokenKind.toString = tokenKindNames ∧
    (∀ k : TokenKind, TokenKind.ofNat? k.toNat = some k) ∧
    (List.range tokenKindNames.length).all (fun i =>
      lexerKindNames[i]? == tokenKindNames[i]? ||
      lexerKindNames[i]? == (tokenKindNames[i]?).map ("_" ++ ·)) = true := by
  refine ⟨by decide +kernel, by decide +kernel, ?_, by decide +kernel⟩
  intro k; cases k <;> rfl

/-- **Totality.** For every text, the model of `lexer::lex` terminates (the fuel
`length + 1` suffices) and returns tokens: no invalid `transmute`, no failing
`debug_assert_eq!`, no empty match, no failing `Tokens::new` assertion. -/
theorem lex_total (s : List Char) : ∃ t, lex s = .ok t := by
  obtain ⟨t, h, _⟩ := lex_spec s
  exact ⟨t, h⟩

/-- **C22, full statement (lossless + kinds agree).** The tokens produced for any text tile
it: the text splits into consecutive pieces of whole scalar values, token `i` has the kind of
piece `i`, starts at the UTF-8 length of the pieces before it, the final extra start is the
UTF-8 length of the text, and each piece is a legitimate text for its kind. -/
theorem lex_lossless (s : List Char) (t : Lexer.Tokens) (h : lex s = .ok t) : Tiles s t := by
  obtain ⟨t', h', ht⟩ := lex_spec s
  rw [h] at h'; cases h'; exact ht

/-- **`lex_covers`** — the cover clauses in the property's own words: one more start than
kinds; the first start is 0; the last is the byte length of the text; starts never decrease
(contiguous, in order); every boundary is a character boundary (the UTF-8 length of a prefix
of whole scalar values). -/
theorem lex_covers (s : List Char) (t : Lexer.Tokens) (h : lex s = .ok t) :
    t.starts.length = t.kinds.length + 1 ∧
    t.starts.head? = some 0 ∧
    t.starts.getLast? = some (utf8Len s) ∧
    t.starts.Pairwise (· ≤ ·) ∧
    ∀ b ∈ t.starts, ∃ k, k ≤ s.length ∧ b = utf8Len (s.take k) := by
  obtain ⟨pieces, h1, h2, h3, _⟩ := lex_lossless s t h
  rw [h3, h2, h1]
  refine ⟨by simp [offsetsFrom_length], offsetsFrom_head _ _, by simp [offsetsFrom_last]; rfl,
    offsetsFrom_sorted _ _, ?_⟩
  intro b hb
  obtain ⟨k, hk, hbk⟩ := offsetsFrom_boundary 0 pieces b hb
  exact ⟨k, hk, by simpa [flat] using hbk⟩

/-- **`lex_kind_agrees`** — token `i` of kind `k` spans bytes `[a, b)`, that span is a
sub-word `w` of whole scalar values of the text, and `k` agrees with `w`. -/
theorem lex_kind_agrees (s : List Char) (t : Lexer.Tokens) (h : lex s = .ok t)
    (i : Nat) (k : TokenKind) (hk : t.kinds[i]? = some k) :
    ∃ pre w post, s = pre ++ w ++ post ∧
      t.starts[i]? = some (utf8Len pre) ∧ t.starts[i + 1]? = some (utf8Len pre + utf8Len w) ∧
      KindAgrees k w := by
  obtain ⟨pieces, h1, h2, h3, h4⟩ := lex_lossless s t h
  rw [h2, List.getElem?_map] at hk
  cases hp : pieces[i]? with
  | none => rw [hp] at hk; cases hk
  | some p =>
    rw [hp] at hk
    simp only [Option.map_some, Option.some.injEq] at hk
    obtain ⟨e1, e2, e3⟩ := offsetsFrom_index pieces 0 i p hp
    refine ⟨flat (pieces.take i), p.2, flat (pieces.drop (i + 1)), ?_, ?_, ?_, ?_⟩
    · rw [h1]; exact e3
    · rw [h3, e1]; simp
    · rw [h3, e2]; simp
    · rw [← hk]; exact h4 p (List.mem_of_getElem? hp)

/-- **`sublexers_tile`.** Whatever text the `__InternalString` / `__InternalChar` /
`__InternalComment` rule matched, the tokens that `lex_string` / `lex_char` / `lex_comment`
push tile exactly that text (first token at `offset`, no gap, nothing beyond the end) and
each piece agrees with its kind (quote, complete escape, non-empty contents, comment leader,
newline-free comment contents). -/
theorem sublexers_tile (d : Nat) (p : Pat) (hmem : (d, p) ∈ rules) (w : List Char)
    (hm : PatMatches p w) (offset : Nat) :
    (d = discInternalString → ∃ pieces : List Piece, w = flat pieces ∧
        (lexString w offset).map (·.1) = pieces.map (·.1) ∧
        (lexString w offset).map (·.2) = startsOf offset pieces ∧
        ∀ pc ∈ pieces, KindAgrees pc.1 pc.2) ∧
    (d = discInternalChar → ∃ pieces : List Piece, w = flat pieces ∧
        (lexChar w offset).map (·.1) = pieces.map (·.1) ∧
        (lexChar w offset).map (·.2) = startsOf offset pieces ∧
        ∀ pc ∈ pieces, KindAgrees pc.1 pc.2) ∧
    (d = discInternalComment → ∃ pieces : List Piece, w = flat pieces ∧
        (lexComment offset (utf8Len w)).map (·.1) = pieces.map (·.1) ∧
        (lexComment offset (utf8Len w)).map (·.2) = startsOf offset pieces ∧
        ∀ pc ∈ pieces, KindAgrees pc.1 pc.2) := by
  obtain ⟨hiC, hiS, hiM⟩ := rule_internal hmem
  refine ⟨fun hd => ?_, fun hd => ?_, fun hd => ?_⟩
  · have := hiS hd; subst this
    obtain ⟨rest, rfl, hshape, hnl⟩ := quoted_shape (qn := 34) (by decide) (by decide) hm
    exact quoted_tiles (q := '"') (qk := .DoubleQuote) (.inr ⟨rfl, rfl⟩) hshape hnl offset
  · have := hiC hd; subst this
    obtain ⟨rest, rfl, hshape, hnl⟩ := quoted_shape (qn := 39) (by decide) (by decide) hm
    exact quoted_tiles (q := '\'') (qk := .SingleQuote) (.inl ⟨rfl, rfl⟩) hshape hnl offset
  · have := hiM hd; subst this
    obtain ⟨rest, rfl, hnl⟩ := comment_shape hm
    have h1 : Char.utf8Size '/' = 1 := by decide
    refine ⟨[(.CommentLeader, ['/', '/']), (.CommentContents, rest)], by simp, ?_, ?_, ?_⟩
    · have : 1 < 1 + (1 + utf8Len rest) := by omega
      simp [lexComment, h1, this]
    · have : 1 < 1 + (1 + utf8Len rest) := by omega
      simp [lexComment, h1, this, startsOf]
    · intro pc hpc
      simp only [List.mem_cons, List.not_mem_nil, or_false] at hpc
      rcases hpc with rfl | rfl
      · simp [KindAgrees]
      · simp only [KindAgrees]
        intro hx; exact hnl _ hx rfl

/-- **`checkLex_sound`.** The executable checker that the harness runs on the
*implementation's* tokens only accepts lossless covers whose kinds agree. -/
theorem checkLex_sound (s : List Char) (t : Lexer.Tokens) (h : checkLex s t = .ok) : Tiles s t :=
  checkLex_tiles h

/-- The checker accepts the model's own output (so it is not vacuously strict there) on a
text that exercises keywords, numbers, a string with an escape, a comment and an error. -/
example : (match lex ['i', 'f', ' ', '1', '.', '5', '"', 'a', '\\', 'n', '"', '@', '/', '/', 'c'] with
    | .ok t => checkLex ['i', 'f', ' ', '1', '.', '5', '"', 'a', '\\', 'n', '"', '@', '/', '/', 'c'] t
    | .error _ => .fail "fault" 0) = .ok := by decide +kernel

/-- **Observers.** `Tokens::kind(i)` and `Tokens::range(i)` do not panic for `i < len()`
(no index out of bounds, `TextRange::new`'s `start <= end` assertion holds). -/
theorem tokens_observable (s : List Char) (t : Lexer.Tokens) (h : lex s = .ok t) (i : Nat)
    (hi : i < t.len) :
    (∃ k, t.kind i = .ok k) ∧ ∃ a b, t.range i = .ok (a, b) ∧ a ≤ b := by
  obtain ⟨hlen, _, _, hsorted, _⟩ := lex_covers s t h
  unfold Tokens.len at hi
  constructor
  · unfold Tokens.kind
    rw [List.getElem?_eq_getElem hi]
    exact ⟨_, rfl⟩
  · have h1 : i < t.starts.length := by omega
    have h2 : i + 1 < t.starts.length := by omega
    have hle : t.starts[i] ≤ t.starts[i + 1] :=
      List.pairwise_iff_getElem.mp hsorted i (i + 1) h1 h2 (by omega)
    refine ⟨t.starts[i], t.starts[i + 1], ?_, hle⟩
    unfold Tokens.range
    rw [List.getElem?_eq_getElem h1, List.getElem?_eq_getElem h2]
    simp [Tokens.mkRange, hle]

/-- **Observing the tokens through `Tokens::iter()`, partial.** Pulling at most `len()` items
from `iter()` does not panic and yields `(kind(i), range(i))` in order. -/
theorem iter_traversal_partial (s : List Char) (t : Lexer.Tokens) (h : lex s = .ok t) (k : Nat)
    (hk : k ≤ t.len) : t.iterTake k = .ok (t.items.take k) := by
  obtain ⟨hlen, _, _, hsorted, _⟩ := lex_covers s t h
  unfold Tokens.len at hk
  unfold Tokens.iterTake Tokens.items
  rw [zipEqTake_le k t.kinds t.starts hk (by omega)]
  simp only
  rw [zipEqTake_le k _ (t.starts.drop 1) (by simp; omega) (by simp; omega)]
  simp only
  have e : (((t.kinds.zip t.starts).take k).zip (t.starts.drop 1)).take k =
      ((t.kinds.zip t.starts).zip (t.starts.drop 1)).take k := by
    simp only [take_zip, List.take_take, Nat.min_self]
  rw [e, mapRanges_ok, List.map_take]
  intro x hx
  exact zip3_sorted t.starts t.kinds hsorted x (List.mem_of_mem_take hx)

/-- **Observing the tokens through `Tokens::iter()`, counterexample (defect #16).** The
full-strength statement "a complete traversal of `iter()` yields `len()` items without
panicking" is false, and not only at one witness: for *every* text the complete traversal
panics in `zip_eq` (n kinds are zipped with n + 1 starts). -/
theorem old_iter_traversal_panicked (s : List Char) (t : Lexer.Tokens) (h : lex s = .ok t) :
    t.iterAllOld = .error .zipEq := by
  obtain ⟨hlen, _⟩ := lex_covers s t h
  unfold Tokens.iterAllOld
  rw [zipEq_ne t.kinds t.starts (by omega)]

/-- concrete witness of the above (`lex("a b").iter().count()`) -/
example : ∃ t, lex ['a', ' ', 'b'] = .ok t ∧ t.iterAllOld = .error .zipEq :=
  ⟨⟨[.Ident, .Whitespace, .Ident], [0, 1, 2, 3]⟩, isOk_iff.mp (by decide +kernel),
    isErr_iff.mp (by decide +kernel)⟩

/-- With the one-line repair (`self.starts.iter().copied().take(self.kinds.len())` as the
first `zip_eq` partner) the complete traversal is total and yields every token. -/
theorem iter_traversal_total (s : List Char) (t : Lexer.Tokens) (h : lex s = .ok t) :
    t.iterAll = .ok t.items := by
  obtain ⟨hlen, _, _, hsorted, _⟩ := lex_covers s t h
  unfold Tokens.iterAll Tokens.items
  rw [zipEq_eq t.kinds (t.starts.take t.kinds.length) (by simp; omega)]
  simp only
  rw [zip_take_left, zipEq_eq _ (t.starts.drop 1) (by simp; omega)]
  simp only
  rw [mapRanges_ok]
  exact zip3_sorted t.starts t.kinds hsorted

/-! ## non-vacuity -/

/-- the model on a text with a keyword, an identifier, `1..2`, a string with an escape, an
unterminated char literal and a 2-byte error: kinds and byte offsets -/
example : lex ['i', 'f', ' ', 'x', '1', '.', '.', '2', '"', '\\', '"', '"', 'é', '\'', 'a'] =
    .ok ⟨[.If, .Whitespace, .Ident, .Dot, .Float, .DoubleQuote, .Escape, .DoubleQuote, .Error,
          .SingleQuote, .StringContents],
         [0, 2, 3, 5, 6, 8, 9, 11, 12, 14, 15, 16]⟩ := isOk_iff.mp (by decide +kernel)

/-- `KindAgrees` is not trivially true: a keyword's text does not agree with `Ident`. -/
example : checkLex ['i', 'f'] ⟨[.Ident], [0, 2]⟩ ≠ .ok := by decide +kernel

/-- … and a token boundary inside a scalar value is rejected. -/
example : checkLex ['é'] ⟨[.Error, .Error], [0, 1, 2]⟩ ≠ .ok := by decide +kernel

/-- the rule table is non-trivial: literal rules denote exactly their text -/
example : PatMatches (.lit ['a', 's']) ['a', 's'] ∧ ¬ PatMatches (.lit ['a', 's']) ['a'] := by
  constructor
  · exact matches_ofChars_iff.mpr rfl
  · intro h; have := matches_ofChars_iff.mp h; cases this

end CapyV.C22
