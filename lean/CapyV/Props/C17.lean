import CapyV.Proofs.Layout
/-!
# C17 — type layouts obey the documented representation rules

All statements are about `CapyV.Layout.layout` (the model of `calc_single`), for every
well-formed type (`wf`: integer widths in {0,8,16,32,64,128,255}, float widths in
{0,32,64}, recursively) and every supported pointer width (`okPw`: 16, 32, 64).
-/
namespace CapyV.C17
open CapyV CapyV.Layout

/-- Alignment is a power of two no larger than 8. -/
theorem align_pow2_le8 (pw : Nat) (hpw : okPw pw = true) (t : Ty) (h : wf t = true) :
    align pw t = 1 ∨ align pw t = 2 ∨ align pw t = 4 ∨ align pw t = 8 :=
  align_ok pw hpw t h

/-- Struct fields sit in declaration order at offsets that are multiples of their alignment,
without overlapping, inside the struct's size (`FieldsOk`), one offset per member. -/
theorem struct_fields_ok (pw : Nat) (hpw : okPw pw = true) (ms : Members) (h : wfMembers ms = true) :
    (structOffsets pw ms 0).length = ms.length ∧
    FieldsOk pw ms (structOffsets pw ms 0) 0 (size pw (.anonStruct ms)) ∧
    ∀ uid, size pw (.concreteStruct uid ms) = size pw (.anonStruct ms) ∧
           structOffsetsOf pw (.concreteStruct uid ms) = some (structOffsets pw ms 0) := by
  refine ⟨structOffsets_length pw ms 0, ?_, ?_⟩
  · have := fields_ok pw hpw ms h 0 1
    simpa [size, layout] using this
  · intro uid
    simp [size, layout, structOffsetsOf, Ty.absoluteTy]

/-- The struct's own alignment is the largest field alignment (or 1). -/
theorem struct_align_pow2 (pw : Nat) (hpw : okPw pw = true) (ms : Members) (h : wfMembers ms = true) :
    Pow2Le8 (align pw (.anonStruct ms)) := by
  simpa [align, layout] using struct_align_ok pw hpw ms h 0 1 (Or.inl rfl)

/-- An array's size is length times element stride … -/
theorem array_size (pw n : Nat) (sub : Ty) :
    size pw (.concreteArray n sub) = strideOf pw sub * n ∧
    size pw (.anonArray n sub) = strideOf pw sub * n ∧
    align pw (.concreteArray n sub) = align pw sub := by
  simp [size, align, strideOf, layout]

/-- … where the stride is the size rounded up to the alignment. -/
theorem stride_rounds_up (pw : Nat) (hpw : okPw pw = true) (t : Ty) (h : wf t = true)
    (hfit : size pw t + align pw t - 1 < 2 ^ 32) :
    strideOf pw t % align pw t = 0 ∧ size pw t ≤ strideOf pw t ∧
      strideOf pw t < size pw t + align pw t :=
  stride_spec _ _ (align_ok pw hpw t h) hfit

/-- Distinct types and enum variants have exactly their underlying type's size and alignment. -/
theorem distinct_same_layout (pw uid : Nat) (sub : Ty) :
    layout pw (.distinct uid sub) = layout pw sub := by simp [layout]

theorem variant_same_layout (pw eu n u d : Nat) (sub : Ty) :
    layout pw (.enumVariant eu n u sub d) = layout pw sub := by simp [layout]

/-- An optional of a pointer (also through distinct / variant wrappers) is exactly
pointer-sized and carries no tag. -/
theorem optional_pointer_is_pointer_sized (pw : Nat) (sub : Ty) (h : sub.isPointer = true) :
    size pw (.optional sub) = pw / 8 ∧ align pw (.optional sub) = min (pw / 8) 8 ∧
      discriminantOffsetOf pw (.optional sub) = none := by
  have hs := isPointer_size pw sub h
  simp [size, align, layout, Ty.isNonZero, h, hs, discriminantOffsetOf, Ty.absoluteTy]

/-- Every other optional keeps its one-byte tag right after the payload. -/
theorem optional_tag_after_payload (pw : Nat) (sub : Ty) (h : sub.isPointer = false) :
    discriminantOffsetOf pw (.optional sub) = some (size pw sub) ∧
      size pw (.optional sub) = size pw sub + 1 ∧ align pw (.optional sub) = align pw sub := by
  simp [size, align, layout, Ty.isNonZero, h, discriminantOffsetOf, Ty.absoluteTy]

/-- An error union keeps its one-byte tag after the larger of error and payload. -/
theorem error_union_tag_after_payload (pw : Nat) (e p : Ty) :
    discriminantOffsetOf pw (.errorUnion e p) = some (max (size pw e) (size pw p)) ∧
      size pw (.errorUnion e p) = max (size pw e) (size pw p) + 1 := by
  simp [size, layout, discriminantOffsetOf, Ty.absoluteTy]

/-- An enum keeps its one-byte tag after the largest variant payload: the tag offset `d` bounds
every variant's size, is attained by some variant (or is 0), and the enum is `d + 1` bytes. -/
theorem enum_tag_after_largest_payload (pw uid : Nat) (vs : Tys) :
    ∃ d, discriminantOffsetOf pw (.enum uid vs) = some d ∧ size pw (.enum uid vs) = d + 1 ∧
      (∀ v ∈ vs.toList, size pw v ≤ d) ∧ (d = 0 ∨ ∃ v ∈ vs.toList, size pw v = d) := by
  refine ⟨(variantsMax pw vs 0 1).1, ?_, ?_, variantsMax_fst_bound pw vs 0 1, variantsMax_fst_attained pw vs 0 1⟩
  · simp [discriminantOffsetOf, Ty.absoluteTy]
  · simp [size, layout]

/-! ### Non-vacuity: a concrete nested type (`pw = 64`)
`struct { a: u8, b: i64, c: ?^u8, d: enum { X: u16, Y: void } }` -/
def exStruct : Members :=
  .cons 100 (.uint 8) (.cons 101 (.iint 64) (.cons 102 (.optional (.pointer false (.uint 8)))
    (.cons 103 (.enum 7 (.cons (.enumVariant 7 200 113 (.uint 16) 0)
      (.cons (.enumVariant 7 201 114 .void 1) .nil))) .nil)))

example : wfMembers exStruct = true := by decide
example : okPw 64 = true := by decide
example : structOffsets 64 exStruct 0 = [0, 8, 16, 24] := by decide
example : layout 64 (.anonStruct exStruct) = (27, 8) := by decide
example : strideOf 64 (.anonStruct exStruct) = 32 := by decide
example : discriminantOffsetOf 64 (.enum 7 (.cons (.enumVariant 7 200 113 (.uint 16) 0)
    (.cons (.enumVariant 7 201 114 .void 1) .nil))) = some 2 := by decide

end CapyV.C17
