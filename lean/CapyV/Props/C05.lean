import CapyV.Proofs.Scope
/-!
# C05 — names resolve to the innermost visible binding; scopes end where they end

`resolve` is what `hir::lower` (`crates/hir/src/body.rs`, after the `fix:` that gives every
switch arm its own scope) makes of every identifier use of a file (`CapyV.Model.Scope`: the
mutable `Ctx` with its scope stack, `params` and `inline_header_params`, `lower_var_ref`'s
lookup order, `none` where the Rust panics). `spec` is lexical scoping as the property states it
(`CapyV.Spec.Scope`: an environment passed down the syntax tree, no state).

The full statement `∀ gs, resolve env gs = some (spec env gs)` is **false** of the code
(`resolve_eq_spec_counterexample`): inside a lambda *header*, after the first parameter,
a nested lambda (a function type!) trips `assert!(self.inline_header_params.is_empty())`, and a
local / switch argument bound inside a header expression is shadowed by an earlier parameter
of the same name. `okGlobals` excludes exactly these two constructs from header positions and
nothing else; under it the theorem holds for every file (`resolve_eq_spec_partial`).
Names: a=0 b=1 c=2 i32=3 nil=4 in the examples.
-/
namespace CapyV.C05
open CapyV.Scope

def env0 : Env := { globals := [0], prims := [3], nilKey := 4 }

/-- HEADLINE. For every file whose lambda headers contain (after the first parameter) no lambda
and no binder, the resolver does not panic and every identifier use resolves to what lexical
scoping prescribes. -/
theorem resolve_eq_spec_partial (env : Env) (gs : List Global) (h : okGlobals gs = true) :
    resolve env gs = some (spec env gs) := by
  simp [resolve, spec, lowerGlobals_eq env gs h Ctx.init rfl (Rel.init env)]

/-- `a :: (b: i32, c: (a: i32) -> i32) { c };` — a callback parameter after another parameter -/
def headerLambda : List Global := [⟨0, .lit,
  .lambda (.cons 1 6 false (.use 3)
            (.cons 2 14 false (.lambda (.cons 0 18 false (.use 3) .nil) (.use 3) .nil .lit) .nil))
    .lit .nil (.use 2)⟩]

/-- `a :: (comptime b: i32, c: { b :: i32; b }) { b };` -/
def headerLocal : List Global := [⟨0, .lit,
  .lambda (.cons 1 6 true (.use 3)
            (.cons 2 23 false (.block (.defn 1 28 .lit (.use 3) .nil) (.use 1)) .nil))
    .lit .nil (.use 1)⟩]

/-- the model (like the code: confirmed panic) stops at the assertion of `lower_lambda` -/
theorem header_lambda_panic_counterexample :
    okGlobals headerLambda = false ∧ resolve env0 headerLambda = none ∧
    spec env0 headerLambda = [.prim 3, .prim 3, .prim 3, .param 14 1] := by decide

/-- the header parameter `b` wins over the block local `b` declared inside the header -/
theorem header_local_counterexample :
    okGlobals headerLocal = false ∧
    resolve env0 headerLocal = some [.prim 3, .prim 3, .inlineParam 6 0 0, .comptimeParam 6 0 0] ∧
    spec env0 headerLocal = [.prim 3, .prim 3, .local 28, .comptimeParam 6 0 0] := by decide

/-- the unguarded statement is false -/
theorem resolve_eq_spec_counterexample : ¬ ∀ env gs, resolve env gs = some (spec env gs) := by
  intro h
  have := h env0 headerLambda
  rw [header_lambda_panic_counterexample.2.1] at this
  cases this

/-! ### the property's clauses -/

/-- Scopes end where they end: whatever an expression binds inside (block locals, switch
arguments, parameters), the identifier after it resolves exactly as it did before it, and the
whole resolver state is restored. -/
theorem scopes_end (env : Env) (e : Expr) (h : Bool) (c : Ctx) (se : SEnv) (x : Nat)
    (hok : okExpr h e = true) (hi : h = false → c.inline = []) (hr : Rel env c se) :
    lowerExprs true env (.cons e (.cons (.use x) .nil)) c =
      some (c, specExpr env e se ++ [lowerVarRef env c x]) := by
  simp [lowerExprs, lowerExpr, lowerExpr_eq env e h c se hok hi hr]

/-- A local is visible only *after* its definition: in `{ x; x := x; x }` the first two uses
are resolved in the surrounding environment, the third one is the local. -/
theorem local_visible_only_later (env : Env) (se : SEnv) (x tag : Nat) :
    specExpr env (.block (.expr (.use x) (.defn x tag .lit (.use x) .nil)) (.use x)) se =
      [specLookup env se x, specLookup env se x, .local tag] := by
  simp [specExpr, specStmts, specLookup]

/-- A switch argument is visible in the body of its own arm only: not in the scrutinee, not in
a variant, not in another arm (each arm has its own binding), not after the switch. -/
theorem switch_arg_only_in_its_arm (env : Env) (se : SEnv) (x t1 t2 : Nat) :
    specExprs env (.cons (.switch (some x) (.use x)
        (.cons t1 (.use x) (.use x) (.cons t2 (.use x) (.use x) .nil))) (.cons (.use x) .nil)) se =
      [specLookup env se x, specLookup env se x, .switchArg t1, specLookup env se x, .switchArg t2,
        specLookup env se x] := by
  simp [specExprs, specExpr, specArms, bindArg, specLookup]

/-- A lambda body sees its parameters and the globals, nothing else of its surroundings
(Capy functions do not capture): the body's resolution does not depend on the environment. -/
theorem lambda_body_does_not_capture (env : Env) (ps : Params) (body : Stmts) (tail : Expr)
    (se se' : SEnv) :
    specExpr env (.lambda ps .lit body tail) se =
      (specParams env ps 0 0 se []).1 ++
        (specExpr env (.lambda ps .lit body tail) se').drop (specParams env ps 0 0 se' []).1.length := by
  have hk := specParams_body_indep env ps 0 0 se se' []
  rcases h1 : specParams env ps 0 0 se [] with ⟨r1, sH, sB⟩
  rcases h2 : specParams env ps 0 0 se' [] with ⟨r2, sH', sB'⟩
  rw [h1, h2] at hk
  simp only at hk
  subst hk
  simp [specExpr, h1, h2]

/-- An identifier with no visible binding is reported as undefined. -/
theorem undefined_reported (env : Env) (x : Nat) (hg : x ∉ env.globals) (hp : x ∉ env.prims)
    (hn : x ≠ env.nilKey) : specLookup env [] x = .undefined x := by
  simp [specLookup, List.lookup, specOuter, hg, hp, hn]

/-- The lookup order of the property text: local / switch argument, then parameter, then
global, then builtin type name, then `nil`. -/
theorem lookup_order (x t p : Nat) :
    let env : Env := { globals := [x], prims := [x], nilKey := x }
    specLookup env [(x, .local t), (x, .param p 0)] x = .local t ∧
    specLookup env [(x, .param p 0)] x = .param p 0 ∧
    specLookup env [] x = .global x ∧
    specLookup { env with globals := [] } [] x = .prim x ∧
    specLookup { env with globals := [], prims := [] } [] x = .nil := by
  simp [specLookup, List.lookup, specOuter]

/-! ### the resolver before the fix (`resolveOld`: the switch argument is inserted into the
enclosing scope and never removed) -/

/-- `corpus/probes/C05_switch_arg_leaks_after_switch.capy`:
`a :: () { b := 1; c := 1; switch b in c { i32 => { b; }, nil => { }, }; b };` -/
def probe : List Global := [⟨0, .lit,
  .lambda .nil .lit
    (.defn 1 10 .lit .lit (.defn 2 18 .lit .lit
      (.expr (.switch (some 1) (.use 2)
        (.cons 42 (.use 3) (.block (.expr (.use 1) .nil) .lit)
        (.cons 57 (.use 4) (.block .nil .lit) .nil))) .nil)))
    (.use 1)⟩]

/-- After the switch, `b` was the switch argument of the *last* arm (observed: prints `nil`),
not the local `b`; the fixed resolver agrees with lexical scoping. -/
theorem switch_arg_leak_counterexample :
    resolveOld env0 probe = some [.local 18, .prim 3, .switchArg 42, .nil, .switchArg 57] ∧
    spec env0 probe = [.local 18, .prim 3, .switchArg 42, .nil, .local 10] ∧
    resolve env0 probe = some (spec env0 probe) := by decide

/-- `a :: switch c in b { i32 => c, }; b :: c;` — at file level the argument went into the
root scope, which is shared by all globals of the file: it leaked into the next global. -/
def acrossGlobals : List Global :=
  [⟨0, .lit, .switch (some 2) (.use 1) (.cons 21 (.use 3) (.use 2) .nil)⟩, ⟨1, .lit, .use 2⟩]

theorem old_switch_arg_leaks_across_globals :
    let env : Env := { globals := [0, 1], prims := [3], nilKey := 4 }
    resolveOld env acrossGlobals = some [.global 1, .prim 3, .switchArg 21, .switchArg 21] ∧
    resolve env acrossGlobals = some [.global 1, .prim 3, .switchArg 21, .undefined 2] ∧
    spec env acrossGlobals = [.global 1, .prim 3, .switchArg 21, .undefined 2] := by decide

/-- `a :: () { comptime switch b in c { i32 => b, }; };` — `lower_comptime` empties the scope
stack, so the insert of the switch argument unwrapped `None` (confirmed panic); with a scope per
arm there is always a scope to insert into. -/
def comptimeSwitch : List Global := [⟨0, .lit,
  .lambda .nil .lit
    (.expr (.comptime (.switch (some 1) (.use 2) (.cons 35 (.use 3) (.use 1) .nil))) .nil) .lit⟩]

theorem old_comptime_switch_arg_panics :
    resolveOld env0 comptimeSwitch = none ∧
    resolve env0 comptimeSwitch = some [.undefined 2, .prim 3, .switchArg 35] := by decide

/-! ### non-vacuity -/

example : okGlobals probe = true := by decide
example : okGlobals acrossGlobals = true := by decide
example : okGlobals comptimeSwitch = true := by decide
/-- a lambda type as the *first* parameter is inside the guard:
`a :: (b: (a: i32) -> i32, comptime c: b, a: c) -> c { a }` -/
def callbackFirst : List Global := [⟨0, .lit,
  .lambda (.cons 1 6 false (.lambda (.cons 0 10 false (.use 3) .nil) (.use 3) .nil .lit)
            (.cons 2 27 true (.use 1) (.cons 0 40 false (.use 2) .nil)))
    (.use 2) .nil (.use 0)⟩]
example : okGlobals callbackFirst = true := by decide
example : resolve env0 callbackFirst =
    some [.prim 3, .prim 3, .inlineNotComptime 1, .inlineParam 27 1 0, .inlineParam 27 1 0,
      .param 40 2] := by decide

end CapyV.C05
