import CapyV.Proofs.TyRel
import CapyV.Props.C13
/-!
# C13, struct literals — the members of a `.{ … }` literal are converted one by one

A `.{ a = x, b = y }` literal (an anonymous struct type) is accepted where a named struct is expected
only if EVERY member is itself accepted by the member of that name — there is no "same layout" short
cut (seeded change C13_3 added one). With the nominal laws of `Props/C13.lean` this gives: a member
of one distinct type never lands in a member of another distinct type.
-/
namespace CapyV.C13Lit
open CapyV CapyV.Ty

/-- the literal has a member `name` of type `ty` -/
def Has : Members → Nat → Ty → Prop
  | .nil, _, _ => False
  | .cons n t r, name, ty => (n = name ∧ t = ty) ∨ Has r name ty

theorem membersFitInto_has (fm em : Members) (h : membersFitInto fm em = true)
    (name : Nat) (fty : Ty) (hm : Has fm name fty) :
    ∃ ety, em.lookupLast name = some ety ∧ canFitInto fty ety = true := by
  match fm, hm with
  | .cons n t r, hm =>
    rw [membersFitInto] at h
    simp only [Bool.and_eq_true] at h
    rcases hm with ⟨hn, ht⟩ | hr
    · subst hn ht
      have h1 := h.1
      split at h1
      · cases h1
      · rename_i ety hl
        exact ⟨ety, hl, h1⟩
    · exact membersFitInto_has r em h.2 name fty hr

/-- **every member of an accepted literal is accepted by the member of the same name** -/
theorem literal_members_fit (fm em : Members) (u : Nat)
    (h : canFitInto (.anonStruct fm) (.concreteStruct u em) = true)
    (name : Nat) (fty : Ty) (hm : Has fm name fty) :
    ∃ ety, em.lookupLast name = some ety ∧ canFitInto fty ety = true := by
  rw [canFitInto] at h
  simp only [reduceCtorEq, ↓reduceIte] at h
  split at h
  · cases h
  · simp only [Bool.and_eq_true] at h
    exact membersFitInto_has fm em h.1 name fty hm

/-- a member of one distinct type is never accepted by a member of ANOTHER distinct type -/
theorem literal_distinct_member (fm em : Members) (u : Nat)
    (h : canFitInto (.anonStruct fm) (.concreteStruct u em) = true)
    (name d d' : Nat) (s t : Ty) (hm : Has fm name (.distinct d s))
    (he : em.lookupLast name = some (.distinct d' t)) : d = d' := by
  obtain ⟨ety, hl, hf⟩ := literal_members_fit fm em u h name _ hm
  rw [he] at hl
  cases hl
  exact (C13.distinct_fit_iff_uid d d' s t).1 hf

/-- non-vacuity: `.{ dist = metres }` is accepted by `Trip { dist: Metres }` and refused by
`Trip' { dist: Feet }` -/
example :
    canFitInto (.anonStruct (.cons 7 (.distinct 1 (.iint 32)) .nil))
               (.concreteStruct 9 (.cons 7 (.distinct 1 (.iint 32)) .nil)) = true ∧
    canFitInto (.anonStruct (.cons 7 (.distinct 1 (.iint 32)) .nil))
               (.concreteStruct 9 (.cons 7 (.distinct 2 (.iint 32)) .nil)) = false := by
  constructor <;> simp [canFitInto, membersFitInto, Members.lookupLast, Members.length, Members.namesSubset, Members.hasName]

end CapyV.C13Lit
